#!/bin/bash
# builds the checker from /verif/checker (offline)
set -e
here="$(cd "$(dirname "$0")" && pwd)"
. "$here/env.sh"
cd "$here/../checker"
go build -o "$here/kaicheck" .
echo "built $here/kaicheck"
