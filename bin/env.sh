# sourced by the scripts in this directory: offline Go toolchain for the checker
export PATH=/opt/veriftools/go1.26.8/bin:$PATH
export GOFLAGS=-mod=mod GOPROXY=off GOSUMDB=off GOTOOLCHAIN=local GONOSUMCHECK=1 GONOSUMDB=*
unset GOWORK
