package main

// ABS engine: abstract execution of small comparator functions over a finite abstraction.
//
// A comparator touches its operands only through comparisons. Every pair of compared terms gets one
// ordering variable with three values {LT, EQ, GT}; every opaque boolean (a bool field, the result of a
// helper that cannot be executed) gets a boolean variable; a helper returning a tuple of booleans gets one
// variable ranging over the tuples its return statements can produce. The executor walks the SSA of the
// comparator under a partial assignment, forks on the first unassigned variable it needs, and yields one
// leaf (assignment, result) per abstract input. Nothing is run and nothing is handed to a solver: the
// domain is finite and enumerated. Transitivity among three terms is enforced on the leaves.
//
// Stated imprecision: variables of different kinds are independent (an opaque boolean of l and one of r are
// unrelated), and floats are treated as totally ordered (NaN-free; the NaN clamp is C07's obligation).

import (
	"fmt"
	"go/constant"
	"go/token"
	"go/types"
	"sort"
	"strings"

	"golang.org/x/tools/go/ssa"
)

type ordRel int

const (
	relLT ordRel = iota
	relEQ
	relGT
)

func (r ordRel) String() string { return [...]string{"<", "=", ">"}[r] }
func (r ordRel) flip() ordRel   { return 2 - r }

type absState struct {
	ord   map[string]ordRel // "a ⋈ b" with a < b as strings: relation of a to b
	bools map[string]bool
	tup   map[string]int
	pairs map[string][2]string
}

func newAbsState() *absState {
	return &absState{ord: map[string]ordRel{}, bools: map[string]bool{}, tup: map[string]int{}, pairs: map[string][2]string{}}
}

func (s *absState) clone() *absState {
	n := newAbsState()
	for k, v := range s.ord {
		n.ord[k] = v
	}
	for k, v := range s.bools {
		n.bools[k] = v
	}
	for k, v := range s.tup {
		n.tup[k] = v
	}
	for k, v := range s.pairs {
		n.pairs[k] = v
	}
	return n
}

func (s *absState) String() string {
	var parts []string
	for k, v := range s.ord {
		p := s.pairs[k]
		parts = append(parts, fmt.Sprintf("%s %s %s", p[0], v, p[1]))
	}
	for k, v := range s.bools {
		parts = append(parts, fmt.Sprintf("%s=%v", k, v))
	}
	for k, v := range s.tup {
		parts = append(parts, fmt.Sprintf("%s=#%d", k, v))
	}
	sort.Strings(parts)
	return strings.Join(parts, " ∧ ")
}

// consistent: the ordering variables admit a total preorder (pairwise composition over all triples).
func (s *absState) consistent() bool {
	constInt := func(x string) (int64, bool) {
		if !strings.HasPrefix(x, "const:") {
			return 0, false
		}
		var v int64
		if _, err := fmt.Sscanf(x[len("const:"):], "%d", &v); err != nil {
			return 0, false
		}
		return v, true
	}
	rel := func(a, b string) (ordRel, bool) {
		if a == b {
			return relEQ, true
		}
		if strings.HasPrefix(a, "const:\"") && strings.HasPrefix(b, "const:\"") {
			if a < b {
				return relLT, true
			}
			return relGT, true
		}
		if x, ok := constInt(a); ok {
			if y, ok := constInt(b); ok {
				switch {
				case x < y:
					return relLT, true
				case x > y:
					return relGT, true
				}
				return relEQ, true
			}
		}
		if a < b {
			r, ok := s.ord[a+" ⋈ "+b]
			return r, ok
		}
		r, ok := s.ord[b+" ⋈ "+a]
		return r.flip(), ok
	}
	terms := map[string]bool{}
	for _, p := range s.pairs {
		terms[p[0]] = true
		terms[p[1]] = true
	}
	var ts []string
	for t := range terms {
		ts = append(ts, t)
	}
	for _, a := range ts {
		for _, b := range ts {
			for _, c := range ts {
				ab, ok1 := rel(a, b)
				bc, ok2 := rel(b, c)
				ac, ok3 := rel(a, c)
				if !ok1 || !ok2 || !ok3 {
					continue
				}
				switch {
				case ab == relEQ && ac != bc, bc == relEQ && ac != ab:
					return false
				case ab == relLT && bc == relLT && ac != relLT:
					return false
				case ab == relGT && bc == relGT && ac != relGT:
					return false
				}
			}
		}
	}
	return true
}

type absVal struct {
	Kind string // int bool sym sub overflow
	I    int64
	B    bool
	T    *Term
	A, C *Term // sub: sign of A - C
	Wide bool
}

func (v absVal) String() string {
	switch v.Kind {
	case "int":
		return fmt.Sprint(v.I)
	case "bool":
		return fmt.Sprint(v.B)
	case "sub":
		return "sign(" + v.A.String() + " - " + v.C.String() + ")"
	case "overflow":
		return "(" + v.A.String() + " - " + v.C.String() + ") in the operands' own width"
	}
	if v.T != nil {
		return v.T.String()
	}
	return "?"
}

type absFork struct {
	kind string // ord bool tup
	key  string
	pair [2]string
	n    int
}

type absFail struct{ why string }

type absLeaf struct {
	St   *absState
	Vals []absVal
	Ret  *ssa.Return
}

type absExec struct {
	p         *Prog
	tuples    map[*ssa.Function][][]bool
	maxLeaf   int
	maxInline int // helpers are executed in place up to this call depth (0: every helper result is opaque)
}

func newAbsExec(p *Prog) *absExec {
	return &absExec{p: p, tuples: map[*ssa.Function][][]bool{}, maxLeaf: 4096, maxInline: 4}
}

// explore enumerates the leaves of fn (started at block start; nil = entry) under params, from state st.
func (e *absExec) explore(fn *ssa.Function, start *ssa.BasicBlock, params []absVal, st *absState) ([]absLeaf, error) {
	var out []absLeaf
	var rec func(st *absState) error
	rec = func(st *absState) error {
		if len(out) > e.maxLeaf {
			return fmt.Errorf("more than %d abstract inputs", e.maxLeaf)
		}
		vals, ret, fork, fail := e.runFunc(fn, start, params, st, 0)
		if fail != nil {
			return fmt.Errorf("%s", fail.why)
		}
		if fork != nil {
			for i := 0; i < fork.n; i++ {
				s2 := st.clone()
				switch fork.kind {
				case "ord":
					s2.ord[fork.key] = ordRel(i)
					s2.pairs[fork.key] = fork.pair
				case "bool":
					s2.bools[fork.key] = i == 1
				case "tup":
					s2.tup[fork.key] = i
				}
				if err := rec(s2); err != nil {
					return err
				}
			}
			return nil
		}
		if st.consistent() {
			out = append(out, absLeaf{st, vals, ret})
		}
		return nil
	}
	err := rec(st)
	return out, err
}

type absFrame struct {
	e      *absExec
	fn     *ssa.Function
	params []absVal
	st     *absState
	env    map[ssa.Value]absVal
	mem    map[*ssa.Alloc]absVal
	depth  int
	fork   *absFork
	fail   *absFail
}

func (e *absExec) runFunc(fn *ssa.Function, start *ssa.BasicBlock, params []absVal, st *absState, depth int) ([]absVal, *ssa.Return, *absFork, *absFail) {
	if len(fn.Blocks) == 0 {
		return nil, nil, nil, &absFail{"no body: " + funcKey(fn)}
	}
	f := &absFrame{e: e, fn: fn, params: params, st: st, env: map[ssa.Value]absVal{}, mem: map[*ssa.Alloc]absVal{}, depth: depth}
	b := start
	if b == nil {
		b = fn.Blocks[0]
	}
	var prev *ssa.BasicBlock
	visits := map[*ssa.BasicBlock]int{}
	for steps := 0; steps < 10000; steps++ {
		visits[b]++
		if visits[b] > 2 {
			return nil, nil, nil, &absFail{"loop in " + funcKey(fn)}
		}
		// phis simultaneously
		phiVals := map[*ssa.Phi]absVal{}
		for _, in := range b.Instrs {
			phi, ok := in.(*ssa.Phi)
			if !ok {
				break
			}
			idx := -1
			for i, p := range b.Preds {
				if p == prev {
					idx = i
				}
			}
			if idx < 0 {
				return nil, nil, nil, &absFail{"phi without a taken predecessor in " + funcKey(fn)}
			}
			phiVals[phi] = f.eval(phi.Edges[idx])
			if f.fork != nil || f.fail != nil {
				return nil, nil, f.fork, f.fail
			}
		}
		for k, v := range phiVals {
			f.env[k] = v
		}
		var next *ssa.BasicBlock
		for _, in := range b.Instrs {
			switch x := in.(type) {
			case *ssa.Phi:
				continue
			case *ssa.Store:
				if a, ok := x.Addr.(*ssa.Alloc); ok {
					f.mem[a] = f.eval(x.Val)
				}
				// stores to the heap do not influence a comparator's own result (its reads are terms)
			case *ssa.UnOp:
				if x.Op == token.MUL {
					if a, ok := x.X.(*ssa.Alloc); ok {
						if v, ok := f.mem[a]; ok {
							f.env[x] = v
						}
					}
				}
			case *ssa.If:
				c := f.eval(x.Cond)
				if f.fork == nil && f.fail == nil && c.Kind != "bool" {
					f.fail = &absFail{"branch on a value that is not boolean-evaluable: " + c.String()}
				}
				if f.fork == nil && f.fail == nil {
					if c.B {
						next = b.Succs[0]
					} else {
						next = b.Succs[1]
					}
				}
			case *ssa.Jump:
				next = b.Succs[0]
			case *ssa.Return:
				var vals []absVal
				for _, r := range x.Results {
					v := f.eval(r)
					if f.fork == nil && f.fail == nil && v.Kind == "sub" {
						if v.Wide {
							rel, ok := f.ord(v.A, v.C)
							if ok {
								v = absVal{Kind: "int", I: int64(rel) - 1}
							}
						} else {
							v.Kind = "overflow"
						}
					}
					vals = append(vals, v)
				}
				if f.fork != nil || f.fail != nil {
					return nil, nil, f.fork, f.fail
				}
				return vals, x, nil, nil
			case *ssa.Panic:
				return nil, nil, nil, &absFail{"panic reachable in " + funcKey(fn)}
			}
			if f.fork != nil || f.fail != nil {
				return nil, nil, f.fork, f.fail
			}
		}
		if next == nil {
			return nil, nil, nil, &absFail{"fell off block in " + funcKey(fn)}
		}
		prev, b = b, next
	}
	return nil, nil, nil, &absFail{"step budget"}
}

func (f *absFrame) termOfVal(v ssa.Value) *Term {
	t := termOf(v)
	var acts []*Term
	need := false
	for _, p := range f.params {
		acts = append(acts, p.T)
		if p.T != nil {
			need = true
		}
	}
	if need {
		return t.subst(acts)
	}
	return t
}

func (f *absFrame) ord(a, b *Term) (ordRel, bool) {
	as, bs := a.String(), b.String()
	if as == bs {
		return relEQ, true
	}
	flip := false
	if as > bs {
		as, bs = bs, as
		flip = true
	}
	key := as + " ⋈ " + bs
	r, ok := f.st.ord[key]
	if !ok {
		f.fork = &absFork{kind: "ord", key: key, pair: [2]string{as, bs}, n: 3}
		return 0, false
	}
	if flip {
		return r.flip(), true
	}
	return r, true
}

func (f *absFrame) boolVar(key string) absVal {
	v, ok := f.st.bools[key]
	if !ok {
		f.fork = &absFork{kind: "bool", key: key, n: 2}
		return absVal{}
	}
	return absVal{Kind: "bool", B: v}
}

func isBoolType(t types.Type) bool {
	b, ok := t.Underlying().(*types.Basic)
	return ok && b.Info()&types.IsBoolean != 0
}

func intWidth(t types.Type) (bits int, signed bool, ok bool) {
	b, isB := t.Underlying().(*types.Basic)
	if !isB || b.Info()&types.IsInteger == 0 {
		return 0, false, false
	}
	signed = b.Info()&types.IsUnsigned == 0
	switch b.Kind() {
	case types.Int8, types.Uint8:
		return 8, signed, true
	case types.Int16, types.Uint16:
		return 16, signed, true
	case types.Int32, types.Uint32:
		return 32, signed, true
	}
	return 64, signed, true
}

func (f *absFrame) eval(v ssa.Value) absVal {
	if f.fork != nil || f.fail != nil {
		return absVal{}
	}
	if r, ok := f.env[v]; ok {
		return r
	}
	r := f.eval1(v)
	if f.fork == nil && f.fail == nil {
		switch v.(type) {
		case *ssa.Const, *ssa.Parameter:
		default:
			f.env[v] = r
		}
	}
	return r
}

func (f *absFrame) sym(v ssa.Value) absVal { return absVal{Kind: "sym", T: f.termOfVal(v)} }

func (f *absFrame) eval1(v ssa.Value) absVal {
	switch x := v.(type) {
	case *ssa.Const:
		if x.Value == nil {
			return f.sym(v)
		}
		switch x.Value.Kind() {
		case constant.Bool:
			return absVal{Kind: "bool", B: constant.BoolVal(x.Value)}
		case constant.Int:
			if i, ok := constant.Int64Val(x.Value); ok {
				return absVal{Kind: "int", I: i, T: termOf(v)}
			}
		}
		return f.sym(v)
	case *ssa.Parameter:
		for i, p := range f.fn.Params {
			if p == x && i < len(f.params) && f.params[i].Kind != "" {
				return f.params[i]
			}
		}
		return f.sym(v)
	case *ssa.Phi:
		f.fail = &absFail{"phi read before its block was entered"}
		return absVal{}
	case *ssa.ChangeType:
		return f.eval(x.X)
	case *ssa.ChangeInterface:
		return f.eval(x.X)
	case *ssa.MakeInterface:
		return f.eval(x.X)
	case *ssa.Convert:
		in := f.eval(x.X)
		if in.Kind == "int" || in.Kind == "sub" || in.Kind == "bool" {
			return in
		}
		return f.sym(v)
	case *ssa.UnOp:
		switch x.Op {
		case token.NOT:
			in := f.eval(x.X)
			if in.Kind == "bool" {
				return absVal{Kind: "bool", B: !in.B}
			}
			return in
		case token.SUB:
			in := f.eval(x.X)
			if in.Kind == "int" {
				return absVal{Kind: "int", I: -in.I}
			}
			if in.Kind == "sub" {
				return absVal{Kind: "sub", A: in.C, C: in.A, Wide: in.Wide}
			}
			return f.sym(v)
		case token.MUL:
			if a, ok := x.X.(*ssa.Alloc); ok {
				if mv, ok := f.mem[a]; ok {
					return mv
				}
			}
			// s := helper(x); … s.field …  where helper returns a struct of booleans: one tuple variable per call
			if fa, ok := x.X.(*ssa.FieldAddr); ok && isBoolType(x.Type()) {
				if a, ok := fa.X.(*ssa.Alloc); ok {
					if sv := onlyWholeStore(a); sv != nil {
						if call, ok := sv.(*ssa.Call); ok {
							if cal := call.Common().StaticCallee(); cal != nil {
								if ts := f.e.tupleSet(cal); len(ts) > 0 && fa.Field < len(ts[0]) {
									key := f.termOfVal(call).String()
									i, ok := f.st.tup[key]
									if !ok {
										f.fork = &absFork{kind: "tup", key: key, n: len(ts)}
										return absVal{}
									}
									return absVal{Kind: "bool", B: ts[i][fa.Field]}
								}
							}
						}
					}
				}
			}
			if isBoolType(x.Type()) {
				return f.boolVar(f.termOfVal(v).String())
			}
			return f.sym(v)
		}
		return f.sym(v)
	case *ssa.Field:
		if isBoolType(x.Type()) {
			return f.boolVar(f.termOfVal(v).String())
		}
		return f.sym(v)
	case *ssa.BinOp:
		return f.evalBin(x)
	case *ssa.Extract:
		if call, ok := x.Tuple.(*ssa.Call); ok {
			if cal := call.Common().StaticCallee(); cal != nil && isBoolType(x.Type()) {
				if ts := f.e.tupleSet(cal); len(ts) > 0 {
					key := f.termOfVal(call).String()
					i, ok := f.st.tup[key]
					if !ok {
						f.fork = &absFork{kind: "tup", key: key, n: len(ts)}
						return absVal{}
					}
					return absVal{Kind: "bool", B: ts[i][x.Index]}
				}
			}
		}
		if isBoolType(x.Type()) {
			return f.boolVar(f.termOfVal(v).String())
		}
		return f.sym(v)
	case *ssa.Call:
		return f.evalCall(x)
	}
	if isBoolType(v.Type()) {
		return f.boolVar(f.termOfVal(v).String())
	}
	return f.sym(v)
}

func (f *absFrame) evalBin(x *ssa.BinOp) absVal {
	a, b := f.eval(x.X), f.eval(x.Y)
	if f.fork != nil || f.fail != nil {
		return absVal{}
	}
	cmp := func(rel ordRel) bool {
		switch x.Op {
		case token.EQL:
			return rel == relEQ
		case token.NEQ:
			return rel != relEQ
		case token.LSS:
			return rel == relLT
		case token.LEQ:
			return rel != relGT
		case token.GTR:
			return rel == relGT
		case token.GEQ:
			return rel != relLT
		}
		return false
	}
	switch x.Op {
	case token.EQL, token.NEQ, token.LSS, token.LEQ, token.GTR, token.GEQ:
		if a.Kind == "bool" && b.Kind == "bool" {
			return absVal{Kind: "bool", B: (a.B == b.B) == (x.Op == token.EQL)}
		}
		if a.Kind == "int" && b.Kind == "int" {
			rel := relEQ
			if a.I < b.I {
				rel = relLT
			} else if a.I > b.I {
				rel = relGT
			}
			return absVal{Kind: "bool", B: cmp(rel)}
		}
		// sign of a widened difference compared with zero
		if a.Kind == "sub" && b.Kind == "int" && b.I == 0 {
			if !a.Wide {
				f.fail = &absFail{"difference computed in the operands' own width compared with zero: " + a.String()}
				return absVal{}
			}
			rel, ok := f.ord(a.A, a.C)
			if !ok {
				return absVal{}
			}
			return absVal{Kind: "bool", B: cmp(rel)}
		}
		ta, tb := f.termFor(a, x.X), f.termFor(b, x.Y)
		rel, ok := f.ord(ta, tb)
		if !ok {
			return absVal{}
		}
		return absVal{Kind: "bool", B: cmp(rel)}
	case token.SUB:
		if a.Kind == "int" && b.Kind == "int" {
			return absVal{Kind: "int", I: a.I - b.I}
		}
		bits, _, ok := intWidth(x.Type())
		if !ok {
			return f.sym(x)
		}
		wide := narrowerOperand(x.X, bits) && narrowerOperand(x.Y, bits)
		return absVal{Kind: "sub", A: f.termFor(a, x.X), C: f.termFor(b, x.Y), Wide: wide}
	case token.AND, token.LAND:
		if a.Kind == "bool" && b.Kind == "bool" {
			return absVal{Kind: "bool", B: a.B && b.B}
		}
	case token.OR, token.LOR:
		if a.Kind == "bool" && b.Kind == "bool" {
			return absVal{Kind: "bool", B: a.B || b.B}
		}
	case token.ADD, token.MUL:
		if a.Kind == "int" && b.Kind == "int" {
			if x.Op == token.ADD {
				return absVal{Kind: "int", I: a.I + b.I}
			}
			return absVal{Kind: "int", I: a.I * b.I}
		}
	}
	return f.sym(x)
}

// narrowerOperand: v is a conversion from an integer type strictly narrower than bits (so a difference of two
// such values cannot overflow the wider type).
func narrowerOperand(v ssa.Value, bits int) bool {
	for {
		switch x := v.(type) {
		case *ssa.Convert:
			if b, _, ok := intWidth(x.X.Type()); ok && b < bits {
				return true
			}
			v = x.X
			continue
		case *ssa.ChangeType:
			v = x.X
			continue
		}
		return false
	}
}

func (f *absFrame) termFor(a absVal, v ssa.Value) *Term {
	if a.T != nil {
		return a.T
	}
	if a.Kind == "int" {
		return mk("const", fmt.Sprint(a.I))
	}
	return f.termOfVal(v)
}

func isTimeType(t types.Type) bool {
	k := typeKey(t)
	k = strings.TrimPrefix(k, "*")
	return k == "time.Time" || strings.HasSuffix(k, "meta/v1.Time") || strings.HasSuffix(k, "meta/v1.MicroTime")
}

func (f *absFrame) evalCall(c *ssa.Call) absVal {
	com := c.Common()
	if cal := com.StaticCallee(); cal != nil {
		sig := cal.Signature
		// time comparisons are comparisons
		if sig.Recv() != nil && isTimeType(sig.Recv().Type()) && len(com.Args) == 2 {
			var want ordRel = -1
			switch cal.Name() {
			case "Equal":
				want = relEQ
			case "Before":
				want = relLT
			case "After":
				want = relGT
			}
			if want >= 0 {
				rel, ok := f.ord(f.timeTerm(com.Args[0]), f.timeTerm(com.Args[1]))
				if !ok {
					return absVal{}
				}
				return absVal{Kind: "bool", B: rel == want}
			}
		}
		// cmp.Compare is a three-way comparison
		if funcPkgPath(cal) == "cmp" && strings.HasPrefix(cal.Name(), "Compare") && len(com.Args) == 2 {
			a, b := f.eval(com.Args[0]), f.eval(com.Args[1])
			if f.fork != nil || f.fail != nil {
				return absVal{}
			}
			if a.Kind == "int" && b.Kind == "int" {
				return absVal{Kind: "int", I: sign(a.I - b.I)}
			}
			rel, ok := f.ord(f.termFor(a, com.Args[0]), f.termFor(b, com.Args[1]))
			if !ok {
				return absVal{}
			}
			return absVal{Kind: "int", I: int64(rel) - 1}
		}
		// small helpers are executed in place
		if f.depth < f.e.maxInline && len(cal.Blocks) > 0 && !hasLoop(cal) && sig.Results().Len() == 1 && !isTestdataOrMock(cal) && strings.HasPrefix(funcPkgPath(cal), modPath) {
			var ps []absVal
			for _, a := range com.Args {
				av := f.eval(a)
				if f.fork != nil || f.fail != nil {
					return absVal{}
				}
				if av.T == nil && av.Kind != "bool" {
					av.T = f.termOfVal(a)
				}
				ps = append(ps, av)
			}
			vals, _, fork, fail := f.e.runFunc(cal, nil, ps, f.st, f.depth+1)
			if fork != nil {
				f.fork = fork
				return absVal{}
			}
			if fail == nil && len(vals) == 1 {
				return vals[0]
			}
			// fall through to the opaque treatment
		}
	}
	if isBoolType(c.Type()) {
		return f.boolVar(f.termOfVal(c).String())
	}
	return f.sym(c)
}

// timeTerm strips the address-of / load around a time operand so that x.T.Equal(&y.T) and y.T.Before(&x.T)
// speak about the same two terms.
func (f *absFrame) timeTerm(v ssa.Value) *Term {
	t := f.termOfVal(v)
	// metav1.Time embeds time.Time: x.T.Time and x.T denote the same instant
	for t.Op == "field" && t.Name == "Time" && len(t.Args) == 1 {
		t = t.Args[0]
	}
	return t
}

func hasLoop(fn *ssa.Function) bool {
	for _, b := range fn.Blocks {
		for _, s := range b.Succs {
			if s.Dominates(b) {
				return true
			}
		}
	}
	return false
}

// tupleSet: for a helper whose results are all booleans, the set of result tuples its return statements can
// produce, free boolean SSA values ranging over both truth values (at most 4 of them).
func (e *absExec) tupleSet(fn *ssa.Function) [][]bool {
	if ts, ok := e.tuples[fn]; ok {
		return ts
	}
	e.tuples[fn] = nil
	res := fn.Signature.Results()
	if len(fn.Blocks) == 0 {
		return nil
	}
	// a single result that is a struct of booleans is the same thing as a tuple of booleans
	var structRes *types.Struct
	if res.Len() == 1 {
		if st, ok := res.At(0).Type().Underlying().(*types.Struct); ok && st.NumFields() >= 2 {
			structRes = st
			for i := 0; i < st.NumFields(); i++ {
				if !isBoolType(st.Field(i).Type()) {
					return nil
				}
			}
		}
	}
	if structRes == nil {
		if res.Len() < 2 {
			return nil
		}
		for i := 0; i < res.Len(); i++ {
			if !isBoolType(res.At(i).Type()) {
				return nil
			}
		}
	}
	seen := map[string]bool{}
	var out [][]bool
	for _, b := range fn.Blocks {
		ret, ok := b.Instrs[len(b.Instrs)-1].(*ssa.Return)
		if !ok {
			continue
		}
		results := ret.Results
		if structRes != nil {
			// the returned struct value: a load of a composite-literal alloc whose fields are stored individually
			// (fields not stored are false), or the zero value
			results = make([]ssa.Value, structRes.NumFields())
			for i := range results {
				results[i] = ssa.NewConst(constant.MakeBool(false), types.Typ[types.Bool])
			}
			switch rv := ret.Results[0].(type) {
			case *ssa.Const:
			case *ssa.UnOp:
				a, isAlloc := rv.X.(*ssa.Alloc)
				if rv.Op != token.MUL || !isAlloc {
					return nil
				}
				for _, r := range *a.Referrers() {
					switch y := r.(type) {
					case *ssa.FieldAddr:
						for _, r2 := range *y.Referrers() {
							st, isStore := r2.(*ssa.Store)
							if !isStore || st.Addr != ssa.Value(y) {
								return nil
							}
							results[y.Field] = st.Val
						}
					case *ssa.UnOp:
					default:
						return nil
					}
				}
			default:
				return nil
			}
		}
		// free values of this return
		var free []ssa.Value
		var collect func(v ssa.Value) bool
		collect = func(v ssa.Value) bool {
			switch x := v.(type) {
			case *ssa.Const:
				return true
			case *ssa.UnOp:
				if x.Op == token.NOT {
					return collect(x.X)
				}
			}
			for _, f := range free {
				if f == v {
					return true
				}
			}
			free = append(free, v)
			return len(free) <= 4
		}
		ok = true
		for _, r := range results {
			if !collect(r) {
				ok = false
			}
		}
		if !ok {
			return nil
		}
		var evalB func(v ssa.Value, asg map[ssa.Value]bool) bool
		evalB = func(v ssa.Value, asg map[ssa.Value]bool) bool {
			switch x := v.(type) {
			case *ssa.Const:
				return x.Value != nil && constant.BoolVal(x.Value)
			case *ssa.UnOp:
				if x.Op == token.NOT {
					return !evalB(x.X, asg)
				}
			}
			return asg[v]
		}
		for m := 0; m < 1<<len(free); m++ {
			asg := map[ssa.Value]bool{}
			for i, fv := range free {
				asg[fv] = m&(1<<i) != 0
			}
			var tup []bool
			for _, r := range results {
				tup = append(tup, evalB(r, asg))
			}
			k := fmt.Sprint(tup)
			if !seen[k] {
				seen[k] = true
				out = append(out, tup)
			}
		}
	}
	sort.Slice(out, func(i, j int) bool { return fmt.Sprint(out[i]) < fmt.Sprint(out[j]) })
	e.tuples[fn] = out
	return out
}

// paramSyms: the comparator's own parameters as symbolic values, optionally swapped.
func paramSyms(fn *ssa.Function, swap [2]int) []absVal {
	ps := make([]absVal, len(fn.Params))
	for i, p := range fn.Params {
		ps[i] = absVal{Kind: "sym", T: termOf(p)}
	}
	if swap[0] != swap[1] {
		ps[swap[0]], ps[swap[1]] = ps[swap[1]], ps[swap[0]]
	}
	return ps
}

type absPair struct {
	St   *absState
	Fwd  absVal
	Back absVal
}

// bothWays evaluates f(l,r) and f(r,l) under every abstract input; li, ri are the indexes of the two
// compared parameters (free variables of closures are shared and keep their identity).
func (e *absExec) bothWays(fn *ssa.Function, start *ssa.BasicBlock, li, ri int) ([]absPair, error) {
	fwd, err := e.explore(fn, start, paramSyms(fn, [2]int{0, 0}), newAbsState())
	if err != nil {
		return nil, err
	}
	var out []absPair
	for _, a := range fwd {
		back, err := e.explore(fn, start, paramSyms(fn, [2]int{li, ri}), a.St)
		if err != nil {
			return nil, err
		}
		for _, b := range back {
			if len(a.Vals) != 1 || len(b.Vals) != 1 {
				return nil, fmt.Errorf("comparator with %d results", len(a.Vals))
			}
			out = append(out, absPair{b.St, a.Vals[0], b.Vals[0]})
		}
	}
	return out, nil
}

// onlyWholeStore: the single value stored into the local as a whole, when every other use of the local is a load
// or a read of one of its fields (no field is written, the address does not escape).
func onlyWholeStore(a *ssa.Alloc) ssa.Value {
	var stored ssa.Value
	n := 0
	for _, r := range *a.Referrers() {
		switch in := r.(type) {
		case *ssa.Store:
			if in.Addr != ssa.Value(a) {
				return nil
			}
			n++
			stored = in.Val
		case *ssa.UnOp, *ssa.DebugRef:
		case *ssa.FieldAddr:
			for _, r2 := range *in.Referrers() {
				if _, isLoad := r2.(*ssa.UnOp); !isLoad {
					if _, isDbg := r2.(*ssa.DebugRef); !isDbg {
						return nil
					}
				}
			}
		default:
			return nil
		}
	}
	if n != 1 {
		return nil
	}
	return stored
}
