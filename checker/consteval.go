package main

// Constant folding of small pure functions over compile-time constants (CONST engine):
// evaluates e.g. pod_status.IsActiveUsedStatus(Releasing) from the SSA of its body.
// No repository code is executed; unsupported instructions make the evaluation fail (undecided).

import (
	"fmt"
	"go/constant"
	"go/token"

	"golang.org/x/tools/go/ssa"
)

func constEval(fn *ssa.Function, args []constant.Value, depth int) (constant.Value, error) {
	if depth > 6 {
		return nil, fmt.Errorf("depth")
	}
	if fn.Blocks == nil {
		return nil, fmt.Errorf("no body: %s", fn)
	}
	env := map[ssa.Value]constant.Value{}
	for i, p := range fn.Params {
		if i < len(args) {
			env[p] = args[i]
		}
	}
	get := func(v ssa.Value) (constant.Value, error) {
		if c, ok := v.(*ssa.Const); ok {
			if c.Value == nil {
				return nil, fmt.Errorf("nil const")
			}
			return c.Value, nil
		}
		if x, ok := env[v]; ok {
			return x, nil
		}
		return nil, fmt.Errorf("unknown value %s", v.Name())
	}
	b := fn.Blocks[0]
	var prev *ssa.BasicBlock
	for steps := 0; steps < 10000; steps++ {
		var next *ssa.BasicBlock
		for _, in := range b.Instrs {
			switch x := in.(type) {
			case *ssa.Phi:
				for i, p := range b.Preds {
					if p == prev {
						v, err := get(x.Edges[i])
						if err != nil {
							return nil, err
						}
						env[x] = v
					}
				}
			case *ssa.BinOp:
				l, err := get(x.X)
				if err != nil {
					return nil, err
				}
				r, err := get(x.Y)
				if err != nil {
					return nil, err
				}
				switch x.Op {
				case token.EQL, token.NEQ, token.LSS, token.LEQ, token.GTR, token.GEQ:
					env[x] = constant.MakeBool(constant.Compare(l, x.Op, r))
				case token.SHL, token.SHR:
					s, _ := constant.Uint64Val(r)
					env[x] = constant.Shift(l, x.Op, uint(s))
				default:
					env[x] = constant.BinaryOp(l, x.Op, r)
				}
			case *ssa.UnOp:
				v, err := get(x.X)
				if err != nil {
					return nil, err
				}
				if x.Op == token.MUL || x.Op == token.ARROW {
					return nil, fmt.Errorf("load")
				}
				env[x] = constant.UnaryOp(x.Op, v, 0)
			case *ssa.Convert:
				v, err := get(x.X)
				if err != nil {
					return nil, err
				}
				env[x] = v
			case *ssa.ChangeType:
				v, err := get(x.X)
				if err != nil {
					return nil, err
				}
				env[x] = v
			case *ssa.Call:
				cal := x.Common().StaticCallee()
				if cal == nil {
					return nil, fmt.Errorf("dynamic call")
				}
				var as []constant.Value
				for _, a := range x.Common().Args {
					v, err := get(a)
					if err != nil {
						return nil, err
					}
					as = append(as, v)
				}
				v, err := constEval(cal, as, depth+1)
				if err != nil {
					return nil, err
				}
				env[x] = v
			case *ssa.If:
				v, err := get(x.Cond)
				if err != nil {
					return nil, err
				}
				if constant.BoolVal(v) {
					next = b.Succs[0]
				} else {
					next = b.Succs[1]
				}
			case *ssa.Jump:
				next = b.Succs[0]
			case *ssa.Return:
				if len(x.Results) != 1 {
					return nil, fmt.Errorf("multi-result")
				}
				return get(x.Results[0])
			case *ssa.DebugRef:
			default:
				return nil, fmt.Errorf("unsupported instruction %T in %s", in, fn)
			}
		}
		if next == nil {
			return nil, fmt.Errorf("fell off block")
		}
		prev, b = b, next
	}
	return nil, fmt.Errorf("step limit")
}

func constantFloat(k *ssa.Const) (float64, bool) {
	return constant.Float64Val(constant.ToFloat(k.Value))
}
