package main

// Positive controls are filled in controls_*.go; runControls executes engine self-tests
// (each rule whose expected finding count is zero must fire on a tiny synthetic example).
func runControls(c *Ctx) {
	for _, f := range controlFns {
		f(c)
	}
}

var controlFns []func(c *Ctx)
