package main

import (
	"fmt"
	"os"
	"strings"

	"golang.org/x/tools/go/ssa"
)

// debugDump prints block facts of functions whose key contains the substring (KAIDEBUG env).
func debugDump(p *Prog) {
	sub := os.Getenv("KAIDEBUG")
	if sub == "" {
		return
	}
	fx := newFacts(p, 3)
	for _, f := range p.AllFuncs {
		if !strings.Contains(funcKey(f), sub) {
			continue
		}
		fmt.Println("==", funcKey(f))
		bf := fx.blockFacts(f, 0)
		for _, b := range f.Blocks {
			fmt.Printf(" block %d (%s) facts=%s\n", b.Index, b.Comment, bf[b])
			for _, in := range b.Instrs {
				if v, ok := in.(ssa.Value); ok {
					fmt.Printf("    %s = %s    ;; %s\n", v.Name(), in, termOf(v))
				} else {
					fmt.Printf("    %s\n", in)
				}
			}
		}
		for i := range f.Signature.Results().Len() {
			for _, w := range []Want{WantTrue, WantFalse, WantNil, WantNonNil} {
				fmt.Printf(" ret[%d] want=%d: %s\n", i, w, fx.retFacts(f, i, w, 0))
			}
		}
	}
}

func debugOn() bool { return os.Getenv("KAIDEBUG") != "" }
