package main

// PAIR / DUAL engines: extraction of accounting effects (target access path, operation, amount)
// per arm (the status facts under which the effect executes), and comparison of two sibling
// functions as inverses, or of struct/vector twins as moving in lock-step.

import (
	"fmt"
	"go/token"
	"sort"
	"strings"

	"golang.org/x/tools/go/ssa"
)

type Effect struct {
	Target string // access path of the mutated location
	Op     string // "+" / "-" / "ins" / "del" / "set"
	Amount string // term of the amount (or key for ins/del)
	Arm    string // canonical arm key
	Pos    token.Pos
	Via    string // method or operator through which it is applied
}

func (e Effect) key() string { return e.Arm + " | " + e.Target + " " + e.Op + " " + e.Amount }

var addSubMethods = map[string]string{
	"Add": "+", "Sub": "-",
	"AddGPUs": "+", "SubGPUs": "-",
	"AddResourceRequirements": "+", "SubResourceRequirements": "-",
}

// armOf canonicalises the facts at an instruction restricted to those selected by armFact.
func armOf(fs FactSet, armFact func(Fact) bool) string {
	if fs.Bottom {
		return "⊥"
	}
	var pos, neg []string
	for _, f := range fs.sorted() {
		if !armFact(f) {
			continue
		}
		if f.Pol {
			pos = append(pos, f.String())
		} else {
			neg = append(neg, f.String())
		}
	}
	// a positive equality on the discriminator subsumes the negatives accumulated by a switch ladder
	var eq []string
	for _, p := range pos {
		if strings.Contains(p, " == ") {
			eq = append(eq, p)
		}
	}
	if len(eq) > 0 {
		sort.Strings(eq)
		var rest []string
		for _, p := range pos {
			if !strings.Contains(p, " == ") {
				rest = append(rest, p)
			}
		}
		return strings.Join(append(eq, rest...), " & ")
	}
	all := append(pos, neg...)
	sort.Strings(all)
	return strings.Join(all, " & ")
}

// extractEffects lists the accounting effects of fn (not descending into callees).
// targetOK filters locations of interest (by term); armFact selects the facts that form the arm.
func extractEffects(fx *Facts, fn *ssa.Function, targetOK func(*Term) bool, armFact func(Fact) bool) []Effect {
	var out []Effect
	for _, b := range fn.Blocks {
		for _, in := range b.Instrs {
			switch x := in.(type) {
			case ssa.CallInstruction:
				com := x.Common()
				if cal := com.StaticCallee(); cal != nil && cal.Signature.Recv() != nil && len(com.Args) >= 1 {
					if op, ok := addSubMethods[cal.Name()]; ok {
						tgt := termOf(com.Args[0])
						if targetOK(tgt) {
							var am []string
							for _, a := range com.Args[1:] {
								am = append(am, termOf(a).String())
							}
							out = append(out, Effect{Target: tgt.String(), Op: op, Amount: strings.Join(am, ","), Arm: armOf(fx.FactsAt(in), armFact), Pos: instrPos(in), Via: cal.Name()})
						}
					}
				}
				if bi, ok := com.Value.(*ssa.Builtin); ok && bi.Name() == "delete" && len(com.Args) == 2 {
					tgt := termOf(com.Args[0])
					if targetOK(tgt) {
						out = append(out, Effect{Target: tgt.String(), Op: "del", Amount: termOf(com.Args[1]).String(), Arm: armOf(fx.FactsAt(in), armFact), Pos: instrPos(in), Via: "delete"})
					}
				}
			case *ssa.Store:
				tgt := termOf(x.Addr)
				if !targetOK(tgt) {
					continue
				}
				op, am := arithOn(x.Val, tgt)
				out = append(out, Effect{Target: tgt.String(), Op: op, Amount: am, Arm: armOf(fx.FactsAt(in), armFact), Pos: instrPos(in), Via: "store"})
			case *ssa.MapUpdate:
				m := termOf(x.Map)
				if !targetOK(m) {
					continue
				}
				loc := mk("lookup", "", m, termOf(x.Key))
				op, am := arithOn(x.Value, loc)
				if op == "set" {
					op, am = "ins", termOf(x.Key).String()
					out = append(out, Effect{Target: m.String(), Op: op, Amount: am, Arm: armOf(fx.FactsAt(in), armFact), Pos: instrPos(in), Via: "map-insert"})
				} else {
					out = append(out, Effect{Target: loc.String(), Op: op, Amount: am, Arm: armOf(fx.FactsAt(in), armFact), Pos: instrPos(in), Via: "map-arith"})
				}
			}
		}
	}
	return out
}

// arithOn classifies a stored value relative to its own location: loc+v → ("+", v), loc-v → ("-", v), else set.
func arithOn(v ssa.Value, loc *Term) (string, string) {
	if bo, ok := v.(*ssa.BinOp); ok && (bo.Op == token.ADD || bo.Op == token.SUB) {
		x, y := termOf(bo.X), termOf(bo.Y)
		if stripExtract(x).String() == loc.String() {
			if bo.Op == token.ADD {
				return "+", y.String()
			}
			return "-", y.String()
		}
		if bo.Op == token.ADD && stripExtract(y).String() == loc.String() {
			return "+", x.String()
		}
	}
	return "set", termOf(v).String()
}

func stripExtract(t *Term) *Term {
	if t.Op == "extract" {
		return t.Args[0]
	}
	return t
}

func invOp(op string) string {
	switch op {
	case "+":
		return "-"
	case "-":
		return "+"
	case "ins":
		return "del"
	case "del":
		return "ins"
	}
	return op
}

// pairInverse compares effects of f and g: per arm, effects(f) must be the multiset inverse of effects(g).
// Returns human-readable mismatches.
func pairInverse(ef, eg []Effect) []string {
	count := map[string]int{}
	pos := map[string]token.Pos{}
	for _, e := range ef {
		count[e.key()]++
		pos[e.key()] = e.Pos
	}
	for _, e := range eg {
		inv := e
		inv.Op = invOp(e.Op)
		count[inv.key()]--
		if _, ok := pos[inv.key()]; !ok {
			pos[inv.key()] = e.Pos
		}
	}
	var out []string
	var keys []string
	for k := range count {
		keys = append(keys, k)
	}
	sort.Strings(keys)
	for _, k := range keys {
		if n := count[k]; n > 0 {
			out = append(out, fmt.Sprintf("effect [%s] has no inverse in the sibling (x%d)", k, n))
		} else if n < 0 {
			out = append(out, fmt.Sprintf("sibling undoes [%s] which is never done (x%d)", k, -n))
		}
	}
	return out
}

func effectsSummary(es []Effect) string {
	var s []string
	for _, e := range es {
		arm := e.Arm
		if arm == "" {
			arm = "always"
		}
		s = append(s, fmt.Sprintf("[%s] %s %s %s", arm, e.Target, e.Op, e.Amount))
	}
	sort.Strings(s)
	return strings.Join(s, "; ")
}

// armsHave checks that, under arm (substring match on the arm key; "" = unconditional arm key ""),
// there is an effect op on a target whose access path ends with the given field.
func hasEffect(es []Effect, armContains string, exactArm bool, targetSuffix, op string) bool {
	for _, e := range es {
		if exactArm {
			if e.Arm != armContains {
				continue
			}
		} else if !strings.Contains(e.Arm, armContains) {
			continue
		}
		if strings.HasSuffix(e.Target, targetSuffix) && e.Op == op {
			return true
		}
	}
	return false
}
