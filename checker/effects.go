package main

// PAIR / DUAL engines: extraction of accounting effects (target access path, operation, amount)
// per arm (the labelled status facts under which the effect executes), comparison of two sibling
// functions as inverses, and of struct/vector twins as moving in lock-step.

import (
	"fmt"
	"go/token"
	"sort"
	"strings"

	"golang.org/x/tools/go/ssa"
)

type Effect struct {
	TargetT *Term
	Target  string // canonical access path of the mutated location (params as p<i>, map keys erased)
	Op      string // "+" / "-" / "ins" / "del" / "set"
	AmountT *Term
	Amount  string // shape of the amount (roots erased)
	Arm     string // canonical arm key (sorted labels)
	Guard   string // all facts at the site (used by DUAL to require the same guard)
	GuardFS FactSet
	Pos     token.Pos
	Via     string
	Block   *ssa.BasicBlock
}

func (e Effect) key() string { return "[" + e.Arm + "] " + e.Target + " " + e.Op + " " + e.Amount }

var addSubMethods = map[string]string{
	"Add": "+", "Sub": "-",
	"AddGPUs": "+", "SubGPUs": "-",
	"AddResourceRequirements": "+", "SubResourceRequirements": "-",
}

// canon renders a location: params as p<i>, lookup keys erased, extract/commaok stripped.
func canon(t *Term) string {
	if t == nil {
		return "_"
	}
	switch t.Op {
	case "param":
		return fmt.Sprintf("p%d", t.paramIndex())
	case "free":
		return "f:" + t.Name
	case "field":
		return canon(t.Args[0]) + "." + t.Name
	case "lookup", "index":
		return canon(t.Args[0]) + "[_]"
	case "extract":
		return canon(t.Args[0])
	case "load":
		return canon(t.Args[0])
	case "call":
		var as []string
		for _, a := range t.Args {
			as = append(as, canon(a))
		}
		return shortName(t.Name) + "(" + strings.Join(as, ",") + ")"
	case "const":
		return t.Name
	}
	return "_"
}

// shape renders an amount with its roots erased (so siblings naming their variables differently compare equal).
func shape(t *Term) string {
	if t == nil {
		return "_"
	}
	switch t.Op {
	case "field":
		return shape(t.Args[0]) + "." + t.Name
	case "call":
		var as []string
		for _, a := range t.Args {
			as = append(as, shape(a))
		}
		return shortName(t.Name) + "(" + strings.Join(as, ",") + ")"
	case "const":
		return t.Name
	case "bin":
		return "(" + shape(t.Args[0]) + t.Name + shape(t.Args[1]) + ")"
	case "un":
		return t.Name + shape(t.Args[0])
	case "load", "extract":
		return shape(t.Args[0])
	}
	return "_"
}

func shortName(n string) string {
	if i := strings.LastIndex(n, "."); i >= 0 {
		return n[i+1:]
	}
	return n
}

// armLabeler maps a fact to an arm label ("" = not part of the arm).
type armLabeler func(f Fact) string

// statusArm labels equality tests on a .Status field ("Status==<const>") and calls of the
// pod_status predicates on any status value (by predicate name), with polarity.
func statusArm(f Fact) string {
	t := f.T
	lab := ""
	if t.Op == "bin" && t.Name == "==" && t.Args[1].Op == "const" && strings.HasSuffix(t.Args[0].String(), ".Status") {
		lab = "Status==" + t.Args[1].Name
	} else if t.Op == "call" && t.Fn != nil && relPkg(funcPkgPath(t.Fn)) == pkgPodStatus {
		lab = t.Fn.Name()
	}
	if lab == "" {
		return ""
	}
	if !f.Pol {
		return "!" + lab
	}
	return lab
}

func armOf(fs FactSet, lab armLabeler) string {
	if fs.Bottom {
		return "⊥"
	}
	var pos, neg []string
	for _, f := range fs.sorted() {
		l := lab(f)
		if l == "" {
			continue
		}
		if strings.HasPrefix(l, "!") {
			neg = append(neg, l)
		} else {
			pos = append(pos, l)
		}
	}
	// a positive equality on the discriminator subsumes the negatives accumulated by a switch ladder
	for _, p := range pos {
		if strings.HasPrefix(p, "Status==") {
			var keep []string
			for _, q := range pos {
				keep = append(keep, q)
			}
			sort.Strings(keep)
			return strings.Join(dedup(keep), " & ")
		}
	}
	all := dedup(append(pos, neg...))
	sort.Strings(all)
	return strings.Join(all, " & ")
}

func dedup(xs []string) []string {
	seen := map[string]bool{}
	var out []string
	for _, x := range xs {
		if !seen[x] {
			seen[x] = true
			out = append(out, x)
		}
	}
	return out
}

// extractEffects lists the accounting effects of fn; repo callees that are methods on the same
// receiver (or take it as an argument) are inlined `inline` levels deep, their effects attributed
// to the arm of the call site.
func extractEffects(fx *Facts, fn *ssa.Function, targetOK func(*Term) bool, lab armLabeler, inline int) []Effect {
	var out []Effect
	emit := func(in ssa.Instruction, tgt, am *Term, op, via string) {
		fs := fx.FactsAt(in)
		out = append(out, Effect{TargetT: tgt, Target: canon(tgt), Op: op, AmountT: am, Amount: shape(am), Arm: armOf(fs, lab), Guard: fs.String(), GuardFS: fs, Pos: instrPos(in), Via: via, Block: in.Block()})
	}
	for _, b := range fn.Blocks {
		for _, in := range b.Instrs {
			switch x := in.(type) {
			case ssa.CallInstruction:
				com := x.Common()
				cal := com.StaticCallee()
				if cal != nil && cal.Signature.Recv() != nil && len(com.Args) >= 1 {
					if op, ok := addSubMethods[cal.Name()]; ok {
						tgt := termOf(com.Args[0])
						if targetOK(tgt) {
							var am *Term
							if len(com.Args) > 1 {
								am = termOf(com.Args[1])
							}
							emit(in, tgt, am, op, cal.Name())
						}
						continue
					}
				}
				if bi, ok := com.Value.(*ssa.Builtin); ok && bi.Name() == "delete" && len(com.Args) == 2 {
					tgt := mapAliasTerm(com.Args[0])
					if targetOK(tgt) {
						emit(in, tgt, mk("const", "key"), "del", "delete")
					}
					continue
				}
				if inline > 0 && cal != nil && cal.Blocks != nil && strings.HasPrefix(funcPkgPath(cal), modPath) {
					sub := extractEffects(fx, cal, func(*Term) bool { return true }, lab, inline-1)
					act := callActuals(x)
					fs := fx.FactsAt(in)
					for _, e := range sub {
						tgt := e.TargetT.subst(act)
						if !targetOK(tgt) {
							continue
						}
						arm := armOf(fs, lab)
						if e.Arm != "" {
							if arm != "" {
								arm += " & "
							}
							arm += e.Arm
						}
						var am *Term
						if e.AmountT != nil {
							am = e.AmountT.subst(act)
						}
						out = append(out, Effect{TargetT: tgt, Target: canon(tgt), Op: e.Op, AmountT: am, Amount: shape(am), Arm: arm, Guard: fs.String(), GuardFS: fs, Pos: instrPos(in), Via: cal.Name() + "→" + e.Via, Block: in.Block()})
					}
				}
			case *ssa.MakeClosure:
				// a callback created here (handed to an iterating helper, or called later) belongs to the function:
				// its effects are attributed to the arm of the creation site combined with its own arm, with the
				// captured variables translated back to the creator's values
				cl := x.Fn.(*ssa.Function)
				if cl == fn || len(cl.Blocks) == 0 {
					continue
				}
				clLab := func(f Fact) string { return lab(Fact{substFree(f.T, cl, x), f.Pol}) }
				fs := fx.FactsAt(in)
				for _, e := range extractEffects(fx, cl, func(*Term) bool { return true }, clLab, inline) {
					tgt := substFree(e.TargetT, cl, x)
					if !targetOK(tgt) {
						continue
					}
					arm := armOf(fs, lab)
					if e.Arm != "" {
						if arm != "" {
							arm += " & "
						}
						arm += e.Arm
					}
					var am *Term
					if e.AmountT != nil {
						am = substFree(e.AmountT, cl, x)
					}
					out = append(out, Effect{TargetT: tgt, Target: canon(tgt), Op: e.Op, AmountT: am, Amount: shape(am), Arm: arm, Guard: fs.String(), GuardFS: fs, Pos: e.Pos, Via: "closure→" + e.Via, Block: in.Block()})
				}
			case *ssa.Store:
				tgt := termOf(x.Addr)
				if !targetOK(tgt) {
					continue
				}
				op, am := arithOn(x.Val, tgt)
				emit(in, tgt, am, op, "store")
			case *ssa.MapUpdate:
				m := mapAliasTerm(x.Map)
				loc := mk("lookup", "", m, termOf(x.Key))
				if !targetOK(loc) && !targetOK(m) {
					continue
				}
				op, am := arithOn(x.Value, loc)
				if op == "set" {
					emit(in, m, mk("const", "key"), "ins", "map-insert")
				} else {
					emit(in, loc, am, op, "map-arith")
				}
			}
		}
	}
	return out
}

// arithOn classifies a stored value relative to its own location: loc+v → ("+", v), loc-v → ("-", v), else set.
func arithOn(v ssa.Value, loc *Term) (string, *Term) {
	// ptr.To(*x ± k) idiom
	if c, ok := v.(*ssa.Call); ok {
		if cal := c.Common().StaticCallee(); cal != nil && strings.HasPrefix(cal.Name(), "To") && len(c.Common().Args) == 1 && strings.HasSuffix(funcPkgPath(cal), "/ptr") {
			return arithOn(c.Common().Args[0], loc)
		}
	}
	if bo, ok := v.(*ssa.BinOp); ok && (bo.Op == token.ADD || bo.Op == token.SUB) {
		x, y := termOf(bo.X), termOf(bo.Y)
		if canon(x) == canon(loc) {
			if bo.Op == token.ADD {
				return "+", y
			}
			return "-", y
		}
		if bo.Op == token.ADD && canon(y) == canon(loc) {
			return "+", x
		}
	}
	return "set", termOf(v)
}

func invOp(op string) string {
	switch op {
	case "+":
		return "-"
	case "-":
		return "+"
	case "ins":
		return "del"
	case "del":
		return "ins"
	}
	return op
}

// pairInverse compares effects of f and g: per arm, effects(f) must be the multiset inverse of effects(g).
func pairInverse(ef, eg []Effect) []string {
	count := map[string]int{}
	for _, e := range ef {
		count[e.key()]++
	}
	for _, e := range eg {
		inv := e
		inv.Op = invOp(e.Op)
		count[inv.key()]--
	}
	var out []string
	for _, k := range sortedKeys(count) {
		if n := count[k]; n > 0 {
			out = append(out, fmt.Sprintf("effect %s has no inverse in the sibling (x%d)", k, n))
		} else if n < 0 {
			out = append(out, fmt.Sprintf("the sibling undoes %s which is never done (x%d)", k, -n))
		}
	}
	return out
}

func effectsSummary(es []Effect) string {
	var s []string
	for _, e := range es {
		s = append(s, e.key())
	}
	sort.Strings(s)
	return strings.Join(s, "; ")
}

// hasEffect: an effect with exactly this arm on a target ending with the suffix.
func hasEffect(es []Effect, arm string, targetSuffix, op string) bool {
	for _, e := range es {
		if e.Arm == arm && strings.HasSuffix(e.Target, targetSuffix) && e.Op == op {
			return true
		}
	}
	return false
}

// dualCheck: every effect on a field X that has a sibling field XVector on the same base must be
// accompanied, under the same guard, by an effect with the same sign on XVector, and vice versa.
// Returns the number of pairs and the unpaired effects.
func dualCheck(es []Effect, hasTwin func(base *Term, field string) bool) (int, []Effect) {
	type k struct{ guard, target, op string }
	byKey := map[k][]Effect{}
	for _, e := range es {
		byKey[k{e.Guard, e.Target, e.Op}] = append(byKey[k{e.Guard, e.Target, e.Op}], e)
	}
	pairs := 0
	var bad []Effect
	for _, e := range es {
		if e.Op != "+" && e.Op != "-" {
			continue
		}
		if e.TargetT.Op != "field" {
			continue
		}
		name := e.TargetT.Name
		base := e.TargetT.Args[0]
		var twin string
		if strings.HasSuffix(name, "Vector") {
			twin = strings.TrimSuffix(name, "Vector")
		} else {
			twin = name + "Vector"
		}
		if !hasTwin(base, twin) {
			continue
		}
		tw := canon(base) + "." + twin
		a := len(byKey[k{e.Guard, e.Target, e.Op}])
		b := len(byKey[k{e.Guard, tw, e.Op}])
		if a != b {
			bad = append(bad, e)
		} else if !strings.HasSuffix(name, "Vector") {
			pairs++
		}
	}
	return pairs, bad
}

// linearSigns decomposes an additive expression term into leaf → sign (+1/-1), leaves rendered by canon.
func linearSigns(t *Term, sign int, out map[string]int) {
	if t.Op == "bin" && (t.Name == "+" || t.Name == "-") {
		linearSigns(t.Args[0], sign, out)
		s2 := sign
		if t.Name == "-" {
			s2 = -sign
		}
		linearSigns(t.Args[1], s2, out)
		return
	}
	out[canon(t)] += sign
}

// dualCheckArm: arm-level variant of dualCheck — per (arm, op) the struct field and its vector
// twin receive the same number of effects, and the guard of a vector effect may add to the guard
// of a struct effect only "vector present" tests (len(...) > 0).
func dualCheckArm(es []Effect, hasTwin func(base *Term, field string) bool) (int, []Effect) {
	type k struct{ arm, target, op string }
	byKey := map[k][]Effect{}
	for _, e := range es {
		byKey[k{e.Arm, e.Target, e.Op}] = append(byKey[k{e.Arm, e.Target, e.Op}], e)
	}
	pairs := 0
	var bad []Effect
	for _, e := range es {
		if (e.Op != "+" && e.Op != "-") || e.TargetT.Op != "field" {
			continue
		}
		name := e.TargetT.Name
		base := e.TargetT.Args[0]
		twin := name + "Vector"
		if strings.HasSuffix(name, "Vector") {
			twin = strings.TrimSuffix(name, "Vector")
		}
		if !hasTwin(base, twin) {
			continue
		}
		tw := canon(base) + "." + twin
		a, b := byKey[k{e.Arm, e.Target, e.Op}], byKey[k{e.Arm, tw, e.Op}]
		if len(a) != len(b) {
			bad = append(bad, e)
			continue
		}
		if !strings.HasSuffix(name, "Vector") {
			// guards: vector guard ⊇ struct guard, extras only len-tests
			ok := true
			for i := range a {
				for kk := range a[i].GuardFS.M {
					if _, in := b[i].GuardFS.M[kk]; !in {
						ok = false
					}
				}
				for kk := range b[i].GuardFS.M {
					if _, in := a[i].GuardFS.M[kk]; !in && !strings.Contains(kk, "builtin.len") {
						ok = false
					}
				}
			}
			if !ok {
				bad = append(bad, e)
			} else {
				pairs++
			}
		}
	}
	return pairs, bad
}

// hasEffectUnder: some effect on the target applies whenever the status assumption `arm` holds — its own guard
// (a conjunction of arm literals) is implied by `arm`. "Status==x" implies "!Status==y" for every y ≠ x. This makes
// the arm table independent of whether the code spells the arms as a switch, an if / else-if chain or nested ifs.
func hasEffectUnder(es []Effect, arm string, targetSuffix, op string) bool {
	if arm == "" {
		return hasEffect(es, arm, targetSuffix, op)
	}
	have := map[string]bool{}
	posStatus := ""
	for _, l := range strings.Split(arm, " & ") {
		have[l] = true
		if strings.HasPrefix(l, "Status==") {
			posStatus = l
		}
	}
	implied := func(l string) bool {
		if have[l] {
			return true
		}
		if strings.HasPrefix(l, "!Status==") && posStatus != "" && "!"+posStatus != l {
			return true
		}
		return false
	}
	for _, e := range es {
		if !strings.HasSuffix(e.Target, targetSuffix) || e.Op != op {
			continue
		}
		if e.Arm == "⊥" {
			continue
		}
		ok := true
		if e.Arm != "" {
			for _, l := range strings.Split(e.Arm, " & ") {
				if !implied(l) {
					ok = false
				}
			}
		}
		if ok {
			return true
		}
	}
	return false
}

// mapAliasTerm: the term of a map operand, seeing through the get-or-create idiom
//
//	inner, found := outer[k]; if !found { inner = fresh; outer[k] = inner }; inner[x] = v
//
// where the operand is a φ of the looked-up inner map and a fresh map that is stored under the same key on its
// path: the operand then IS outer[k].
func mapAliasTerm(v ssa.Value) *Term {
	phi, ok := v.(*ssa.Phi)
	if !ok {
		return termOf(v)
	}
	var slot *Term
	var fresh []ssa.Value
	for _, leaf := range phiLeaves(phi) {
		src := leaf
		if ex, isEx := leaf.(*ssa.Extract); isEx && ex.Index == 0 {
			src = ex.Tuple
		}
		if lk, isLk := src.(*ssa.Lookup); isLk {
			t := mk("lookup", "", termOf(lk.X), termOf(lk.Index))
			if slot != nil && canon(slot) != canon(t) {
				return termOf(v)
			}
			slot = t
			continue
		}
		fresh = append(fresh, leaf)
	}
	if slot == nil {
		return termOf(v)
	}
	for _, w := range fresh {
		stored := false
		for _, b := range phi.Parent().Blocks {
			for _, in := range b.Instrs {
				if mu, isMU := in.(*ssa.MapUpdate); isMU && mu.Value == w && canon(mk("lookup", "", termOf(mu.Map), termOf(mu.Key))) == canon(slot) {
					stored = true
				}
			}
		}
		if !stored {
			return termOf(v)
		}
	}
	return slot
}
