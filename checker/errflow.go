package main

import (
	"go/types"
	"strings"

	"golang.org/x/tools/go/ssa"
)

var errorType = types.Universe.Lookup("error").Type()

// droppedErrors: calls whose error result is bound to a variable that is never read (overwritten or abandoned).
// `x, _ := f()` — an explicit discard — is not reported: go/ssa creates no Extract for a blank result.
func droppedErrors(fn *ssa.Function) []ssa.Instruction {
	var out []ssa.Instruction
	for _, b := range fn.Blocks {
		for _, in := range b.Instrs {
			ex, ok := in.(*ssa.Extract)
			if !ok || !types.Identical(ex.Type(), errorType) {
				continue
			}
			if _, isCall := ex.Tuple.(*ssa.Call); !isCall {
				continue
			}
			used := false
			for _, r := range *ex.Referrers() {
				if _, dbg := r.(*ssa.DebugRef); !dbg {
					used = true
				}
			}
			if !used {
				out = append(out, in)
			}
		}
	}
	return out
}

// swallowedLookupErrors: a function that distinguishes "not found" from other errors of a lookup must not go on as
// if nothing was found when the error is of another kind: a return with a nil error on a path that has established
// err != nil ∧ !IsNotFound(err). Returns (offending return positions, number of IsNotFound tests seen).
func swallowedLookupErrors(fx *Facts, fn *ssa.Function) ([]RetPath, int) {
	res := fn.Signature.Results()
	if res.Len() == 0 || !types.Identical(res.At(res.Len()-1).Type(), errorType) {
		return nil, 0
	}
	n := len(instrsIn(fn, func(in ssa.Instruction) bool {
		cc, ok := in.(ssa.CallInstruction)
		return ok && calleeOf(cc) != nil && calleeOf(cc).Name() == "IsNotFound"
	}))
	if n == 0 {
		return nil, 0
	}
	var bad []RetPath
	for _, rp := range fx.retPaths(fn, res.Len()-1, WantNil) {
		var errTerm string
		for _, f := range rp.Facts.sorted() {
			if !f.Pol && isCallNamed(f.T, "IsNotFound") && len(f.T.Args) == 1 {
				errTerm = f.T.Args[0].String()
			}
		}
		if errTerm == "" {
			continue
		}
		_, nonNil := hasFact(rp.Facts, func(f Fact) bool {
			return f.T.Op == "bin" && len(f.T.Args) == 2 && f.T.Args[0].String() == errTerm && f.T.Args[1].isNilConst() &&
				((f.T.Name == "!=" && f.Pol) || (f.T.Name == "==" && !f.Pol))
		})
		if nonNil && !strings.Contains(rp.Desc, errTerm) {
			bad = append(bad, rp)
		}
	}
	return bad, n
}

// swallowedCallErrors: the function reports success — returns the literal nil error — on a path on which a call it
// made returned a non-nil error, and no recognised excuse (IsNotFound / IsAlreadyExists / IsConflict / errors.Is on
// that error) was established. A return of a computed error (a wrapped error, errors.Join of collected errors) is not
// a success report and is not looked at. Returns the offending returns with the swallowed error's term in Desc.
func swallowedCallErrors(fx *Facts, fn *ssa.Function) []RetPath {
	res := fn.Signature.Results()
	if res.Len() == 0 || !types.Identical(res.At(res.Len()-1).Type(), errorType) {
		return nil
	}
	idx := res.Len() - 1
	swallowedIn := func(fs FactSet) string {
		if fs.Bottom {
			return ""
		}
		for _, f := range fs.sorted() {
			if f.T.Op != "bin" || len(f.T.Args) != 2 || !f.T.Args[1].isNilConst() || !((f.T.Name == "!=" && f.Pol) || (f.T.Name == "==" && !f.Pol)) {
				continue
			}
			e := f.T.Args[0]
			if e.V == nil || !types.Identical(e.V.Type(), errorType) {
				continue
			}
			src := e.V
			if ex, ok := src.(*ssa.Extract); ok {
				src = ex.Tuple
			}
			if _, isCall := src.(*ssa.Call); !isCall {
				continue
			}
			errTerm := e.String()
			_, excused := hasFact(fs, func(g Fact) bool {
				if !g.Pol || g.T.Op != "call" || len(g.T.Args) < 1 {
					return false
				}
				for _, n := range []string{"IsNotFound", "IsAlreadyExists", "IsConflict", "Is"} {
					if isCallNamed(g.T, n) && g.T.Args[0].String() == errTerm {
						return true
					}
				}
				return false
			})
			if !excused {
				return errTerm
			}
		}
		return ""
	}
	var bad []RetPath
	for _, b := range fn.Blocks {
		ret, ok := b.Instrs[len(b.Instrs)-1].(*ssa.Return)
		if !ok || idx >= len(ret.Results) {
			continue
		}
		switch v := unspill(ret, idx).(type) {
		case *ssa.Const:
			if !v.IsNil() {
				continue
			}
			for _, fs := range fx.pathFactsTo(b, 3) {
				if t := swallowedIn(fs); t != "" {
					bad = append(bad, RetPath{Facts: fs, Pos: ret.Pos(), Desc: t})
					break
				}
			}
		case *ssa.Phi:
			for i, e := range v.Edges {
				k, isC := e.(*ssa.Const)
				if !isC || !k.IsNil() || i >= len(v.Block().Preds) {
					continue
				}
				fs := fx.edgeFacts(v.Block().Preds[i], v.Block(), 0)
				if t := swallowedIn(fs); t != "" {
					bad = append(bad, RetPath{Facts: fs, Pos: ret.Pos(), Desc: t})
					break
				}
			}
		}
	}
	return bad
}
