package main

// Error-path obligations: "when call C fails, cleanup K runs before the function returns",
// recognising the deferred-closure idiom (defer func(){ if err != nil { K } }()) and the inline
// idiom (if err := C(); err != nil { K; return err }).

import (
	"go/token"

	"golang.org/x/tools/go/ssa"
)

// errTermsOf returns the terms that denote "the error produced by call c" inside fn:
// the call value itself (or its error extract) and loads of the alloc it is stored to.
func errValuesOf(c *ssa.Call) (vals []ssa.Value, allocs []*ssa.Alloc) {
	var errVals []ssa.Value
	if c.Type().String() == "error" {
		errVals = append(errVals, c)
	}
	for _, r := range *c.Referrers() {
		if ex, ok := r.(*ssa.Extract); ok && ex.Type().String() == "error" {
			errVals = append(errVals, ex)
		}
	}
	seen := map[ssa.Value]bool{}
	var add func(ev ssa.Value, d int)
	add = func(ev ssa.Value, d int) {
		if seen[ev] || d > 3 {
			return
		}
		seen[ev] = true
		vals = append(vals, ev)
		for _, r := range *ev.Referrers() {
			if st, ok := r.(*ssa.Store); ok && st.Val == ev {
				if a, ok := st.Addr.(*ssa.Alloc); ok {
					allocs = append(allocs, a)
				}
			}
			// the error variable after a merge (it may have been replaced on one branch; a nil test of the merged
			// variable still is the nil test of this call's error on the path that did not replace it)
			if phi, ok := r.(*ssa.Phi); ok {
				add(phi, d+1)
			}
		}
	}
	for _, ev := range errVals {
		add(ev, 0)
	}
	return
}

// edgeAssertsNil reports whether taking edge from→to establishes "E == nil" for one of the given
// error designators (SSA values, or loads of the given allocs / free vars).
func edgeAssertsNil(fx *Facts, from, to *ssa.BasicBlock, isErr func(ssa.Value) bool) bool {
	iff, ok := from.Instrs[len(from.Instrs)-1].(*ssa.If)
	if !ok || from.Succs[0] == from.Succs[1] {
		return false
	}
	wantTrue := from.Succs[0] == to
	return condAssertsNil(iff.Cond, wantTrue, isErr, 0)
}

func condAssertsNil(cond ssa.Value, val bool, isErr func(ssa.Value) bool, d int) bool {
	if d > 4 {
		return false
	}
	switch x := cond.(type) {
	case *ssa.UnOp:
		if x.Op == token.NOT {
			return condAssertsNil(x.X, !val, isErr, d+1)
		}
	case *ssa.BinOp:
		if x.Op == token.EQL || x.Op == token.NEQ {
			var other ssa.Value
			if c, ok := x.Y.(*ssa.Const); ok && c.IsNil() {
				other = x.X
			} else if c, ok := x.X.(*ssa.Const); ok && c.IsNil() {
				other = x.Y
			}
			if other != nil && isErr(other) {
				isNil := (x.Op == token.EQL) == val
				return isNil
			}
		}
	}
	return false
}

// failureCleanup decides: on every path after call c (in fn) on which c's error is not known to be
// nil, an instruction satisfying cleanup executes before fn returns — inline or in a deferred
// closure installed before c. Returns ok and a description.
func failureCleanup(fx *Facts, c *ssa.Call, cleanup func(ssa.Instruction) bool) (bool, string) {
	fn := c.Parent()
	vals, allocs := errValuesOf(c)
	if len(vals) == 0 {
		return false, "call has no error result"
	}
	isErrIn := func(v ssa.Value) bool {
		for _, e := range vals {
			if v == e {
				return true
			}
		}
		if u, ok := v.(*ssa.UnOp); ok && u.Op == token.MUL {
			for _, a := range allocs {
				if u.X == a {
					return true
				}
			}
		}
		return false
	}
	// shape 1: deferred closure installed before c that captures the error alloc
	for _, b := range fn.Blocks {
		for _, in := range b.Instrs {
			d, ok := in.(*ssa.Defer)
			if !ok {
				continue
			}
			mc, ok := d.Call.Value.(*ssa.MakeClosure)
			if !ok {
				continue
			}
			if !dominatesInstr(d, c) {
				continue
			}
			g := mc.Fn.(*ssa.Function)
			var fvs []*ssa.FreeVar
			for i, bnd := range mc.Bindings {
				for _, a := range allocs {
					if bnd == a {
						fvs = append(fvs, g.FreeVars[i])
					}
				}
			}
			if len(fvs) == 0 {
				continue
			}
			isErrG := func(v ssa.Value) bool {
				if u, ok := v.(*ssa.UnOp); ok && u.Op == token.MUL {
					for _, fv := range fvs {
						if u.X == fv {
							return true
						}
					}
				}
				return false
			}
			_, path, found := reachAvoiding([]cfgPos{entryPos(g)}, isReturn, cleanup, func(from, to *ssa.BasicBlock) bool {
				return !edgeAssertsNil(fx, from, to, isErrG)
			})
			if found {
				return false, "deferred closure can return without the cleanup although the error is non-nil (" + pathStr(path) + ")"
			}
			// the error variable must not be reassigned nil between c and the return: every store to the alloc after c is c's own
			return true, "deferred closure " + funcKey(g) + " runs the cleanup whenever the captured error is non-nil"
		}
	}
	// shape 2: inline
	_, path, found := reachAvoiding([]cfgPos{afterInstr(c)}, isReturn, cleanup, func(from, to *ssa.BasicBlock) bool {
		return !edgeAssertsNil(fx, from, to, isErrIn)
	})
	if found {
		return false, "a path from the failing call to the return skips the cleanup (" + pathStr(path) + ")"
	}
	return true, "every failing path passes through the cleanup before returning"
}

// dominatesInstr: a executes before b on every path (same block earlier, or block dominance).
func dominatesInstr(a, b ssa.Instruction) bool {
	if a.Block() == b.Block() {
		for _, in := range a.Block().Instrs {
			if in == a {
				return true
			}
			if in == b {
				return false
			}
		}
	}
	return a.Block().Dominates(b.Block())
}
