package main

// DOM / RET engines: facts established on all paths to a program point, and facts implied
// by a function returning a given value. Under-approximate: an unrecognised value contributes
// no facts, so imprecision yields a missing fact (the obligation is then reported), never a
// spurious one — with the stated exception that terms are memory-less.

import (
	"go/constant"
	"go/token"
	"go/types"
	"sort"
	"strings"

	"golang.org/x/tools/go/ssa"
)

type Fact struct {
	T   *Term
	Pol bool
}

func (f Fact) String() string {
	if f.Pol {
		return f.T.String()
	}
	return "NOT " + f.T.String()
}

// FactSet: nil map with Bottom=true means "infeasible" (every fact holds vacuously).
type FactSet struct {
	Bottom bool
	M      map[string]Fact
}

func bottomSet() FactSet { return FactSet{Bottom: true} }
func emptySet() FactSet  { return FactSet{M: map[string]Fact{}} }

func (s FactSet) clone() FactSet {
	if s.Bottom {
		return s
	}
	n := emptySet()
	for k, v := range s.M {
		n.M[k] = v
	}
	return n
}

func (s *FactSet) add(f Fact) {
	if s.Bottom {
		return
	}
	f = normFact(f)
	if _, ok := s.M[negKey(f)]; ok {
		// f and its negation: the point is unreachable
		*s = bottomSet()
		return
	}
	s.M[f.String()] = f
}

// negKey returns the key of the (normalised) negation of a normalised fact.
func negKey(f Fact) string {
	if f.T.Op == "bin" && (f.T.Name == "<" || f.T.Name == "<=") && f.Pol && !isFloatTerm(f.T) {
		op := "<"
		if f.T.Name == "<" {
			op = "<="
		}
		n := &Term{Op: "bin", Name: op, Args: []*Term{f.T.Args[1], f.T.Args[0]}}
		return Fact{n, true}.String()
	}
	return Fact{f.T, !f.Pol}.String()
}

func (s *FactSet) addAll(o FactSet) {
	if s.Bottom {
		return
	}
	if o.Bottom {
		*s = bottomSet()
		return
	}
	for _, v := range o.M {
		s.add(v)
		if s.Bottom {
			return
		}
	}
}

func intersect(a, b FactSet) FactSet {
	if a.Bottom {
		return b.clone()
	}
	if b.Bottom {
		return a.clone()
	}
	n := emptySet()
	for k, v := range a.M {
		if _, ok := b.M[k]; ok {
			n.M[k] = v
		}
	}
	return n
}

func (s FactSet) equal(o FactSet) bool {
	if s.Bottom != o.Bottom {
		return false
	}
	if len(s.M) != len(o.M) {
		return false
	}
	for k := range s.M {
		if _, ok := o.M[k]; !ok {
			return false
		}
	}
	return true
}

func (s FactSet) sorted() []Fact {
	var out []Fact
	for _, f := range s.M {
		out = append(out, f)
	}
	sort.Slice(out, func(i, j int) bool { return out[i].String() < out[j].String() })
	return out
}

func (s FactSet) find(pred func(Fact) bool) (Fact, bool) {
	for _, f := range s.sorted() {
		if pred(f) {
			return f, true
		}
	}
	return Fact{}, false
}

func (s FactSet) String() string {
	if s.Bottom {
		return "⊥"
	}
	var parts []string
	for _, f := range s.sorted() {
		parts = append(parts, f.String())
	}
	return "{" + strings.Join(parts, "; ") + "}"
}

// normFact canonicalises: strips negation, != → == with flipped polarity, > / >= → < / <= with swapped
// operands; for integer/string operands a negative ordering fact is rewritten positively
// (!(a<b) ≡ b<=a); float comparisons keep their polarity (NaN).
func normFact(f Fact) Fact {
	t := f.T
	for t.Op == "un" && t.Name == "!" {
		t = t.Args[0]
		f.Pol = !f.Pol
	}
	// comparison of a boolean with a literal (`switch flag { case true: … }`): the boolean itself
	if t.Op == "bin" && (t.Name == "==" || t.Name == "!=") && len(t.Args) == 2 {
		for i := 0; i < 2; i++ {
			k := t.Args[i].String()
			if k == "const:true" || k == "const:false" {
				pol := f.Pol
				if t.Name == "!=" {
					pol = !pol
				}
				if k == "const:false" {
					pol = !pol
				}
				return normFact(Fact{t.Args[1-i], pol})
			}
		}
	}
	if t.Op == "bin" {
		op, a, b := t.Name, t.Args[0], t.Args[1]
		switch op {
		case "!=":
			op = "=="
			f.Pol = !f.Pol
		case ">":
			op, a, b = "<", b, a
		case ">=":
			op, a, b = "<=", b, a
		}
		if (op == "<" || op == "<=") && !f.Pol && !isFloatTerm(t) {
			if op == "<" {
				op = "<="
			} else {
				op = "<"
			}
			a, b = b, a
			f.Pol = true
		}
		if op == "==" {
			// order operands canonically; nil/const last
			if a.Op == "const" && b.Op != "const" || (a.Op != "const" && b.Op != "const" && a.String() > b.String()) {
				a, b = b, a
			}
		}
		t = &Term{Op: "bin", Name: op, Args: []*Term{a, b}, V: t.V}
	}
	f.T = t
	return f
}

func isFloatTerm(t *Term) bool {
	if t.V == nil {
		return false
	}
	if bo, ok := t.V.(*ssa.BinOp); ok {
		if b, ok := bo.X.Type().Underlying().(*types.Basic); ok {
			return b.Info()&types.IsFloat != 0
		}
	}
	return false
}

type Want int

const (
	WantTrue Want = iota
	WantFalse
	WantNil
	WantNonNil
)

func (w Want) neg() Want {
	switch w {
	case WantTrue:
		return WantFalse
	case WantFalse:
		return WantTrue
	case WantNil:
		return WantNonNil
	}
	return WantNil
}

type Facts struct {
	P        *Prog
	MaxDepth int
	blockIn  map[*ssa.Function]map[*ssa.BasicBlock]FactSet
	retMemo  map[retKey]FactSet
	inProg   map[retKey]bool
	edgeBusy map[[2]*ssa.BasicBlock]bool // edges whose condition facts are being computed (loop-carried conditions)
}

type retKey struct {
	fn   *ssa.Function
	idx  int
	want Want
}

func newFacts(p *Prog, depth int) *Facts {
	return &Facts{P: p, MaxDepth: depth, blockIn: map[*ssa.Function]map[*ssa.BasicBlock]FactSet{}, retMemo: map[retKey]FactSet{}, inProg: map[retKey]bool{}, edgeBusy: map[[2]*ssa.BasicBlock]bool{}}
}

// valueFacts: facts that hold whenever v has the wanted value.
func (fx *Facts) valueFacts(v ssa.Value, want Want, depth int, visiting map[ssa.Value]bool) FactSet {
	switch x := v.(type) {
	case *ssa.Const:
		switch want {
		case WantTrue, WantFalse:
			if x.Value == nil {
				return emptySet()
			}
			b := x.Value.ExactString() == "true"
			if b == (want == WantTrue) {
				return emptySet()
			}
			return bottomSet()
		case WantNil:
			if x.IsNil() {
				return emptySet()
			}
			return bottomSet()
		case WantNonNil:
			if x.IsNil() {
				return bottomSet()
			}
			return emptySet()
		}
	case *ssa.MakeInterface:
		if want == WantNil {
			// an interface made from a concrete value is non-nil
			return bottomSet()
		}
		if want == WantNonNil {
			return emptySet()
		}
	case *ssa.Alloc, *ssa.MakeMap, *ssa.MakeSlice, *ssa.MakeClosure, *ssa.MakeChan:
		if want == WantNil {
			return bottomSet()
		}
		if want == WantNonNil {
			return emptySet()
		}
	case *ssa.ChangeInterface:
		return fx.valueFacts(x.X, want, depth, visiting)
	case *ssa.ChangeType:
		return fx.valueFacts(x.X, want, depth, visiting)
	case *ssa.UnOp:
		if x.Op == token.NOT {
			return fx.valueFacts(x.X, want.neg(), depth, visiting)
		}
		if x.Op == token.MUL {
			if a, ok := x.X.(*ssa.Alloc); ok {
				if sv := singleStore(a); sv != nil {
					return fx.valueFacts(sv, want, depth, visiting)
				}
			}
		}
	case *ssa.Phi:
		if visiting[v] {
			return bottomSet()
		}
		visiting[v] = true
		defer delete(visiting, v)
		res := bottomSet()
		for i, e := range x.Edges {
			ef := fx.valueFacts(e, want, depth, visiting)
			if ef.Bottom {
				continue
			}
			pred := x.Block().Preds[i]
			s := fx.edgeFacts(pred, x.Block(), depth)
			if s.Bottom {
				continue
			}
			if x.Block().Dominates(pred) {
				// back edge: facts about values of an earlier iteration say nothing about the
				// same SSA names in the current one — keep feasibility only
				res = intersect(res, emptySet())
				continue
			}
			s = s.clone()
			s.addAll(ef)
			res = intersect(res, s)
		}
		if !res.Bottom {
			res = res.clone()
			res.add(fx.atom(v, want)) // the phi itself has the wanted value
		}
		return res
	case *ssa.BinOp:
		s := emptySet()
		if want == WantTrue || want == WantFalse {
			s.add(Fact{termOf(v), want == WantTrue})
			// nil-ness of call results
			if x.Op == token.EQL || x.Op == token.NEQ {
				var other ssa.Value
				if c, ok := x.Y.(*ssa.Const); ok && c.IsNil() {
					other = x.X
				} else if c, ok := x.X.(*ssa.Const); ok && c.IsNil() {
					other = x.Y
				}
				if other != nil {
					isNil := (x.Op == token.EQL) == (want == WantTrue)
					w := WantNonNil
					if isNil {
						w = WantNil
					}
					s.addAll(fx.valueFacts(other, w, depth, visiting))
				}
			}
			// short-circuit-free boolean and/or on materialised bools
			if x.Op == token.AND && want == WantTrue || x.Op == token.OR && want == WantFalse {
				if isBool(x.X.Type()) {
					s.addAll(fx.valueFacts(x.X, want, depth, visiting))
					s.addAll(fx.valueFacts(x.Y, want, depth, visiting))
				}
			}
		}
		return s
	case *ssa.Call:
		if want == WantNil || want == WantNonNil {
			if cal := x.Common().StaticCallee(); cal != nil && neverNilResult(cal) {
				if want == WantNil {
					return bottomSet()
				}
				return emptySet()
			}
		}
		s := emptySet()
		s.add(fx.atom(v, want))
		// slices.ContainsFunc(xs, pred) == true  ⇒  pred(e) == true for some element e: the facts that make
		// pred true hold for that element (the element stands in for pred's parameter, the closure's free
		// variables are the creator's values)
		if fn := x.Common().StaticCallee(); fn != nil && want == WantTrue && funcPkgPath(fn) == "slices" && strings.HasPrefix(fn.Name(), "ContainsFunc") && len(x.Common().Args) == 2 {
			if mc, ok := stripConvFacts(x.Common().Args[1]).(*ssa.MakeClosure); ok {
				pf := mc.Fn.(*ssa.Function)
				sum := fx.retFacts(pf, 0, WantTrue, depth+1)
				if !sum.Bottom {
					elem := &Term{Op: "unk", Name: "some element of " + termOf(x.Common().Args[0]).String()}
					for _, f := range sum.M {
						t := substFree(f.T, pf, mc).subst([]*Term{elem})
						s.add(Fact{t, f.Pol})
					}
				}
			}
			return s
		}
		if fn := x.Common().StaticCallee(); fn != nil && fn.Blocks != nil && fx.depthOK(depth) {
			sum := fx.retFacts(fn, 0, want, depth+1)
			// a fact of the callee about a closure it creates does not say which values the closure captured: two
			// calls of the helper with different arguments would yield "the same" fact with opposite polarity
			// (LessEqual written as !slices.ContainsFunc(all, exceeds)); such facts stay inside the callee
			if !sum.Bottom {
				kept := emptySet()
				for _, f := range sum.M {
					mentionsClosure := f.T.Op == "closure" || f.T.contains(func(t *Term) bool { return t.Op == "closure" })
					if !mentionsClosure {
						kept.add(f)
					}
				}
				sum = kept
			}
			s.addAll(substSet(sum, callActuals(x)))
		}
		return s
	case *ssa.Extract:
		s := emptySet()
		s.add(fx.atom(v, want))
		if c, ok := x.Tuple.(*ssa.Call); ok {
			if fn := c.Common().StaticCallee(); fn != nil && fn.Blocks != nil && fx.depthOK(depth) {
				sum := fx.retFacts(fn, x.Index, want, depth+1)
				s.addAll(substSet(sum, callActuals(c)))
			}
		}
		return s
	}
	s := emptySet()
	s.add(fx.atom(v, want))
	return s
}

func stripConvFacts(v ssa.Value) ssa.Value {
	for {
		if ct, ok := v.(*ssa.ChangeType); ok {
			v = ct.X
			continue
		}
		return v
	}
}

func isBool(t types.Type) bool {
	b, ok := t.Underlying().(*types.Basic)
	return ok && b.Kind() == types.Bool
}

func (fx *Facts) atom(v ssa.Value, want Want) Fact {
	t := termOf(v)
	switch want {
	case WantTrue:
		return Fact{t, true}
	case WantFalse:
		return Fact{t, false}
	case WantNil:
		return Fact{&Term{Op: "bin", Name: "==", Args: []*Term{t, mk("const", "nil")}}, true}
	default:
		return Fact{&Term{Op: "bin", Name: "==", Args: []*Term{t, mk("const", "nil")}}, false}
	}
}

func callActuals(c ssa.CallInstruction) []*Term {
	var out []*Term
	for _, a := range c.Common().Args {
		out = append(out, termOf(a))
	}
	return out
}

// substSet imports a callee summary into the caller: facts about callee-local values (phis, allocs,
// loop state) mean nothing outside one invocation — and two invocations would share their names —
// so only facts rooted in the callee's parameters are kept, with the actuals substituted.
func substSet(s FactSet, actuals []*Term) FactSet {
	if s.Bottom {
		return s
	}
	n := emptySet()
	for _, f := range s.M {
		if !f.T.rootedInParams() {
			continue
		}
		n.add(Fact{f.T.subst(actuals), f.Pol})
	}
	return n
}

// retFacts: facts implied by result #idx of fn having the wanted value, over all returns.
func (fx *Facts) retFacts(fn *ssa.Function, idx int, want Want, depth int) FactSet {
	k := retKey{fn, idx, want}
	if r, ok := fx.retMemo[k]; ok {
		return r
	}
	if fx.inProg[k] {
		return emptySet()
	}
	fx.inProg[k] = true
	defer delete(fx.inProg, k)
	res := bottomSet()
	for _, b := range fn.Blocks {
		ret, ok := b.Instrs[len(b.Instrs)-1].(*ssa.Return)
		if !ok || idx >= len(ret.Results) {
			continue
		}
		vf := fx.valueFacts(unspill(ret, idx), want, depth, map[ssa.Value]bool{})
		if vf.Bottom {
			continue
		}
		in := fx.blockFacts(fn, depth)[b]
		if in.Bottom {
			continue
		}
		s := in.clone()
		s.addAll(vf)
		res = intersect(res, s)
	}
	if res.Bottom {
		res = emptySet() // function never returns that value; callers get no facts (conservative)
	}
	fx.retMemo[k] = res
	return res
}

// edgeFacts: facts holding when control flows pred → succ.
func (fx *Facts) edgeFacts(pred, succ *ssa.BasicBlock, depth int) FactSet {
	in := fx.blockFacts(pred.Parent(), depth)[pred]
	if in.Bottom {
		return in
	}
	s := in.clone()
	// a branch condition that is itself carried around a loop (flag = flag || test(x)) leads back to this edge
	// through its φ: the inner query gets the block facts only (fewer facts — never a wrong one)
	ek := [2]*ssa.BasicBlock{pred, succ}
	if fx.edgeBusy[ek] {
		return s
	}
	fx.edgeBusy[ek] = true
	defer delete(fx.edgeBusy, ek)
	if iff, ok := pred.Instrs[len(pred.Instrs)-1].(*ssa.If); ok && pred.Succs[0] != pred.Succs[1] {
		if pred.Succs[0] == succ {
			s.addAll(fx.valueFacts(iff.Cond, WantTrue, depth, map[ssa.Value]bool{}))
		} else {
			s.addAll(fx.valueFacts(iff.Cond, WantFalse, depth, map[ssa.Value]bool{}))
		}
	}
	return s
}

// blockFacts: forward must-dataflow; IN[b] = ∩ preds (IN[p] ∪ edge(p→b)).
func (fx *Facts) blockFacts(fn *ssa.Function, depth int) map[*ssa.BasicBlock]FactSet {
	if m, ok := fx.blockIn[fn]; ok {
		return m
	}
	m := map[*ssa.BasicBlock]FactSet{}
	fx.blockIn[fn] = m
	for _, b := range fn.Blocks {
		m[b] = bottomSet()
	}
	if len(fn.Blocks) == 0 {
		return m
	}
	m[fn.Blocks[0]] = emptySet()
	type edge struct{ p, s *ssa.BasicBlock }
	changed := true
	for iter := 0; changed && iter < 200; iter++ {
		changed = false
		// per-edge condition facts depend (through phis) on the current IN sets: recompute
		cond := map[edge]FactSet{}
		for _, b := range fn.Blocks {
			if iff, ok := b.Instrs[len(b.Instrs)-1].(*ssa.If); ok && b.Succs[0] != b.Succs[1] {
				cond[edge{b, b.Succs[0]}] = fx.valueFacts(iff.Cond, WantTrue, depth, map[ssa.Value]bool{})
				cond[edge{b, b.Succs[1]}] = fx.valueFacts(iff.Cond, WantFalse, depth, map[ssa.Value]bool{})
			}
		}
		for _, b := range fn.Blocks {
			if b == fn.Blocks[0] {
				continue
			}
			acc := bottomSet()
			for _, p := range b.Preds {
				pin := m[p]
				if pin.Bottom {
					continue
				}
				s := pin.clone()
				if c, ok := cond[edge{p, b}]; ok {
					s.addAll(c)
				}
				if s.Bottom {
					continue
				}
				acc = intersect(acc, s)
			}
			if !acc.equal(m[b]) {
				m[b] = acc
				changed = true
			}
		}
	}
	return m
}

// FactsAt: facts established on every path from the function entry to the instruction.
func (fx *Facts) FactsAt(in ssa.Instruction) FactSet {
	fn := in.Parent()
	return fx.blockFacts(fn, 0)[in.Block()]
}

// ---------------------------------------------------------------------------------------------
// Requirements and caller lifting

// Req is a required fact: Match receives the set of facts established at the point under
// inspection and the role terms (in the coordinates of the function under inspection) and
// returns a description of the matching fact.
type Req struct {
	Desc  string
	Match func(fs FactSet, roles []*Term) (string, bool)
}

// reqFact builds a Req from a per-fact predicate.
func reqFact(desc string, pred func(f Fact, roles []*Term) bool) Req {
	return Req{Desc: desc, Match: func(fs FactSet, roles []*Term) (string, bool) {
		f, ok := fs.find(func(f Fact) bool { return pred(f, roles) })
		if ok {
			return f.String(), true
		}
		return "", false
	}}
}

type GuardResult struct {
	OK      bool
	Chain   []string // call chain explored for the failing path
	FailPos token.Pos
	Found   string
}

// Guarded checks that `in` is dominated by a fact matching req; if not found locally the
// obligation is lifted to every call site of the enclosing function (roles translated through
// the actual arguments; facts "bool param == b" that dominate `in` are translated into the
// facts implied by the actual argument having that value), to the given depth. A function with
// no callers fails.
func (fx *Facts) Guarded(in ssa.Instruction, roles []*Term, req Req, liftDepth int) GuardResult {
	return fx.guarded(in, roles, req, liftDepth, emptySet(), map[*ssa.Function]bool{})
}

func (fx *Facts) guarded(in ssa.Instruction, roles []*Term, req Req, liftDepth int, extra FactSet, seen map[*ssa.Function]bool) GuardResult {
	fs := fx.FactsAt(in).clone()
	fs.addAll(extra)
	if fs.Bottom {
		return GuardResult{OK: true, Found: "(unreachable)"}
	}
	if d, ok := req.Match(fs, roles); ok {
		return GuardResult{OK: true, Found: d}
	}
	fn := in.Parent()
	here := funcKey(fn) + " @" + fx.P.Pos(instrPos(in))
	if liftDepth <= 0 {
		return GuardResult{OK: false, Chain: []string{here + " (lift bound reached)"}, FailPos: instrPos(in)}
	}
	if seen[fn] {
		return GuardResult{OK: true, Found: "(recursive caller)"}
	}
	seen[fn] = true
	defer delete(seen, fn)
	// closure: lift to the MakeClosure site in the parent, translating free vars
	if fn.Parent() != nil {
		sites := closureSites(fn)
		if len(sites) == 0 {
			return GuardResult{OK: false, Chain: []string{here + " (closure never created?)"}, FailPos: instrPos(in)}
		}
		for _, mc := range sites {
			nroles := make([]*Term, len(roles))
			for i, r := range roles {
				nroles[i] = substFree(r, fn, mc)
			}
			r := fx.guarded(mc, nroles, req, liftDepth-1, emptySet(), seen)
			if !r.OK {
				r.Chain = append([]string{here}, r.Chain...)
				return r
			}
		}
		return GuardResult{OK: true, Found: "(at every closure creation site)"}
	}
	var sites []ssa.CallInstruction
	for _, c := range fx.P.CallSites(fn) {
		if isTestdataOrMock(c.Parent()) {
			continue
		}
		sites = append(sites, c)
	}
	if len(sites) == 0 {
		return GuardResult{OK: false, Chain: []string{here + " (no guarding fact; no static callers to lift to)"}, FailPos: instrPos(in)}
	}
	found := ""
	for _, c := range sites {
		act := callActuals(c)
		nroles := make([]*Term, len(roles))
		for i, r := range roles {
			nroles[i] = r.subst(act)
		}
		r := fx.guarded(c, nroles, req, liftDepth-1, fx.paramLift(fs, fn, c), seen)
		if !r.OK {
			r.Chain = append([]string{here}, r.Chain...)
			return r
		}
		found = r.Found
	}
	return GuardResult{OK: true, Found: "(at every caller: " + found + ")"}
}

func closureSites(fn *ssa.Function) []*ssa.MakeClosure {
	var out []*ssa.MakeClosure
	par := fn.Parent()
	if par == nil {
		return nil
	}
	for _, b := range par.Blocks {
		for _, in := range b.Instrs {
			if mc, ok := in.(*ssa.MakeClosure); ok && mc.Fn == fn {
				out = append(out, mc)
			}
		}
	}
	return out
}

// substFree rewrites free(name) terms of closure fn into the parent's terms at the creation site.
func substFree(t *Term, fn *ssa.Function, mc *ssa.MakeClosure) *Term {
	if t == nil {
		return nil
	}
	if t.Op == "free" {
		for i, fv := range fn.FreeVars {
			if fv.Name() == t.Name {
				b := mc.Bindings[i]
				if a, ok := b.(*ssa.Alloc); ok {
					if sv := singleStore(a); sv != nil {
						return termOf(sv)
					}
				}
				return termOf(b)
			}
		}
		return t
	}
	if len(t.Args) == 0 {
		return t
	}
	na := make([]*Term, len(t.Args))
	for i, a := range t.Args {
		na[i] = substFree(a, fn, mc)
	}
	return &Term{Op: t.Op, Name: t.Name, Args: na, Fn: t.Fn, M: t.M, V: t.V}
}

// ---------------------------------------------------------------------------------------------
// Matcher helpers

// callIs: fact "call to fn returned pol" (bool call), any args unless argMatch given.
func factCallBool(f Fact, pol bool, isCallee func(*Term) bool) bool {
	return f.Pol == pol && f.T.Op == "call" && isCallee(f.T)
}

// factCallNil: fact "call(...) == nil" with polarity isNil (also through extract).
func factNilOf(f Fact, isNil bool, isCallee func(*Term) bool) bool {
	if f.T.Op != "bin" || f.T.Name != "==" || !f.T.Args[1].isNilConst() || f.Pol != isNil {
		return false
	}
	x := f.T.Args[0]
	if x.Op == "extract" {
		x = x.Args[0]
	}
	return x.Op == "call" && isCallee(x)
}

func calleeNamed(keys ...string) func(*Term) bool {
	return func(t *Term) bool {
		for _, k := range keys {
			if t.Name == k {
				return true
			}
		}
		return false
	}
}

func sameTerm(a, b *Term) bool { return a != nil && b != nil && a.String() == b.String() }

// retPaths: one fact set per feasible way result #idx of fn can take the wanted value
// (per return instruction, and per incoming phi edge when the result is a phi).
type RetPath struct {
	Facts FactSet
	Pos   token.Pos
	Desc  string
}

func (fx *Facts) retPaths(fn *ssa.Function, idx int, want Want) []RetPath {
	var out []RetPath
	for _, b := range fn.Blocks {
		ret, ok := b.Instrs[len(b.Instrs)-1].(*ssa.Return)
		if !ok || idx >= len(ret.Results) {
			continue
		}
		if fx.blockFacts(fn, 0)[b].Bottom {
			continue
		}
		// split the merge at the return block: one fact set per incoming path (bounded)
		for _, in := range fx.pathFactsTo(b, 3) {
			fx.valuePaths(unspill(ret, idx), want, in, instrPos(ret), &out, 0)
		}
	}
	return out
}

func (fx *Facts) valuePaths(v ssa.Value, want Want, base FactSet, pos token.Pos, out *[]RetPath, d int) {
	if phi, ok := v.(*ssa.Phi); ok && d < 4 {
		for i, e := range phi.Edges {
			pred := phi.Block().Preds[i]
			ef := fx.edgeFacts(pred, phi.Block(), 0)
			if ef.Bottom {
				continue
			}
			// the facts at the return block are dominated-by facts; the edge facts are at least as strong
			s := base.clone()
			s.addAll(ef)
			if s.Bottom {
				continue // this combination of incoming path and phi edge is contradictory
			}
			p := pos
			if last := pred.Instrs[len(pred.Instrs)-1]; last.Pos().IsValid() {
				p = last.Pos()
			}
			fx.valuePaths(e, want, s, p, out, d+1)
		}
		return
	}
	vf := fx.valueFacts(v, want, 0, map[ssa.Value]bool{})
	if vf.Bottom {
		return
	}
	s := base.clone()
	s.addAll(vf)
	if s.Bottom {
		return
	}
	*out = append(*out, RetPath{Facts: s, Pos: pos, Desc: termOf(v).String()})
}

// FactsAtLifted: the facts at `in` plus, for one level of caller, nothing — see paramLift.
// paramLift translates facts of the form "bool param k == pol" that dominate `in` into facts
// about the actual argument at call site c (valueFacts(arg, pol)), in the caller's coordinates.
func (fx *Facts) paramLift(local FactSet, callee *ssa.Function, c ssa.CallInstruction) FactSet {
	s := emptySet()
	if local.Bottom {
		return s
	}
	args := c.Common().Args
	for _, f := range local.M {
		if f.T.Op != "param" {
			continue
		}
		var idx int
		if _, err := fmtSscan(f.T.Name, &idx); err != nil || idx < 0 || idx >= len(args) {
			continue
		}
		if !isBool(args[idx].Type()) {
			continue
		}
		w := WantFalse
		if f.Pol {
			w = WantTrue
		}
		vf := fx.valueFacts(args[idx], w, 0, map[ssa.Value]bool{})
		if !vf.Bottom {
			s.addAll(vf)
		}
	}
	return s
}

// depthOK: summaries are memoised per function, so they must not depend on the depth at which
// they were first requested; recursion is cut by the in-progress set only (MaxDepth <= 0 = unbounded).
func (fx *Facts) depthOK(depth int) bool { return true }

// unspill: in functions with defer+recover go/ssa stores each result into an alloc before
// running the defers and returns a load of it; recover the value stored in the same block.
func unspill(ret *ssa.Return, idx int) ssa.Value {
	v := ret.Results[idx]
	u, ok := v.(*ssa.UnOp)
	if !ok || u.Op != token.MUL {
		return v
	}
	a, ok := u.X.(*ssa.Alloc)
	if !ok {
		return v
	}
	instrs := ret.Block().Instrs
	for i := len(instrs) - 1; i >= 0; i-- {
		if st, ok := instrs[i].(*ssa.Store); ok && st.Addr == a {
			return st.Val
		}
	}
	return v
}

// pathFactsTo: the facts on entry to b, split per incoming path: merges are split `depth` levels
// deep (walking back through single-predecessor chains for free), at most 24 sets; each set is sound
// (facts that hold on every execution following that suffix of the path), so a disjunctive requirement
// ("every way of getting here satisfies R1 or R2") can be decided per path instead of on the intersection.
func (fx *Facts) pathFactsTo(b *ssa.BasicBlock, depth int) []FactSet {
	in := fx.blockFacts(b.Parent(), 0)[b]
	budget := 24
	// a path also remembers, for every φ of a merge block it came through, which operand the φ had on that path: a
	// later branch on that φ (a condition folded into a named boolean by && / ||) is then decided by the operand
	type pathSet struct {
		fs   FactSet
		bind map[*ssa.Phi]ssa.Value
	}
	var rec func(b *ssa.BasicBlock, depth, steps int) []pathSet
	rec = func(b *ssa.BasicBlock, depth, steps int) []pathSet {
		cur := fx.blockFacts(b.Parent(), 0)[b]
		if len(b.Preds) == 0 || steps > 12 || loopHeaderOf(b) == b || (len(b.Preds) > 1 && depth <= 0) {
			return []pathSet{{cur, nil}}
		}
		nd := depth
		if len(b.Preds) > 1 {
			nd--
		}
		var out []pathSet
		for pi, p := range b.Preds {
			if b.Dominates(p) {
				return []pathSet{{cur, nil}} // back edge
			}
			for _, pp := range rec(p, nd, steps+1) {
				if pp.fs.Bottom {
					continue
				}
				s := pp.fs.clone()
				bind := map[*ssa.Phi]ssa.Value{}
				for k, v := range pp.bind {
					bind[k] = v
				}
				if len(b.Preds) > 1 {
					for _, in := range b.Instrs {
						phi, isPhi := in.(*ssa.Phi)
						if !isPhi {
							break
						}
						if pi < len(phi.Edges) {
							bind[phi] = phi.Edges[pi]
						}
					}
				}
				infeasible := false
				if iff, ok := p.Instrs[len(p.Instrs)-1].(*ssa.If); ok && p.Succs[0] != p.Succs[1] {
					w := WantFalse
					if p.Succs[0] == b {
						w = WantTrue
					}
					cond := iff.Cond
					for {
						if u, isNot := cond.(*ssa.UnOp); isNot && u.Op == token.NOT {
							cond, w = u.X, w.neg()
							continue
						}
						break
					}
					if phi, isPhi := cond.(*ssa.Phi); isPhi && pp.bind[phi] != nil {
						cond = pp.bind[phi]
					}
					if k, isC := cond.(*ssa.Const); isC && k.Value != nil && k.Value.Kind() == constant.Bool {
						if constant.BoolVal(k.Value) != (w == WantTrue) {
							infeasible = true
						}
					} else {
						s.addAll(fx.valueFacts(cond, w, 0, map[ssa.Value]bool{}))
					}
				}
				if !s.Bottom && !infeasible {
					out = append(out, pathSet{s, bind})
				}
			}
			if len(out) > budget {
				return []pathSet{{cur, nil}}
			}
		}
		if len(out) == 0 {
			return []pathSet{{cur, nil}}
		}
		return out
	}
	var out []FactSet
	for _, ps := range rec(b, depth, 0) {
		out = append(out, ps.fs)
	}
	if len(out) > budget {
		return []FactSet{in}
	}
	// every split set must at least contain the dataflow facts of b (they hold on all paths)
	for i := range out {
		if !in.Bottom {
			out[i].addAll(in)
		}
	}
	var res []FactSet
	for _, s := range out {
		if !s.Bottom {
			res = append(res, s)
		}
	}
	if len(res) == 0 {
		return []FactSet{in}
	}
	return res
}

// neverNilResult: library constructors of errors whose result is never nil.
func neverNilResult(fn *ssa.Function) bool {
	switch funcPkgPath(fn) + "." + fn.Name() {
	case "fmt.Errorf", "errors.New", "github.com/pkg/errors.New", "github.com/pkg/errors.Errorf", "github.com/pkg/errors.WithStack":
		return true
	}
	return false
}
