package main

// FIELDFLOW: a boolean struct field that carries a decision ("this placement needs releasing
// capacity") from a selector function to the consumer. Every store to the field must be justified:
// the stored value can be false only if the required fact holds (directly, or through another
// instance's flag being false), a true is never dropped by an accumulating store, and the only
// unconditional false is the initialiser of an accumulator.

import (
	"fmt"
	"go/token"
	"go/types"

	"golang.org/x/tools/go/ssa"
)

type FieldStore struct {
	Store *ssa.Store
	Base  ssa.Value
	Val   ssa.Value
	Fn    *ssa.Function
}

func (p *Prog) FieldStores(field *types.Var) []FieldStore {
	var out []FieldStore
	for _, f := range p.AllFuncs {
		for _, b := range f.Blocks {
			for _, in := range b.Instrs {
				st, ok := in.(*ssa.Store)
				if !ok {
					continue
				}
				fa, ok := st.Addr.(*ssa.FieldAddr)
				if !ok {
					continue
				}
				if fv := fieldOfAddr(fa); fv != nil && fv == field {
					out = append(out, FieldStore{st, fa.X, st.Val, f})
				}
			}
		}
	}
	return out
}

type pairNT struct{ N, T *Term }

func (p pairNT) String() string { return "(" + p.N.String() + ", " + p.T.String() + ")" }

type flagFlow struct {
	c      *Ctx
	field  *types.Var
	direct func(f Fact) (pairNT, bool) // recognises the justifying fact, returns its (node, task) terms
	stores []FieldStore
	jmemo  map[*ssa.Store][]pairNT
	inprog map[*ssa.Store]bool
}

func newFlagFlow(c *Ctx, field *types.Var, direct func(f Fact) (pairNT, bool)) *flagFlow {
	return &flagFlow{c: c, field: field, direct: direct, stores: c.P.FieldStores(field), jmemo: map[*ssa.Store][]pairNT{}, inprog: map[*ssa.Store]bool{}}
}

func (ff *flagFlow) isFlagFalse(f Fact) (*Term, bool) {
	if f.Pol || f.T.Op != "field" || f.T.Name != ff.field.Name() {
		return nil, false
	}
	// the field must be the tracked one: check through the originating value when available
	if f.T.V != nil {
		switch x := f.T.V.(type) {
		case *ssa.UnOp:
			if fa, ok := x.X.(*ssa.FieldAddr); ok && fieldOfAddr(fa) != ff.field {
				return nil, false
			}
		case *ssa.FieldAddr:
			if fieldOfAddr(x) != ff.field {
				return nil, false
			}
		}
	}
	return f.T.Args[0], true
}

// pairsFrom returns the (node, task) pairs a fact set establishes, in its own coordinates.
func (ff *flagFlow) pairsFrom(fs FactSet, exceptBase *Term, depth int) []pairNT {
	var out []pairNT
	for _, f := range fs.sorted() {
		if p, ok := ff.direct(f); ok {
			out = append(out, p)
			continue
		}
		if x, ok := ff.isFlagFalse(f); ok && depth < 4 {
			if exceptBase != nil && sameTerm(x, exceptBase) {
				continue
			}
			if x.Op == "call" && x.Fn != nil {
				out = append(out, ff.summary(x.Fn, x.Args, depth+1)...)
			}
		}
	}
	return out
}

// summary: pairs common to every justified store inside function g (substituted by actuals).
func (ff *flagFlow) summary(g *ssa.Function, actuals []*Term, depth int) []pairNT {
	var common map[string]pairNT
	n := 0
	for _, s := range ff.stores {
		if s.Fn != g {
			continue
		}
		if c, ok := s.Val.(*ssa.Const); ok {
			_ = c
			continue // constants are judged by the store rule itself
		}
		n++
		cur := map[string]pairNT{}
		for _, p := range ff.storePairs(s, depth) {
			q := pairNT{p.N.subst(actuals), p.T.subst(actuals)}
			cur[q.String()] = q
		}
		if common == nil {
			common = cur
		} else {
			for k := range common {
				if _, ok := cur[k]; !ok {
					delete(common, k)
				}
			}
		}
	}
	// stores made on g's behalf: g hands the object to a helper / method that stores into its flag
	for _, b := range ff.behalfStores(g) {
		n++
		cur := map[string]pairNT{}
		for _, p := range ff.behalfPairs(b, depth) {
			q := pairNT{p.N.subst(actuals), p.T.subst(actuals)}
			cur[q.String()] = q
		}
		if common == nil {
			common = cur
		} else {
			for k := range common {
				if _, ok := cur[k]; !ok {
					delete(common, k)
				}
			}
		}
	}
	var out []pairNT
	if n == 0 {
		return nil
	}
	for _, p := range common {
		out = append(out, p)
	}
	return out
}

// behalfStore: a non-constant store into the flag of an object that the storing function received as a parameter,
// seen from one static call site of that function.
type behalfStore struct {
	s  FieldStore
	cs ssa.CallInstruction
}

// behalfStores lists the stores made for g by the module functions it calls directly.
func (ff *flagFlow) behalfStores(g *ssa.Function) []behalfStore {
	var out []behalfStore
	for _, b := range g.Blocks {
		for _, in := range b.Instrs {
			cs, ok := in.(ssa.CallInstruction)
			if !ok {
				continue
			}
			h := cs.Common().StaticCallee()
			if h == nil || h == g || len(h.Blocks) == 0 || !hasModPrefix(h) {
				continue
			}
			for _, s := range ff.stores {
				if s.Fn != h {
					continue
				}
				if _, isPrm := s.Base.(*ssa.Parameter); !isPrm {
					continue
				}
				if _, isConst := s.Val.(*ssa.Const); isConst {
					continue
				}
				out = append(out, behalfStore{s, cs})
			}
		}
	}
	return out
}

// behalfPairs: what the store establishes when the stored value is false, in the coordinates of the call site's
// function: the helper's facts with its parameters replaced by the actual arguments (so the flag of a call result
// handed in resolves through that call's summary).
func (ff *flagFlow) behalfPairs(b behalfStore, depth int) []pairNT {
	fs := ff.storeFacts(b.s)
	if fs.Bottom {
		return nil
	}
	act := callActuals(b.cs)
	return ff.pairsFrom(substSet(fs, act), termOf(b.s.Base).subst(act), depth+1)
}

// callSitesOf lists the static call sites of fn in the module.
func (ff *flagFlow) callSitesOf(fn *ssa.Function) []ssa.CallInstruction {
	var out []ssa.CallInstruction
	for _, f := range ff.c.P.AllFuncs {
		for _, b := range f.Blocks {
			for _, in := range b.Instrs {
				if cs, ok := in.(ssa.CallInstruction); ok && cs.Common().StaticCallee() == fn {
					out = append(out, cs)
				}
			}
		}
	}
	return out
}

func (ff *flagFlow) storeFacts(s FieldStore) FactSet {
	fs := ff.c.Fx.FactsAt(s.Store).clone()
	fs.addAll(ff.c.Fx.valueFacts(s.Val, WantFalse, 0, map[ssa.Value]bool{}))
	return fs
}

func (ff *flagFlow) storePairs(s FieldStore, depth int) []pairNT {
	if r, ok := ff.jmemo[s.Store]; ok {
		return r
	}
	if ff.inprog[s.Store] {
		return nil
	}
	ff.inprog[s.Store] = true
	defer delete(ff.inprog, s.Store)
	fs := ff.storeFacts(s)
	var r []pairNT
	if !fs.Bottom {
		r = ff.pairsFrom(fs, termOf(s.Base), depth)
	}
	ff.jmemo[s.Store] = r
	return r
}

// check emits one obligation per store.
func (ff *flagFlow) check(id string, what string) int {
	c := ff.c
	byBase := map[ssa.Value][]FieldStore{}
	for _, s := range ff.stores {
		byBase[s.Base] = append(byBase[s.Base], s)
	}
	n := 0
	for _, s := range ff.stores {
		if isTestdataOrMock(s.Fn) {
			continue
		}
		n++
		c.Analysed(funcKey(s.Fn))
		idx := 0
		for i, o := range byBase[s.Base] {
			if o.Store == s.Store {
				idx = i
			}
		}
		construct := fmt.Sprintf("%s: store#%d to %s.%s", funcKey(s.Fn), idx, typeKey(s.Base.Type()), ff.field.Name())
		pos := instrPos(s.Store)
		siblings := byBase[s.Base]
		nonConst := 0
		for _, o := range siblings {
			if _, ok := o.Val.(*ssa.Const); !ok {
				nonConst++
			}
		}
		if k, ok := s.Val.(*ssa.Const); ok {
			if k.Value != nil && k.Value.ExactString() == "true" {
				c.Hold(id, "FIELDFLOW", construct, pos, "constant true needs no justification")
				continue
			}
			// constant false: only as accumulator initialiser
			nBehalf := 0
			for _, b := range ff.behalfStores(s.Fn) {
				if i := paramIndexOf(b.s.Base.(*ssa.Parameter)); i >= 0 && i < len(b.cs.Common().Args) && b.cs.Common().Args[i] == s.Base {
					nBehalf++
				}
			}
			if nonConst > 0 && len(siblings) > 1 {
				c.Hold(id, "FIELDFLOW", construct, pos, fmt.Sprintf("constant false is the initialiser of an accumulator (%d accumulating stores on the same object)", nonConst))
			} else if nBehalf > 0 {
				c.Hold(id, "FIELDFLOW", construct, pos, fmt.Sprintf("constant false is the initialiser of an accumulator (%d accumulating stores on the same object in the helpers it is handed to)", nBehalf))
			} else {
				c.Viol(id, "FIELDFLOW", construct, pos, "unconditional false stored into "+ff.field.Name()+": "+what+" is claimed without any test")
			}
			continue
		}
		fs := ff.storeFacts(s)
		if fs.Bottom {
			c.Hold(id, "FIELDFLOW", construct, pos, "stored value can never be false")
			continue
		}
		pairs := ff.storePairs(s, 0)
		if _, isPrm := s.Base.(*ssa.Parameter); isPrm && len(pairs) == 0 {
			// a helper that stores into an object it was handed: judged at each of its call sites
			sites := ff.callSitesOf(s.Fn)
			okAll := len(sites) > 0
			for _, cs := range sites {
				if len(ff.behalfPairs(behalfStore{s, cs}, 0)) == 0 {
					okAll = false
					pos = instrPos(cs)
				}
			}
			if okAll {
				_, prev := fs.find(func(f Fact) bool {
					x, ok := ff.isFlagFalse(f)
					return ok && sameTerm(x, termOf(s.Base))
				})
				if !prev {
					c.Viol(id, "FIELDFLOW", construct, pos, fmt.Sprintf("accumulating store can overwrite an earlier true of %s (stored value false does not imply previous value false)", ff.field.Name()))
				} else {
					c.Hold(id, "FIELDFLOW", construct, pos, fmt.Sprintf("false only with the justification at each of its %d call sites", len(sites)))
				}
				continue
			}
		}
		if len(pairs) == 0 {
			c.Viol(id, "FIELDFLOW", construct, pos, fmt.Sprintf("value stored into %s can be false without %s; facts when false: %s", ff.field.Name(), what, trunc(fs.String(), 400)))
			continue
		}
		// accumulating store must preserve a previous true
		if len(siblings) > 1 {
			base := termOf(s.Base)
			_, prev := fs.find(func(f Fact) bool {
				x, ok := ff.isFlagFalse(f)
				return ok && sameTerm(x, base)
			})
			if !prev {
				c.Viol(id, "FIELDFLOW", construct, pos, fmt.Sprintf("accumulating store can overwrite an earlier true of %s (stored value false does not imply previous value false)", ff.field.Name()))
				continue
			}
		}
		c.Hold(id, "FIELDFLOW", construct, pos, "false only with "+pairs[0].String())
	}
	return n
}

func trunc(s string, n int) string {
	if len(s) > n {
		return s[:n] + "…"
	}
	return s
}

var _ = token.NoPos
