package main

// FIELDS engine: which fields of a struct type a function references (through which parameter),
// optionally descending into repo callees. CONST helpers: compile-time constant values.

import (
	"go/constant"
	"go/types"
	"sort"
	"strings"

	"golang.org/x/tools/go/ssa"
)

// rootParam returns the index of the parameter a term is rooted at (leftmost leaf), -1 if none.
func rootParam(t *Term) int {
	for t != nil {
		if t.Op == "param" {
			return t.paramIndex()
		}
		if len(t.Args) == 0 {
			return -1
		}
		t = t.Args[0]
	}
	return -1
}

// fieldRefs: struct field → set of root parameter indexes through which fn reads or writes it.
// Callees in the repo are followed to `depth`, mapping their parameters back to fn's.
func fieldRefs(fn *ssa.Function, depth int) map[*types.Var]map[int]bool {
	out := map[*types.Var]map[int]bool{}
	add := func(f *types.Var, idx int) {
		if out[f] == nil {
			out[f] = map[int]bool{}
		}
		out[f][idx] = true
	}
	for _, b := range fn.Blocks {
		for _, in := range b.Instrs {
			switch x := in.(type) {
			case *ssa.FieldAddr:
				if f := fieldOfAddr(x); f != nil {
					add(f, rootParam(termOf(x.X)))
				}
			case *ssa.Field:
				if f := fieldOfVal(x); f != nil {
					add(f, rootParam(termOf(x.X)))
				}
			case ssa.CallInstruction:
				if depth <= 0 {
					continue
				}
				cal := calleeOf(x)
				if cal == nil || cal.Blocks == nil || !strings.HasPrefix(funcPkgPath(cal), modPath) {
					continue
				}
				sub := fieldRefs(cal, depth-1)
				args := x.Common().Args
				for f, idxs := range sub {
					for i := range idxs {
						if i >= 0 && i < len(args) {
							add(f, rootParam(termOf(args[i])))
						} else {
							add(f, -1)
						}
					}
				}
			}
		}
	}
	return out
}

// structFields lists the fields of a named struct type (not descending into embedded structs).
func structFields(t types.Type) []*types.Var {
	st, ok := t.Underlying().(*types.Struct)
	if !ok {
		return nil
	}
	var out []*types.Var
	for i := 0; i < st.NumFields(); i++ {
		out = append(out, st.Field(i))
	}
	return out
}

func (p *Prog) ConstVal(pkgRel, name string) constant.Value {
	if c, ok := p.Obj(pkgRel, name).(*types.Const); ok {
		return c.Val()
	}
	return nil
}

func (p *Prog) ConstInt(pkgRel, name string) (int64, bool) {
	v := p.ConstVal(pkgRel, name)
	if v == nil {
		return 0, false
	}
	return constant.Int64Val(constant.ToInt(v))
}

func (p *Prog) ConstString(pkgRel, name string) (string, bool) {
	v := p.ConstVal(pkgRel, name)
	if v == nil || v.Kind() != constant.String {
		return "", false
	}
	return constant.StringVal(v), true
}

func sortedKeys[M ~map[string]V, V any](m M) []string {
	var ks []string
	for k := range m {
		ks = append(ks, k)
	}
	sort.Strings(ks)
	return ks
}
