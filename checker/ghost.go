package main

// GHOST engine: finite-state abstract interpretation of one function with a ghost bit.
//
// Many obligations have the form "if ANY element of a loop fails the per-element test, the function answers
// false" (∀-loops: every level label present, no victim still evicted, every pod set satisfied). Return-fact
// summaries drop facts at loop back edges, so they cannot see whether a verdict is *sticky* across iterations:
// `ok = test(x)` overwritten on every iteration and `if !test(x) { return false }` look the same to them.
//
// The engine interprets the SSA of the function over the abstraction
//     (block, predecessor, ghost bit, three-valued valuation of the boolean SSA values)
// A designated *event* (an instruction defining a boolean, with the polarity that counts as "element failed") is
// evaluated nondeterministically; the failing outcome sets the ghost bit. Every other boolean is computed from
// constants, φ-nodes (by the predecessor actually taken), negation and boolean operators, and is ⊤ (unknown)
// otherwise; a branch on ⊤ follows both successors and refines the value on each. The state space is finite, so the
// exploration is a fixpoint over *all* iteration counts — no unrolling bound. Module callees that contain an event
// (or a forbidden instruction) are interpreted recursively and summarised as a set of (ghost out, boolean result)
// outcomes per ghost-in; `slices.ContainsFunc(s, f)` is modelled as the loop it is.
//
// Obligations that can be stated: while the ghost bit is set (a) the function must not return a result that may
// differ from the required one, (b) a forbidden instruction must not execute; a reset instruction (e.g. the head
// of an enclosing loop over independent elements) clears the bit. Nothing is run; the domain is finite.

import (
	"fmt"
	"go/constant"
	"go/token"
	"go/types"
	"sort"
	"strings"

	"golang.org/x/tools/go/ssa"
)

type tri int8

const (
	triTop tri = iota
	triT
	triF
)

func (t tri) String() string { return [...]string{"⊤", "true", "false"}[t] }
func triOf(b bool) tri {
	if b {
		return triT
	}
	return triF
}
func (t tri) not() tri {
	switch t {
	case triT:
		return triF
	case triF:
		return triT
	}
	return triTop
}

type ghostSpec struct {
	// Event reports whether in defines a per-element boolean; badWhen is the polarity that sets the ghost bit.
	Event func(in ssa.Instruction) (v ssa.Value, badWhen bool, ok bool)
	// Reset clears the ghost bit (optional).
	Reset func(in ssa.Instruction) bool
	// Forbidden must not execute while the ghost bit is set (optional).
	Forbidden func(in ssa.Instruction) bool
	// ResultIdx ≥ 0: while the ghost bit is set, result #ResultIdx of the root must equal BadResult.
	ResultIdx int
	BadResult tri
	// Capture: the instruction's value remembers the ghost bit (a checkpoint); Restore: the instruction sets the ghost
	// bit back to what the given captured value remembers (a rollback to that checkpoint). Optional.
	Capture func(in ssa.Instruction) bool
	Restore func(in ssa.Instruction) (captured ssa.Value, ok bool)
	// MaxDepth: how deep module callees are interpreted (default 3).
	MaxDepth int
}

func (sp *ghostSpec) maxDepth() int {
	if sp.MaxDepth > 0 {
		return sp.MaxDepth
	}
	return 3
}

// isTracked: booleans, and error values by nil-ness (true = non-nil).
func isTracked(t types.Type) bool {
	if isBoolType(t) {
		return true
	}
	return types.Identical(t, types.Universe.Lookup("error").Type())
}

type ghostFinding struct {
	Kind string // "return" | "forbidden"
	Pos  token.Pos
	Path string
	Val  tri
}

type ghostOutcome struct {
	Ghost bool
	Res   tri
}

type ghostRun struct {
	p      *Prog
	spec   *ghostSpec
	memo   map[string][]ghostOutcome
	active map[string]bool
	done   map[string]bool
	grew   bool
	hasEv  map[*ssa.Function]bool
	Events int
	States int
	Undec  string
	Finds  []ghostFinding
}

type ghostState struct {
	blk, pred *ssa.BasicBlock
	ghost     bool
	env       map[ssa.Value]tri
	num       map[ssa.Value]absN // sign abstraction of counters and slice lengths
	parent    *ghostState
}

// absN: abstraction of a non-negative quantity (a counter started at 0, the length of a slice): zero / positive.
type absN int8

const (
	nTop absN = iota
	nZero
	nPos
)

func (n absN) String() string { return [...]string{"⊤", "0", ">0"}[n] }

func (s *ghostState) key() string {
	var parts []string
	for v, t := range s.env {
		if t != triTop {
			parts = append(parts, v.Name()+"="+t.String())
		}
	}
	for v, t := range s.num {
		if t != nTop {
			parts = append(parts, v.Name()+"#"+t.String())
		}
	}
	sort.Strings(parts)
	pi := -1
	if s.pred != nil {
		pi = s.pred.Index
	}
	return fmt.Sprintf("%d<%d g%v %s", s.blk.Index, pi, s.ghost, strings.Join(parts, ","))
}

func (s *ghostState) fork() *ghostState {
	n := &ghostState{blk: s.blk, pred: s.pred, ghost: s.ghost, env: make(map[ssa.Value]tri, len(s.env)+2), parent: s.parent}
	for k, v := range s.env {
		n.env[k] = v
	}
	if len(s.num) > 0 {
		n.num = make(map[ssa.Value]absN, len(s.num)+1)
		for k, v := range s.num {
			n.num[k] = v
		}
	}
	return n
}

func (s *ghostState) setNum(v ssa.Value, n absN) {
	if s.num == nil {
		s.num = map[ssa.Value]absN{}
	}
	s.num[v] = n
}

// evalNum: sign abstraction of an integer counter or of a slice (its length).
func (s *ghostState) evalNum(v ssa.Value) absN {
	switch x := v.(type) {
	case *ssa.Const:
		if x.Value == nil {
			return nZero // nil slice / zero value
		}
		if x.Value.Kind() == constant.Int {
			switch constant.Sign(x.Value) {
			case 0:
				return nZero
			case 1:
				return nPos
			}
		}
		return nTop
	}
	if n, ok := s.num[v]; ok {
		return n
	}
	return nTop
}

func isCountable(t types.Type) bool {
	switch u := t.Underlying().(type) {
	case *types.Basic:
		return u.Info()&types.IsInteger != 0
	case *types.Slice:
		return true
	}
	return false
}

// stepNum computes the abstraction of a value-defining instruction over counters and slices.
func (s *ghostState) stepNum(in ssa.Instruction, pred *ssa.BasicBlock) {
	switch x := in.(type) {
	case *ssa.Phi:
		if isCountable(x.Type()) {
			val := nTop
			for pi, pb := range x.Block().Preds {
				if pb == pred {
					val = s.evalNum(x.Edges[pi])
				}
			}
			s.setNum(x, val)
		}
	case *ssa.BinOp:
		if x.Op == token.ADD && isCountable(x.Type()) {
			a, b := s.evalNum(x.X), s.evalNum(x.Y)
			switch {
			case a == nZero && b == nZero:
				s.setNum(x, nZero)
			case (a == nPos && b != nTop) || (b == nPos && a != nTop):
				s.setNum(x, nPos)
			default:
				s.setNum(x, nTop)
			}
		} else if isCountable(x.Type()) {
			s.setNum(x, nTop)
		}
	case *ssa.MakeSlice:
		s.setNum(x, s.evalNum(x.Len))
	case *ssa.Slice:
		// s[:] of a fresh array literal (how `append(x, e)` passes e): non-empty unless bounds say otherwise
		if _, ok := x.X.(*ssa.Alloc); ok && x.Low == nil && x.High == nil {
			s.setNum(x, nPos)
		} else {
			s.setNum(x, nTop)
		}
	case *ssa.Call:
		if b, ok := x.Call.Value.(*ssa.Builtin); ok {
			switch b.Name() {
			case "append":
				a, e := s.evalNum(x.Call.Args[0]), nZero
				if len(x.Call.Args) > 1 {
					e = s.evalNum(x.Call.Args[1])
				}
				switch {
				case e == nPos:
					s.setNum(x, nPos)
				case a == nPos:
					s.setNum(x, nPos)
				case a == nZero && e == nZero:
					s.setNum(x, nZero)
				default:
					s.setNum(x, nTop)
				}
			case "len":
				s.setNum(x, s.evalNum(x.Call.Args[0]))
			}
		} else if isCountable(x.Type()) {
			s.setNum(x, nTop)
		}
	}
}

// cmpNum: x op c for an abstract non-negative x and a small constant c.
func cmpNum(op token.Token, x absN, c int64) tri {
	if x == nTop {
		return triTop
	}
	isZero := x == nZero
	switch c {
	case 0:
		switch op {
		case token.EQL, token.LEQ:
			return triOf(isZero)
		case token.NEQ, token.GTR:
			return triOf(!isZero)
		case token.GEQ:
			return triT
		case token.LSS:
			return triF
		}
	case 1:
		switch op {
		case token.LSS:
			return triOf(isZero)
		case token.GEQ:
			return triOf(!isZero)
		}
	}
	return triTop
}

func flipCmp(op token.Token) token.Token {
	switch op {
	case token.LSS:
		return token.GTR
	case token.GTR:
		return token.LSS
	case token.LEQ:
		return token.GEQ
	case token.GEQ:
		return token.LEQ
	}
	return op
}

func (r *ghostRun) pathOf(s *ghostState) string {
	var lines []string
	last := ""
	for x := s; x != nil; x = x.parent {
		l := "b" + fmt.Sprint(x.blk.Index)
		for _, in := range x.blk.Instrs {
			if in.Pos().IsValid() {
				l = fmt.Sprintf("%d", r.p.Fset.Position(in.Pos()).Line)
				break
			}
		}
		if l != last {
			lines = append(lines, l)
			last = l
		}
		if len(lines) > 14 {
			break
		}
	}
	for i, j := 0, len(lines)-1; i < j; i, j = i+1, j-1 {
		lines[i], lines[j] = lines[j], lines[i]
	}
	return "lines " + strings.Join(lines, "→")
}

// containsEvent: fn (or a module callee / closure, depth ≤ 3) contains an event, reset or forbidden instruction.
func (r *ghostRun) containsEvent(fn *ssa.Function, depth int) bool {
	if fn == nil || fn.Blocks == nil {
		return false
	}
	if v, ok := r.hasEv[fn]; ok {
		return v
	}
	r.hasEv[fn] = false
	found := false
	for _, b := range fn.Blocks {
		for _, in := range b.Instrs {
			if _, _, ok := r.spec.Event(in); ok {
				found = true
			}
			if r.spec.Forbidden != nil && r.spec.Forbidden(in) {
				found = true
			}
			if r.spec.Reset != nil && r.spec.Reset(in) {
				found = true
			}
			if r.spec.Restore != nil {
				if _, ok := r.spec.Restore(in); ok {
					found = true
				}
			}
			if depth < r.spec.maxDepth() {
				if c, ok := in.(ssa.CallInstruction); ok {
					if cal := calleeOf(c); cal != nil && strings.HasPrefix(funcPkgPath(cal), modPath) && r.containsEvent(cal, depth+1) {
						found = true
					}
					for _, a := range c.Common().Args {
						if cf := closureFn(a); cf != nil && r.containsEvent(cf, depth+1) {
							found = true
						}
					}
				}
			}
		}
	}
	r.hasEv[fn] = found
	return found
}

func closureFn(v ssa.Value) *ssa.Function {
	switch x := v.(type) {
	case *ssa.MakeClosure:
		if f, ok := x.Fn.(*ssa.Function); ok {
			return f
		}
	case *ssa.Function:
		return x
	case *ssa.ChangeType:
		return closureFn(x.X)
	case *ssa.MakeInterface:
		return closureFn(x.X)
	}
	return nil
}

func boolResultIndex(fn *ssa.Function) int {
	res := fn.Signature.Results()
	idx := -1
	for i := 0; i < res.Len(); i++ {
		if isBoolType(res.At(i).Type()) {
			if idx >= 0 {
				return -1
			}
			idx = i
		}
	}
	return idx
}

// ghostVerdict runs the engine on fn (root). Findings are violations; Undec != "" means the engine could not decide.
func (p *Prog) ghostVerdict(fn *ssa.Function, spec *ghostSpec) *ghostRun {
	r := &ghostRun{p: p, spec: spec, memo: map[string][]ghostOutcome{}, active: map[string]bool{}, hasEv: map[*ssa.Function]bool{}}
	if fn == nil || fn.Blocks == nil {
		r.Undec = "no body"
		return r
	}
	// summaries of (mutually) recursive callees are a least fixpoint: repeat until no outcome set grows
	for round := 0; round < 12; round++ {
		r.grew = false
		r.done = map[string]bool{}
		r.Finds = nil
		r.Events = 0
		r.run(fn, false, spec.ResultIdx, true, 0, nil)
		if !r.grew || r.Undec != "" {
			return r
		}
	}
	r.Undec = "callee summaries did not stabilise"
	return r
}

// run interprets fn from its entry with the given ghost-in; returns the outcome set. For the root, returns with the
// ghost bit set are checked against the spec.
func (r *ghostRun) run(fn *ssa.Function, ghostIn bool, resIdx int, root bool, depth int, binds map[ssa.Value]*ssa.Function) []ghostOutcome {
	mk := fmt.Sprintf("%s|%v|%d|%s", funcKey(fn), ghostIn, resIdx, bindsKey(binds))
	if !root {
		if r.done[mk] || r.active[mk] {
			return r.memo[mk] // recursion: the current approximation (grows over the rounds)
		}
		if depth > r.spec.maxDepth() {
			// depth bound: unknown effect — any ghost, any result
			return []ghostOutcome{{ghostIn, triTop}, {true, triTop}}
		}
		r.active[mk] = true
		defer delete(r.active, mk)
	}
	outs := map[ghostOutcome]bool{}
	seen := map[string]bool{}
	work := []*ghostState{{blk: fn.Blocks[0], ghost: ghostIn, env: map[ssa.Value]tri{}}}
	for len(work) > 0 {
		s := work[len(work)-1]
		work = work[:len(work)-1]
		k := s.key()
		if seen[k] {
			continue
		}
		seen[k] = true
		r.States++
		if r.States > 200000 {
			r.Undec = "state bound exceeded in " + funcKey(fn)
			break
		}
		// a block may fork into several states at events/calls: process with an explicit list
		r.execBlock(fn, s, 0, resIdx, root, depth, outs, &work, binds)
	}
	var res []ghostOutcome
	for o := range outs {
		res = append(res, o)
	}
	sort.Slice(res, func(i, j int) bool {
		if res[i].Ghost != res[j].Ghost {
			return !res[i].Ghost
		}
		return res[i].Res < res[j].Res
	})
	if !root {
		old := map[ghostOutcome]bool{}
		for _, o := range r.memo[mk] {
			old[o] = true
		}
		for _, o := range res {
			if !old[o] {
				r.grew = true
				old[o] = true
			}
		}
		res = res[:0]
		for o := range old {
			res = append(res, o)
		}
		sort.Slice(res, func(i, j int) bool {
			if res[i].Ghost != res[j].Ghost {
				return !res[i].Ghost
			}
			return res[i].Res < res[j].Res
		})
		r.memo[mk] = res
		r.done[mk] = true
	}
	return res
}

func (s *ghostState) eval(v ssa.Value) tri {
	switch x := v.(type) {
	case *ssa.Const:
		if x.Value != nil && x.Value.Kind() == constant.Bool {
			return triOf(constant.BoolVal(x.Value))
		}
		if x.Value == nil && isTracked(x.Type()) {
			return triF // nil error
		}
		return triTop
	}
	if t, ok := s.env[v]; ok {
		return t
	}
	return triTop
}

func (r *ghostRun) execBlock(fn *ssa.Function, s *ghostState, from int, resIdx int, root bool, depth int, outs map[ghostOutcome]bool, work *[]*ghostState, binds map[ssa.Value]*ssa.Function) {
	b := s.blk
	for i := from; i < len(b.Instrs); i++ {
		in := b.Instrs[i]
		if r.spec.Reset != nil && r.spec.Reset(in) {
			s.ghost = false
		}
		if r.spec.Forbidden != nil && s.ghost && r.spec.Forbidden(in) {
			r.Finds = append(r.Finds, ghostFinding{Kind: "forbidden", Pos: instrPos(in), Path: r.pathOf(s)})
		}
		if r.spec.Capture != nil && r.spec.Capture(in) {
			if v, ok := in.(ssa.Value); ok {
				s.env[v] = triOf(s.ghost)
			}
		}
		if r.spec.Restore != nil {
			if cv, ok := r.spec.Restore(in); ok {
				switch s.eval(cv) {
				case triT:
					s.ghost = true
				case triF:
					s.ghost = false
				}
			}
		}
		if v, badWhen, ok := r.spec.Event(in); ok {
			r.Events++
			for _, val := range []bool{true, false} {
				n := s.fork()
				n.env[v] = triOf(val)
				if val == badWhen {
					n.ghost = true
				}
				r.execBlock(fn, n, i+1, resIdx, root, depth, outs, work, binds)
			}
			return
		}
		s.stepNum(in, s.pred)
		switch x := in.(type) {
		case *ssa.Phi:
			if isTracked(x.Type()) || (r.spec.Capture != nil && s.hasCaptured(x)) {
				val := triTop
				for pi, pb := range b.Preds {
					if pb == s.pred {
						val = s.eval(x.Edges[pi])
					}
				}
				s.env[x] = val
			}
		case *ssa.UnOp, *ssa.BinOp, *ssa.ChangeType, *ssa.Extract:
			if v, ok := in.(ssa.Value); ok && isBoolType(v.Type()) {
				s.env[v] = s.evalInstr(in)
			}
		case *ssa.Call:
			if forks := r.evalCall(x, s, depth, binds); forks != nil {
				for _, o := range forks {
					n := s.fork()
					n.ghost = o.Ghost
					if isTracked(x.Type()) {
						n.env[x] = o.Res
					}
					r.execBlock(fn, n, i+1, resIdx, root, depth, outs, work, binds)
				}
				return
			}
			if isTracked(x.Type()) && !(r.spec.Capture != nil && r.spec.Capture(in)) {
				s.env[x] = triTop
			}
		case *ssa.If:
			c := s.eval(x.Cond)
			for si, succ := range b.Succs {
				want := triOf(si == 0)
				if c != triTop && c != want {
					continue
				}
				n := s.fork()
				n.parent = s
				n.blk, n.pred = succ, b
				if c == triTop {
					if _, isConst := x.Cond.(*ssa.Const); !isConst {
						n.env[x.Cond] = want
						refineNot(n.env, x.Cond, want)
					}
				}
				*work = append(*work, n)
			}
			return
		case *ssa.Jump:
			n := s.fork()
			n.parent = s
			n.blk, n.pred = b.Succs[0], b
			*work = append(*work, n)
			return
		case *ssa.Return:
			val := triTop
			if resIdx >= 0 && resIdx < len(x.Results) {
				val = s.eval(x.Results[resIdx])
			}
			outs[ghostOutcome{s.ghost, val}] = true
			if root && s.ghost && resIdx >= 0 && val != r.spec.BadResult {
				r.Finds = append(r.Finds, ghostFinding{Kind: "return", Pos: instrPos(in), Path: r.pathOf(s), Val: val})
			}
			return
		case *ssa.Panic:
			return
		}
	}
}

// refineNot: learning v = want also tells the operand of a negation.
func refineNot(env map[ssa.Value]tri, v ssa.Value, want tri) {
	if u, ok := v.(*ssa.UnOp); ok && u.Op == token.NOT {
		if _, isConst := u.X.(*ssa.Const); !isConst {
			env[u.X] = want.not()
			refineNot(env, u.X, want.not())
		}
	}
}

func (s *ghostState) evalInstr(in ssa.Instruction) tri {
	switch x := in.(type) {
	case *ssa.UnOp:
		if x.Op == token.NOT {
			return s.eval(x.X).not()
		}
	case *ssa.ChangeType:
		return s.eval(x.X)
	case *ssa.BinOp:
		if !isBoolType(x.X.Type()) && isTracked(x.X.Type()) && (x.Op == token.EQL || x.Op == token.NEQ) {
			// err == nil / err != nil: tracked by nil-ness (true = non-nil)
			a, c := s.eval(x.X), s.eval(x.Y)
			if a != triTop && c != triTop {
				return triOf((a == c) == (x.Op == token.EQL))
			}
			return triTop
		}
		if !isBoolType(x.X.Type()) {
			if isCountable(x.X.Type()) {
				if k, ok := x.Y.(*ssa.Const); ok && k.Value != nil && k.Value.Kind() == constant.Int {
					if c, exact := constant.Int64Val(k.Value); exact {
						return cmpNum(x.Op, s.evalNum(x.X), c)
					}
				}
				if k, ok := x.X.(*ssa.Const); ok && k.Value != nil && k.Value.Kind() == constant.Int {
					if c, exact := constant.Int64Val(k.Value); exact {
						return cmpNum(flipCmp(x.Op), s.evalNum(x.Y), c)
					}
				}
			}
			return triTop
		}
		a, c := s.eval(x.X), s.eval(x.Y)
		switch x.Op {
		case token.EQL:
			if a != triTop && c != triTop {
				return triOf(a == c)
			}
		case token.NEQ:
			if a != triTop && c != triTop {
				return triOf(a != c)
			}
		case token.AND:
			if a == triF || c == triF {
				return triF
			}
			if a == triT && c == triT {
				return triT
			}
		case token.OR:
			if a == triT || c == triT {
				return triT
			}
			if a == triF && c == triF {
				return triF
			}
		}
	}
	return triTop
}

// evalCall: outcomes of a call that matters for the ghost bit; nil = opaque (no effect on the ghost bit).
func (r *ghostRun) evalCall(c *ssa.Call, s *ghostState, depth int, binds map[ssa.Value]*ssa.Function) []ghostOutcome {
	cal := calleeOf(c)
	if cal != nil && cal.Pkg != nil && cal.Pkg.Pkg.Path() == "slices" && (cal.Name() == "ContainsFunc" || strings.HasPrefix(cal.Name(), "ContainsFunc[")) && len(c.Call.Args) == 2 {
		if f := closureFn(c.Call.Args[1]); f != nil && r.containsEvent(f, depth+1) {
			return r.containsFuncOutcomes(f, s.ghost, depth)
		}
	}
	if cal != nil && cal.Origin() != nil && cal.Origin().Pkg != nil && cal.Origin().Pkg.Pkg.Path() == "slices" && cal.Origin().Name() == "ContainsFunc" && len(c.Call.Args) == 2 {
		if f := closureFn(c.Call.Args[1]); f != nil && r.containsEvent(f, depth+1) {
			return r.containsFuncOutcomes(f, s.ghost, depth)
		}
	}
	if cal == nil {
		// call of a closure value created here, or of a function-typed parameter bound to a closure by the caller
		f := closureFn(c.Call.Value)
		if f == nil && binds != nil {
			f = binds[c.Call.Value]
		}
		if f != nil && r.containsEvent(f, depth+1) {
			return r.run(f, s.ghost, boolResultIndex(f), false, depth+1, nil)
		}
		return nil
	}
	if !strings.HasPrefix(funcPkgPath(cal), modPath) || !r.containsEvent(cal, depth+1) {
		return nil
	}
	// closures handed to the callee are bound to its parameters (they run when the callee calls the parameter)
	var nb map[ssa.Value]*ssa.Function
	for i, a := range c.Call.Args {
		if i >= len(cal.Params) {
			break
		}
		f := closureFn(a)
		if f == nil && binds != nil {
			f = binds[a]
		}
		if f != nil {
			if nb == nil {
				nb = map[ssa.Value]*ssa.Function{}
			}
			nb[cal.Params[i]] = f
		}
	}
	return r.run(cal, s.ghost, boolResultIndex(cal), false, depth+1, nb)
}

// containsFuncOutcomes models slices.ContainsFunc(s, f): f is applied to the elements in order until it answers true.
func (r *ghostRun) containsFuncOutcomes(f *ssa.Function, ghostIn bool, depth int) []ghostOutcome {
	outs := map[ghostOutcome]bool{}
	seen := map[bool]bool{}
	work := []bool{ghostIn}
	for len(work) > 0 {
		g := work[len(work)-1]
		work = work[:len(work)-1]
		if seen[g] {
			continue
		}
		seen[g] = true
		outs[ghostOutcome{g, triF}] = true // no (further) element
		for _, o := range r.run(f, g, boolResultIndex(f), false, depth+1, nil) {
			switch o.Res {
			case triT:
				outs[ghostOutcome{o.Ghost, triT}] = true
			case triF:
				work = append(work, o.Ghost)
			default:
				outs[ghostOutcome{o.Ghost, triT}] = true
				work = append(work, o.Ghost)
			}
		}
	}
	var res []ghostOutcome
	for o := range outs {
		res = append(res, o)
	}
	return res
}

// commaOkLookupEvent matches `_, ok := m[k]` where m's access path ends in the given field (e.g. "Labels"):
// the Extract #1 of a comma-ok Lookup. Bad when ok is false.
func commaOkLookupEvent(field string) func(in ssa.Instruction) (ssa.Value, bool, bool) {
	return func(in ssa.Instruction) (ssa.Value, bool, bool) {
		ex, ok := in.(*ssa.Extract)
		if !ok || ex.Index != 1 {
			return nil, false, false
		}
		lk, ok := ex.Tuple.(*ssa.Lookup)
		if !ok || !lk.CommaOk {
			return nil, false, false
		}
		if _, isMap := lk.X.Type().Underlying().(*types.Map); !isMap {
			return nil, false, false
		}
		if termOf(lk.X).lastField() != field {
			return nil, false, false
		}
		return ex, false, true
	}
}

// outermostLoopHeader: the header of the outermost natural loop containing b (nil if b is in no loop).
func outermostLoopHeader(b *ssa.BasicBlock) *ssa.BasicBlock {
	var out *ssa.BasicBlock
	for h := loopHeaderOf(b); h != nil; {
		out = h
		var next *ssa.BasicBlock
		for d := h.Idom(); d != nil; d = d.Idom() {
			if hh := loopHeaderOf(d); hh != nil && hh != h && naturalLoop(hh)[h] {
				next = hh
				break
			}
		}
		h = next
	}
	return out
}

// ghostForbidAfterEvent: starting from root, no instruction matching forbidden (searched through helpers and
// closures) executes for an element after the per-element event failed for that element. "For that element": the
// ghost bit is cleared at the head of the outermost loop that encloses the forbidden instruction (or, when the
// instruction lives in a helper, the call that leads to it).
func (p *Prog) ghostForbidAfterEvent(root *ssa.Function, event func(ssa.Instruction) (ssa.Value, bool, bool), forbidden func(ssa.Instruction) bool) (*ghostRun, []deepHit) {
	hits := p.deepFind(root, forbidden, 3)
	resets := map[ssa.Instruction]bool{}
	for _, h := range hits {
		sites := append(append([]ssa.Instruction{}, h.Chain...), h.In)
		for _, s := range sites {
			if s.Block() == nil {
				continue
			}
			if hd := outermostLoopHeader(s.Block()); hd != nil {
				resets[hd.Instrs[0]] = true
				break // the outermost loop along the chain, counted from the root
			}
		}
	}
	spec := &ghostSpec{Event: event, Forbidden: forbidden, Reset: func(in ssa.Instruction) bool { return resets[in] }, ResultIdx: -1}
	return p.ghostVerdict(root, spec), hits
}

func ghostWhy(p *Prog, r *ghostRun) string {
	if len(r.Finds) == 0 {
		return ""
	}
	f := r.Finds[0]
	if f.Kind == "return" {
		return fmt.Sprintf("after a failed element the function can still return %s at %s (%s)", f.Val, p.Pos(f.Pos), f.Path)
	}
	return fmt.Sprintf("reached at %s after a failed element (%s)", p.Pos(f.Pos), f.Path)
}

// hasCaptured: some edge of the φ carries a captured ghost value (a checkpoint chosen on different paths).
func (s *ghostState) hasCaptured(x *ssa.Phi) bool {
	for _, e := range x.Edges {
		if _, ok := s.env[e]; ok && !isTracked(e.Type()) {
			return true
		}
	}
	return false
}

// ghostForall: "if the per-element event fails for ANY element, fn answers `bad`" — for every number of elements and
// whatever form the loop and the verdict take. Returns (held, undecided reason, description).
func (p *Prog) ghostForall(fn *ssa.Function, event func(ssa.Instruction) (ssa.Value, bool, bool), bad tri) (bool, string, string) {
	spec := &ghostSpec{Event: event, ResultIdx: boolResultIndex(fn), BadResult: bad, MaxDepth: 4}
	if spec.ResultIdx < 0 {
		return false, "the function has no single boolean result", ""
	}
	run := p.ghostVerdict(fn, spec)
	if run.Undec != "" {
		return false, run.Undec, ""
	}
	if run.Events == 0 {
		return false, "the per-element test was not found in the function or its helpers", ""
	}
	if len(run.Finds) > 0 {
		return false, "", ghostWhy(p, run)
	}
	return true, "", fmt.Sprintf("%d abstract states, every failing element forces the answer %s", run.States, bad)
}

func bindsKey(b map[ssa.Value]*ssa.Function) string {
	if len(b) == 0 {
		return ""
	}
	var ks []string
	for p, f := range b {
		ks = append(ks, p.Name()+"="+funcKey(f))
	}
	sort.Strings(ks)
	return strings.Join(ks, ",")
}

// outcomesOf: the (ghost out, result) outcomes of fn entered with the ghost bit clear, under the run's spec
// (used after ghostVerdict: the summaries are memoised).
func (r *ghostRun) outcomesOf(fn *ssa.Function) []ghostOutcome {
	if fn == nil || fn.Blocks == nil {
		return nil
	}
	var out []ghostOutcome
	for round := 0; round < 12; round++ {
		r.grew = false
		r.done = map[string]bool{}
		out = r.run(fn, false, boolResultIndex(fn), false, 1, nil)
		if !r.grew {
			break
		}
	}
	return out
}
