package main

// Interprocedural value origins: a value that is a parameter of a helper is traced to the actual arguments
// at the helper's call sites (and, for a closure, a parameter is traced to the arguments of the calls made
// through the function value it was passed as). Used by PROV rules so that moving code into a helper, or
// behind a callback, does not hide where a value comes from.

import (
	"golang.org/x/tools/go/ssa"
)

// stripConv removes value-preserving wrappers.
func stripConv(v ssa.Value) ssa.Value {
	for {
		switch x := v.(type) {
		case *ssa.ChangeType:
			v = x.X
		case *ssa.MakeInterface:
			v = x.X
		case *ssa.ChangeInterface:
			v = x.X
		default:
			return v
		}
	}
}

// paramIndexOf returns the index of prm among its function's parameters.
func paramIndexOf(prm *ssa.Parameter) int {
	for i, q := range prm.Parent().Params {
		if q == prm {
			return i
		}
	}
	return -1
}

// origins: if v is a parameter of a non-exported helper or of a closure, the actual values bound to it at
// every call (static call sites; for closures the calls through the parameter the closure was passed as);
// otherwise v itself. depth bounds the number of parameter hops.
func (p *Prog) origins(v ssa.Value, depth int) []ssa.Value {
	v = stripConv(v)
	prm, ok := v.(*ssa.Parameter)
	if !ok || depth == 0 {
		return []ssa.Value{v}
	}
	fn := prm.Parent()
	idx := paramIndexOf(prm)
	var out []ssa.Value
	if fn.Parent() != nil {
		// closure: find where it is created and how the function value is used
		for _, mc := range closureSites(fn) {
			for _, call := range p.callsThroughValue(mc, 3) {
				args := call.Common().Args
				if idx < len(args) {
					out = append(out, p.origins(args[idx], depth-1)...)
				}
			}
		}
		if len(out) == 0 {
			return []ssa.Value{v}
		}
		return out
	}
	sites := 0
	for _, cs := range p.CallSites(fn) {
		if isTestdataOrMock(cs.Parent()) {
			continue
		}
		args := cs.Common().Args
		if cs.Common().IsInvoke() || idx >= len(args) {
			continue
		}
		sites++
		out = append(out, p.origins(args[idx], depth-1)...)
	}
	if sites == 0 {
		return []ssa.Value{v}
	}
	return out
}

// callsThroughValue: the call instructions that invoke function value fv — directly, or after fv was passed
// as an argument to a module function that calls the corresponding parameter.
func (p *Prog) callsThroughValue(fv ssa.Value, depth int) []ssa.CallInstruction {
	var out []ssa.CallInstruction
	if depth == 0 {
		return nil
	}
	refs := fv.Referrers()
	if refs == nil {
		return nil
	}
	for _, r := range *refs {
		switch x := r.(type) {
		case ssa.CallInstruction:
			com := x.Common()
			if stripConv(com.Value) == fv && !com.IsInvoke() {
				out = append(out, x)
				continue
			}
			// passed as an argument
			cal := calleeOf(x)
			if cal == nil || len(cal.Blocks) == 0 {
				continue
			}
			for i, a := range com.Args {
				if stripConv(a) == fv && i < len(cal.Params) {
					out = append(out, p.callsThroughValue(cal.Params[i], depth-1)...)
				}
			}
		case *ssa.ChangeType:
			out = append(out, p.callsThroughValue(x, depth)...)
		case *ssa.Store:
			// stored into a local and loaded again
			if a, ok := x.Addr.(*ssa.Alloc); ok && x.Val == fv {
				for _, rr := range *a.Referrers() {
					if ld, ok := rr.(*ssa.UnOp); ok {
						out = append(out, p.callsThroughValue(ld, depth)...)
					}
				}
			}
		}
	}
	return out
}

// deepHit: an instruction found in fn or in code fn runs through helpers / closures it creates.
type deepHit struct {
	In    ssa.Instruction
	Chain []ssa.Instruction // call sites / closure creation sites from the root down to In's function
}

// deepFind lists the instructions satisfying pred in root, in the module functions it calls (statically) and
// in the closures it creates, to the given depth.
func (p *Prog) deepFind(root *ssa.Function, pred func(ssa.Instruction) bool, depth int) []deepHit {
	var out []deepHit
	seen := map[*ssa.Function]bool{}
	var rec func(fn *ssa.Function, chain []ssa.Instruction, d int)
	rec = func(fn *ssa.Function, chain []ssa.Instruction, d int) {
		if fn == nil || len(fn.Blocks) == 0 || seen[fn] {
			return
		}
		seen[fn] = true
		for _, b := range fn.Blocks {
			for _, in := range b.Instrs {
				if pred(in) {
					out = append(out, deepHit{in, append([]ssa.Instruction{}, chain...)})
				}
				if d == 0 {
					continue
				}
				if mc, ok := in.(*ssa.MakeClosure); ok {
					rec(mc.Fn.(*ssa.Function), append(append([]ssa.Instruction{}, chain...), in), d-1)
				}
				if cc, ok := in.(ssa.CallInstruction); ok {
					if cal := calleeOf(cc); cal != nil && len(cal.Blocks) > 0 && !isTestdataOrMock(cal) && hasModPrefix(cal) {
						rec(cal, append(append([]ssa.Instruction{}, chain...), in), d-1)
					}
				}
			}
		}
	}
	rec(root, nil, depth)
	return out
}

func hasModPrefix(fn *ssa.Function) bool {
	pk := funcPkgPath(fn)
	return len(pk) >= len(modPath) && pk[:len(modPath)] == modPath
}

// factsAtDeep: the facts at the instruction itself plus the facts at every site of its chain, each translated
// into the coordinates of the root function (parameters replaced by the actual arguments along the chain).
func (fx *Facts) factsAtDeep(h deepHit) FactSet {
	fs := emptySet()
	add := func(src FactSet, chain []ssa.Instruction) {
		if src.Bottom {
			return
		}
		for _, f := range src.M {
			fs.add(Fact{liftTerm(f.T, chain), f.Pol})
		}
	}
	add(fx.FactsAt(h.In), h.Chain)
	for i, site := range h.Chain {
		add(fx.FactsAt(site), h.Chain[:i])
	}
	return fs
}

// liftTerm translates a term in the coordinates of the function at the end of the chain into the coordinates
// of the root: parameters are replaced by the actual arguments at each call site of the chain (innermost
// first), free variables by their bindings at a closure-creation site.
func liftTerm(t *Term, chain []ssa.Instruction) *Term {
	for i := len(chain) - 1; i >= 0; i-- {
		switch site := chain[i].(type) {
		case *ssa.MakeClosure:
			t = substFree(t, site.Fn.(*ssa.Function), site)
		case ssa.CallInstruction:
			t = t.subst(callActuals(site))
		}
	}
	return t
}

// rootSite: the instruction in the root function that leads to the hit (the hit itself when it is in the root).
func (h deepHit) rootSite() ssa.Instruction {
	if len(h.Chain) > 0 {
		return h.Chain[0]
	}
	return h.In
}

// throughCall: a call made through a function value, and — when the value was first handed to a helper as an
// argument — the call site that handed it over (the helper's frame).
type throughCall struct {
	Call ssa.CallInstruction
	Via  ssa.CallInstruction // nil when the value is called in the function that holds it
}

func (p *Prog) callsThroughValueVia(fv ssa.Value, via ssa.CallInstruction, depth int) []throughCall {
	var out []throughCall
	if depth == 0 || fv.Referrers() == nil {
		return nil
	}
	for _, r := range *fv.Referrers() {
		switch x := r.(type) {
		case ssa.CallInstruction:
			com := x.Common()
			if stripConv(com.Value) == fv && !com.IsInvoke() {
				out = append(out, throughCall{x, via})
				continue
			}
			cal := calleeOf(x)
			if cal == nil || len(cal.Blocks) == 0 {
				continue
			}
			for i, a := range com.Args {
				if stripConv(a) == fv && i < len(cal.Params) {
					out = append(out, p.callsThroughValueVia(cal.Params[i], x, depth-1)...)
				}
			}
		case *ssa.ChangeType:
			out = append(out, p.callsThroughValueVia(x, via, depth)...)
		}
	}
	return out
}

// originTerms: the terms a value can stand for, seen from the function that ultimately supplies it: a closure
// parameter becomes the argument of the calls made through the closure (translated out of the helper that makes
// them), a helper parameter becomes the actual arguments at the helper's call sites; anything else is itself.
func (p *Prog) originTerms(v ssa.Value, depth int) []*Term {
	v = stripConv(v)
	prm, ok := v.(*ssa.Parameter)
	if !ok || depth == 0 {
		return []*Term{termOf(v)}
	}
	fn := prm.Parent()
	idx := paramIndexOf(prm)
	var out []*Term
	if fn.Parent() != nil {
		for _, mc := range closureSites(fn) {
			for _, tc := range p.callsThroughValueVia(mc, nil, 3) {
				args := tc.Call.Common().Args
				if idx >= len(args) {
					continue
				}
				t := termOf(args[idx])
				if tc.Via != nil {
					t = t.subst(callActuals(tc.Via))
				}
				out = append(out, t)
			}
		}
	} else {
		for _, cs := range p.CallSites(fn) {
			if isTestdataOrMock(cs.Parent()) || cs.Common().IsInvoke() {
				continue
			}
			args := cs.Common().Args
			if idx < len(args) {
				out = append(out, termOf(args[idx]))
			}
		}
	}
	if len(out) == 0 {
		return []*Term{termOf(v)}
	}
	return out
}

// resultTerms: the terms a value stands for when it is the single result of a call to a small module helper: the
// helper's returned terms, translated to the call's arguments (one per return). Anything else: the value's own term.
func resultTerms(v ssa.Value) []*Term {
	call, ok := stripConv(v).(*ssa.Call)
	if !ok {
		return []*Term{termOf(v)}
	}
	cal := call.Common().StaticCallee()
	if cal == nil || len(cal.Blocks) == 0 || !hasModPrefix(cal) || cal.Signature.Results().Len() != 1 {
		return []*Term{termOf(v)}
	}
	var out []*Term
	for _, b := range cal.Blocks {
		if ret, isRet := b.Instrs[len(b.Instrs)-1].(*ssa.Return); isRet {
			out = append(out, termOf(unspill(ret, 0)).subst(callActuals(call)))
		}
	}
	if len(out) == 0 {
		return []*Term{termOf(v)}
	}
	return out
}
