package main

import "golang.org/x/tools/go/ssa"

// loopHeaderOf returns the innermost loop header H such that b is inside the natural loop of H
// (H dominates b and some predecessor P of H is dominated by H and reachable from b without leaving H's dominance).
func loopHeaderOf(b *ssa.BasicBlock) *ssa.BasicBlock {
	for h := b; h != nil; h = h.Idom() {
		for _, p := range h.Preds {
			if h.Dominates(p) && reachesWithin(b, p, h) {
				return h
			}
		}
	}
	return nil
}

// reachesWithin: from can reach to through blocks dominated by h, not passing through h itself (unless from==h).
func reachesWithin(from, to, h *ssa.BasicBlock) bool {
	seen := map[*ssa.BasicBlock]bool{}
	var dfs func(x *ssa.BasicBlock) bool
	dfs = func(x *ssa.BasicBlock) bool {
		if x == to {
			return true
		}
		if seen[x] {
			return false
		}
		seen[x] = true
		for _, s := range x.Succs {
			if s == h || !h.Dominates(s) {
				continue
			}
			if dfs(s) {
				return true
			}
		}
		return false
	}
	return dfs(from)
}

// loopBodyEntries: successors of the header that stay in the loop.
func loopBodyEntries(h *ssa.BasicBlock) []*ssa.BasicBlock {
	var out []*ssa.BasicBlock
	for _, s := range h.Succs {
		if s == h {
			continue
		}
		if !h.Dominates(s) {
			continue
		}
		for _, p := range h.Preds {
			if h.Dominates(p) && reachesWithin(s, p, h) {
				out = append(out, s)
				break
			}
		}
	}
	return out
}

// everyIterationPasses: in the innermost loop around instruction `must`, every path from the
// start of an iteration back to the loop header executes an instruction satisfying pass, except
// along edges pruned by edgeOK (edges that establish an excusing fact). Returns a counter-example path.
func everyIterationPasses(must ssa.Instruction, pass func(ssa.Instruction) bool, edgeOK func(from, to *ssa.BasicBlock) bool) (bool, []int) {
	return everyIterationPassesR(must, pass, edgeOK, func(*ssa.Return) bool { return true })
}

// everyIterationPassesR: as everyIterationPasses; countReturn selects the returns that count as "the
// iteration ended without passing" (e.g. refusals — `return false` — can be excluded).
func everyIterationPassesR(must ssa.Instruction, pass func(ssa.Instruction) bool, edgeOK func(from, to *ssa.BasicBlock) bool, countReturn func(*ssa.Return) bool) (bool, []int) {
	h := loopHeaderOf(must.Block())
	if h == nil {
		return false, nil
	}
	first := h.Instrs[0]
	var starts []cfgPos
	for _, s := range loopBodyEntries(h) {
		starts = append(starts, cfgPos{s, 0})
	}
	_, path, found := reachAvoiding(starts, func(in ssa.Instruction) bool {
		if in == first {
			return true
		}
		if r, ok := in.(*ssa.Return); ok {
			return countReturn(r)
		}
		return false
	}, pass, func(from, to *ssa.BasicBlock) bool {
		if !h.Dominates(to) && to != h {
			// leaving the loop: only returns matter, they are targets themselves
		}
		return edgeOK == nil || edgeOK(from, to)
	})
	return !found, path
}

// edgeEstablishes reports whether the edge's own branch condition establishes a fact satisfying pred.
func (fx *Facts) edgeEstablishes(from, to *ssa.BasicBlock, pred func(Fact) bool) bool {
	iff, ok := from.Instrs[len(from.Instrs)-1].(*ssa.If)
	if !ok || from.Succs[0] == from.Succs[1] {
		return false
	}
	w := WantFalse
	if from.Succs[0] == to {
		w = WantTrue
	}
	fs := fx.valueFacts(iff.Cond, w, 0, map[ssa.Value]bool{})
	if fs.Bottom {
		return false
	}
	_, ok = fs.find(pred)
	return ok
}

// insideLoopBody: b can only be reached through the body of some loop (it is dominated by a
// successor of a loop header that stays in the loop) — true also for blocks that leave the loop
// through a return or break.
func insideLoopBody(b *ssa.BasicBlock) bool {
	for h := b.Idom(); h != nil; h = h.Idom() {
		isHeader := false
		for _, p := range h.Preds {
			if h.Dominates(p) {
				isHeader = true
			}
		}
		if !isHeader {
			continue
		}
		for _, e := range loopBodyEntries(h) {
			if e == b || e.Dominates(b) {
				return true
			}
		}
	}
	return false
}

// naturalLoop: the blocks of the natural loop of header h (h, and every block that reaches a latch of h
// without passing through h).
func naturalLoop(h *ssa.BasicBlock) map[*ssa.BasicBlock]bool {
	in := map[*ssa.BasicBlock]bool{h: true}
	var stack []*ssa.BasicBlock
	for _, p := range h.Preds {
		if h.Dominates(p) && !in[p] {
			in[p] = true
			stack = append(stack, p)
		}
	}
	for len(stack) > 0 {
		b := stack[len(stack)-1]
		stack = stack[:len(stack)-1]
		for _, p := range b.Preds {
			if !in[p] && h.Dominates(p) {
				in[p] = true
				stack = append(stack, p)
			}
		}
	}
	return in
}
