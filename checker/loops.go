package main

import (
	"go/token"

	"golang.org/x/tools/go/ssa"
)

// loopHeaderOf returns the innermost loop header H such that b is inside the natural loop of H
// (H dominates b and some predecessor P of H is dominated by H and reachable from b without leaving H's dominance).
func loopHeaderOf(b *ssa.BasicBlock) *ssa.BasicBlock {
	for h := b; h != nil; h = h.Idom() {
		for _, p := range h.Preds {
			if h.Dominates(p) && reachesWithin(b, p, h) {
				return h
			}
		}
	}
	return nil
}

// reachesWithin: from can reach to through blocks dominated by h, not passing through h itself (unless from==h).
func reachesWithin(from, to, h *ssa.BasicBlock) bool {
	seen := map[*ssa.BasicBlock]bool{}
	var dfs func(x *ssa.BasicBlock) bool
	dfs = func(x *ssa.BasicBlock) bool {
		if x == to {
			return true
		}
		if seen[x] {
			return false
		}
		seen[x] = true
		for _, s := range x.Succs {
			if s == h || !h.Dominates(s) {
				continue
			}
			if dfs(s) {
				return true
			}
		}
		return false
	}
	return dfs(from)
}

// loopBodyEntries: successors of the header that stay in the loop.
func loopBodyEntries(h *ssa.BasicBlock) []*ssa.BasicBlock {
	var out []*ssa.BasicBlock
	for _, s := range h.Succs {
		if s == h {
			continue
		}
		if !h.Dominates(s) {
			continue
		}
		for _, p := range h.Preds {
			if h.Dominates(p) && reachesWithin(s, p, h) {
				out = append(out, s)
				break
			}
		}
	}
	return out
}

// everyIterationPasses: in the innermost loop around instruction `must`, every path from the
// start of an iteration back to the loop header executes an instruction satisfying pass, except
// along edges pruned by edgeOK (edges that establish an excusing fact). Returns a counter-example path.
func everyIterationPasses(must ssa.Instruction, pass func(ssa.Instruction) bool, edgeOK func(from, to *ssa.BasicBlock) bool) (bool, []int) {
	return everyIterationPassesR(must, pass, edgeOK, func(*ssa.Return) bool { return true })
}

// everyIterationPassesR: as everyIterationPasses; countReturn selects the returns that count as "the
// iteration ended without passing" (e.g. refusals — `return false` — can be excluded).
func everyIterationPassesR(must ssa.Instruction, pass func(ssa.Instruction) bool, edgeOK func(from, to *ssa.BasicBlock) bool, countReturn func(*ssa.Return) bool) (bool, []int) {
	h := loopHeaderOf(must.Block())
	if h == nil {
		return false, nil
	}
	first := h.Instrs[0]
	var starts []cfgPos
	for _, s := range loopBodyEntries(h) {
		starts = append(starts, cfgPos{B: s, I: 0})
	}
	_, path, found := reachAvoiding(starts, func(in ssa.Instruction) bool {
		if in == first {
			return true
		}
		if r, ok := in.(*ssa.Return); ok {
			return countReturn(r)
		}
		return false
	}, pass, func(from, to *ssa.BasicBlock) bool {
		if !h.Dominates(to) && to != h {
			// leaving the loop: only returns matter, they are targets themselves
		}
		return edgeOK == nil || edgeOK(from, to)
	})
	return !found, path
}

// edgeEstablishes reports whether the edge's own branch condition establishes a fact satisfying pred.
func (fx *Facts) edgeEstablishes(from, to *ssa.BasicBlock, pred func(Fact) bool) bool {
	iff, ok := from.Instrs[len(from.Instrs)-1].(*ssa.If)
	if !ok || from.Succs[0] == from.Succs[1] {
		return false
	}
	w := WantFalse
	if from.Succs[0] == to {
		w = WantTrue
	}
	fs := fx.valueFacts(iff.Cond, w, 0, map[ssa.Value]bool{})
	if fs.Bottom {
		return false
	}
	_, ok = fs.find(pred)
	return ok
}

// insideLoopBody: b can only be reached through the body of some loop (it is dominated by a
// successor of a loop header that stays in the loop) — true also for blocks that leave the loop
// through a return or break.
func insideLoopBody(b *ssa.BasicBlock) bool {
	for h := b.Idom(); h != nil; h = h.Idom() {
		isHeader := false
		for _, p := range h.Preds {
			if h.Dominates(p) {
				isHeader = true
			}
		}
		if !isHeader {
			continue
		}
		for _, e := range loopBodyEntries(h) {
			if e == b || e.Dominates(b) {
				return true
			}
		}
	}
	return false
}

// naturalLoop: the blocks of the natural loop of header h (h, and every block that reaches a latch of h
// without passing through h).
func naturalLoop(h *ssa.BasicBlock) map[*ssa.BasicBlock]bool {
	in := map[*ssa.BasicBlock]bool{h: true}
	var stack []*ssa.BasicBlock
	for _, p := range h.Preds {
		if h.Dominates(p) && !in[p] {
			in[p] = true
			stack = append(stack, p)
		}
	}
	for len(stack) > 0 {
		b := stack[len(stack)-1]
		stack = stack[:len(stack)-1]
		for _, p := range b.Preds {
			if !in[p] && h.Dominates(p) {
				in[p] = true
				stack = append(stack, p)
			}
		}
	}
	return in
}

// edgePathSets: the facts the branch condition of edge from→to establishes, split per way the condition can
// take that value: when the condition is the boolean result of a module function, one set per return path of
// that function (its per-path facts translated to the call's arguments); otherwise one set.
func (fx *Facts) edgePathSets(from, to *ssa.BasicBlock) []FactSet {
	iff, ok := from.Instrs[len(from.Instrs)-1].(*ssa.If)
	if !ok || from.Succs[0] == from.Succs[1] {
		return nil
	}
	w := WantFalse
	if from.Succs[0] == to {
		w = WantTrue
	}
	cond := iff.Cond
	for {
		if u, isNot := cond.(*ssa.UnOp); isNot && u.Op == token.NOT {
			cond = u.X
			w = w.neg()
			continue
		}
		break
	}
	var call *ssa.Call
	idx := 0
	switch x := cond.(type) {
	case *ssa.Call:
		call = x
	case *ssa.Extract:
		if c, isCall := x.Tuple.(*ssa.Call); isCall {
			call, idx = c, x.Index
		}
	}
	if call != nil {
		if cal := call.Common().StaticCallee(); cal != nil && len(cal.Blocks) > 0 && hasModPrefix(cal) {
			var out []FactSet
			for _, rp := range fx.retPaths(cal, idx, w) {
				s := emptySet()
				for _, f := range rp.Facts.M {
					s.add(Fact{f.T.subst(callActuals(call)), f.Pol})
				}
				s.add(fx.atom(cond, w))
				if !s.Bottom {
					out = append(out, s)
				}
			}
			if len(out) > 0 {
				return out
			}
		}
	}
	if phi, isPhi := cond.(*ssa.Phi); isPhi {
		// a condition computed by && / || (or a flag set on several paths): one set per way it got the value
		var rps []RetPath
		fx.valuePaths(phi, w, emptySet(), instrPos(iff), &rps, 0)
		var out []FactSet
		for _, rp := range rps {
			if !rp.Facts.Bottom {
				out = append(out, rp.Facts)
			}
		}
		if len(out) > 0 {
			return out
		}
	}
	fs := fx.valueFacts(iff.Cond, func() Want {
		if from.Succs[0] == to {
			return WantTrue
		}
		return WantFalse
	}(), 0, map[ssa.Value]bool{})
	if fs.Bottom {
		return nil
	}
	return []FactSet{fs}
}

// edgeEstablishesAll: every way the edge's condition can hold satisfies ok.
func (fx *Facts) edgeEstablishesAll(from, to *ssa.BasicBlock, ok func(FactSet) bool) bool {
	sets := fx.edgePathSets(from, to)
	if len(sets) == 0 {
		return false
	}
	for _, s := range sets {
		if !ok(s) {
			return false
		}
	}
	return true
}

// allPathsSatisfy: every way of reaching instruction `in` (merges split per incoming path) establishes a fact
// set accepted by ok (see acceptWithExpansion).
func (fx *Facts) allPathsSatisfy(in ssa.Instruction, ok func(FactSet) bool) bool {
	sets := fx.pathFactsTo(in.Block(), 3)
	if len(sets) == 0 {
		return false
	}
	for _, s := range sets {
		if s.Bottom {
			continue
		}
		if !fx.acceptWithExpansion(s, ok) {
			return false
		}
	}
	return true
}

// acceptWithExpansion: s is accepted by ok, or s contains the outcome of a module function (a boolean result,
// or the nil-ness of a result) and every way that function can produce this outcome — its per-return facts,
// translated to the call's arguments — added to s is accepted. This is how a guard that was moved into a
// predicate or validation helper with several exits is still seen as the disjunction it is.
func (fx *Facts) acceptWithExpansion(s FactSet, ok func(FactSet) bool) bool {
	if s.Bottom || ok(s) {
		return true
	}
	for _, f := range s.sorted() {
		t := f.T
		w := WantFalse
		if f.Pol {
			w = WantTrue
		}
		// nil-ness: (x == nil) with polarity
		if t.Op == "bin" && (t.Name == "==" || t.Name == "!=") && len(t.Args) == 2 && (t.Args[1].isNilConst() || t.Args[0].isNilConst()) {
			x := t.Args[0]
			if x.isNilConst() {
				x = t.Args[1]
			}
			isNil := (t.Name == "==") == f.Pol
			w = WantNonNil
			if isNil {
				w = WantNil
			}
			t = x
		}
		var call *ssa.Call
		idx := 0
		switch v := t.V.(type) {
		case *ssa.Call:
			call = v
		case *ssa.Extract:
			if c, isCall := v.Tuple.(*ssa.Call); isCall {
				call, idx = c, v.Index
			}
		}
		if call == nil || (t.Op != "call" && t.Op != "extract") {
			continue
		}
		cal := call.Common().StaticCallee()
		if cal == nil || len(cal.Blocks) == 0 || !hasModPrefix(cal) {
			continue
		}
		rps := fx.retPaths(cal, idx, w)
		if len(rps) == 0 {
			continue
		}
		all := true
		for _, rp := range rps {
			s2 := s.clone()
			for _, g := range rp.Facts.M {
				s2.add(Fact{g.T.subst(callActuals(call)), g.Pol})
			}
			if !s2.Bottom && !ok(s2) {
				all = false
				break
			}
		}
		if all {
			return true
		}
	}
	return false
}
