package main

import (
	"flag"
	"fmt"
	"os"
	"path/filepath"
	"runtime/debug"
	"sort"
	"strconv"
	"strings"
	"time"
)

type propFn func(c *Ctx)

type propDef struct {
	run        propFn
	explain    string
	notDecided string
}

var props = map[string]propDef{}

func register(id string, run propFn, explain, notDecided string) {
	props[id] = propDef{run, explain, notDecided}
}

func main() {
	prop := flag.String("p", "", "property id (C01..C20) or 'all'")
	tier := flag.String("tier", "quick", "quick|thorough")
	repo := flag.String("repo", "/repo", "repository root")
	verif := flag.String("verif", "/verif", "verif root (evidence, known findings)")
	list := flag.Bool("list", false, "list obligations")
	flag.Parse()
	if t := os.Getenv("VERIF_TIER"); t != "" && *tier == "" {
		*tier = t
	}
	seed, _ := strconv.Atoi(os.Getenv("VERIF_SEED"))
	var ids []string
	if *prop == "all" {
		for id := range props {
			ids = append(ids, id)
		}
		sort.Strings(ids)
	} else {
		for _, id := range strings.Split(*prop, ",") {
			if _, ok := props[id]; !ok {
				fmt.Fprintf(os.Stderr, "unknown property %q\n", id)
				os.Exit(2)
			}
			ids = append(ids, id)
		}
	}
	start := time.Now()
	abs, _ := filepath.Abs(*repo)
	p, err := loadProg(abs, *tier == "thorough")
	if err != nil {
		fmt.Printf("UNDECIDED: cannot analyse %s: %v\n", abs, err)
		os.Exit(2)
	}
	fmt.Printf("loaded %d packages, %d functions with bodies, call graph %d nodes (%.1fs)\n", len(p.Pkgs), p.NFuncs, len(p.CG.Nodes), time.Since(start).Seconds())
	debugDump(p)
	exit := 0
	for _, id := range ids {
		st := time.Now()
		globalTermer = newTermer() // every property starts from the same (empty) term memo: verdicts do not depend on which properties ran before
		c := newCtx(p, id, *tier)
		c.Explain = props[id].explain
		c.NotDecided = props[id].notDecided
		func() {
			defer func() {
				if r := recover(); r != nil {
					c.Undec("O0", "PANIC", "checker", 0, fmt.Sprintf("checker panic: %v\n%s", r, debug.Stack()))
				}
			}()
			runControls(c)
			props[id].run(c)
		}()
		if *list {
			for _, o := range c.Obs {
				fmt.Printf("  %-9s %-8s %-10s %s  %s  %s\n", o.ID, o.Status, o.Rule, o.Construct, o.Pos, o.Detail)
			}
		}
		code := c.finish(*verif, seed, st)
		if code == 1 {
			exit = 1
		} else if code == 2 && exit == 0 {
			exit = 2
		}
	}
	os.Exit(exit)
}
