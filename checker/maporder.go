package main

// MAPORDER engine: order-sensitive sinks inside a range over a map.

import (
	"go/types"
	"sort"
	"strings"

	"golang.org/x/tools/go/ssa"
)

type MapOrderSink struct {
	Fn    *ssa.Function
	Range *ssa.Range
	Sink  ssa.Instruction
	What  string
}

// mapRanges lists range-over-map instructions of fn.
func mapRanges(fn *ssa.Function) []*ssa.Range {
	var out []*ssa.Range
	for _, b := range fn.Blocks {
		for _, in := range b.Instrs {
			if r, ok := in.(*ssa.Range); ok {
				if _, isMap := r.X.Type().Underlying().(*types.Map); isMap {
					out = append(out, r)
				}
			}
		}
	}
	return out
}

// loopBlocksOfRange: blocks of the loop driven by the range's Next instruction.
func loopBlocksOfRange(r *ssa.Range) (header *ssa.BasicBlock, blocks map[*ssa.BasicBlock]bool) {
	for _, ref := range *r.Referrers() {
		if nx, ok := ref.(*ssa.Next); ok {
			header = nx.Block()
		}
	}
	blocks = map[*ssa.BasicBlock]bool{}
	if header == nil {
		return
	}
	blocks = naturalLoop(header)
	return
}

// findMapOrderSinks reports, for each range over a map, the appends (to slices that live outside the loop)
// and string concatenations inside the loop whose result is not sorted afterwards in the same function.
// Accepted: writes keyed by the iteration element, commutative accumulations (+=, max, set insert).
func findMapOrderSinks(fn *ssa.Function) []MapOrderSink {
	var out []MapOrderSink
	for _, r := range mapRanges(fn) {
		header, blocks := loopBlocksOfRange(r)
		if header == nil {
			continue
		}
		out = append(out, orderSinksInLoop(fn, r, blocks)...)
	}
	return out
}

// findListOrderSinks: the same sinks inside loops over the Items of an API list object. A List served by the
// controller-runtime cache through a field index returns objects in the iteration order of a Go map
// (client-go threadSafeMap.ByIndex), so the order of Items is as unspecified as a map's.
func findListOrderSinks(fn *ssa.Function) []MapOrderSink {
	var out []MapOrderSink
	seen := map[*ssa.BasicBlock]bool{}
	for _, b := range fn.Blocks {
		for _, in := range b.Instrs {
			ia, ok := in.(*ssa.IndexAddr)
			if !ok {
				continue
			}
			t := termOf(ia.X)
			if t.lastField() != "Items" {
				continue
			}
			if !isLoopIndex(ia.Index) {
				continue
			}
			h := loopHeaderOf(b)
			if h == nil || seen[h] {
				continue
			}
			seen[h] = true
			blocks := naturalLoop(h)
			out = append(out, orderSinksInLoop(fn, nil, blocks)...)
		}
	}
	return out
}

func orderSinksInLoop(fn *ssa.Function, r *ssa.Range, blocks map[*ssa.BasicBlock]bool) []MapOrderSink {
	var out []MapOrderSink
	{
		for b := range blocks {
			for _, in := range b.Instrs {
				call, ok := in.(*ssa.Call)
				if ok {
					if bi, isB := call.Common().Value.(*ssa.Builtin); isB && bi.Name() == "append" {
						// the destination slice is carried around the loop (phi at the header) or stored outside
						dst := call.Common().Args[0]
						carried := false
						if phi, isPhi := dst.(*ssa.Phi); isPhi && blocks[phi.Block()] {
							carried = true
						}
						if u, isLoad := dst.(*ssa.UnOp); isLoad {
							if _, isAlloc := u.X.(*ssa.Alloc); isAlloc {
								carried = true
							}
							if _, isFA := u.X.(*ssa.FieldAddr); isFA {
								carried = true
							}
						}
						if !carried {
							continue
						}
						if sortedLater(fn, call, blocks) {
							continue
						}
						out = append(out, MapOrderSink{fn, r, in, "append to a slice that outlives the loop, never sorted"})
					}
				}
				if bo, ok := in.(*ssa.BinOp); ok && bo.Op.String() == "+" {
					if b, isBasic := bo.Type().Underlying().(*types.Basic); isBasic && b.Info()&types.IsString != 0 {
						if phi, isPhi := bo.X.(*ssa.Phi); isPhi && blocks[phi.Block()] {
							out = append(out, MapOrderSink{fn, r, in, "string concatenation accumulated across iterations"})
						}
					}
				}
			}
		}
	}
	sort.Slice(out, func(i, j int) bool { return out[i].Sink.Pos() < out[j].Sink.Pos() })
	return out
}

// sortedLater: some value derived from the appended slice is passed to a sort function outside the loop.
func sortedLater(fn *ssa.Function, app *ssa.Call, loop map[*ssa.BasicBlock]bool) bool {
	for _, b := range fn.Blocks {
		if loop[b] {
			continue
		}
		for _, in := range b.Instrs {
			c, ok := in.(ssa.CallInstruction)
			if !ok {
				continue
			}
			cal := calleeOf(c)
			if cal == nil {
				continue
			}
			pk := funcPkgPath(cal)
			if !(strings.HasSuffix(pk, "sort") || strings.HasSuffix(pk, "slices")) || !strings.Contains(cal.Name(), "Sort") && cal.Name() != "Strings" && cal.Name() != "Slice" && cal.Name() != "SliceStable" && cal.Name() != "Stable" {
				continue
			}
			for _, a := range c.Common().Args {
				if derivesFromValue(a, app, 6) {
					return true
				}
			}
		}
	}
	return false
}

func derivesFromValue(v ssa.Value, src ssa.Value, depth int) bool {
	if v == src {
		return true
	}
	if depth == 0 {
		return false
	}
	switch x := v.(type) {
	case *ssa.Phi:
		for _, e := range x.Edges {
			if derivesFromValue(e, src, depth-1) {
				return true
			}
		}
	case *ssa.MakeInterface:
		return derivesFromValue(x.X, src, depth-1)
	case *ssa.ChangeType:
		return derivesFromValue(x.X, src, depth-1)
	case *ssa.Convert:
		return derivesFromValue(x.X, src, depth-1)
	case *ssa.Slice:
		return derivesFromValue(x.X, src, depth-1)
	case *ssa.UnOp:
		// load of an alloc the appended value was stored to
		if a, ok := x.X.(*ssa.Alloc); ok {
			for _, r := range *a.Referrers() {
				if st, ok := r.(*ssa.Store); ok && derivesFromValue(st.Val, src, depth-1) {
					return true
				}
			}
		}
		// load of a field the appended value was stored to (same access path, same function)
		if fa, ok := x.X.(*ssa.FieldAddr); ok && x.Parent() != nil {
			key := termOf(fa).String()
			for _, b := range x.Parent().Blocks {
				for _, in := range b.Instrs {
					st, ok := in.(*ssa.Store)
					if !ok {
						continue
					}
					if fa2, ok := st.Addr.(*ssa.FieldAddr); ok && termOf(fa2).String() == key && derivesFromValue(st.Val, src, depth-1) {
						return true
					}
				}
			}
		}
	}
	return false
}

// isLoopIndex: the index of a range-over-slice loop (the phi, or phi+1 in the rotated form).
func isLoopIndex(v ssa.Value) bool {
	switch x := v.(type) {
	case *ssa.Phi:
		return true
	case *ssa.BinOp:
		_, a := x.X.(*ssa.Phi)
		_, b := x.Y.(*ssa.Phi)
		return a || b
	}
	return false
}
