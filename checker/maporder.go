package main

// MAPORDER engine: order-sensitive sinks inside a range over a map.

import (
	"go/types"
	"strings"

	"golang.org/x/tools/go/ssa"
)

type MapOrderSink struct {
	Fn    *ssa.Function
	Range *ssa.Range
	Sink  ssa.Instruction
	What  string
}

// mapRanges lists range-over-map instructions of fn.
func mapRanges(fn *ssa.Function) []*ssa.Range {
	var out []*ssa.Range
	for _, b := range fn.Blocks {
		for _, in := range b.Instrs {
			if r, ok := in.(*ssa.Range); ok {
				if _, isMap := r.X.Type().Underlying().(*types.Map); isMap {
					out = append(out, r)
				}
			}
		}
	}
	return out
}

// loopBlocksOfRange: blocks of the loop driven by the range's Next instruction.
func loopBlocksOfRange(r *ssa.Range) (header *ssa.BasicBlock, blocks map[*ssa.BasicBlock]bool) {
	for _, ref := range *r.Referrers() {
		if nx, ok := ref.(*ssa.Next); ok {
			header = nx.Block()
		}
	}
	blocks = map[*ssa.BasicBlock]bool{}
	if header == nil {
		return
	}
	for _, b := range r.Parent().Blocks {
		if header.Dominates(b) && (b == header || reachesWithin(b, header, header) || hasBackEdgeTo(b, header)) {
			blocks[b] = true
		}
	}
	return
}

// findMapOrderSinks reports, for each range over a map, the appends (to slices that live outside the loop)
// and string concatenations inside the loop whose result is not sorted afterwards in the same function.
// Accepted: writes keyed by the iteration element, commutative accumulations (+=, max, set insert).
func findMapOrderSinks(fn *ssa.Function) []MapOrderSink {
	var out []MapOrderSink
	for _, r := range mapRanges(fn) {
		header, blocks := loopBlocksOfRange(r)
		if header == nil {
			continue
		}
		for b := range blocks {
			for _, in := range b.Instrs {
				call, ok := in.(*ssa.Call)
				if ok {
					if bi, isB := call.Common().Value.(*ssa.Builtin); isB && bi.Name() == "append" {
						// the destination slice is carried around the loop (phi at the header) or stored outside
						dst := call.Common().Args[0]
						carried := false
						if phi, isPhi := dst.(*ssa.Phi); isPhi && blocks[phi.Block()] {
							carried = true
						}
						if u, isLoad := dst.(*ssa.UnOp); isLoad {
							if _, isAlloc := u.X.(*ssa.Alloc); isAlloc {
								carried = true
							}
							if _, isFA := u.X.(*ssa.FieldAddr); isFA {
								carried = true
							}
						}
						if !carried {
							continue
						}
						if sortedLater(fn, call, blocks) {
							continue
						}
						out = append(out, MapOrderSink{fn, r, in, "append to a slice that outlives the loop, never sorted"})
					}
				}
				if bo, ok := in.(*ssa.BinOp); ok && bo.Op.String() == "+" {
					if b, isBasic := bo.Type().Underlying().(*types.Basic); isBasic && b.Info()&types.IsString != 0 {
						if phi, isPhi := bo.X.(*ssa.Phi); isPhi && blocks[phi.Block()] {
							out = append(out, MapOrderSink{fn, r, in, "string concatenation accumulated across iterations"})
						}
					}
				}
			}
		}
	}
	return out
}

// sortedLater: some value derived from the appended slice is passed to a sort function outside the loop.
func sortedLater(fn *ssa.Function, app *ssa.Call, loop map[*ssa.BasicBlock]bool) bool {
	for _, b := range fn.Blocks {
		if loop[b] {
			continue
		}
		for _, in := range b.Instrs {
			c, ok := in.(ssa.CallInstruction)
			if !ok {
				continue
			}
			cal := calleeOf(c)
			if cal == nil {
				continue
			}
			pk := funcPkgPath(cal)
			if !(strings.HasSuffix(pk, "sort") || strings.HasSuffix(pk, "slices")) || !strings.Contains(cal.Name(), "Sort") && cal.Name() != "Strings" && cal.Name() != "Slice" && cal.Name() != "SliceStable" && cal.Name() != "Stable" {
				continue
			}
			for _, a := range c.Common().Args {
				if derivesFromValue(a, app, 6) {
					return true
				}
			}
		}
	}
	return false
}

func derivesFromValue(v ssa.Value, src ssa.Value, depth int) bool {
	if v == src {
		return true
	}
	if depth == 0 {
		return false
	}
	switch x := v.(type) {
	case *ssa.Phi:
		for _, e := range x.Edges {
			if derivesFromValue(e, src, depth-1) {
				return true
			}
		}
	case *ssa.MakeInterface:
		return derivesFromValue(x.X, src, depth-1)
	case *ssa.ChangeType:
		return derivesFromValue(x.X, src, depth-1)
	case *ssa.Convert:
		return derivesFromValue(x.X, src, depth-1)
	case *ssa.Slice:
		return derivesFromValue(x.X, src, depth-1)
	case *ssa.UnOp:
		// load of an alloc the appended value was stored to
		if a, ok := x.X.(*ssa.Alloc); ok {
			for _, r := range *a.Referrers() {
				if st, ok := r.(*ssa.Store); ok && derivesFromValue(st.Val, src, depth-1) {
					return true
				}
			}
		}
	}
	return false
}
