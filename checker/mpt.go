package main

// MPT: must-pass-through on the SSA CFG at instruction granularity.

import (
	"fmt"
	"strings"

	"golang.org/x/tools/go/ssa"
)

type ssaFunc = ssa.Function

type cfgPos struct {
	B *ssa.BasicBlock
	I int
}

// afterInstr is the position just after an instruction.
func afterInstr(in ssa.Instruction) cfgPos {
	b := in.Block()
	for i, x := range b.Instrs {
		if x == in {
			return cfgPos{b, i + 1}
		}
	}
	return cfgPos{b, len(b.Instrs)}
}

func entryPos(fn *ssa.Function) cfgPos { return cfgPos{fn.Blocks[0], 0} }

// reachAvoiding searches for a path from any start to an instruction satisfying target that
// does not execute an instruction satisfying blocker. Returns the witness path (block indexes)
// and the target reached. edgeOK (optional) prunes CFG edges (used for path conditions).
func reachAvoiding(starts []cfgPos, target, blocker func(ssa.Instruction) bool, edgeOK func(from, to *ssa.BasicBlock) bool) (ssa.Instruction, []int, bool) {
	type node struct {
		pos  cfgPos
		path []int
	}
	seen := map[*ssa.BasicBlock]bool{}
	var stack []node
	for _, s := range starts {
		stack = append(stack, node{s, []int{s.B.Index}})
	}
	for len(stack) > 0 {
		n := stack[len(stack)-1]
		stack = stack[:len(stack)-1]
		b := n.pos.B
		blocked := false
		for i := n.pos.I; i < len(b.Instrs); i++ {
			in := b.Instrs[i]
			if blocker != nil && blocker(in) {
				blocked = true
				break
			}
			if target(in) {
				return in, n.path, true
			}
		}
		if blocked {
			continue
		}
		for _, s := range b.Succs {
			if edgeOK != nil && !edgeOK(b, s) {
				continue
			}
			if seen[s] {
				continue
			}
			seen[s] = true
			np := append(append([]int{}, n.path...), s.Index)
			stack = append(stack, node{cfgPos{s, 0}, np})
		}
	}
	return nil, nil, false
}

func isReturn(in ssa.Instruction) bool { _, ok := in.(*ssa.Return); return ok }

func isCallToFn(fns ...*ssa.Function) func(ssa.Instruction) bool {
	return func(in ssa.Instruction) bool {
		c, ok := in.(ssa.CallInstruction)
		if !ok {
			return false
		}
		cal := calleeOf(c)
		if cal == nil {
			return false
		}
		for _, f := range fns {
			if f != nil && sameFunc(cal, f) {
				return true
			}
		}
		return false
	}
}

func isInvokeNamed(names ...string) func(ssa.Instruction) bool {
	return func(in ssa.Instruction) bool {
		c, ok := in.(ssa.CallInstruction)
		if !ok {
			return false
		}
		m := invokedMethod(c)
		if m == nil {
			return false
		}
		for _, n := range names {
			if m.Name() == n {
				return true
			}
		}
		return false
	}
}

func orPred(ps ...func(ssa.Instruction) bool) func(ssa.Instruction) bool {
	return func(in ssa.Instruction) bool {
		for _, p := range ps {
			if p != nil && p(in) {
				return true
			}
		}
		return false
	}
}

func pathStr(path []int) string {
	var s []string
	for _, i := range path {
		s = append(s, fmt.Sprint(i))
	}
	return "blocks " + strings.Join(s, "→")
}

// callsIn lists call instructions in fn (not closures) matching pred.
func instrsIn(fn *ssa.Function, pred func(ssa.Instruction) bool) []ssa.Instruction {
	var out []ssa.Instruction
	for _, b := range fn.Blocks {
		for _, in := range b.Instrs {
			if pred(in) {
				out = append(out, in)
			}
		}
	}
	return out
}

// reachesCall: does fn (transitively through static repo callees and its closures, depth-limited)
// contain a call matching pred? Used to treat wrappers as "performs X".
func (p *Prog) reachesInstr(fn *ssa.Function, pred func(ssa.Instruction) bool, depth int, seen map[*ssa.Function]bool) bool {
	if fn == nil || fn.Blocks == nil || seen[fn] {
		return false
	}
	seen[fn] = true
	for _, b := range fn.Blocks {
		for _, in := range b.Instrs {
			if pred(in) {
				return true
			}
			if depth > 0 {
				if c, ok := in.(ssa.CallInstruction); ok {
					if cal := calleeOf(c); cal != nil && strings.HasPrefix(funcPkgPath(cal), modPath) {
						if p.reachesInstr(cal, pred, depth-1, seen) {
							return true
						}
					}
				}
				if mc, ok := in.(*ssa.MakeClosure); ok {
					if p.reachesInstr(mc.Fn.(*ssa.Function), pred, depth-1, seen) {
						return true
					}
				}
			}
		}
	}
	return false
}

// performs returns a predicate "instruction is a call that (transitively, depth d) performs pred".
func (p *Prog) performs(pred func(ssa.Instruction) bool, depth int) func(ssa.Instruction) bool {
	memo := map[*ssa.Function]bool{}
	return func(in ssa.Instruction) bool {
		if pred(in) {
			return true
		}
		c, ok := in.(ssa.CallInstruction)
		if !ok {
			return false
		}
		cal := calleeOf(c)
		if cal == nil || cal.Blocks == nil || !strings.HasPrefix(funcPkgPath(cal), modPath) {
			return false
		}
		if v, ok := memo[cal]; ok {
			return v
		}
		v := p.reachesInstr(cal, pred, depth, map[*ssa.Function]bool{})
		memo[cal] = v
		return v
	}
}

// precededBy: on every path from the entry of the enclosing function to `in`, an instruction
// satisfying pred executes first; if not, the obligation is lifted to every static call site of the
// enclosing function (to the given depth). Functions without callers fail.
func (p *Prog) precededBy(in ssa.Instruction, pred func(ssa.Instruction) bool, depth int, seen map[*ssa.Function]bool) (bool, []string) {
	fn := in.Parent()
	_, _, found := reachAvoiding([]cfgPos{entryPos(fn)}, func(x ssa.Instruction) bool { return x == in }, pred, nil)
	if !found {
		return true, nil
	}
	here := funcKey(fn) + " @" + p.Pos(instrPos(in))
	if depth <= 0 || seen[fn] {
		return false, []string{here + " (lift bound)"}
	}
	seen[fn] = true
	defer delete(seen, fn)
	var sites []ssa.CallInstruction
	for _, c := range p.CallSites(fn) {
		if !isTestdataOrMock(c.Parent()) {
			sites = append(sites, c)
		}
	}
	if len(sites) == 0 {
		return false, []string{here + " (no callers)"}
	}
	for _, c := range sites {
		ok, chain := p.precededBy(c, pred, depth-1, seen)
		if !ok {
			return false, append([]string{here}, chain...)
		}
	}
	return true, nil
}
