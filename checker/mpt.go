package main

// MPT: must-pass-through on the SSA CFG at instruction granularity.

import (
	"fmt"
	"strings"

	"golang.org/x/tools/go/ssa"
)

type ssaFunc = ssa.Function

type cfgPos struct {
	B *ssa.BasicBlock
	I int
	// Ctx: the call sites through which the position's function was entered (outermost first), when the search
	// starts inside a helper: a Return there continues after the innermost site instead of ending the search
	Ctx []ssa.Instruction
}

// afterInstr is the position just after an instruction.
func afterInstr(in ssa.Instruction) cfgPos {
	b := in.Block()
	for i, x := range b.Instrs {
		if x == in {
			return cfgPos{B: b, I: i + 1}
		}
	}
	return cfgPos{B: b, I: len(b.Instrs)}
}

func entryPos(fn *ssa.Function) cfgPos { return cfgPos{B: fn.Blocks[0], I: 0} }

// reachAvoiding searches for a path from any start to an instruction satisfying target that
// does not execute an instruction satisfying blocker. Returns the witness path (block indexes)
// and the target reached. edgeOK (optional) prunes CFG edges (used for path conditions).
//
// The search is interprocedural to a bounded depth: a call to a function of this module whose code
// (transitively) contains an instruction satisfying blocker or target (returns excepted) is entered — the
// search continues at the callee's entry with the call site on a frame stack; a Return inside an entered
// callee pops the frame and continues after the call, it is never a target. A call through a parameter
// that the entered frame's call site binds to a closure or a function is entered likewise. So a guard,
// an undo step or a loop body that was moved into a helper (or a callback) is still seen on the path, and
// a helper that performs the step on some of its paths only is judged path by path.
func reachAvoiding(starts []cfgPos, target, blocker func(ssa.Instruction) bool, edgeOK func(from, to *ssa.BasicBlock) bool) (ssa.Instruction, []int, bool) {
	type frame struct {
		site ssa.CallInstruction
	}
	type node struct {
		pos    cfgPos
		path   []int
		frames []frame
	}
	interesting := func(in ssa.Instruction) bool {
		if _, isRet := in.(*ssa.Return); isRet {
			return false
		}
		return (blocker != nil && blocker(in)) || target(in)
	}
	enterMemo := map[*ssa.Function]bool{}
	worthEntering := func(fn *ssa.Function) bool {
		if fn == nil || len(fn.Blocks) == 0 || !strings.HasPrefix(funcPkgPath(fn), modPath) || isTestdataOrMock(fn) {
			return false
		}
		if v, ok := enterMemo[fn]; ok {
			return v
		}
		enterMemo[fn] = false
		v := reachesInstrFree(fn, interesting, 3, map[*ssa.Function]bool{})
		enterMemo[fn] = v
		return v
	}
	key := func(fr []frame, b *ssa.BasicBlock) string {
		var sb strings.Builder
		for _, f := range fr {
			fmt.Fprintf(&sb, "%p/", f.site)
		}
		fmt.Fprintf(&sb, "%p", b)
		return sb.String()
	}
	// callee entered at a call instruction, given the frames (for calls through bound parameters)
	calleeAt := func(c ssa.CallInstruction, frames []frame) *ssa.Function {
		if cal := calleeOf(c); cal != nil {
			return cal
		}
		com := c.Common()
		if com.IsInvoke() {
			return nil
		}
		switch v := com.Value.(type) {
		case *ssa.MakeClosure:
			return v.Fn.(*ssa.Function)
		case *ssa.Parameter:
			if len(frames) == 0 {
				return nil
			}
			site := frames[len(frames)-1].site
			fn := v.Parent()
			for i, prm := range fn.Params {
				if prm != v {
					continue
				}
				args := site.Common().Args
				if site.Common().IsInvoke() || i >= len(args) {
					return nil
				}
				a := args[i]
				for {
					if ct, ok := a.(*ssa.ChangeType); ok {
						a = ct.X
						continue
					}
					break
				}
				switch av := a.(type) {
				case *ssa.MakeClosure:
					return av.Fn.(*ssa.Function)
				case *ssa.Function:
					return av
				}
			}
		}
		return nil
	}
	seen := map[string]bool{}
	roots := map[*ssa.Function]bool{}
	var stack []node
	for _, s := range starts {
		var fr []frame
		for _, site := range s.Ctx {
			if cs, ok := site.(ssa.CallInstruction); ok {
				fr = append(fr, frame{cs})
				roots[cs.Parent()] = true
			}
		}
		stack = append(stack, node{cfgPos{B: s.B, I: s.I}, []int{s.B.Index}, fr})
		roots[s.B.Parent()] = true
	}
	steps := 0
	for len(stack) > 0 {
		steps++
		if steps > 200000 {
			break
		}
		n := stack[len(stack)-1]
		stack = stack[:len(stack)-1]
		b := n.pos.B
		stop := false
		for i := n.pos.I; i < len(b.Instrs) && !stop; i++ {
			in := b.Instrs[i]
			if blocker != nil && blocker(in) {
				stop = true
				break
			}
			if _, isRet := in.(*ssa.Return); isRet && len(n.frames) > 0 {
				// pop: continue after the call site
				site := n.frames[len(n.frames)-1].site
				rest := n.frames[:len(n.frames)-1]
				ap := afterInstr(site)
				k := key(rest, ap.B) + fmt.Sprintf("@%d", ap.I)
				if !seen[k] {
					seen[k] = true
					stack = append(stack, node{ap, append(append([]int{}, n.path...), ap.B.Index), rest})
				}
				stop = true
				break
			}
			if target(in) {
				return in, n.path, true
			}
			if c, ok := in.(ssa.CallInstruction); ok && len(n.frames) < 3 {
				if _, isGo := in.(*ssa.Go); isGo {
					continue
				}
				if _, isDefer := in.(*ssa.Defer); isDefer {
					continue
				}
				if cal := calleeAt(c, n.frames); cal != nil && worthEntering(cal) {
					recursive := false
					for _, f := range n.frames {
						if calleeAt(f.site, nil) == cal {
							recursive = true
						}
					}
					if cal == b.Parent() || roots[cal] {
						recursive = true
					}
					if !recursive {
						nf := append(append([]frame{}, n.frames...), frame{c})
						k := key(nf, cal.Blocks[0])
						if !seen[k] {
							seen[k] = true
							stack = append(stack, node{cfgPos{B: cal.Blocks[0], I: 0}, append(append([]int{}, n.path...), -1, cal.Blocks[0].Index), nf})
						}
						stop = true
						break
					}
				}
			}
		}
		if stop {
			continue
		}
		for _, s := range b.Succs {
			if edgeOK != nil && !edgeOK(b, s) {
				continue
			}
			k := key(n.frames, s)
			if seen[k] {
				continue
			}
			seen[k] = true
			np := append(append([]int{}, n.path...), s.Index)
			stack = append(stack, node{cfgPos{B: s, I: 0}, np, n.frames})
		}
	}
	return nil, nil, false
}

// reachesInstrFree: fn (transitively through static module callees and closures it creates) contains an
// instruction satisfying pred.
func reachesInstrFree(fn *ssa.Function, pred func(ssa.Instruction) bool, depth int, seen map[*ssa.Function]bool) bool {
	if fn == nil || fn.Blocks == nil || seen[fn] {
		return false
	}
	seen[fn] = true
	for _, b := range fn.Blocks {
		for _, in := range b.Instrs {
			if pred(in) {
				return true
			}
			if depth > 0 {
				if c, ok := in.(ssa.CallInstruction); ok {
					if cal := calleeOf(c); cal != nil && strings.HasPrefix(funcPkgPath(cal), modPath) {
						if reachesInstrFree(cal, pred, depth-1, seen) {
							return true
						}
					}
				}
				if mc, ok := in.(*ssa.MakeClosure); ok {
					if reachesInstrFree(mc.Fn.(*ssa.Function), pred, depth-1, seen) {
						return true
					}
				}
			}
		}
	}
	return false
}

func isReturn(in ssa.Instruction) bool { _, ok := in.(*ssa.Return); return ok }

func isCallToFn(fns ...*ssa.Function) func(ssa.Instruction) bool {
	return func(in ssa.Instruction) bool {
		c, ok := in.(ssa.CallInstruction)
		if !ok {
			return false
		}
		cal := calleeOf(c)
		if cal == nil {
			return false
		}
		for _, f := range fns {
			if f != nil && sameFunc(cal, f) {
				return true
			}
		}
		return false
	}
}

func isInvokeNamed(names ...string) func(ssa.Instruction) bool {
	return func(in ssa.Instruction) bool {
		c, ok := in.(ssa.CallInstruction)
		if !ok {
			return false
		}
		m := invokedMethod(c)
		if m == nil {
			return false
		}
		for _, n := range names {
			if m.Name() == n {
				return true
			}
		}
		return false
	}
}

func orPred(ps ...func(ssa.Instruction) bool) func(ssa.Instruction) bool {
	return func(in ssa.Instruction) bool {
		for _, p := range ps {
			if p != nil && p(in) {
				return true
			}
		}
		return false
	}
}

func pathStr(path []int) string {
	var s []string
	for _, i := range path {
		if i == -1 {
			s = append(s, "(into callee)")
			continue
		}
		s = append(s, fmt.Sprint(i))
	}
	return "blocks " + strings.Join(s, "→")
}

// callsIn lists call instructions in fn (not closures) matching pred.
func instrsIn(fn *ssa.Function, pred func(ssa.Instruction) bool) []ssa.Instruction {
	var out []ssa.Instruction
	for _, b := range fn.Blocks {
		for _, in := range b.Instrs {
			if pred(in) {
				out = append(out, in)
			}
		}
	}
	return out
}

// reachesCall: does fn (transitively through static repo callees and its closures, depth-limited)
// contain a call matching pred? Used to treat wrappers as "performs X".
func (p *Prog) reachesInstr(fn *ssa.Function, pred func(ssa.Instruction) bool, depth int, seen map[*ssa.Function]bool) bool {
	if fn == nil || fn.Blocks == nil || seen[fn] {
		return false
	}
	seen[fn] = true
	for _, b := range fn.Blocks {
		for _, in := range b.Instrs {
			if pred(in) {
				return true
			}
			if depth > 0 {
				if c, ok := in.(ssa.CallInstruction); ok {
					if cal := calleeOf(c); cal != nil && strings.HasPrefix(funcPkgPath(cal), modPath) {
						if p.reachesInstr(cal, pred, depth-1, seen) {
							return true
						}
					}
				}
				if mc, ok := in.(*ssa.MakeClosure); ok {
					if p.reachesInstr(mc.Fn.(*ssa.Function), pred, depth-1, seen) {
						return true
					}
				}
			}
		}
	}
	return false
}

// performs returns a predicate "instruction is a call that (transitively, depth d) performs pred".
func (p *Prog) performs(pred func(ssa.Instruction) bool, depth int) func(ssa.Instruction) bool {
	memo := map[*ssa.Function]bool{}
	return func(in ssa.Instruction) bool {
		if pred(in) {
			return true
		}
		c, ok := in.(ssa.CallInstruction)
		if !ok {
			return false
		}
		cal := calleeOf(c)
		if cal == nil || cal.Blocks == nil || !strings.HasPrefix(funcPkgPath(cal), modPath) {
			return false
		}
		if v, ok := memo[cal]; ok {
			return v
		}
		v := p.reachesInstr(cal, pred, depth, map[*ssa.Function]bool{})
		memo[cal] = v
		return v
	}
}

// precededBy: on every path from the entry of the enclosing function to `in`, an instruction
// satisfying pred executes first; if not, the obligation is lifted to every static call site of the
// enclosing function (to the given depth). Functions without callers fail.
func (p *Prog) precededBy(in ssa.Instruction, pred func(ssa.Instruction) bool, depth int, seen map[*ssa.Function]bool) (bool, []string) {
	fn := in.Parent()
	_, _, found := reachAvoiding([]cfgPos{entryPos(fn)}, func(x ssa.Instruction) bool { return x == in }, pred, nil)
	if !found {
		return true, nil
	}
	here := funcKey(fn) + " @" + p.Pos(instrPos(in))
	if depth <= 0 || seen[fn] {
		return false, []string{here + " (lift bound)"}
	}
	seen[fn] = true
	defer delete(seen, fn)
	var sites []ssa.CallInstruction
	for _, c := range p.CallSites(fn) {
		if !isTestdataOrMock(c.Parent()) {
			sites = append(sites, c)
		}
	}
	if len(sites) == 0 {
		return false, []string{here + " (no callers)"}
	}
	for _, c := range sites {
		ok, chain := p.precededBy(c, pred, depth-1, seen)
		if !ok {
			return false, append([]string{here}, chain...)
		}
	}
	return true, nil
}
