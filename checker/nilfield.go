package main

import (
	"fmt"
	"go/token"
	"go/types"
	"os"
	"strings"

	"golang.org/x/tools/go/ssa"
)

// nilFieldDerefs: loads through an optional (pointer-typed) field of an API object — a struct declared under
// k8s.io/api or this module's pkg/apis — that are reachable without that field having been tested non-nil.
// Returns the offending loads and the number of loads examined.
func nilFieldDerefs(fx *Facts, fn *ssa.Function) ([]ssa.Instruction, int) {
	var out []ssa.Instruction
	n := 0
	for _, in := range instrsIn(fn, func(in ssa.Instruction) bool {
		u, ok := in.(*ssa.UnOp)
		return ok && u.Op == token.MUL
	}) {
		u := in.(*ssa.UnOp)
		// *(load of field F) where F has pointer type to a basic type (optional scalar of an API object)
		inner, ok := u.X.(*ssa.UnOp)
		if !ok || inner.Op != token.MUL {
			continue
		}
		fa, ok := inner.X.(*ssa.FieldAddr)
		if !ok {
			continue
		}
		pt, ok := fa.X.Type().Underlying().(*types.Pointer)
		if !ok {
			continue
		}
		named, ok := pt.Elem().(*types.Named)
		if !ok || named.Obj().Pkg() == nil {
			continue
		}
		pk := named.Obj().Pkg().Path()
		if !strings.HasPrefix(pk, "k8s.io/api/") && !strings.Contains(pk, "/pkg/apis/") {
			continue
		}
		if _, isPtr := inner.Type().Underlying().(*types.Pointer); !isPtr {
			continue
		}
		n++
		key := termOf(inner).String()
		guard := func(f Fact) bool {
			if f.T.Op == "bin" && len(f.T.Args) == 2 && f.T.Args[0].String() == key && f.T.Args[1].isNilConst() {
				return (f.T.Name == "!=" && f.Pol) || (f.T.Name == "==" && !f.Pol)
			}
			return false
		}
		if _, ok := hasFact(fx.FactsAt(in), guard); ok {
			continue
		}
		if fx.FactsAt(in).Bottom {
			continue
		}
		out = append(out, in)
	}
	// field access THROUGH an optional pointer-to-struct field of an API object: obj.F.G with F *T
	for _, in := range instrsIn(fn, func(in ssa.Instruction) bool { _, ok := in.(*ssa.FieldAddr); return ok }) {
		outer := in.(*ssa.FieldAddr)
		inner, ok := outer.X.(*ssa.UnOp)
		if !ok || inner.Op != token.MUL {
			continue
		}
		fa, ok := inner.X.(*ssa.FieldAddr)
		if !ok {
			continue
		}
		pt, ok := fa.X.Type().Underlying().(*types.Pointer)
		if !ok {
			continue
		}
		named, ok := pt.Elem().(*types.Named)
		if !ok || named.Obj().Pkg() == nil {
			continue
		}
		pk := named.Obj().Pkg().Path()
		if !strings.HasPrefix(pk, "k8s.io/api/") && !strings.Contains(pk, "/pkg/apis/") {
			continue
		}
		if _, isPtr := inner.Type().Underlying().(*types.Pointer); !isPtr {
			continue
		}
		n++
		key := termOf(inner).String()
		guard := func(f Fact) bool {
			if f.T.Op == "bin" && len(f.T.Args) == 2 && f.T.Args[0].String() == key && f.T.Args[1].isNilConst() {
				return (f.T.Name == "!=" && f.Pol) || (f.T.Name == "==" && !f.Pol)
			}
			return false
		}
		fs := fx.FactsAt(in)
		if _, ok := hasFact(fs, guard); ok || fs.Bottom {
			continue
		}
		if guardedAtCallers(fx, fn, termOf(inner)) {
			continue
		}
		out = append(out, in)
	}
	return out, n
}

// guardedAtCallers: the term is rooted at a parameter of an unexported function, and at every static call site of
// that function the corresponding actual term is known to be non-nil.
func guardedAtCallers(fx *Facts, fn *ssa.Function, t *Term) bool {
	if rootParam(t) < 0 || fn.Object() == nil || fn.Object().Exported() || nilmapProg == nil {
		return false
	}
	sites := nilmapProg.CallSites(fn)
	if len(sites) == 0 {
		return false
	}
	for _, cs := range sites {
		if isTestdataOrMock(cs.Parent()) {
			continue
		}
		want := t.subst(callActuals(cs)).String()
		fs := fx.FactsAt(cs)
		if fs.Bottom {
			continue
		}
		if _, ok := hasFact(fs, func(f Fact) bool {
			if f.T.Op == "bin" && len(f.T.Args) == 2 && f.T.Args[0].String() == want && f.T.Args[1].isNilConst() {
				return (f.T.Name == "!=" && f.Pol) || (f.T.Name == "==" && !f.Pol)
			}
			return false
		}); !ok {
			if os.Getenv("KAI_DEBUG_NILFIELD") != "" {
				fmt.Fprintf(os.Stderr, "NILFIELD lift: want %s at %s; facts %s\n", want, cs.Parent().Name(), factKeys(fs))
			}
			return false
		}
	}
	return true
}
