package main

import (
	"go/token"
	"go/types"
	"strings"

	"golang.org/x/tools/go/ssa"
)

// nilFieldDerefs: loads through an optional (pointer-typed) field of an API object — a struct declared under
// k8s.io/api or this module's pkg/apis — that are reachable without that field having been tested non-nil.
// Returns the offending loads and the number of loads examined.
func nilFieldDerefs(fx *Facts, fn *ssa.Function) ([]ssa.Instruction, int) {
	var out []ssa.Instruction
	n := 0
	for _, in := range instrsIn(fn, func(in ssa.Instruction) bool {
		u, ok := in.(*ssa.UnOp)
		return ok && u.Op == token.MUL
	}) {
		u := in.(*ssa.UnOp)
		// *(load of field F) where F has pointer type to a basic type (optional scalar of an API object)
		inner, ok := u.X.(*ssa.UnOp)
		if !ok || inner.Op != token.MUL {
			continue
		}
		fa, ok := inner.X.(*ssa.FieldAddr)
		if !ok {
			continue
		}
		pt, ok := fa.X.Type().Underlying().(*types.Pointer)
		if !ok {
			continue
		}
		named, ok := pt.Elem().(*types.Named)
		if !ok || named.Obj().Pkg() == nil {
			continue
		}
		pk := named.Obj().Pkg().Path()
		if !strings.HasPrefix(pk, "k8s.io/api/") && !strings.Contains(pk, "/pkg/apis/") {
			continue
		}
		if _, isPtr := inner.Type().Underlying().(*types.Pointer); !isPtr {
			continue
		}
		n++
		key := termOf(inner).String()
		guard := func(f Fact) bool {
			if f.T.Op == "bin" && len(f.T.Args) == 2 && f.T.Args[0].String() == key && f.T.Args[1].isNilConst() {
				return (f.T.Name == "!=" && f.Pol) || (f.T.Name == "==" && !f.Pol)
			}
			return false
		}
		if _, ok := hasFact(fx.FactsAt(in), guard); ok {
			continue
		}
		if fx.FactsAt(in).Bottom {
			continue
		}
		out = append(out, in)
	}
	return out, n
}
