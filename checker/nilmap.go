package main

// NILMAP engine: dereference of the result of a lookup in a map with pointer values keyed by a given
// key type, without a dominating ok / != nil test.

import (
	"go/types"
	"strings"

	"golang.org/x/tools/go/ssa"
)

type NilMapSite struct {
	Fn     *ssa.Function
	Lookup *ssa.Lookup
	Deref  ssa.Instruction
	How    string
}

func isPtrMapKeyedBy(t types.Type, keyName string) bool {
	m, ok := t.Underlying().(*types.Map)
	if !ok {
		return false
	}
	if _, ok := m.Elem().Underlying().(*types.Pointer); !ok {
		return false
	}
	if strings.HasPrefix(keyName, "elem:") {
		// selected by the element type instead: map[K]*T with T named as given
		p := m.Elem().Underlying().(*types.Pointer)
		n := namedOf(p.Elem())
		return n != nil && n.Obj().Name() == strings.TrimPrefix(keyName, "elem:")
	}
	n := namedOf(m.Key())
	return n != nil && n.Obj().Name() == keyName
}

// findNilMapDerefs: for every non-comma-ok (or comma-ok) lookup in a map[keyName]*T, every dereference of
// the element (field access, method call with the element as receiver that is not nil-safe, passing it to a
// callee that dereferences the parameter unconditionally — one level) must be dominated by element != nil
// or ok == true.
func findNilMapDerefs(fx *Facts, fn *ssa.Function, keyName string) []NilMapSite {
	var out []NilMapSite
	seen := map[ssa.Instruction]bool{}
	for _, b := range fn.Blocks {
		for _, in := range b.Instrs {
			lk, ok := in.(*ssa.Lookup)
			if !ok || !isPtrMapKeyedBy(lk.X.Type(), keyName) {
				continue
			}
			elem, okVal := lookupParts(lk)
			if elem == nil {
				continue
			}
			if selfKeyed(lk) {
				continue // m[x.UID] where x is itself an element of m: the key is present by construction
			}
			for _, use := range derefUsesG(fx, elem, okVal, 0) {
				if seen[use.in] {
					continue
				}
				seen[use.in] = true
				out = append(out, NilMapSite{fn, lk, use.in, use.how})
			}
		}
	}
	return out
}

func lookupParts(lk *ssa.Lookup) (elem, okVal ssa.Value) {
	if !lk.CommaOk {
		return lk, nil
	}
	for _, r := range *lk.Referrers() {
		if ex, isEx := r.(*ssa.Extract); isEx {
			if ex.Index == 0 {
				elem = ex
			} else {
				okVal = ex
			}
		}
	}
	return
}

// selfKeyed: the key is field UID of a value that is (a phi of) elements looked up in the same map.
func selfKeyed(lk *ssa.Lookup) bool {
	fld, base := fieldLoad(lk.Index)
	if fld == nil || fld.Name() != "UID" {
		return false
	}
	mt := termOf(lk.X).String()
	var fromSameMap func(v ssa.Value, d int) bool
	fromSameMap = func(v ssa.Value, d int) bool {
		if d > 3 {
			return false
		}
		switch x := v.(type) {
		case *ssa.Lookup:
			return termOf(x.X).String() == mt
		case *ssa.Extract:
			return fromSameMap(x.Tuple, d+1)
		case *ssa.Phi:
			for _, e := range x.Edges {
				if !fromSameMap(e, d+1) {
					return false
				}
			}
			return len(x.Edges) > 0
		}
		return false
	}
	return fromSameMap(base, 0)
}

// derefUsesG: unguarded dereferences of elem (through one phi level, with the parallel ok-phi as guard).
func derefUsesG(fx *Facts, elem, okVal ssa.Value, depth int) []derefUse {
	var out []derefUse
	for _, u := range derefUses(elem, 1) {
		if !guardedNonNil(fx, u.in, elem, okVal) {
			out = append(out, u)
		}
	}
	if depth < 1 && elem.Referrers() != nil {
		for _, r := range *elem.Referrers() {
			phi, ok := r.(*ssa.Phi)
			if !ok {
				continue
			}
			// the parallel ok-phi: same block, edge i is the ok of the tuple whose element is edge i of phi
			var okPhi ssa.Value
			for _, in := range phi.Block().Instrs {
				o, isPhi := in.(*ssa.Phi)
				if !isPhi {
					break
				}
				if o == phi || !isBool(o.Type()) {
					continue
				}
				match := true
				for i, e := range phi.Edges {
					ee, ok1 := e.(*ssa.Extract)
					oe, ok2 := o.Edges[i].(*ssa.Extract)
					if !ok1 || !ok2 || ee.Tuple != oe.Tuple || oe.Index != 1 {
						match = false
					}
				}
				if match {
					okPhi = o
				}
			}
			// insert-if-absent idiom: every edge that carries the looked-up element establishes that it is present
			allEdgesGuarded := true
			for i, e := range phi.Edges {
				if e != elem {
					continue
				}
				ef := fx.edgeFacts(phi.Block().Preds[i], phi.Block(), 0)
				if !ef.Bottom && !factsGuard(ef, elem, okVal) {
					allEdgesGuarded = false
				}
			}
			if allEdgesGuarded {
				continue
			}
			for _, u := range derefUses(phi, 1) {
				if !guardedNonNil(fx, u.in, phi, okPhi) {
					out = append(out, u)
				}
			}
		}
	}
	return out
}

type derefUse struct {
	in  ssa.Instruction
	how string
}

// derefUses: instructions that dereference v (through phis one level).
func derefUses(v ssa.Value, depth int) []derefUse {
	var out []derefUse
	if v.Referrers() == nil {
		return nil
	}
	for _, r := range *v.Referrers() {
		switch x := r.(type) {
		case *ssa.FieldAddr:
			if x.X == v {
				out = append(out, derefUse{x, "field " + fieldOfAddr(x).Name()})
			}
		case *ssa.UnOp:
			if x.X == v && x.Op.String() == "*" {
				out = append(out, derefUse{x, "load"})
			}
		case ssa.CallInstruction:
			com := x.Common()
			cal := com.StaticCallee()
			for i, a := range com.Args {
				if a != v {
					continue
				}
				if cal == nil || cal.Blocks == nil {
					continue
				}
				if i < len(cal.Params) && (derefsParamUnconditionally(cal, cal.Params[i]) || derefsParamUnguarded(cal, cal.Params[i])) {
					out = append(out, derefUse{x, "passed to " + cal.Name() + " which dereferences it"})
				}
			}
		case *ssa.Phi:
			if depth < 1 {
				out = append(out, derefUses(x, depth+1)...)
			}
		}
	}
	return out
}

// derefsParamUnconditionally: the callee dereferences the parameter in its entry block (before any test).
func derefsParamUnconditionally(fn *ssa.Function, p *ssa.Parameter) bool {
	if len(fn.Blocks) == 0 {
		return false
	}
	for _, in := range fn.Blocks[0].Instrs {
		switch x := in.(type) {
		case *ssa.FieldAddr:
			if x.X == p {
				return true
			}
		case *ssa.UnOp:
			if x.X == p && x.Op.String() == "*" {
				return true
			}
		}
	}
	return false
}

// nilmapFacts is set by the property that runs the NILMAP scan (facts are needed to judge guards inside callees).
var nilmapFacts *Facts
var nilmapProg *Prog

// derefsParamUnguarded: somewhere in the callee the parameter is dereferenced (field access or load) at a point
// that is not dominated by a test establishing that it is non-nil.
func derefsParamUnguarded(fn *ssa.Function, p *ssa.Parameter) bool {
	return derefsParamUnguardedD(fn, p, 2, map[*ssa.Parameter]bool{})
}

// derefsParamUnguardedD: … directly, or by handing the parameter — without a nil test on the way — to a module
// function that does (to the given depth).
func derefsParamUnguardedD(fn *ssa.Function, p *ssa.Parameter, depth int, seen map[*ssa.Parameter]bool) bool {
	if nilmapFacts == nil || p.Referrers() == nil || seen[p] {
		return false
	}
	seen[p] = true
	pt := termOf(p).String()
	for _, r := range *p.Referrers() {
		var at ssa.Instruction
		if cc, isCall := r.(ssa.CallInstruction); isCall && depth > 0 {
			cal := calleeOf(cc)
			if cal != nil && len(cal.Blocks) > 0 && hasModPrefix(cal) && !isTestdataOrMock(cal) {
				for i, a := range cc.Common().Args {
					if a != ssa.Value(p) || i >= len(cal.Params) {
						continue
					}
					fs := nilmapFacts.FactsAt(cc)
					if fs.Bottom {
						continue
					}
					if _, guarded := fs.find(func(f Fact) bool {
						return factNilTerm(f, false, func(t *Term) bool { return t.String() == pt })
					}); guarded {
						continue
					}
					if derefsParamUnconditionally(cal, cal.Params[i]) || derefsParamUnguardedD(cal, cal.Params[i], depth-1, seen) {
						return true
					}
				}
			}
		}
		switch x := r.(type) {
		case *ssa.FieldAddr:
			if x.X == ssa.Value(p) {
				at = x
			}
		case *ssa.UnOp:
			if x.X == ssa.Value(p) && x.Op.String() == "*" {
				at = x
			}
		}
		if at == nil {
			continue
		}
		fs := nilmapFacts.FactsAt(at)
		if fs.Bottom {
			continue
		}
		_, guarded := fs.find(func(f Fact) bool {
			return factNilTerm(f, false, func(t *Term) bool { return t.String() == pt })
		})
		if !guarded {
			return true
		}
	}
	return false
}

func guardedNonNil(fx *Facts, at ssa.Instruction, elem, okVal ssa.Value) bool {
	fs := fx.FactsAt(at)
	if fs.Bottom {
		return true
	}
	return factsGuard(fs, elem, okVal)
}

// factsGuard: the facts establish that the looked-up element is present / non-nil: elem != nil, its ok
// flag, or an earlier successful comma-ok lookup of the same key in the same map.
func factsGuard(fs FactSet, elem, okVal ssa.Value) bool {
	et := termOf(elem).String()
	var mapT, keyT string
	if lk := lookupOf(elem); lk != nil {
		mapT, keyT = termOf(lk.X).String(), termOf(lk.Index).String()
	}
	for _, f := range fs.M {
		if f.T.Op == "bin" && f.T.Name == "==" && f.T.Args[1].isNilConst() && f.T.Args[0].String() == et && !f.Pol {
			return true
		}
		if okVal != nil && f.Pol && f.T.String() == termOf(okVal).String() {
			return true
		}
		if f.Pol && mapT != "" && f.T.Op == "extract" && f.T.Name == "1" && f.T.Args[0].Op == "lookup" &&
			f.T.Args[0].Args[0].String() == mapT && f.T.Args[0].Args[1].String() == keyT {
			return true
		}
	}
	return false
}

func relFile(p *Prog, in ssa.Instruction) string {
	return strings.TrimPrefix(p.Fset.Position(instrPos(in)).Filename, p.Dir+"/")
}
