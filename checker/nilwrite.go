package main

import (
	"strings"

	"golang.org/x/tools/go/ssa"
)

// nilMapWrites: writes to an Annotations / Labels map (nil on an API object that has none) that are reachable
// without the map having been tested non-nil, found by a successful lookup, or (re)initialised on the way.
// Returns the offending updates and the number of updates examined.
func nilMapWrites(fx *Facts, fn *ssa.Function) ([]ssa.Instruction, int) {
	var out []ssa.Instruction
	n := 0
	for _, in := range instrsIn(fn, func(in ssa.Instruction) bool { _, ok := in.(*ssa.MapUpdate); return ok }) {
		mu := in.(*ssa.MapUpdate)
		mt := termOf(mu.Map)
		lf := mt.lastField()
		if lf != "Annotations" && lf != "Labels" {
			continue
		}
		// a map created in this function (make / literal) is not nil
		if _, fresh := mu.Map.(*ssa.MakeMap); fresh {
			continue
		}
		n++
		key := mt.String()
		guard := func(f Fact) bool {
			if f.T.Op == "bin" && len(f.T.Args) == 2 && f.T.Args[0].String() == key && f.T.Args[1].isNilConst() {
				return (f.T.Name == "!=" && f.Pol) || (f.T.Name == "==" && !f.Pol)
			}
			// a successful lookup in the same map proves it is non-nil
			if f.Pol && f.T.Op == "extract" && f.T.Name == "1" && f.T.Args[0].Op == "lookup" && f.T.Args[0].Args[0].String() == key {
				return true
			}
			return false
		}
		isInit := func(x ssa.Instruction) bool {
			st, ok := x.(*ssa.Store)
			if !ok || termOf(st.Addr).String() != key {
				return false
			}
			switch st.Val.(type) {
			case *ssa.MakeMap:
				return true
			}
			return !strings.Contains(termOf(st.Val).String(), "nil")
		}
		_, _, found := reachAvoiding([]cfgPos{entryPos(fn)}, func(x ssa.Instruction) bool { return x == in }, isInit, func(from, to *ssa.BasicBlock) bool {
			return !fx.edgeEstablishes(from, to, guard)
		})
		if found {
			out = append(out, in)
		}
	}
	return out, n
}
