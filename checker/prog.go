package main

// Program loading and symbol lookup. Everything the rules inspect comes from here:
// go/packages (type-checked syntax of every /repo package under ./pkg/... ./cmd/...),
// go/ssa for those packages, and a repo-local CHA call graph.

import (
	"fmt"
	"go/ast"
	"go/token"
	"go/types"
	"os"
	"sort"
	"strings"

	"golang.org/x/tools/go/callgraph"
	"golang.org/x/tools/go/callgraph/cha"
	"golang.org/x/tools/go/callgraph/vta"
	"golang.org/x/tools/go/packages"
	"golang.org/x/tools/go/ssa"
	"golang.org/x/tools/go/ssa/ssautil"
)

const modPath = "github.com/NVIDIA/KAI-scheduler"

type Prog struct {
	Dir      string
	Fset     *token.FileSet
	Pkgs     []*packages.Package // repo packages only (initial)
	ByPath   map[string]*packages.Package
	SSA      *ssa.Program
	SSAPkgs  map[string]*ssa.Package
	AllFuncs []*ssa.Function // every function (incl. anonymous, methods) with a body, in repo packages
	CG       *callgraph.Graph
	Whole    bool // thorough: whole-program syntax + VTA
	NFuncs   int

	callersOf map[*ssa.Function][]*callgraph.Edge
	fileOf    map[*ast.File]*packages.Package
}

func loadProg(dir string, whole bool) (*Prog, error) {
	mode := packages.LoadSyntax
	if whole {
		mode = packages.LoadAllSyntax
	}
	cfg := &packages.Config{
		Mode:  mode | packages.NeedModule,
		Dir:   dir,
		Tests: false,
		Env:   append(os.Environ(), "GOWORK=off", "GOFLAGS=-mod=mod", "GOPROXY=off", "GOSUMDB=off", "GOTOOLCHAIN=local"),
	}
	initial, err := packages.Load(cfg, "./pkg/...", "./cmd/...")
	if err != nil {
		return nil, fmt.Errorf("packages.Load: %w", err)
	}
	nerr := 0
	var firstErr string
	packages.Visit(initial, nil, func(p *packages.Package) {
		for _, e := range p.Errors {
			if nerr == 0 {
				firstErr = e.Error()
			}
			nerr++
		}
	})
	if nerr > 0 {
		return nil, fmt.Errorf("%d load/type errors, first: %s", nerr, firstErr)
	}
	if len(initial) < 200 {
		return nil, fmt.Errorf("only %d packages loaded from %s (expected > 200)", len(initial), dir)
	}
	p := &Prog{Dir: dir, Pkgs: initial, ByPath: map[string]*packages.Package{}, SSAPkgs: map[string]*ssa.Package{}, Whole: whole}
	p.Fset = initial[0].Fset
	p.fileOf = map[*ast.File]*packages.Package{}
	for _, pk := range initial {
		p.ByPath[pk.PkgPath] = pk
		for _, f := range pk.Syntax {
			p.fileOf[f] = pk
		}
	}
	bmode := ssa.InstantiateGenerics
	var sprog *ssa.Program
	var spkgs []*ssa.Package
	if whole {
		sprog, spkgs = ssautil.AllPackages(initial, bmode)
	} else {
		sprog, spkgs = ssautil.Packages(initial, bmode)
	}
	sprog.Build()
	p.SSA = sprog
	for i, sp := range spkgs {
		if sp == nil {
			return nil, fmt.Errorf("no SSA package for %s", initial[i].PkgPath)
		}
	}
	for _, sp := range sprog.AllPackages() {
		if sp.Pkg != nil && strings.HasPrefix(sp.Pkg.Path(), modPath) {
			p.SSAPkgs[sp.Pkg.Path()] = sp
		}
	}
	all := ssautil.AllFunctions(sprog)
	for f := range all {
		if f.Blocks == nil {
			continue
		}
		if pk := funcPkgPath(f); strings.HasPrefix(pk, modPath) {
			p.AllFuncs = append(p.AllFuncs, f)
		}
	}
	sort.Slice(p.AllFuncs, func(i, j int) bool { return funcKey(p.AllFuncs[i]) < funcKey(p.AllFuncs[j]) })
	p.NFuncs = len(p.AllFuncs)
	if whole {
		p.CG = vta.CallGraph(all, cha.CallGraph(sprog))
	} else {
		p.CG = cha.CallGraph(sprog)
	}
	p.callersOf = map[*ssa.Function][]*callgraph.Edge{}
	for fn, n := range p.CG.Nodes {
		if fn == nil {
			continue
		}
		p.callersOf[fn] = n.In
	}
	return p, nil
}

func funcPkgPath(f *ssa.Function) string {
	for f.Parent() != nil {
		f = f.Parent()
	}
	if f.Pkg != nil && f.Pkg.Pkg != nil {
		return f.Pkg.Pkg.Path()
	}
	if o := f.Object(); o != nil && o.Pkg() != nil {
		return o.Pkg().Path()
	}
	if f.Origin() != nil {
		return funcPkgPath(f.Origin())
	}
	return ""
}

// funcKey is the semantic identity used in reports and tables:
// "<pkg rel path>.(*T).M", "<pkg rel path>.F", closures get "$n" suffixes from go/ssa.
func funcKey(f *ssa.Function) string {
	if f == nil {
		return "<nil>"
	}
	s := f.String()
	s = strings.ReplaceAll(s, modPath+"/", "")
	return s
}

func relPkg(path string) string { return strings.TrimPrefix(path, modPath+"/") }

// Func resolves "pkg/rel/path", "Recv" ("" for package-level), "Name" to the SSA function.
func (p *Prog) Func(pkgRel, recv, name string) *ssa.Function {
	sp := p.SSAPkgs[modPath+"/"+pkgRel]
	if sp == nil {
		return nil
	}
	if recv == "" {
		return sp.Func(name)
	}
	m := sp.Members[recv]
	t, ok := m.(*ssa.Type)
	if !ok {
		return nil
	}
	named := t.Type()
	for _, typ := range []types.Type{types.NewPointer(named), named} {
		ms := p.SSA.MethodSets.MethodSet(typ)
		for i := 0; i < ms.Len(); i++ {
			sel := ms.At(i)
			if sel.Obj().Name() == name {
				if fn := p.SSA.MethodValue(sel); fn != nil && fn.Synthetic == "" {
					return fn
				}
			}
		}
	}
	// method declared on value receiver may surface only as wrapper through pointer set
	if nt, ok := named.(*types.Named); ok {
		for i := 0; i < nt.NumMethods(); i++ {
			if nt.Method(i).Name() == name {
				return p.SSA.FuncValue(nt.Method(i))
			}
		}
	}
	return nil
}

// TypeObj resolves a named type.
func (p *Prog) TypeObj(pkgRel, name string) *types.TypeName {
	pk := p.ByPath[modPath+"/"+pkgRel]
	if pk == nil {
		return nil
	}
	if tn, ok := pk.Types.Scope().Lookup(name).(*types.TypeName); ok {
		return tn
	}
	return nil
}

func (p *Prog) Obj(pkgRel, name string) types.Object {
	pk := p.ByPath[modPath+"/"+pkgRel]
	if pk == nil {
		return nil
	}
	return pk.Types.Scope().Lookup(name)
}

func (p *Prog) Pos(pos token.Pos) string {
	if !pos.IsValid() {
		return "?"
	}
	ps := p.Fset.Position(pos)
	f := strings.TrimPrefix(ps.Filename, p.Dir+"/")
	return fmt.Sprintf("%s:%d", f, ps.Line)
}

// instrPos returns the best position for an instruction (some have NoPos).
func instrPos(in ssa.Instruction) token.Pos {
	if in.Pos().IsValid() {
		return in.Pos()
	}
	if v, ok := in.(ssa.Value); ok {
		for _, r := range *v.Referrers() {
			if r.Pos().IsValid() {
				return r.Pos()
			}
		}
	}
	// fall back to any positioned instruction of the block
	for _, o := range in.Block().Instrs {
		if o.Pos().IsValid() {
			return o.Pos()
		}
	}
	return in.Parent().Pos()
}

// rootFunc returns the outermost enclosing source function of a closure.
func rootFunc(f *ssa.Function) *ssa.Function {
	for f.Parent() != nil {
		f = f.Parent()
	}
	return f
}

// FuncsIn returns all functions (with bodies, including closures) whose package rel path has the prefix.
func (p *Prog) FuncsIn(pkgRelPrefix string) []*ssa.Function {
	var out []*ssa.Function
	for _, f := range p.AllFuncs {
		if strings.HasPrefix(relPkg(funcPkgPath(f)), pkgRelPrefix) {
			out = append(out, f)
		}
	}
	return out
}

func isTestdataOrMock(f *ssa.Function) bool {
	pk := relPkg(funcPkgPath(f))
	if pos := rootFunc(f).Pos(); pos.IsValid() && f.Prog != nil {
		if fn := f.Prog.Fset.Position(pos).Filename; strings.HasSuffix(fn, "test_utils.go") || strings.HasSuffix(fn, "_testutils.go") {
			return true
		}
	}
	return strings.Contains(pk, "/test_utils") || strings.Contains(pk, "mock") || strings.Contains(pk, "/fake") || strings.HasPrefix(pk, "pkg/env-tests")
}

// calleeOf returns the statically known callee of a call instruction, or nil.
func calleeOf(c ssa.CallInstruction) *ssa.Function {
	return c.Common().StaticCallee()
}

// invokedMethod returns the interface method for an invoke-mode call.
func invokedMethod(c ssa.CallInstruction) *types.Func {
	if c.Common().IsInvoke() {
		return c.Common().Method
	}
	return nil
}

// CallSites enumerates call instructions in repo functions whose static callee is fn
// (through go/defer too). Generic instantiations are matched by origin.
func (p *Prog) CallSites(fn *ssa.Function) []ssa.CallInstruction {
	var out []ssa.CallInstruction
	for _, f := range p.AllFuncs {
		for _, b := range f.Blocks {
			for _, in := range b.Instrs {
				if c, ok := in.(ssa.CallInstruction); ok {
					if cal := calleeOf(c); cal != nil && sameFunc(cal, fn) {
						out = append(out, c)
					}
				}
			}
		}
	}
	return out
}

func sameFunc(a, b *ssa.Function) bool {
	if a == b {
		return true
	}
	if a.Origin() != nil && a.Origin() == b {
		return true
	}
	if b.Origin() != nil && b.Origin() == a {
		return true
	}
	return false
}

// InvokeSites enumerates interface-dispatched call sites of method named name on an
// interface type (by the *types.Func identity of the interface method or by name+iface).
func (p *Prog) InvokeSites(match func(m *types.Func) bool) []ssa.CallInstruction {
	var out []ssa.CallInstruction
	for _, f := range p.AllFuncs {
		for _, b := range f.Blocks {
			for _, in := range b.Instrs {
				if c, ok := in.(ssa.CallInstruction); ok {
					if m := invokedMethod(c); m != nil && match(m) {
						out = append(out, c)
					}
				}
			}
		}
	}
	return out
}

// Callers (call-graph): edges into fn from repo functions.
func (p *Prog) Callers(fn *ssa.Function) []*callgraph.Edge {
	var out []*callgraph.Edge
	for _, e := range p.callersOf[fn] {
		if e.Caller == nil || e.Caller.Func == nil {
			continue
		}
		if strings.HasPrefix(funcPkgPath(e.Caller.Func), modPath) {
			out = append(out, e)
		}
	}
	sort.Slice(out, func(i, j int) bool {
		a, b := out[i], out[j]
		if ka, kb := funcKey(a.Caller.Func), funcKey(b.Caller.Func); ka != kb {
			return ka < kb
		}
		return a.Pos() < b.Pos()
	})
	return out
}

// Reaches reports whether `from` can reach `to` in the call graph (including closures
// defined in reached functions, which is how handlers registered as literals are covered).
func (p *Prog) Reaches(from *ssa.Function, to func(*ssa.Function) bool, maxDepth int) ([]*ssa.Function, bool) {
	type item struct {
		f    *ssa.Function
		path []*ssa.Function
	}
	seen := map[*ssa.Function]bool{from: true}
	q := []item{{from, []*ssa.Function{from}}}
	for len(q) > 0 {
		it := q[0]
		q = q[1:]
		if to(it.f) {
			return it.path, true
		}
		if len(it.path) > maxDepth {
			continue
		}
		var next []*ssa.Function
		if n := p.CG.Nodes[it.f]; n != nil {
			for _, e := range n.Out {
				if e.Callee != nil && e.Callee.Func != nil {
					next = append(next, e.Callee.Func)
				}
			}
		}
		next = append(next, it.f.AnonFuncs...)
		for _, nf := range next {
			if seen[nf] {
				continue
			}
			seen[nf] = true
			np := append(append([]*ssa.Function{}, it.path...), nf)
			q = append(q, item{nf, np})
		}
	}
	return nil, false
}

func pathString(path []*ssa.Function) string {
	var s []string
	for _, f := range path {
		s = append(s, funcKey(f))
	}
	return strings.Join(s, " -> ")
}

// fieldOf returns the struct field object selected by a FieldAddr/Field instruction.
func fieldOfAddr(fa *ssa.FieldAddr) *types.Var {
	st := derefStruct(fa.X.Type())
	if st == nil {
		return nil
	}
	return st.Field(fa.Field)
}

func fieldOfVal(fv *ssa.Field) *types.Var {
	st := derefStruct(fv.X.Type())
	if st == nil {
		return nil
	}
	return st.Field(fv.Field)
}

func derefStruct(t types.Type) *types.Struct {
	t = t.Underlying()
	if pt, ok := t.(*types.Pointer); ok {
		t = pt.Elem().Underlying()
	}
	st, _ := t.(*types.Struct)
	return st
}

// namedOf returns the named type (through one pointer) or nil.
func namedOf(t types.Type) *types.Named {
	t = types.Unalias(t)
	if pt, ok := t.(*types.Pointer); ok {
		t = types.Unalias(pt.Elem())
	}
	n, _ := t.(*types.Named)
	return n
}

func typeKey(t types.Type) string {
	n := namedOf(t)
	if n == nil || n.Obj().Pkg() == nil {
		return t.String()
	}
	return relPkg(n.Obj().Pkg().Path()) + "." + n.Obj().Name()
}

var addrTakenMemo map[*ssa.Function]bool

// addressTaken: fn is used as a value somewhere in the repository (stored, passed, bound as a method value) rather
// than only called statically.
func (p *Prog) addressTaken(fn *ssa.Function) bool {
	if addrTakenMemo == nil {
		addrTakenMemo = map[*ssa.Function]bool{}
		for _, f := range p.AllFuncs {
			for _, b := range f.Blocks {
				for _, in := range b.Instrs {
					var callee ssa.Value
					if cc, ok := in.(ssa.CallInstruction); ok && !cc.Common().IsInvoke() {
						callee = cc.Common().Value
					}
					for _, op := range in.Operands(nil) {
						if op == nil || *op == nil {
							continue
						}
						g, isFn := (*op).(*ssa.Function)
						if !isFn {
							continue
						}
						if ssa.Value(g) == callee {
							// the call target itself — but a bound-method wrapper called here still takes the address
							if g.Synthetic == "" {
								continue
							}
						}
						addrTakenMemo[g] = true
						// a bound method value / thunk wraps the declared method
						if g.Synthetic != "" {
							for _, bb := range g.Blocks {
								for _, ii := range bb.Instrs {
									if c2, ok := ii.(ssa.CallInstruction); ok {
										if t := c2.Common().StaticCallee(); t != nil {
											addrTakenMemo[t] = true
										}
									}
								}
							}
						}
					}
				}
			}
		}
	}
	return addrTakenMemo[fn]
}
