package main

import (
	"fmt"
	"go/types"
	"strings"

	"golang.org/x/tools/go/ssa"
)

func init() {
	register("C01", runC01,
		"Decides structural necessary conditions of 'node resources are never oversubscribed': binds happen only behind an Idle-fit test that covers every resource dimension; releasing capacity is charged to Idle; add/remove accounting is an exact inverse; a failed bind is undone.",
		"arithmetic of the sums (fractions, rounding), multi-cycle histories, failing Evict calls")
}

const (
	pkgFramework = "pkg/scheduler/framework"
	pkgNodeInfo  = "pkg/scheduler/api/node_info"
	pkgPodInfo   = "pkg/scheduler/api/pod_info"
	pkgPodStatus = "pkg/scheduler/api/pod_status"
	pkgResInfo   = "pkg/scheduler/api/resource_info"
	pkgGpuShare  = "pkg/scheduler/gpu_sharing"
	pkgPGInfo    = "pkg/scheduler/api/podgroup_info"
)

// boolFieldsOf lists bool fields of named struct types declared in a package.
func (p *Prog) boolFieldsOf(pkgRel string) []*types.Var {
	var out []*types.Var
	pk := p.ByPath[modPath+"/"+pkgRel]
	if pk == nil {
		return nil
	}
	sc := pk.Types.Scope()
	for _, n := range sc.Names() {
		tn, ok := sc.Lookup(n).(*types.TypeName)
		if !ok {
			continue
		}
		st, ok := tn.Type().Underlying().(*types.Struct)
		if !ok {
			continue
		}
		for i := 0; i < st.NumFields(); i++ {
			if isBool(st.Field(i).Type()) {
				out = append(out, st.Field(i))
			}
		}
	}
	return out
}

// idleFitReq: "IsTaskAllocatable(node, task) == true" for the same node and task as the bind,
// directly or through a selector flag whose every store is justified by that fact.
func idleFitReq(c *Ctx, isTA *ssa.Function, flows []*flagFlow) Req {
	return Req{Desc: "IsTaskAllocatable(node, task) == true (fits Idle)", Match: func(fs FactSet, roles []*Term) (string, bool) {
		node, task := roles[0], roles[1]
		for _, f := range fs.sorted() {
			if f.Pol && f.T.isCallTo(isTA) && len(f.T.Args) == 2 && sameTerm(f.T.Args[0], node) && sameTerm(f.T.Args[1], task) {
				return f.String(), true
			}
		}
		for _, ff := range flows {
			for _, p := range ff.pairsFrom(fs, nil, 0) {
				if sameTerm(p.N, node) && sameTerm(p.T, task) {
					return "selector flag " + ff.field.Name() + " == false ⇒ IsTaskAllocatable" + p.String(), true
				}
			}
		}
		return "", false
	}}
}

func runC01(c *Ctx) {
	p := c.P
	stmtAllocate := c.Anchor("O1", pkgFramework, "Statement", "Allocate")
	isTA := c.Anchor("O1", pkgNodeInfo, "NodeInfo", "IsTaskAllocatable")
	if stmtAllocate == nil || isTA == nil {
		return
	}
	directTA := func(f Fact) (pairNT, bool) {
		if f.Pol && f.T.isCallTo(isTA) && len(f.T.Args) == 2 {
			return pairNT{f.T.Args[0], f.T.Args[1]}, true
		}
		return pairNT{}, false
	}
	var flows []*flagFlow
	for _, fv := range p.boolFieldsOf(pkgGpuShare) {
		flows = append(flows, newFlagFlow(c, fv, directTA))
	}
	// O1: every bind (Statement.Allocate outside the framework package) is behind the idle-fit test
	req := idleFitReq(c, isTA, flows)
	n := 0
	for _, cs := range p.CallSites(stmtAllocate) {
		fn := cs.Parent()
		if isTestdataOrMock(fn) || relPkg(funcPkgPath(fn)) == pkgFramework {
			continue
		}
		n++
		c.Analysed(funcKey(fn))
		args := cs.Common().Args // stmt, task, hostname
		task := termOf(args[1])
		host := termOf(args[2])
		construct := funcKey(fn) + " -> Statement.Allocate"
		if host.Op != "field" || host.Name != "Name" {
			c.Viol("O1", "DOM", construct, instrPos(cs), "bind target is not <node>.Name of a NodeInfo that could have been fit-tested: "+host.String())
			continue
		}
		node := host.Args[0]
		r := c.Fx.Guarded(cs, []*Term{node, task}, req, 4)
		c.Check(r.OK, "O1", "DOM", construct, instrPos(cs),
			"dominated by "+r.Found,
			"bind not dominated by "+req.Desc+" on the same node and task; chain: "+strings.Join(r.Chain, " <- "))
	}
	c.Floor("O1", "DOM bind sites", n, 2)
	// O1b: the selector flag(s) that carry the decision on the fractional path
	ns := 0
	for _, ff := range flows {
		ns += ff.check("O1", "IsTaskAllocatable(node, task) == true")
	}
	c.Floor("O1", "FIELDFLOW stores", ns, 4)

	runC01Rest(c, isTA)
}

func runC01Rest(c *Ctx, isTA *ssa.Function) {
	_ = fmt.Sprint
}
