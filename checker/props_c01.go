package main

import (
	"fmt"
	"go/constant"
	"go/token"
	"go/types"
	"sort"
	"strings"

	"golang.org/x/tools/go/ssa"
)

func init() {
	register("C01", runC01,
		"Decides structural necessary conditions of 'node resources are never oversubscribed': binds happen only behind an Idle-fit test that covers every resource dimension; releasing capacity is charged to Idle; add/remove accounting is an exact inverse; a failed bind is undone.",
		"arithmetic of the sums (fractions, rounding), multi-cycle histories, failing Evict calls")
}

const (
	pkgFramework = "pkg/scheduler/framework"
	pkgNodeInfo  = "pkg/scheduler/api/node_info"
	pkgPodInfo   = "pkg/scheduler/api/pod_info"
	pkgPodStatus = "pkg/scheduler/api/pod_status"
	pkgResInfo   = "pkg/scheduler/api/resource_info"
	pkgGpuShare  = "pkg/scheduler/gpu_sharing"
	pkgPGInfo    = "pkg/scheduler/api/podgroup_info"
)

// boolFieldsOf lists bool fields of named struct types declared in a package.
func (p *Prog) boolFieldsOf(pkgRel string) []*types.Var {
	var out []*types.Var
	pk := p.ByPath[modPath+"/"+pkgRel]
	if pk == nil {
		return nil
	}
	sc := pk.Types.Scope()
	for _, n := range sc.Names() {
		tn, ok := sc.Lookup(n).(*types.TypeName)
		if !ok {
			continue
		}
		st, ok := tn.Type().Underlying().(*types.Struct)
		if !ok {
			continue
		}
		for i := 0; i < st.NumFields(); i++ {
			if isBool(st.Field(i).Type()) {
				out = append(out, st.Field(i))
			}
		}
	}
	return out
}

// idleFitReq: "IsTaskAllocatable(node, task) == true" for the same node and task as the bind,
// directly or through a selector flag whose every store is justified by that fact.
func idleFitReq(c *Ctx, isTA *ssa.Function, flows []*flagFlow) Req {
	return Req{Desc: "IsTaskAllocatable(node, task) == true (fits Idle)", Match: func(fs FactSet, roles []*Term) (string, bool) {
		node, task := roles[0], roles[1]
		for _, f := range fs.sorted() {
			if f.Pol && f.T.isCallTo(isTA) && len(f.T.Args) == 2 && sameTerm(f.T.Args[0], node) && sameTerm(f.T.Args[1], task) {
				return f.String(), true
			}
		}
		for _, ff := range flows {
			for _, p := range ff.pairsFrom(fs, nil, 0) {
				if sameTerm(p.N, node) && sameTerm(p.T, task) {
					return "selector flag " + ff.field.Name() + " == false ⇒ IsTaskAllocatable" + p.String(), true
				}
			}
		}
		return "", false
	}}
}

func runC01(c *Ctx) {
	runC01PodRequest(c)
	runC01Snapshot(c)
	runC01ScalarComparedEveryTime(c)
	runC01NewGroup(c)
	runC01MaxOrientation(c)
	borrow(c, "O10", "C14", "O5", "NodeInfo.{Idle,Used,Releasing}", "the fit test reads NodeInfo.Idle: a function outside the accounting API that changes it (an explanatory helper adding to an alias of Idle) lets later pods of the cycle fit capacity that does not exist")
	borrow(c, "O8", "C13", "O5", "Commit does not call Discard", "a failing commit must not undo allocations whose bind requests were already emitted: the pods get bound while the session has freed their resources")

	p := c.P
	stmtAllocate := c.Anchor("O1", pkgFramework, "Statement", "Allocate")
	isTA := c.Anchor("O1", pkgNodeInfo, "NodeInfo", "IsTaskAllocatable")
	if stmtAllocate == nil || isTA == nil {
		return
	}
	directTA := func(f Fact) (pairNT, bool) {
		if f.Pol && f.T.isCallTo(isTA) && len(f.T.Args) == 2 {
			return pairNT{f.T.Args[0], f.T.Args[1]}, true
		}
		return pairNT{}, false
	}
	var flows []*flagFlow
	for _, fv := range p.boolFieldsOf(pkgGpuShare) {
		flows = append(flows, newFlagFlow(c, fv, directTA))
	}
	// O1: every bind (Statement.Allocate outside the framework package) is behind the idle-fit test
	req := idleFitReq(c, isTA, flows)
	n := 0
	for _, cs := range p.CallSites(stmtAllocate) {
		fn := cs.Parent()
		if isTestdataOrMock(fn) || relPkg(funcPkgPath(fn)) == pkgFramework {
			continue
		}
		n++
		c.Analysed(funcKey(fn))
		args := cs.Common().Args // stmt, task, hostname
		task := termOf(args[1])
		host := termOf(args[2])
		construct := funcKey(fn) + " -> Statement.Allocate"
		if host.Op != "field" || host.Name != "Name" {
			c.Viol("O1", "DOM", construct, instrPos(cs), "bind target is not <node>.Name of a NodeInfo that could have been fit-tested: "+host.String())
			continue
		}
		node := host.Args[0]
		r := c.Fx.Guarded(cs, []*Term{node, task}, req, 4)
		c.Check(r.OK, "O1", "DOM", construct, instrPos(cs),
			"dominated by "+r.Found,
			"bind not dominated by "+req.Desc+" on the same node and task; chain: "+strings.Join(r.Chain, " <- "))
	}
	c.Floor("O1", "DOM bind sites", n, 2)
	// O1b: the selector flag(s) that carry the decision on the fractional path
	ns := 0
	for _, ff := range flows {
		ns += ff.check("O1", "IsTaskAllocatable(node, task) == true")
	}
	c.Floor("O1", "FIELDFLOW stores", ns, 4)

	runC01Rest(c, isTA)
}

// hasFact is a convenience over FactSet.find.
func hasFact(fs FactSet, pred func(Fact) bool) (string, bool) {
	f, ok := fs.find(pred)
	if ok {
		return f.String(), true
	}
	return "", false
}

func isMethodCall(t *Term, recvType, name string) bool {
	return t != nil && t.Op == "call" && t.Fn != nil && t.Fn.Name() == name && t.Fn.Signature.Recv() != nil && typeKey(t.Fn.Signature.Recv().Type()) == recvType
}

func termHas(t *Term, pred func(*Term) bool) bool { return t.contains(pred) }

func runC01Rest(c *Ctx, isTA *ssa.Function) {
	p, fx := c.P, c.Fx
	// O3 (GHOST): "≤ in every dimension" is sticky. In each LessEqual of the resource types, ANY dimension in which
	// the receiver exceeds the argument — a direct comparison, a dimension missing from the argument's map, or a
	// nested LessEqual that answered false — makes the answer false, for every number of scalar / MIG dimensions and
	// whatever form the comparison loop takes.
	for _, le := range []struct{ typ, name string }{
		{"BaseResource", "LessEqual"}, {"GpuResourceRequirement", "LessEqual"}, {"ResourceRequirements", "LessEqual"},
		{"ResourceRequirements", "LessEqualResource"}, {"Resource", "LessEqual"}, {"ResourceVector", "LessEqual"},
	} {
		fn := p.Func(pkgResInfo, le.typ, le.name)
		if fn == nil || len(fn.Params) < 2 {
			c.Undec("O3", "GHOST", pkgResInfo+"."+le.typ+"."+le.name, 0, "not found")
			continue
		}
		side := func(v ssa.Value) int {
			// 0 = rooted at the receiver, 1 = rooted at the argument, -1 = neither / both
			t := termOf(v)
			switch rootParam(t) {
			case 0:
				return 0
			case 1:
				return 1
			}
			// elements of a range over the receiver's / argument's maps
			r0 := t.contains(func(x *Term) bool { return x.Op == "param" && x.V == ssa.Value(fn.Params[0]) })
			r1 := t.contains(func(x *Term) bool { return x.Op == "param" && x.V == ssa.Value(fn.Params[1]) })
			if r0 && !r1 {
				return 0
			}
			if r1 && !r0 {
				return 1
			}
			return -1
		}
		rangeSide := map[ssa.Value]int{}
		for _, in := range instrsIn(fn, func(in ssa.Instruction) bool { _, ok := in.(*ssa.Range); return ok }) {
			rg := in.(*ssa.Range)
			if sd := side(rg.X); sd >= 0 {
				rangeSide[rg] = sd
			}
		}
		elemSide := func(v ssa.Value) int {
			if sd := side(v); sd >= 0 {
				return sd
			}
			if ex, ok := v.(*ssa.Extract); ok {
				if nx, ok := ex.Tuple.(*ssa.Next); ok {
					if sd, ok := rangeSide[nx.Iter]; ok {
						return sd
					}
				}
				if lk, ok := ex.Tuple.(*ssa.Lookup); ok {
					return side(lk.X)
				}
			}
			return -1
		}
		event := func(in ssa.Instruction) (ssa.Value, bool, bool) {
			switch x := in.(type) {
			case *ssa.BinOp:
				if isBoolType(x.X.Type()) {
					return nil, false, false
				}
				sx, sy := elemSide(x.X), elemSide(x.Y)
				if !((sx == 0 && sy == 1) || (sx == 1 && sy == 0)) {
					return nil, false, false
				}
				op := x.Op
				if sx == 1 { // argument on the left: flip
					op = flipCmp(op)
				}
				switch op {
				case token.GTR:
					return x, true, true
				case token.LEQ:
					return x, false, true
				}
			case *ssa.Extract:
				// a dimension of the receiver that the argument's map does not have
				if lk, ok := x.Tuple.(*ssa.Lookup); ok && lk.CommaOk && x.Index == 1 && side(lk.X) == 1 {
					return x, false, true
				}
			case *ssa.Call:
				// a helper comparing one dimension with a tolerance (lessEqualWithMinDiff(g.portion, gg.portion, ε))
				if cal := calleeOf(x); cal != nil && strings.HasPrefix(cal.Name(), "lessEqual") && len(x.Call.Args) >= 2 &&
					elemSide(x.Call.Args[0]) == 0 && elemSide(x.Call.Args[1]) == 1 {
					return x, false, true
				}
			}
			return nil, false, false
		}
		okG, und, desc := p.ghostForall(fn, event, triF)
		key := funcKey(fn) + ": any exceeding or missing dimension makes the answer false"
		if und != "" {
			c.Undec("O3", "GHOST", key, fn.Pos(), und)
			continue
		}
		c.Check(okG, "O3", "GHOST", key, fn.Pos(), desc, "the comparison can answer 'fits' although the receiver exceeds the argument in some dimension (the verdict is not sticky over the dimensions, or a nested comparison is ignored): a request larger than what a node has idle in that dimension is accepted — "+desc)
	}
	baseLE := c.Anchor("O3", pkgResInfo, "BaseResource", "LessEqual")
	lessEqRes := c.Anchor("O3", pkgResInfo, "ResourceRequirements", "LessEqualResource")
	if baseLE == nil || lessEqRes == nil {
		return
	}
	isBaseLE := func(f Fact, taskRoot int, nodeTerm string) bool {
		if !f.Pol || !f.T.isCallTo(baseLE) || len(f.T.Args) != 2 {
			return false
		}
		return rootParam(f.T.Args[0]) == taskRoot && strings.HasSuffix(f.T.Args[0].String(), ".ResReq.BaseResource") && f.T.Args[1].String() == nodeTerm+".BaseResource"
	}
	// O2: IsTaskAllocatable fits against ni.Idle only; only the best-effort exit may skip the fit
	type fitFn struct {
		fn  *ssa.Function
		arg int
	}
	fitFns := map[fitFn]bool{}
	paths := fx.retPaths(isTA, 0, WantTrue)
	for i, rp := range paths {
		construct := fmt.Sprintf("%s accepting path#%d", funcKey(isTA), i)
		_, fitted := hasFact(rp.Facts, func(f Fact) bool { return isBaseLE(f, 1, "param:0:ni.Idle") })
		if _, ok := hasFact(rp.Facts, func(f Fact) bool {
			return f.Pol && isMethodCall(f.T, pkgResInfo+".ResourceRequirements", "IsEmpty") && rootParam(f.T.Args[0]) == 1
		}); ok && !fitted {
			// "requests nothing" needs more than an empty ResReq: a gpu-memory request has GPU portion 0 in ResReq
			// until it is accepted on a node, so it must be excluded explicitly
			_, notMem := hasFact(rp.Facts, func(f Fact) bool {
				return !f.Pol && f.T.Op == "call" && f.T.Fn != nil && f.T.Fn.Name() == "IsMemoryRequest" && len(f.T.Args) > 0 && rootParam(f.T.Args[0]) == 1
			})
			c.Check(notMem, "O2", "RET", construct, rp.Pos, "best-effort exit: the task requests nothing (ResReq.IsEmpty() ∧ ¬IsMemoryRequest())",
				"the fit check is skipped for every task whose ResReq is empty — but a gpu-memory request has an empty ResReq until a node accepts it: such a pod is reported allocatable on Idle without any GPU being idle, and is bound onto a releasing GPU")
			continue
		}
		d, ok := hasFact(rp.Facts, func(f Fact) bool { return isBaseLE(f, 1, "param:0:ni.Idle") })
		if !ok {
			c.Viol("O2", "RET", construct, rp.Pos, "IsTaskAllocatable can return true without BaseResource.LessEqual(task.ResReq, ni.Idle): CPU/memory/scalar dimensions not compared against Idle; facts: "+trunc(rp.Facts.String(), 500))
			continue
		}
		// any fit fact naming a node resource other than Idle?
		if bad, ok := hasFact(rp.Facts, func(f Fact) bool {
			return f.Pol && f.T.isCallTo(baseLE) && rootParam(f.T.Args[1]) == 0 && !strings.HasPrefix(f.T.Args[1].String(), "param:0:ni.Idle")
		}); ok {
			_ = bad
		}
		found := false
		for _, f := range rp.Facts.sorted() {
			if f.Pol && f.T.Op == "call" && f.T.Fn != nil && relPkg(funcPkgPath(f.T.Fn)) == pkgNodeInfo {
				for ai, a := range f.T.Args {
					if a.String() == "param:0:ni.Idle" {
						fitFns[fitFn{f.T.Fn, ai}] = true
						found = true
					}
				}
			}
		}
		if !found {
			c.Viol("O2", "RET", construct, rp.Pos, "no fit routine applied to ni.Idle on this accepting path")
			continue
		}
		c.Hold("O2", "RET", construct, rp.Pos, d)
	}
	c.Floor("O2", "RET accepting paths of IsTaskAllocatable", len(paths), 2)
	// O3 rule A: every fit routine applied to Idle covers base resources and GPUs on each accepting path
	for ff := range fitFns {
		c.Analysed(funcKey(ff.fn))
		nodeTerm := termOf(ff.fn.Params[ff.arg]).String()
		for i, rp := range fx.retPaths(ff.fn, 0, WantTrue) {
			construct := fmt.Sprintf("%s accepting path#%d", funcKey(ff.fn), i)
			_, okBase := hasFact(rp.Facts, func(f Fact) bool {
				return f.Pol && f.T.isCallTo(baseLE) && f.T.Args[1].String() == nodeTerm+".BaseResource" && strings.HasSuffix(f.T.Args[0].String(), "ResReq.BaseResource")
			})
			dg, okGpu := hasFact(rp.Facts, func(f Fact) bool {
				if f.Pol && f.T.isCallTo(lessEqRes) && f.T.Args[1].String() == nodeTerm {
					return true
				}
				if f.T.Op == "bin" && (f.T.Name == "<" || f.T.Name == "<=") {
					usesNodeGpus := termHas(f.T, func(x *Term) bool {
						return isMethodCall(x, pkgResInfo+".Resource", "GPUs") && x.Args[0].String() == nodeTerm
					})
					usesDevices := termHas(f.T, func(x *Term) bool { return x.Op == "call" && x.Fn != nil && x.Fn.Name() == "GetNumOfGpuDevices" })
					// accepting: devices <= available  (positive "<=" with devices on the left, or NOT available < devices)
					return usesNodeGpus && usesDevices
				}
				return false
			})
			if !okBase {
				c.Viol("O3", "RET", construct, rp.Pos, "fit routine accepts without comparing CPU/memory/scalar resources (BaseResource.LessEqual) against the node resources it was given")
			} else if !okGpu {
				c.Viol("O3", "RET", construct, rp.Pos, "fit routine accepts without a GPU-count / MIG comparison against the node resources it was given")
			} else {
				c.Hold("O3", "RET", construct, rp.Pos, "base: BaseResource.LessEqual; gpu: "+trunc(dg, 200))
			}
		}
	}
	c.Floor("O3", "RET fit routines", len(fitFns), 1)
	// O3 rule C: LessEqualResource and the LessEqual family cover every dimension
	{
		tf := fx.retFacts(lessEqRes, 0, WantTrue, 0)
		_, okBase := hasFact(tf, func(f Fact) bool {
			return f.Pol && f.T.isCallTo(baseLE) && rootParam(f.T.Args[0]) == 0 && rootParam(f.T.Args[1]) == 1
		})
		_, okGpu := hasFact(tf, func(f Fact) bool {
			return f.T.Op == "bin" && (f.T.Name == "<" || f.T.Name == "<=") &&
				termHas(f.T, func(x *Term) bool { return isMethodCall(x, pkgResInfo+".Resource", "GPUs") && rootParam(x) == 1 }) &&
				termHas(f.T, func(x *Term) bool { return x.Op == "call" && x.Fn != nil && x.Fn.Name() == "GPUs" && rootParam(x) == 0 })
		})
		refs := fieldRefs(lessEqRes, 2)
		okMig := false
		for f, idx := range refs {
			if f.Name() == "scalarResources" && idx[1] {
				okMig = true
			}
		}
		migCall := p.reachesInstr(lessEqRes, func(in ssa.Instruction) bool {
			cc, ok := in.(ssa.CallInstruction)
			return ok && calleeOf(cc) != nil && calleeOf(cc).Name() == "MigResources"
		}, 0, map[*ssa.Function]bool{})
		c.Check(okBase, "O3", "RET", funcKey(lessEqRes)+": base resources", lessEqRes.Pos(), "true ⇒ BaseResource.LessEqual(r, rr)", "LessEqualResource can return true without BaseResource.LessEqual(r.BaseResource, rr.BaseResource)")
		c.Check(okGpu, "O3", "RET", funcKey(lessEqRes)+": gpus", lessEqRes.Pos(), "true ⇒ requested GPUs compared with rr.GPUs()", "LessEqualResource can return true without comparing requested GPUs (incl. DRA) with rr.GPUs()")
		c.Check(okMig && migCall, "O3", "FIELDS", funcKey(lessEqRes)+": MIG instances", lessEqRes.Pos(), "iterates r.MigResources() against rr.scalarResources", "LessEqualResource no longer compares MIG instance requests with the node's scalar resources")
	}
	for _, m := range []struct{ recv string }{{"BaseResource"}, {"Resource"}} {
		fn := c.Anchor("O3", pkgResInfo, m.recv, "LessEqual")
		if fn == nil {
			continue
		}
		refs := fieldRefs(fn, 2)
		tn := p.TypeObj(pkgResInfo, m.recv)
		for _, f := range structFields(tn.Type()) {
			idx := refs[f]
			construct := fmt.Sprintf("%s covers field %s", funcKey(fn), f.Name())
			c.Check(idx[0] && idx[1], "O3", "FIELDS", construct, fn.Pos(), "field read on both operands", fmt.Sprintf("LessEqual does not compare field %s of both operands: a resource dimension is not checked", f.Name()))
		}
		// numeric fields: the comparison must be a fact of the true result
		tf := fx.retFacts(fn, 0, WantTrue, 0)
		for _, f := range structFields(tn.Type()) {
			if b, ok := f.Type().Underlying().(*types.Basic); !ok || b.Info()&types.IsNumeric == 0 {
				continue
			}
			construct := fmt.Sprintf("%s orders field %s", funcKey(fn), f.Name())
			d, ok := hasFact(tf, func(ft Fact) bool {
				if ft.T.Op != "bin" || (ft.T.Name != "<" && ft.T.Name != "<=") {
					return false
				}
				a, b := ft.T.Args[0], ft.T.Args[1]
				if a.lastField() != f.Name() || b.lastField() != f.Name() {
					return false
				}
				// accepted forms: NOT (rr.f < r.f)   or   r.f <= rr.f
				if !ft.Pol && ft.T.Name == "<" {
					return rootParam(a) == 1 && rootParam(b) == 0
				}
				if ft.Pol && ft.T.Name == "<=" {
					return rootParam(a) == 0 && rootParam(b) == 1
				}
				return false
			})
			c.Check(ok, "O3", "RET", construct, fn.Pos(), d, fmt.Sprintf("LessEqual can return true although r.%s > rr.%s (comparison missing, reversed or non-strict where it matters)", f.Name(), f.Name()))
		}
	}

	// O4: add/remove task resources: exact inverses per status arm, with the arms the statement demands
	add := c.Anchor("O4", pkgNodeInfo, "NodeInfo", "addTaskResources")
	rem := c.Anchor("O4", pkgNodeInfo, "NodeInfo", "removeTaskResources")
	if add != nil && rem != nil {
		// O4 (ext.): the GPUs of a pod are left out of the node charge only for a resource-reservation pod (it holds
		// the device on behalf of the sharers, which are charged through the group path). Any other pod keeps its GPUs.
		nz := 0
		for _, fn := range []*ssa.Function{add, rem} {
			for _, h := range p.deepFind(fn, func(in ssa.Instruction) bool {
				cc, ok := in.(ssa.CallInstruction)
				if !ok || calleeOf(cc) == nil || calleeOf(cc).Name() != "SetGPUs" || len(cc.Common().Args) != 2 {
					return false
				}
				k, isK := cc.Common().Args[1].(*ssa.Const)
				return isK && k.Value != nil && k.Value.ExactString() == "0"
			}, 2) {
				nz++
				isResv := func(s FactSet) bool {
					_, ok := hasFact(s, func(f Fact) bool {
						return f.Pol && (isCallNamed(f.T, "IsResourceReservationTask") || isCallNamed(f.T, "IsSharedGPUAllocation"))
					})
					return ok
				}
				ok := fx.allPathsSatisfy(h.In, isResv)
				if !ok && len(h.Chain) > 0 {
					ok = fx.acceptWithExpansion(fx.factsAtDeep(h), isResv)
				}
				c.Check(ok, "O4", "DOM", funcKey(fn)+": whole GPUs are left out of the charge only for a resource-reservation pod or a shared-GPU allocation", instrPos(h.In), "IsResourceReservationTask(task.Pod), or a shared-GPU allocation (charged through its GPU group)",
					"the GPU request of a pod that is not a GPU-reservation pod can be dropped from the node accounting (e.g. every utility pod, which includes the scale-adjuster's scaling pods that really hold GPUs): those GPUs stay idle in the books and are bound again")
			}
		}
		c.Floor("O4", "DOM GPU exemptions", nz, 2)
		tgt := func(t *Term) bool { return rootParam(t) == 0 && t.Op == "field" }
		ea, er := extractEffects(fx, add, tgt, statusArm, 0), extractEffects(fx, rem, tgt, statusArm, 0)
		mism := pairInverse(ea, er)
		c.Check(len(mism) == 0, "O4", "PAIR", funcKey(add)+" <-> "+funcKey(rem), add.Pos(), fmt.Sprintf("%d effects, all inverted per arm: %s", len(ea), trunc(effectsSummary(ea), 600)), "add/remove are not inverses: "+strings.Join(mism, "; "))
		rel, okR := p.ConstInt(pkgPodStatus, "Releasing")
		pip, okP := p.ConstInt(pkgPodStatus, "Pipelined")
		if !okR || !okP {
			c.Undec("O4", "CONST", "pod_status.Releasing/Pipelined", add.Pos(), "status constants not found")
		} else {
			relArm, pipArm := fmt.Sprintf("Status==%d", rel), fmt.Sprintf("Status==%d", pip)
			neg := []string{"!" + relArm, "!" + pipArm}
			sort.Strings(neg)
			defArm := strings.Join(neg, " & ")
			type exp struct {
				arm, name, field, op string
				want                 bool
				why                  string
			}
			exps := []exp{
				{"", "always", ".Used", "+", true, "every occupying pod raises Used"},
				{relArm, "Status==Releasing", ".Idle", "-", true, "a terminating (Releasing) pod still occupies Idle"},
				{relArm, "Status==Releasing", ".Releasing", "+", true, "a terminating pod is counted as releasing capacity"},
				{pipArm, "Status==Pipelined", ".Releasing", "-", true, "a nominated (Pipelined) pod consumes releasing capacity"},
				{pipArm, "Status==Pipelined", ".Idle", "-", false, "a nominated pod must not consume Idle"},
				{pipArm, "Status==Pipelined", ".Idle", "+", false, "a nominated pod must not change Idle"},
				{defArm, "default", ".Idle", "-", true, "every other occupying pod lowers Idle"},
				{defArm, "default", ".Releasing", "+", false, "a bound/running pod is not releasing capacity"},
			}
			for _, e := range exps {
				got := hasEffectUnder(ea, e.arm, e.field, e.op)
				construct := fmt.Sprintf("%s arm[%s] %s %s expected=%v", funcKey(add), e.name, e.field, e.op, e.want)
				c.Check(got == e.want, "O4", "PAIR", construct, add.Pos(), e.why, fmt.Sprintf("arm table of addTaskResources deviates from the property: %s (found=%v); effects: %s", e.why, got, trunc(effectsSummary(ea), 500)))
			}
		}
	}

	// O5: status groups and snapshot admission
	runStatusConsts(c, "O5")
	if fn := c.Anchor("O5", pkgNodeInfo, "NodeInfo", "AddTasksToNode"); fn != nil {
		isActive := c.P.Func(pkgPodStatus, "", "IsActiveUsedStatus")
		addTask := c.P.Func(pkgNodeInfo, "NodeInfo", "AddTask")
		calls := instrsIn(fn, isCallToFn(addTask))
		if len(calls) == 0 || isActive == nil {
			c.Viol("O5", "MPT", funcKey(fn)+": AddTask per active pod", fn.Pos(), "snapshot construction no longer adds pods to the node (AddTask not called)")
		}
		for _, call := range calls {
			ok, path := everyIterationPasses(call, isCallToFn(addTask), func(from, to *ssa.BasicBlock) bool {
				return !fx.edgeEstablishes(from, to, func(f Fact) bool { return !f.Pol && f.T.isCallTo(isActive) })
			})
			c.Check(ok, "O5", "MPT", funcKey(fn)+": AddTask per active pod", instrPos(call), "every iteration adds the pod unless !IsActiveUsedStatus(status)", "a pod with an active-used status can be skipped when the node's pods are added (its capacity would be handed out): "+pathStr(path))
		}
	}

	// O6: pod-slot check of the predicate
	runC01PodSlots(c)

	// O7: failed bind is undone
	if fn := c.Anchor("O7", pkgFramework, "Statement", "commitAllocate"); fn != nil {
		bindPod := c.Anchor("O7", pkgFramework, "Session", "BindPod")
		unalloc := c.Anchor("O7", pkgFramework, "Statement", "unallocate")
		if bindPod != nil && unalloc != nil {
			calls := instrsIn(fn, isCallToFn(bindPod))
			c.Floor("O7", "MPT BindPod calls in commitAllocate", len(calls), 1)
			for _, in := range calls {
				ok, why := failureCleanup(fx, in.(*ssa.Call), p.performs(isCallToFn(unalloc), 2))
				c.Check(ok, "O7", "MPT", funcKey(fn)+": BindPod failure -> unallocate", instrPos(in), why, "failed bind is not undone: "+why)
			}
			nf := fx.retFacts(bindPod, 0, WantNil, 0)
			d, ok := hasFact(nf, func(f Fact) bool {
				return factNilOf(f, true, func(t *Term) bool { return t.M != nil && t.M.Name() == "Bind" })
			})
			c.Check(ok, "O7", "RET", funcKey(bindPod)+": nil ⇒ Cache.Bind nil", bindPod.Pos(), d, "Session.BindPod can return nil although Cache.Bind failed (the failure would not be undone)")
		}
	}
}

// runStatusConsts: the bit-set lattice of pod_status, decided by constant-folding the predicates.
func runStatusConsts(c *Ctx, id string) {
	p := c.P
	names := []string{"Pending", "Gated", "Allocated", "Pipelined", "Binding", "Bound", "Running", "Releasing", "Succeeded", "Failed", "Unknown", "Deleted"}
	type expect struct {
		pred string
		in   map[string]bool
		why  string
	}
	set := func(xs ...string) map[string]bool {
		m := map[string]bool{}
		for _, x := range xs {
			m[x] = true
		}
		return m
	}
	exps := []expect{
		{"IsActiveUsedStatus", set("Allocated", "Pipelined", "Binding", "Bound", "Running", "Releasing"), "pods occupying (or nominated onto) a node are charged to it"},
		{"IsActiveAllocatedStatus", set("Allocated", "Pipelined", "Binding", "Bound", "Running"), "active allocated = occupying and not terminating"},
		{"AllocatedStatus", set("Allocated", "Bound", "Binding", "Running"), "allocated = really holding resources (not nominated, not terminating)"},
		{"IsAliveStatus", set("Allocated", "Pipelined", "Binding", "Bound", "Running", "Pending", "Gated"), "alive statuses"},
	}
	n := 0
	for _, e := range exps {
		fn := p.Func(pkgPodStatus, "", e.pred)
		if fn == nil {
			c.Undec(id, "ANCHOR", pkgPodStatus+"."+e.pred, 0, "status predicate not found")
			continue
		}
		c.Analysed(funcKey(fn))
		for _, nme := range names {
			v := p.ConstVal(pkgPodStatus, nme)
			if v == nil {
				c.Undec(id, "CONST", pkgPodStatus+"."+nme, 0, "status constant not found")
				continue
			}
			r, err := constEval(fn, []constant.Value{v}, 0)
			construct := fmt.Sprintf("%s(%s)", e.pred, nme)
			if err != nil {
				c.Undec(id, "CONST", construct, fn.Pos(), "cannot fold: "+err.Error())
				continue
			}
			n++
			got := constant.BoolVal(r)
			c.Check(got == e.in[nme], id, "CONST", construct, fn.Pos(), fmt.Sprintf("= %v", got), fmt.Sprintf("%s(%s) = %v, expected %v: %s", e.pred, nme, got, e.in[nme], e.why))
		}
	}
	c.Floor(id, "CONST status predicate evaluations", n, 48)
}

func runC01PodSlots(c *Ctx) {
	fx := c.Fx
	pkgPred := "pkg/scheduler/plugins/predicates"
	chk := c.Anchor("O6", pkgPred, "predicatesPlugin", "checkMaxPodsWithGpuGroupReservation")
	eval := c.Anchor("O6", pkgPred, "predicatesPlugin", "evaluateTaskOnPredicates")
	if chk == nil || eval == nil {
		return
	}
	nf := fx.retFacts(eval, 0, WantNil, 0)
	d, ok := hasFact(nf, func(f Fact) bool { return factNilOf(f, true, func(t *Term) bool { return t.isCallTo(chk) }) })
	c.Check(ok, "O6", "RET", funcKey(eval)+": nil ⇒ pod-slot check nil", eval.Pos(), d, "the node predicate can accept a node without the pod-slot check (checkMaxPodsWithGpuGroupReservation) having passed")
	isAvail := func(t *Term) bool {
		// Idle.Get(pods) + Releasing.Get(pods)
		return t.Op == "bin" && t.Name == "+" && termHas(t, func(x *Term) bool { return x.Op == "field" && x.Name == "Idle" })
	}
	paths := fx.retPaths(chk, 0, WantNil)
	for i, rp := range paths {
		construct := fmt.Sprintf("%s nil path#%d", funcKey(chk), i)
		// (a) not a shared request and 0 < available
		_, notShared := hasFact(rp.Facts, func(f Fact) bool {
			return !f.Pol && f.T.Op == "call" && f.T.Fn != nil && f.T.Fn.Name() == "IsSharedGPURequest"
		})
		_, pos := hasFact(rp.Facts, func(f Fact) bool {
			return f.Pol && f.T.Op == "bin" && f.T.Name == "<" && f.T.Args[0].String() == "const:0" && isAvail(f.T.Args[1])
		})
		_, noNew := hasFact(rp.Facts, func(f Fact) bool {
			return !f.Pol && f.T.Op == "call" && f.T.Fn != nil && f.T.Fn.Name() == "willCreateNewGpuGroup"
		})
		_, two := hasFact(rp.Facts, func(f Fact) bool {
			return !f.Pol && f.T.Op == "bin" && f.T.Name == "<" && isAvail(f.T.Args[0]) && f.T.Args[1].String() == "const:2"
		})
		switch {
		case notShared && pos:
			c.Hold("O6", "RET", construct, rp.Pos, "non-shared request: available pod slots > 0")
		case noNew:
			c.Hold("O6", "RET", construct, rp.Pos, "shared request joining an existing group: no reservation pod needed")
		case two:
			c.Hold("O6", "RET", construct, rp.Pos, "new GPU group: NOT (available pod slots < 2) — one slot kept for the reservation pod")
		default:
			c.Viol("O6", "RET", construct, rp.Pos, "pod-slot check passes without room for the pod (and, for a new GPU group, its reservation pod); facts: "+trunc(rp.Facts.String(), 500))
		}
	}
	c.Floor("O6", "RET nil paths of pod-slot check", len(paths), 3)
}

// runC01PodRequest (O9): what is charged to a node for a pod is the pod's effective request as Kubernetes
// defines it — containers summed, then the maximum with every init container, then the overhead on top, one
// pod slot. (max(sum+overhead, init) under-counts a pod whose init container dominates.)
func runC01PodRequest(c *Ctx) {
	p := c.P
	fn := c.Anchor("O9", "pkg/scheduler/api/pod_info", "", "getPodResourceRequest")
	if fn == nil {
		return
	}
	isSetMax := func(in ssa.Instruction) bool {
		cc, ok := in.(ssa.CallInstruction)
		if !ok || calleeOf(cc) == nil || calleeOf(cc).Name() != "SetMaxResource" {
			return false
		}
		return relPkg(funcPkgPath(in.Parent())) == "pkg/scheduler/api/pod_info"
	}
	isOverheadAdd := func(in ssa.Instruction) bool {
		cc, ok := in.(ssa.CallInstruction)
		if !ok || calleeOf(cc) == nil || calleeOf(cc).Name() != "Add" {
			return false
		}
		for _, a := range cc.Common().Args {
			if strings.Contains(termOf(a).String(), ".Spec.Overhead") {
				return true
			}
		}
		return false
	}
	maxes := p.deepFind(fn, isSetMax, 2)
	adds := p.deepFind(fn, isOverheadAdd, 2)
	c.Floor("O9", "MPT init-container maxima", len(maxes), 1)
	c.Floor("O9", "MPT overhead additions", len(adds), 1)
	for _, h := range maxes {
		arg := h.In.(ssa.CallInstruction).Common().Args[1]
		c.Check(valueReadsField(arg, "InitContainers", 10, map[ssa.Value]bool{}), "O9", "PROV", funcKey(fn)+": the maximum is taken with the init containers' requests", instrPos(h.In), "derived from pod.Spec.InitContainers", "SetMaxResource is applied to "+trunc(termOf(arg).String(), 120)+", which is not derived from an init container's requests")
		if loopHeaderOf(h.In.Block()) != nil {
			ok, path := everyIterationPasses(h.In, func(x ssa.Instruction) bool { return x == h.In }, nil)
			c.Check(ok, "O9", "MPT", funcKey(fn)+": every init container is folded into the maximum", instrPos(h.In), "each iteration reaches SetMaxResource", "an init container can be skipped ("+pathStr(path)+"): a pod whose largest init container is skipped is under-counted")
		}
	}
	for _, h := range adds {
		start := afterInstr(h.In)
		start.Ctx = h.Chain
		_, path, found := reachAvoiding([]cfgPos{start}, isSetMax, nil, nil)
		c.Check(!found, "O9", "MPT", funcKey(fn)+": the overhead is added after the maximum with the init containers", instrPos(h.In), "no SetMaxResource after the overhead Add", "the pod overhead is added before the maximum with the init containers is taken (max(sum+overhead, init) instead of max(sum, init)+overhead): a pod whose init container dominates is charged up to the whole overhead too little, on the bind decision and in the snapshot of running pods ("+pathStr(path)+")")
	}
	// one pod slot, always
	isPodSlot := func(in ssa.Instruction) bool {
		mu, ok := in.(*ssa.MapUpdate)
		if !ok {
			return false
		}
		k, isC := mu.Value.(*ssa.Const)
		return isC && k.Value != nil && k.Value.ExactString() == "1" && strings.Contains(termOf(mu.Key).String(), "pods")
	}
	_, path, found := reachAvoiding([]cfgPos{entryPos(fn)}, isReturn, isPodSlot, nil)
	c.Check(!found, "O9", "MPT", funcKey(fn)+": every pod requests one pod slot", fn.Pos(), "ScalarResources()[pods] = 1 on every path", "a pod's request can be built without its pod slot ("+pathStr(path)+")")
}

// valueReadsField: the value is computed from a read of the named field (through loads, copies into locals,
// conversions and call arguments).
func valueReadsField(v ssa.Value, field string, depth int, seen map[ssa.Value]bool) bool {
	if v == nil || depth == 0 || seen[v] {
		return false
	}
	seen[v] = true
	switch x := v.(type) {
	case *ssa.FieldAddr:
		if fieldOfAddr(x).Name() == field {
			return true
		}
	case *ssa.Field:
		if fieldOfVal(x).Name() == field {
			return true
		}
	case *ssa.Alloc:
		for _, r := range *x.Referrers() {
			if st, ok := r.(*ssa.Store); ok && st.Addr == ssa.Value(x) && valueReadsField(st.Val, field, depth-1, seen) {
				return true
			}
		}
		return false
	}
	if in, ok := v.(ssa.Instruction); ok {
		for _, op := range in.Operands(nil) {
			if op != nil && *op != nil && valueReadsField(*op, field, depth-1, seen) {
				return true
			}
		}
	}
	return false
}
