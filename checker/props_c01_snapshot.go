package main

import (
	"fmt"
	"sort"
	"strings"

	"golang.org/x/tools/go/ssa"
)

// runC01Snapshot: the cycle's picture of what already occupies a node. The fit test compares a request with
// NodeInfo.Idle; Idle is what is left after every pod that occupies the node — running, being bound (live BindRequest),
// utility pods included — has been added to it. A pod dropped on the way from the listers to AddTask is capacity that
// the cycle hands out a second time.
func runC01Snapshot(c *Ctx) {
	p, fx := c.P, c.Fx
	// O11: a pod's BindRequest is withheld from the snapshot only when there is none or it has failed for good
	if g := c.Anchor("O11", "pkg/scheduler/api/bindrequest_info", "BindRequestMap", "GetBindRequestForPod"); g != nil {
		n := 0
		facts := fx.blockFacts(g, 0)
		for _, b := range g.Blocks {
			ret, ok := b.Instrs[len(b.Instrs)-1].(*ssa.Return)
			if !ok || len(ret.Results) != 1 {
				continue
			}
			k, isC := ret.Results[0].(*ssa.Const)
			if !isC || !k.IsNil() {
				continue
			}
			n++
			fs := facts[b]
			isExcuse := func(f Fact) bool {
				if f.T.Op == "call" && strings.HasSuffix(f.T.Name, "IsFailed") && f.Pol {
					return true
				}
				// the comma-ok of the map lookup on the receiver is false
				return !f.Pol && f.T.Op == "extract" && f.T.Name == "1" && len(f.T.Args) == 1 && f.T.Args[0].Op == "lookup" && rootParam(f.T.Args[0].Args[0]) == 0
			}
			why, excused := hasFact(fs, isExcuse)
			if !excused {
				// the two reasons share one exit (`if found && !failed { return request }; return nil`): every way of
				// reaching it establishes one of them
				excused = fx.allPathsSatisfy(ret, func(s FactSet) bool { _, ok := hasFact(s, isExcuse); return ok })
				why = "one of the two reasons on every path"
			}
			c.Check(fs.Bottom || excused, "O11", "RET", funcKey(g)+": no BindRequest reported only when there is none or it failed for good", instrPos(ret), "under "+why,
				"a pod's live BindRequest can be withheld from the snapshot (facts: "+factKeys(fs)+"): a pod that is being bound is treated as plain Pending, its node's capacity is handed to another pod while the binder binds it")
		}
		c.Floor("O11", "RET nil returns", n, 2)
	}
	// O12: every listed pod is sorted into one of the two per-node maps, and every node is given both of its lists
	if g := c.Anchor("O12", "pkg/scheduler/cache/cluster_info", "ClusterInfo", "getNodeToPodInfosMap"); g != nil {
		n := 0
		seen := map[*ssa.BasicBlock]bool{}
		for _, in := range instrsIn(g, func(in ssa.Instruction) bool { _, ok := in.(*ssa.MapUpdate); return ok }) {
			h := loopHeaderOf(in.Block())
			if h == nil || seen[h] {
				continue
			}
			seen[h] = true
			n++
			ok, path := everyIterationPasses(in, func(x ssa.Instruction) bool { _, is := x.(*ssa.MapUpdate); return is && x.Parent() == g }, nil)
			c.Check(ok, "O12", "MPT", funcKey(g)+": every listed pod is filed under its node", instrPos(in), "a map insertion on every iteration",
				"a listed pod can be left out of both per-node lists ("+pathStr(path)+"): it is never added to its node, the node's Idle does not reflect it and its capacity is handed out a second time")
		}
		c.Floor("O12", "MPT pod filing loops", n, 1)
	}
	if g := c.Anchor("O12", "pkg/scheduler/cache/cluster_info", "ClusterInfo", "addTasksToNodes"); g != nil {
		add := p.Func(pkgNodeInfo, "NodeInfo", "AddTasksToNode")
		n := 0
		var first ssa.Instruction
		for _, in := range instrsIn(g, func(in ssa.Instruction) bool {
			cc, ok := in.(ssa.CallInstruction)
			return ok && add != nil && calleeOf(cc) == add
		}) {
			n++
			if first == nil {
				first = in
			}
			h := loopHeaderOf(in.Block())
			if h == nil {
				c.Viol("O12", "MPT", funcKey(g)+": every node is given its pods", instrPos(in), "AddTasksToNode is not called in the loop over the nodes")
				continue
			}
			this := in
			ok, path := everyIterationPasses(in, func(x ssa.Instruction) bool { return x == this }, nil)
			c.Check(ok, "O12", "MPT", funcKey(g)+": every node is given its pods", instrPos(in), "on every iteration",
				"a node can be passed over without receiving one of its pod lists ("+pathStr(path)+"): its Idle stays at full capacity")
		}
		c.Floor("O12", "MPT AddTasksToNode calls (reservation pods + others)", n, 2)
	}
	// O12: AddTasksToNode adds every pod whose status occupies resources
	if g := c.Anchor("O12", pkgNodeInfo, "NodeInfo", "AddTasksToNode"); g != nil {
		addTask := p.Func(pkgNodeInfo, "NodeInfo", "AddTask")
		n := 0
		for _, in := range instrsIn(g, func(in ssa.Instruction) bool {
			cc, ok := in.(ssa.CallInstruction)
			return ok && addTask != nil && calleeOf(cc) == addTask
		}) {
			n++
			this := in
			ok, path := everyIterationPasses(in, func(x ssa.Instruction) bool { return x == this }, func(from, to *ssa.BasicBlock) bool {
				// excused: the pod's status does not occupy resources
				return !fx.edgeEstablishes(from, to, func(f Fact) bool {
					return f.T.Op == "call" && strings.HasSuffix(f.T.Name, "IsActiveUsedStatus") && !f.Pol
				})
			})
			c.Check(ok, "O12", "MPT", funcKey(g)+": every pod in a resource-occupying status is added to the node", instrPos(in), "skipped only when !IsActiveUsedStatus",
				"a pod whose status occupies resources can be skipped ("+pathStr(path)+"): the node's Idle does not reflect it")
		}
		c.Floor("O12", "MPT AddTask in AddTasksToNode", n, 1)
	}
}

func factKeys(fs FactSet) string {
	var ks []string
	for k := range fs.M {
		ks = append(ks, k)
	}
	sort.Strings(ks)
	return strings.Join(ks, "; ")
}

// runC01NewGroup (O13): a NEW gpu group opened for a fractional pod sits on a whole gpu of the node. It may be
// reported "not releasing" (which turns into a bind) only if the node has an idle whole gpu for it:
// IsTaskAllocatable alone also counts the shared gpus the task fits on, and with an order that prefers whole gpus
// (gpuspread) the pod is otherwise bound onto a gpu that a terminating pod still holds (finding F22).
func runC01NewGroup(c *Ctx) {
	fx := c.Fx
	n := 0
	for _, fn := range c.P.FuncsIn(pkgGpuShare) {
		if isTestdataOrMock(fn) {
			continue
		}
		mints := instrsIn(fn, func(in ssa.Instruction) bool {
			cc, ok := in.(ssa.CallInstruction)
			return ok && calleeOf(cc) != nil && calleeOf(cc).Name() == "NewUUID"
		})
		if len(mints) == 0 {
			continue
		}
		for _, in := range instrsIn(fn, func(in ssa.Instruction) bool {
			st, ok := in.(*ssa.Store)
			if !ok {
				return false
			}
			fa, ok := st.Addr.(*ssa.FieldAddr)
			return ok && fieldOfAddr(fa) != nil && fieldOfAddr(fa).Name() == "IsReleasing"
		}) {
			n++
			st := in.(*ssa.Store)
			fs := fx.valueFacts(st.Val, WantFalse, 0, map[ssa.Value]bool{})
			why, ok := hasFact(fs, func(f Fact) bool {
				if f.T.Op != "bin" || len(f.T.Args) != 2 {
					return false
				}
				isIdle := func(t *Term) bool {
					s := t.String()
					return strings.Contains(s, ".Idle") && strings.Contains(s, "GPUs")
				}
				l, r := isIdle(f.T.Args[0]), isIdle(f.T.Args[1])
				if l == r {
					return false
				}
				other := f.T.Args[1]
				op := f.T.Name
				if r { // mirror so that Idle is on the left
					other = f.T.Args[0]
					op = map[string]string{"<": ">", ">": "<", "<=": ">=", ">=": "<=", "==": "==", "!=": "!="}[op]
				}
				if !f.Pol {
					op = map[string]string{"<": ">=", ">": "<=", "<=": ">", ">=": "<", "==": "!=", "!=": "=="}[op]
				}
				zero := other.String() == "const:0"
				return (op == ">=" && !zero) || op == ">"
			})
			c.Check(fs.Bottom || ok, "O13", "DOM", funcKey(fn)+": a new gpu group counts as idle only if the node has an idle whole gpu for it", instrPos(in), why,
				"a freshly opened gpu group can be reported not-releasing without a lower bound on the node's idle whole gpus (facts implied by IsReleasing == false: "+factKeys(fs)+"): a fractional pod is bound onto a gpu that a terminating pod still holds")
		}
	}
	c.Floor("O13", "DOM new-group verdicts", n, 1)
}

// runC01MaxOrientation (O14): a pod's request is the MAXIMUM of its main and init containers per resource; the fit
// test compares that request with Idle. Every SetMaxResource of the resource types takes a quantity of its argument
// only when it is LARGER than the receiver's (or the receiver has none): a swapped comparison turns the maximum into
// a minimum for that dimension, the pod's request shrinks to the init container's, and more pods are bound to a node
// than its extended resources allow.
func runC01MaxOrientation(c *Ctx) {
	fx := c.Fx
	n := 0
	for _, fn := range c.P.FuncsIn("pkg/scheduler/api/resource_info") {
		if isTestdataOrMock(fn) || fn.Name() != "SetMaxResource" || fn.Parent() != nil || len(fn.Params) < 2 {
			continue
		}
		c.Analysed(funcKey(fn))
		for _, b := range fn.Blocks {
			for _, in := range b.Instrs {
				var val ssa.Value
				switch x := in.(type) {
				case *ssa.Store:
					if rootParam(termOf(x.Addr)) != 0 {
						continue
					}
					val = x.Val
				case *ssa.MapUpdate:
					if rootParam(termOf(x.Map)) != 0 {
						continue
					}
					val = x.Value
				default:
					continue
				}
				vt := termOf(val)
				// only copies of a quantity of the argument (directly, or the value of a range over one of its maps)
				fromArg := rootParam(vt) == 1
				if ex, isEx := val.(*ssa.Extract); isEx && !fromArg {
					if nx, isNext := ex.Tuple.(*ssa.Next); isNext {
						if rg, isRange := nx.Iter.(*ssa.Range); isRange && rootParam(termOf(rg.X)) == 1 {
							fromArg = true
						}
					}
				}
				if !fromArg {
					continue
				}
				n++
				vs := vt.String()
				oriented := func(s FactSet) bool {
					_, ok := hasFact(s, func(ft Fact) bool {
						if ft.T.Op == "extract" && ft.T.Name == "1" && !ft.Pol && len(ft.T.Args) == 1 && ft.T.Args[0].Op == "lookup" && rootParam(ft.T.Args[0].Args[0]) == 0 {
							return true // the receiver has no such entry
						}
						if ft.T.Op != "bin" || len(ft.T.Args) != 2 {
							return false
						}
						l, r := ft.T.Args[0].String(), ft.T.Args[1].String()
						// the argument's quantity (or an amount computed from it) on one side only
						inL, inR := strings.Contains(l, vs), strings.Contains(r, vs)
						if inL == inR {
							return false
						}
						switch ft.T.Name {
						case ">", ">=":
							return (ft.Pol && inL) || (!ft.Pol && inR)
						case "<", "<=":
							return (ft.Pol && inR) || (!ft.Pol && inL)
						}
						return false
					})
					return ok
				}
				ok := oriented(fx.FactsAt(in)) || fx.allPathsSatisfy(in, oriented)
				c.Check(ok, "O14", "DOM", fmt.Sprintf("%s: %s is taken from the argument only when it is larger", funcKey(fn), trunc(vs, 60)), instrPos(in), "argument's quantity > receiver's (or receiver has none)",
					"SetMaxResource copies "+trunc(vs, 80)+" without having established that it exceeds the receiver's quantity: the 'maximum' of main and init containers becomes a minimum for this dimension, the pod's request shrinks and the node is oversubscribed on it")
			}
		}
	}
	c.Floor("O14", "DOM conditional copies in SetMaxResource", n, 3)
}

// runC01ScalarComparedEveryTime (O15): "the request fits" compares EVERY scalar resource of the request with the
// node's (the pod slot — every pod asks for pods=1 — extended resources, ephemeral storage). In BaseResource.LessEqual
// no iteration of the scalar loop skips the comparison: a threshold that drops small quantities drops the pod slot, and
// a pod is bound to a node whose slots are all taken.
func runC01ScalarComparedEveryTime(c *Ctx) {
	f := c.Anchor("O15", "pkg/scheduler/api/resource_info", "BaseResource", "LessEqual")
	if f == nil {
		return
	}
	n := 0
	// (the scalar loop may live in a helper that is handed the two maps: request first, other side second)
	for _, dh := range c.P.deepFind(f, func(in ssa.Instruction) bool {
		lk, ok := in.(*ssa.Lookup)
		return ok && rootParam(termOf(lk.X)) == 1 && loopHeaderOf(in.Block()) != nil
	}, 2) {
		in := dh.In
		n++
		ok, path := everyIterationPassesR(in, func(x ssa.Instruction) bool { return x == in }, nil, func(*ssa.Return) bool { return false })
		c.Check(ok, "O15", "MPT", funcKey(f)+": every scalar resource of the request is compared", instrPos(in), "no iteration skips the lookup in the other side",
			"a scalar resource of the request can be skipped by the fit comparison ("+pathStr(path)+"): the pod slot (pods=1) or a small extended-resource request is not checked against what is idle, and a pod is bound to a node that has none left")
	}
	c.Floor("O15", "MPT scalar lookups of LessEqual", n, 1)
}
