package main

import (
	"fmt"
	"go/token"
	"strings"

	"golang.org/x/tools/go/ssa"
)

func init() {
	register("C02", runC02,
		"Decides structural necessary conditions of 'shared GPU devices are never oversubscribed': per-group memory counters move as inverses per status arm and the whole-GPU side effects are inverse multisets with their vector twins; a group becomes a candidate only behind the fit predicate, whose formula reads the right counters with the right signs; an immediate bind needs idle room on the device; the selected groups reach the pod unchanged and are cleared on failure; a shared allocation contributes no whole GPU. Also: whole-GPU candidates are bounded by the node's idle and releasing GPUs; GetGpuGroups reads both label forms (shared with C17).",
		"that counters never go negative or exceed the device for all reachable states (a state-machine question), distinctness of the chosen device ids beyond one append per distinct map key")
}

func runC02(c *Ctx) {
	borrow(c, "O15", "C17", "O1", "", "a reservation pod that is created, inspected and deleted without its group's mutex can be deleted by a concurrent node sync between its creation and the labelling of its first sharer: the sharer stays on a device that the device plugin hands out again")
	runC02PortionRounding(c)
	runC02LimitScanCoversInitContainers(c)
	borrow(c, "O16", "C17", "O2", "every handed-out mutex is counted", "a waiter that is not counted loses the group mutex when the holder releases: a concurrent sync deletes the reservation pod of a sharer that is between reservation and labelling, and the device is handed out again")
	borrow(c, "O17", "C01", "O12", "every pod in a resource-occupying status is added to the node", "a terminating sharer that is not put on its node leaves its group looking emptier (or its device looking idle): the share is handed out again while the pod still runs")
	borrow(c, "O10", "C13", "O9", "PodInfo.GPUGroups restored before", "an undone eviction re-adds the sharer to its node under the group ids it carries at that moment: with the ids of the simulated placement its share leaves the real device, which then looks free")
	borrow(c, "O11", "C12", "O1", "GPUGroups taken from the BindRequest", "a nominated multi-device sharer is charged to the groups its BindRequest selected; the labels the binder has written so far are a subset")
	borrow(c, "O12", "C14", "O10", "is decided by the state of the GPU group", "a shared device is charged as one whole GPU exactly while it has sharers: the ±1 on Idle/Releasing must be tied to the first / last sharer of the group")
	borrow(c, "O19", "C01", "O11", "no BindRequest reported only when there is none or it failed for good", "a sharer whose (already succeeded) bind request is hidden while its pod update has not arrived is a Pending pod on no node: its portion disappears from its GPU group and another request is bound into the room it occupies")
	borrow(c, "O13", "C13", "O5", "Commit does not call Discard", "pods whose bind request was already emitted must stay charged to their GPU groups: undoing them in the session makes the devices look free while the pods get bound")
	borrow(c, "O9", "C17", "O7", "GetGpuGroups", "the per-group memory counters of a snapshot are rebuilt from the groups GetGpuGroups reports for each bound pod: a sharer whose groups are not found leaves its devices looking free")
	borrow(c, "O7", "C01", "O2", "IsTaskAllocatable accepting path", "the bind-versus-pipeline decision for a new GPU group relies on IsTaskAllocatable: a gpu-memory request must not pass it without an idle GPU")
	p, fx := c.P, c.Fx
	// O1: add/remove shared resources per group: inverse per status arm (arm-level: guards on other counters may differ)
	add := c.Anchor("O1", pkgNodeInfo, "NodeInfo", "addSharedTaskResourcesPerPodGroup")
	rem := c.Anchor("O1", pkgNodeInfo, "NodeInfo", "removeSharedTaskResourcesPerPodGroup")
	if add != nil && rem != nil {
		tgt := func(t *Term) bool { return rootParam(t) == 0 }
		ea, er := extractEffects(fx, add, tgt, statusArm, 2), extractEffects(fx, rem, tgt, statusArm, 2)
		mism := pairInverse(ea, er)
		c.Check(len(mism) == 0, "O1", "PAIR", funcKey(add)+" <-> "+funcKey(rem), add.Pos(),
			fmt.Sprintf("%d effects, inverted per status arm: %s", len(ea), trunc(effectsSummary(ea), 900)),
			"shared-GPU add/remove are not inverses per status arm: "+strings.Join(mism, "; "))
		c.Floor("O1", "PAIR shared effects", len(ea), 17)
		// expected arm table (from the statement: used always; releasing+allocated on Releasing; releasing with opposite sign on Pipelined; allocated otherwise)
		rel, _ := p.ConstInt(pkgPodStatus, "Releasing")
		pip, _ := p.ConstInt(pkgPodStatus, "Pipelined")
		relArm, pipArm := fmt.Sprintf("Status==%d", rel), fmt.Sprintf("Status==%d", pip)
		defArm := "!" + relArm + " & !" + pipArm
		if relArm > pipArm {
			defArm = "!" + pipArm + " & !" + relArm
		}
		type exp struct {
			arm, name, field, op string
			want                 bool
			why                  string
		}
		for _, e := range []exp{
			{"", "always", ".UsedSharedGPUsMemory[_]", "+", true, "every sharer raises the group's used memory"},
			{relArm, "Releasing", ".ReleasingSharedGPUsMemory[_]", "+", true, "a terminating sharer is releasing memory"},
			{relArm, "Releasing", ".AllocatedSharedGPUsMemory[_]", "+", true, "a terminating sharer still holds its memory"},
			{pipArm, "Pipelined", ".ReleasingSharedGPUsMemory[_]", "-", true, "a nominated sharer consumes releasing memory"},
			{pipArm, "Pipelined", ".AllocatedSharedGPUsMemory[_]", "+", false, "a nominated sharer holds no memory yet"},
			{defArm, "default", ".AllocatedSharedGPUsMemory[_]", "+", true, "a bound sharer holds its memory"},
			{defArm, "default", ".Idle", "-", true, "opening a group on a fresh device takes a whole GPU out of Idle"},
			{relArm, "Releasing", ".Idle", "+", false, "a terminating sharer never returns a device to Idle while being added"},
		} {
			got := hasEffectUnder(ea, e.arm, e.field, e.op)
			c.Check(got == e.want, "O1", "PAIR", fmt.Sprintf("%s arm[%s] %s %s expected=%v", funcKey(add), e.name, e.field, e.op, e.want), add.Pos(), e.why,
				fmt.Sprintf("arm table of the shared-GPU accounting deviates from the property: %s (found=%v)", e.why, got))
		}
		// DUAL: whole-GPU effects move struct and vector together
		ntype := p.TypeObj(pkgNodeInfo, "NodeInfo")
		twin := func(base *Term, field string) bool {
			for _, f := range structFields(ntype.Type()) {
				if f.Name() == field {
					return true
				}
			}
			return false
		}
		for _, pr := range []struct {
			fn *ssa.Function
			es []Effect
		}{{add, ea}, {rem, er}} {
			n, bad := dualCheck(pr.es, twin)
			for _, b := range bad {
				c.Viol("O1", "DUAL", funcKey(pr.fn)+": "+b.Target+" "+b.Op, b.Pos, "whole-GPU effect on "+b.Target+" is not accompanied by the same effect on its vector twin under the same guard")
			}
			if len(bad) == 0 {
				c.Hold("O1", "DUAL", funcKey(pr.fn), pr.fn.Pos(), fmt.Sprintf("%d struct effects each paired with the vector twin", n))
			}
			c.Floor("O1", "DUAL "+funcKey(pr.fn), n, 4)
		}
	}

	// O2: candidate groups only behind the fit predicate; the predicate's facts and formulas
	fit := c.Anchor("O2", pkgNodeInfo, "NodeInfo", "IsTaskFitOnGpuGroup")
	enough := c.Anchor("O2", pkgNodeInfo, "NodeInfo", "enoughResourcesOnGpu")
	enoughIdle := c.Anchor("O2", pkgNodeInfo, "NodeInfo", "EnoughIdleResourcesOnGpu")
	fitting := c.Anchor("O2", pkgFramework, "Session", "FittingGPUs")
	if fit != nil && enough != nil && enoughIdle != nil && fitting != nil {
		tf := fx.retFacts(fit, 0, WantTrue, 0)
		_, a := hasFact(tf, func(f Fact) bool {
			return !f.Pol && f.T.Op == "bin" && f.T.Name == "==" && strings.Contains(canon(f.T.Args[0]), "UsedSharedGPUsMemory[_]") && f.T.Args[1].String() == "const:0"
		})
		_, b := hasFact(tf, func(f Fact) bool { return f.Pol && f.T.isCallTo(enough) })
		_, d := hasFact(tf, func(f Fact) bool {
			return !f.Pol && f.T.Op == "call" && f.T.Fn != nil && f.T.Fn.Name() == "isAllGpuReleased"
		})
		c.Check(a, "O2", "RET", funcKey(fit)+": group in use", fit.Pos(), "true ⇒ UsedSharedGPUsMemory[g] != 0", "IsTaskFitOnGpuGroup can accept a group id with no sharers (an unopened device would be treated as a shared group)")
		c.Check(b, "O2", "RET", funcKey(fit)+": room on device", fit.Pos(), "true ⇒ enoughResourcesOnGpu", "IsTaskFitOnGpuGroup can accept a group without room for the request")
		c.Check(d, "O2", "RET", funcKey(fit)+": not fully releasing", fit.Pos(), "true ⇒ !isAllGpuReleased", "IsTaskFitOnGpuGroup can accept a group whose sharers are all terminating (the device is about to become whole again)")
		// formulas: sign of each counter in the "room >= 0" inequality
		checkFormula := func(fn *ssa.Function, want map[string]int, forbid []string) {
			tf := fx.retFacts(fn, 0, WantTrue, 0)
			found := false
			for _, f := range tf.sorted() {
				if f.T.Op != "bin" || (f.T.Name != "<=" && f.T.Name != "<") {
					continue
				}
				// accepted: 0 <= expr (positive)
				if !(f.Pol && f.T.Name == "<=" && f.T.Args[0].String() == "const:0") {
					continue
				}
				signs := map[string]int{}
				linearSigns(f.T.Args[1], 1, signs)
				ok := true
				var got []string
				for leaf, s := range signs {
					got = append(got, fmt.Sprintf("%+d*%s", s, leaf))
				}
				for sub, s := range want {
					m := false
					for leaf, gs := range signs {
						if strings.Contains(leaf, sub) && gs == s {
							m = true
						}
					}
					if !m {
						ok = false
					}
				}
				for _, sub := range forbid {
					for leaf := range signs {
						if strings.Contains(leaf, sub) {
							ok = false
						}
					}
				}
				if ok && len(signs) == len(want) {
					found = true
					c.Hold("O2", "RET", funcKey(fn)+": formula", fn.Pos(), "true ⇒ 0 <= "+strings.Join(got, " "))
				}
			}
			if !found {
				c.Viol("O2", "RET", funcKey(fn)+": formula", fn.Pos(), fmt.Sprintf("the room test does not have the required form 0 <= Σ with signs %v (and without %v); facts: %s", want, forbid, trunc(tf.String(), 500)))
			}
		}
		checkFormula(enough, map[string]int{"MemoryOfEveryGpuOnNode": 1, "AllocatedSharedGPUsMemory[_]": -1, "ReleasingSharedGPUsMemory[_]": 1, "GetResourceGpuMemory": -1}, nil)
		checkFormula(enoughIdle, map[string]int{"MemoryOfEveryGpuOnNode": 1, "AllocatedSharedGPUsMemory[_]": -1, "GetResourceGpuMemory": -1}, []string{"Releasing"})
		// candidates: every append of a non-constant group id in the FittingGPUs call tree is dominated by the fit predicate
		n := 0
		seen := map[*ssa.Function]bool{}
		var walk func(fn *ssa.Function, d int)
		walk = func(fn *ssa.Function, d int) {
			if fn == nil || fn.Blocks == nil || seen[fn] || d > 2 {
				return
			}
			seen[fn] = true
			c.Analysed(funcKey(fn))
			for _, b := range fn.Blocks {
				for _, in := range b.Instrs {
					call, ok := in.(*ssa.Call)
					if !ok {
						continue
					}
					if cal := call.Common().StaticCallee(); cal != nil && strings.HasPrefix(funcPkgPath(cal), modPath) {
						walk(cal, d+1)
					}
					bi, ok := call.Common().Value.(*ssa.Builtin)
					if !ok || bi.Name() != "append" || len(call.Common().Args) != 2 {
						continue
					}
					// appended element(s): a slice literal built from one value
					elem := appendedElem(call.Common().Args[1])
					if elem == nil {
						continue
					}
					if _, isConst := elem.(*ssa.Const); isConst {
						continue // the whole-GPU indicator
					}
					if gl, ok := elem.(*ssa.UnOp); ok {
						if _, isGlobal := gl.X.(*ssa.Global); isGlobal {
							continue
						}
					}
					if !isStringType(elem) {
						continue
					}
					// only the filter stage creates candidates; later stages re-order existing ones
					et := termOf(elem)
					fs := fx.FactsAt(in)
					d, ok := hasFact(fs, func(f Fact) bool {
						return f.Pol && f.T.isCallTo(fit) && len(f.T.Args) == 3 && sameTerm(f.T.Args[2], et)
					})
					if !ok && fromSliceParam(elem) {
						continue // re-ordering elements of an already filtered list
					}
					n++
					c.Check(ok, "O2", "DOM", funcKey(fn)+": candidate group append", instrPos(in), d, "a GPU group id becomes a candidate without IsTaskFitOnGpuGroup(request, group) == true")
				}
			}
		}
		walk(fitting, 0)
		c.Floor("O2", "DOM candidate appends", n, 1)
	}

	// O3: immediate bind needs idle room on the device (selector flag justification, fractional part of C01-O1)
	if enoughIdle != nil {
		isTA := p.Func(pkgNodeInfo, "NodeInfo", "IsTaskAllocatable")
		freshMemo := map[*ssa.Function]bool{}
		createsFresh := func(fn *ssa.Function) bool {
			if v, ok := freshMemo[fn]; ok {
				return v
			}
			v := p.reachesInstr(fn, func(in ssa.Instruction) bool {
				cc, ok := in.(ssa.CallInstruction)
				return ok && calleeOf(cc) != nil && calleeOf(cc).Name() == "NewUUID"
			}, 0, map[*ssa.Function]bool{})
			freshMemo[fn] = v
			return v
		}
		direct := func(f Fact) (pairNT, bool) {
			if f.Pol && f.T.isCallTo(enoughIdle) {
				return pairNT{f.T.Args[0], f.T.Args[2]}, true
			}
			// a fresh device: the whole GPU is idle iff the node-level fit holds
			if f.Pol && isTA != nil && f.T.isCallTo(isTA) && f.T.V != nil {
				if call, ok := f.T.V.(*ssa.Call); ok && createsFresh(call.Parent()) {
					return pairNT{f.T.Args[0], f.T.Args[1]}, true
				}
			}
			return pairNT{}, false
		}
		ns := 0
		for _, fv := range p.boolFieldsOf(pkgGpuShare) {
			ff := newFlagFlow(c, fv, direct)
			ns += ff.check("O3", "idle room on the chosen device (EnoughIdleResourcesOnGpu, or a fresh whole GPU behind IsTaskAllocatable)")
		}
		c.Floor("O3", "FIELDFLOW stores", ns, 4)
	}

	// O4: N devices ⇒ N ids; the selection reaches the pod and is cleared on failure
	if sel := c.Anchor("O4", pkgGpuShare, "", "GetNodePreferableGpuForSharing"); sel != nil {
		paths := fx.retPaths(sel, 0, WantNonNil)
		for i, rp := range paths {
			d, ok := hasFact(rp.Facts, func(f Fact) bool {
				return f.Pol && f.T.Op == "bin" && f.T.Name == "==" &&
					termHas(f.T, func(x *Term) bool {
						return x.Op == "call" && x.Name == "builtin.len" && strings.HasSuffix(x.Args[0].String(), ".Groups")
					}) &&
					termHas(f.T, func(x *Term) bool { return x.Op == "call" && x.Fn != nil && x.Fn.Name() == "GetNumOfGpuDevices" })
			})
			c.Check(ok, "O4", "RET", fmt.Sprintf("%s non-nil path#%d", funcKey(sel), i), rp.Pos, d, "a device selection is returned although len(Groups) != requested number of devices")
		}
		c.Floor("O4", "RET selection paths", len(paths), 1)
		// consumer: pod.GPUGroups = selection.Groups before the allocation; nil on failure
		podT := p.TypeObj(pkgPodInfo, "PodInfo")
		gg := p.fieldVars(pkgPodInfo, "PodInfo", "GPUGroups")
		_ = podT
		n := 0
		for _, cs := range p.CallSites(sel) {
			fn := cs.Parent()
			if relPkg(funcPkgPath(fn)) != pkgGpuShare {
				continue
			}
			c.Analysed(funcKey(fn))
			var setStore, clrStore *ssa.Store
			for _, in := range instrsIn(fn, func(in ssa.Instruction) bool {
				st, ok := in.(*ssa.Store)
				if !ok {
					return false
				}
				fa, ok := st.Addr.(*ssa.FieldAddr)
				return ok && gg[fieldOfAddr(fa)]
			}) {
				st := in.(*ssa.Store)
				if k, ok := st.Val.(*ssa.Const); ok && k.IsNil() {
					clrStore = st
				} else if t := termOf(st.Val); t.Op == "field" && t.Name == "Groups" && t.Args[0].V == cs.Value() {
					setStore = st
				}
			}
			n++
			construct := funcKey(fn) + ": pod.GPUGroups"
			if setStore == nil {
				c.Viol("O4", "PROV", construct, instrPos(cs), "the selected groups are not stored unchanged into the pod (pod.GPUGroups = selection.Groups)")
				continue
			}
			// the allocation helper call(s) after the store: every statement op must come after the store
			stmtAlloc := p.Func(pkgFramework, "Statement", "Allocate")
			stmtPipe := p.Func(pkgFramework, "Statement", "Pipeline")
			placing := p.performs(isCallToFn(stmtAlloc, stmtPipe), 2)
			_, path, found := reachAvoiding([]cfgPos{entryPos(fn)}, placing, func(in ssa.Instruction) bool { return in == ssa.Instruction(setStore) }, nil)
			c.Check(!found, "O4", "MPT", construct+" set before placement", instrPos(setStore), "every placement is preceded by the store of the selection", "a placement can run before the selected groups are stored into the pod: "+pathStr(path))
			// failure: placement result false ⇒ GPUGroups cleared
			okClr := false
			if clrStore != nil {
				fs := fx.FactsAt(clrStore)
				_, okClr = hasFact(fs, func(f Fact) bool {
					return !f.Pol && f.T.Op == "call" && f.T.Fn != nil && placing(f.T.V.(ssa.Instruction))
				})
			}
			c.Check(okClr, "O4", "DOM", construct+" cleared on failure", instrPos(cs), "pod.GPUGroups = nil behind a failed placement", "a failed fractional placement leaves the selected groups on the pending pod")
		}
		c.Floor("O4", "PROV selection consumers", n, 1)
	}

	// O5: a shared allocation contributes no whole GPU to Used/Idle
	if fn := c.Anchor("O5", pkgNodeInfo, "", "getAcceptedTaskResourceWithoutSharedGPU"); fn != nil {
		isZeroSet := func(in ssa.Instruction) bool {
			cc, ok := in.(ssa.CallInstruction)
			if !ok || calleeOf(cc) == nil || calleeOf(cc).Name() != "SetGPUs" {
				return false
			}
			k, ok := cc.Common().Args[1].(*ssa.Const)
			return ok && k.Value != nil && k.Value.ExactString() == "0"
		}
		// from the edge where IsSharedGPUAllocation is true, every path to the return zeroes the GPUs, and nothing adds GPUs afterwards
		bad := ""
		n := 0
		for _, b := range fn.Blocks {
			for _, s := range b.Succs {
				if fx.edgeEstablishes(b, s, func(f Fact) bool {
					return f.Pol && f.T.Op == "call" && f.T.Fn != nil && f.T.Fn.Name() == "IsSharedGPUAllocation"
				}) {
					n++
					if _, path, found := reachAvoiding([]cfgPos{{B: s, I: 0}}, isReturn, isZeroSet, nil); found {
						bad = pathStr(path)
					}
				}
			}
		}
		for _, in := range instrsIn(fn, isZeroSet) {
			if _, path, found := reachAvoiding([]cfgPos{afterInstr(in)}, func(x ssa.Instruction) bool {
				cc, ok := x.(ssa.CallInstruction)
				return ok && calleeOf(cc) != nil && (calleeOf(cc).Name() == "AddGPUs" || calleeOf(cc).Name() == "SetGPUs")
			}, nil, nil); found {
				bad = "GPUs are set again after being zeroed: " + pathStr(path)
			}
		}
		c.Check(n > 0 && bad == "", "O5", "MPT", funcKey(fn)+": shared ⇒ 0 whole GPUs", fn.Pos(), "IsSharedGPUAllocation ⇒ SetGPUs(0) before return", "a shared (fractional) allocation can be charged whole GPUs in the node's Used/Idle as well as through its group: "+bad)
	}

	// O8: the whole-GPU candidates offered to a fractional request are bounded by the node's free whole GPUs
	if fg := c.Anchor("O8", "pkg/scheduler/framework", "", "filterGpusByEnoughResources"); fg != nil {
		n := 0
		for _, in := range instrsIn(fg, func(in ssa.Instruction) bool {
			call, ok := in.(*ssa.Call)
			if !ok {
				return false
			}
			b, isB := call.Common().Value.(*ssa.Builtin)
			if !isB || b.Name() != "append" {
				return false
			}
			e := appendedElem(call.Common().Args[1])
			k, isC := e.(*ssa.Const)
			return isC && k.Value != nil && strings.Contains(k.Value.ExactString(), "-2")
		}) {
			n++
			h := loopHeaderOf(in.Block())
			bound := ""
			ok := false
			if h != nil {
				for b := range naturalLoop(h) {
					iff, isIf := b.Instrs[len(b.Instrs)-1].(*ssa.If)
					if !isIf {
						continue
					}
					bo, isBo := iff.Cond.(*ssa.BinOp)
					if !isBo || bo.Op != token.LSS {
						continue
					}
					bound = termOf(bo.Y).String()
					ok = strings.Contains(bound, "param:0:node.Idle") && strings.Contains(bound, "param:0:node.Releasing") && !strings.Contains(bound, "param:1:")
				}
			}
			c.Check(ok, "O8", "PROV", funcKey(fg)+": as many whole-GPU candidates as the node has idle or releasing GPUs", instrPos(in), trunc(bound, 160),
				"the number of whole-GPU candidates offered for a fractional request is "+trunc(bound, 160)+" instead of the node's idle + releasing GPUs: that count is the only bound on how many new GPU groups are opened for one pod, so a multi-device request can be bound to more new groups than the node has free GPUs")
		}
		c.Floor("O8", "PROV whole-GPU candidate loops", n, 1)
	}

	// O6: a shared device counts as a host for a fractional request only through the full group test
	if fit := c.Anchor("O6", pkgNodeInfo, "NodeInfo", "IsTaskFitOnGpuGroup"); fit != nil {
		tf := fx.retFacts(fit, 0, WantTrue, 0)
		d1, enough := hasFact(tf, func(f Fact) bool { return f.Pol && isCallNamed(f.T, "enoughResourcesOnGpu") })
		_, notReleased := hasFact(tf, func(f Fact) bool { return !f.Pol && isCallNamed(f.T, "isAllGpuReleased") })
		_, hasSharer := hasFact(tf, func(f Fact) bool {
			return f.T.Op == "bin" && len(f.T.Args) == 2 && f.T.Args[0].Op == "lookup" && f.T.Args[0].Args[0].lastField() == "UsedSharedGPUsMemory" && f.T.Args[1].String() == "const:0" && ((f.T.Name == "!=" && f.Pol) || (f.T.Name == "==" && !f.Pol))
		})
		c.Check(enough && notReleased && hasSharer, "O6", "RET", funcKey(fit)+": true ⇒ the group has a sharer, room, and is not entirely releasing", fit.Pos(), trunc(d1, 80), "a gpu group can count as a host for a fractional request without one of: a current sharer, enough memory, not all sharers releasing (a fully releasing group is already accounted as a whole releasing device)")
		if en := p.Func(pkgNodeInfo, "NodeInfo", "enoughResourcesOnGpu"); en != nil {
			n := 0
			for _, cs := range p.CallSites(en) {
				if isTestdataOrMock(cs.Parent()) {
					continue
				}
				n++
				c.Check(sameFunc(rootFunc(cs.Parent()), fit), "O6", "CALLERS", funcKey(cs.Parent())+": uses the bare memory test enoughResourcesOnGpu", instrPos(cs), "only inside IsTaskFitOnGpuGroup", funcKey(cs.Parent())+" decides that a shared device can host a request with the bare memory test, without the 'has a sharer' and 'not entirely releasing' guards of IsTaskFitOnGpuGroup: a device whose sharers are all terminating is counted both as a whole releasing GPU and as a shared device with room")
			}
			c.Floor("O6", "CALLERS enoughResourcesOnGpu call sites", n, 1)
		}
	}
}

func appendedElem(v ssa.Value) ssa.Value {
	// append(xs, e) is lowered to: t = new [1]T; t[0] = e; slice t[:]
	sl, ok := v.(*ssa.Slice)
	if !ok {
		return nil
	}
	al, ok := sl.X.(*ssa.Alloc)
	if !ok {
		return nil
	}
	var elem ssa.Value
	n := 0
	for _, r := range *al.Referrers() {
		if ia, ok := r.(*ssa.IndexAddr); ok {
			for _, rr := range *ia.Referrers() {
				if st, ok := rr.(*ssa.Store); ok && st.Addr == ia {
					elem = st.Val
					n++
				}
			}
		}
	}
	if n == 1 {
		return elem
	}
	return nil
}

func isStringType(v ssa.Value) bool {
	return v.Type().Underlying().String() == "string"
}

// fromSliceParam: the value is an element of a slice/map that came in through a parameter or a call result (already filtered).
func fromSliceParam(v ssa.Value) bool {
	t := termOf(v)
	return t.contains(func(x *Term) bool { return x.Op == "index" || x.Op == "lookup" })
}

// runC02PortionRounding (O14): a gpu-memory request is turned into a portion of one device, and isValidGpuPortion
// refuses portions above 1 — the only test that the request fits a single device. The portion must therefore never
// be rounded DOWN: a request slightly above the device's memory would round to 1.00 and be placed on a shared
// device whose used memory then exceeds its size.
func runC02PortionRounding(c *Ctx) {
	f := c.Anchor("O14", pkgNodeInfo, "NodeInfo", "getGpuMemoryFractionalOnNode")
	if f == nil {
		return
	}
	n := 0
	for _, h := range c.P.deepFind(f, func(in ssa.Instruction) bool {
		cc, ok := in.(ssa.CallInstruction)
		return ok && calleeOf(cc) != nil && funcPkgPath(calleeOf(cc)) == "math"
	}, 1) {
		name := calleeOf(h.In.(ssa.CallInstruction)).Name()
		switch name {
		case "Round", "Floor", "Trunc", "RoundToEven":
			n++
			c.Viol("O14", "PROV", funcKey(f)+": the portion of a gpu-memory request is never rounded down", instrPos(h.In),
				"math."+name+" rounds the requested share of a device down for some values: a gpu-memory request slightly larger than one device's memory becomes portion 1.00, passes isValidGpuPortion and is placed on a shared device beyond its size")
		case "Ceil":
			n++
			c.Hold("O14", "PROV", funcKey(f)+": the portion of a gpu-memory request is never rounded down", instrPos(h.In), "math.Ceil")
		}
	}
	if n == 0 {
		// no rounding at all: the exact ratio is not below the request
		c.Hold("O14", "PROV", funcKey(f)+": the portion of a gpu-memory request is never rounded down", f.Pos(), "exact ratio")
	}
}

// runC02LimitScanCoversInitContainers (O18): a pod that asks for a share of a GPU by annotation must not also claim a
// whole device through a container limit — the scheduler accounts the share only, the kubelet would hand out the
// device as well. The admission check looks for such a limit in the regular AND the init containers: getFirstGPULimit
// reads both lists of the pod spec.
func runC02LimitScanCoversInitContainers(c *Ctx) {
	f := c.Anchor("O18", "pkg/binder/plugins/gpusharing/gpu-request", "", "getFirstGPULimit")
	if f == nil {
		return
	}
	// the lists that flow into what is scanned: the slices that are indexed / ranged over, traced back through append
	read := map[string]bool{}
	for _, h := range c.P.deepFind(f, func(in ssa.Instruction) bool {
		ia, ok := in.(*ssa.IndexAddr)
		return ok && strings.Contains(typeKey(ia.X.Type()), "k8s.io/api/core/v1.Container")
	}, 1) {
		for _, src := range valueSources(h.In.(*ssa.IndexAddr).X, 6) {
			if u, ok := src.(*ssa.UnOp); ok {
				if fa, ok := u.X.(*ssa.FieldAddr); ok {
					if n := termOf(fa).lastField(); n == "Containers" || n == "InitContainers" {
						read[n] = true
					}
				}
			}
		}
	}
	c.Check(read["Containers"] && read["InitContainers"], "O18", "FIELDS", funcKey(f)+": the GPU limit is looked for in regular and init containers", f.Pos(), "reads Spec.Containers and Spec.InitContainers",
		"the admission check for a whole-GPU limit next to a fractional request does not look at both container lists: a fractional pod with nvidia.com/gpu in an init container is admitted, the scheduler charges a share of one device and the kubelet hands out a whole device it still counts as idle")
	c.Floor("O18", "FIELDS container lists read by the limit scan", len(read), 2)
}
