package main

import (
	"fmt"
	"go/constant"
	"go/token"
	"go/types"
	"strings"

	"golang.org/x/tools/go/ssa"
)

func init() {
	register("C03", runC03,
		"Decides structural necessary conditions of gang integrity: the all-or-nothing control structure of AllocateJob (first failing task aborts, failed node-set attempts are rolled back to their checkpoint), commits only behind a successful attempt whose success implies the gang test, conversion of a partially nominated gang to fully nominated, the solver's verdict being IsGangSatisfied ∧ progress, and victim selection (one surplus pod or all active pods, by active-allocated counts, over all pod sets).",
		"the counting argument over arbitrary sub-group partitions; ShouldPipelineJob's arithmetic over reachable states")
}

const pkgActCommon = "pkg/scheduler/actions/common"
const pkgSolvers = "pkg/scheduler/actions/common/solvers"

// resultFalseEdgeReaches: after call (bool result) evaluates to false, can control reach target without leaving through a return?
func falseEdgeStarts(fx *Facts, call *ssa.Call) []cfgPos {
	var out []cfgPos
	fn := call.Parent()
	for _, b := range fn.Blocks {
		for _, s := range b.Succs {
			if fx.edgeEstablishes(b, s, func(f Fact) bool { return !f.Pol && f.T.V == ssa.Value(call) }) {
				out = append(out, cfgPos{B: s, I: 0})
			}
		}
	}
	return out
}

func runC03(c *Ctx) {
	runC03CloneRecursion(c)
	runC03StaleTearDown(c)
	runC03OrderCountsLikeEviction(c)
	p, fx := c.P, c.Fx
	runC03Ready(c)
	runC03Clean(c)
	runC03Tree(c)
	runC03ReadyFilter(c)
	borrow(c, "O12", "C14", "O1", "PodSet.AssignTask <-> clearOldStatus", "the pod set's active-allocated counter decides how many pods of a gang may be evicted ('above the minimum'); a decrement under another status predicate than the increment makes it drift below the real number, and a later victim selection evicts only part of what it must")
	borrow(c, "O17", "C13", "O5", "a failed eviction does not end the commit", "when one victim of a gang cannot be evicted any more (it terminated since the snapshot) the remaining evictions still go out: ending the commit there leaves the gang with fewer running pods than its minimum and more than none")
	borrow(c, "O13", "C12", "O9", "", "a terminating member that is snapshotted as bound keeps the gang looking complete: allocate binds a single replacement while the gang is below its minimum")
	runC13LookupsFirst(c, "O10", "C03")
	stmtAlloc := p.Func(pkgFramework, "Statement", "Allocate")
	stmtPipe := p.Func(pkgFramework, "Statement", "Pipeline")
	checkpoint := c.Anchor("O1", pkgFramework, "Statement", "Checkpoint")
	rollback := c.Anchor("O1", pkgFramework, "Statement", "Rollback")
	allocJob := c.Anchor("O1", pkgActCommon, "", "AllocateJob")
	if checkpoint == nil || rollback == nil || allocJob == nil {
		return
	}
	placing := p.performs(isCallToFn(stmtAlloc, stmtPipe), 6)

	// ---- O1a: in every loop that places tasks one by one, a failed placement ends the attempt (no later task is tried)
	n := 0
	seen := map[*ssa.Function]bool{}
	var walk func(fn *ssa.Function, d int)
	var treeFns []*ssa.Function
	walk = func(fn *ssa.Function, d int) {
		if fn == nil || fn.Blocks == nil || seen[fn] || d > 8 || relPkg(funcPkgPath(fn)) != pkgActCommon {
			return
		}
		seen[fn] = true
		treeFns = append(treeFns, fn)
		for _, in := range instrsIn(fn, func(ssa.Instruction) bool { return true }) {
			if cc, ok := in.(ssa.CallInstruction); ok {
				walk(calleeOf(cc), d+1)
			}
			if mc, ok := in.(*ssa.MakeClosure); ok {
				walk(mc.Fn.(*ssa.Function), d+1) // callbacks handed to helpers belong to the tree
			}
		}
	}
	walk(allocJob, 0)
	for _, fn := range treeFns {
		c.Analysed(funcKey(fn))
		for _, in := range instrsIn(fn, placing) {
			call, ok := in.(*ssa.Call)
			if !ok || !isBool(call.Type()) {
				continue
			}
			h := loopHeaderOf(call.Block())
			if h == nil {
				continue
			}
			// loops over alternatives (node sets, nodes) are handled by O1b / C05; this rule is for loops over the
			// members that must ALL succeed: recognised as loops without a checkpoint and whose success edge continues.
			// does the success edge stay in the loop (must-all loop) or leave it (first-fit loop)?
			succStays := false
			for _, b := range fn.Blocks {
				for _, s := range b.Succs {
					if fx.edgeEstablishes(b, s, func(f Fact) bool { return f.Pol && f.T.V == ssa.Value(call) }) {
						if _, _, found := reachAvoiding([]cfgPos{{B: s, I: 0}}, func(x ssa.Instruction) bool { return x == h.Instrs[0] }, isReturn, nil); found {
							succStays = true
						}
					}
				}
			}
			if !succStays {
				continue // first-fit loop (e.g. nodes of one task): failure moves on to the next alternative
			}
			n++
			starts := falseEdgeStarts(fx, call)
			_, path, found := reachAvoiding(starts, func(x ssa.Instruction) bool { return x == h.Instrs[0] }, isReturn, nil)
			ok2 := len(starts) > 0 && !found
			c.Check(ok2, "O1", "MPT", funcKey(fn)+": member loop aborts on first failure ("+calleeName(call)+")", instrPos(call), "a failed member placement leaves the loop through a return", "after a task/sub-group of the gang failed to be placed the loop goes on placing the remaining members: a partial gang can be reported as placed ("+pathStr(path)+")")
			// and the function cannot return true after a failure (without starting another iteration)
			hdr := h.Instrs[0]
			for _, st := range starts {
				for _, b := range fn.Blocks {
					ret, isRet := b.Instrs[len(b.Instrs)-1].(*ssa.Return)
					if !isRet || len(ret.Results) == 0 {
						continue
					}
					res := unspill(ret, 0)
					isTrue := func(v ssa.Value) bool {
						k, ok := v.(*ssa.Const)
						return ok && k.Value != nil && k.Value.ExactString() == "true"
					}
					bad := false
					var pth []int
					if isTrue(res) {
						_, pth, bad = reachAvoiding([]cfgPos{st}, func(x ssa.Instruction) bool { return x == ssa.Instruction(ret) }, func(x ssa.Instruction) bool { return x == hdr }, nil)
					} else if phi, ok := res.(*ssa.Phi); ok && phi.Block() == b {
						for i, e := range phi.Edges {
							if !isTrue(e) {
								continue
							}
							pred := b.Preds[i]
							last := pred.Instrs[len(pred.Instrs)-1]
							if _, pp, f2 := reachAvoiding([]cfgPos{st}, func(x ssa.Instruction) bool { return x == last }, func(x ssa.Instruction) bool { return x == hdr }, nil); f2 || st.B == pred {
								bad, pth = true, pp
							}
						}
					}
					if bad {
						c.Viol("O1", "RET", funcKey(fn)+": success after a failed member", instrPos(ret), "the function can return true after a member placement failed ("+pathStr(pth)+")")
					}
				}
			}
		}
	}
	c.Floor("O1", "MPT member loops", n, 3)

	// ---- O1b: each "try alternative node sets" loop rolls back to its checkpoint between attempts
	nb := 0
	for _, cs := range p.CallSites(checkpoint) {
		fn := cs.Parent()
		if isTestdataOrMock(fn) || relPkg(funcPkgPath(fn)) == pkgFramework {
			continue
		}
		h := loopHeaderOf(cs.Block())
		if h == nil {
			continue // checkpoint outside a loop: single attempt, handled by the caller's rollback (solver)
		}
		nb++
		c.Analysed(funcKey(fn))
		cp := cs.Value()
		isRb := func(in ssa.Instruction) bool {
			cc, ok := in.(ssa.CallInstruction)
			if !ok || calleeOf(cc) == nil || !sameFunc(calleeOf(cc), rollback) {
				return false
			}
			a := cc.Common().Args[1]
			if a == cp {
				return true
			}
			// *cp through a pointer (checkpoint returned by a helper)
			t := termOf(a)
			return t.contains(func(x *Term) bool { return x.V == cp })
		}
		_, path, found := reachAvoiding([]cfgPos{afterInstr(cs)}, func(x ssa.Instruction) bool { return x == h.Instrs[0] }, isRb, nil)
		c.Check(!found, "O1", "MPT", funcKey(fn)+": rollback to checkpoint before the next alternative", instrPos(cs), "every failed attempt is rolled back before the next one starts", "a failed attempt on one node set is not rolled back before the next node set is tried: placements of the failed attempt stay in the statement ("+pathStr(path)+")")
	}
	c.Floor("O1", "MPT checkpoint loops", nb, 2)

	// ---- O2: Commit only behind a successful attempt that produced / received this statement
	commit := p.Func(pkgFramework, "Statement", "Commit")
	type attempt struct {
		fn  *ssa.Function
		res int
	}
	attempts := map[attempt]ssa.Instruction{}
	nc := 0
	for _, cs := range p.CallSites(commit) {
		fn := cs.Parent()
		if isTestdataOrMock(fn) || relPkg(funcPkgPath(fn)) == pkgFramework {
			continue
		}
		nc++
		c.Analysed(funcKey(fn))
		S := cs.Common().Args[0]
		fs := fx.FactsAt(cs)
		okc := false
		desc := ""
		for _, f := range fs.sorted() {
			if !f.Pol {
				continue
			}
			ex, ok := f.T.V.(*ssa.Extract)
			var call *ssa.Call
			if ok {
				call, _ = ex.Tuple.(*ssa.Call)
			} else {
				call, _ = f.T.V.(*ssa.Call)
			}
			if call == nil || call.Common().StaticCallee() == nil {
				continue
			}
			linked := false
			if se, ok := S.(*ssa.Extract); ok && se.Tuple == ssa.Value(call) {
				linked = true
			}
			for _, a := range call.Common().Args {
				if a == S {
					linked = true
				}
			}
			if linked {
				okc = true
				desc = f.String()
				idx := 0
				if ex != nil {
					idx = ex.Index
				}
				attempts[attempt{call.Common().StaticCallee(), idx}] = cs
			}
		}
		c.Check(okc, "O2", "DOM", funcKey(fn)+": Commit behind a successful attempt", instrPos(cs), trunc(desc, 200), "a statement is committed without the attempt that filled it having reported success (a partial gang could be bound/evicted)")
	}
	c.Floor("O2", "DOM commit sites", nc, 4)
	// success of the attempt implies the gang verdict
	solve := p.Func(pkgSolvers, "JobSolver", "Solve")
	for at := range attempts {
		tf := fx.retFacts(at.fn, at.res, WantTrue, 0)
		d, ok := hasFact(tf, func(f Fact) bool {
			if !f.Pol {
				return false
			}
			if f.T.isCallTo(allocJob) {
				return true
			}
			if f.T.Op == "extract" && f.T.Name == "0" && f.T.Args[0].isCallTo(solve) {
				return true
			}
			return false
		})
		c.Analysed(funcKey(at.fn))
		c.Check(ok, "O2", "RET", funcKey(at.fn)+": success ⇒ AllocateJob / JobSolver.Solve succeeded", at.fn.Pos(), trunc(d, 200), "the attempt can report success without AllocateJob or JobSolver.Solve having succeeded")
	}

	// ---- O3: allocated=true only when the gang is not half-nominated, or was converted to fully nominated
	if att := c.Anchor("O3", "pkg/scheduler/actions/allocate", "", "attemptToAllocateJob"); att != nil {
		paths := fx.retPaths(att, 0, WantTrue)
		for i, rp := range paths {
			_, notPipe := hasFact(rp.Facts, func(f Fact) bool {
				return !f.Pol && f.T.Op == "call" && f.T.Fn != nil && f.T.Fn.Name() == "ShouldPipelineJob"
			})
			_, conv := hasFact(rp.Facts, func(f Fact) bool {
				return factNilOf(f, true, func(t *Term) bool { return t.Fn != nil && t.Fn.Name() == "ConvertAllAllocatedToPipelined" })
			})
			c.Check(notPipe || conv, "O3", "RET", fmt.Sprintf("%s success path#%d", funcKey(att), i), rp.Pos, "success ⇒ !ShouldPipelineJob() or ConvertAllAllocatedToPipelined()==nil", "the allocate attempt can succeed with part of the gang bound and part only nominated (neither !ShouldPipelineJob nor a successful conversion holds)")
		}
		c.Floor("O3", "RET success paths", len(paths), 2)
	}

	// ---- O4: the solver's verdict
	if solve != nil {
		c.Analysed(funcKey(solve))
		paths := fx.retPaths(solve, 0, WantTrue)
		for i, rp := range paths {
			_, gang := hasFact(rp.Facts, func(f Fact) bool {
				return f.Pol && f.T.Op == "call" && f.T.Fn != nil && f.T.Fn.Name() == "IsGangSatisfied"
			})
			_, grew := hasFact(rp.Facts, func(f Fact) bool {
				// NOT (numActive <= original)  i.e.  original < numActive
				return f.Pol && f.T.Op == "bin" && f.T.Name == "<" && termHas(f.T.Args[1], func(x *Term) bool { return x.Op == "call" && x.Fn != nil && x.Fn.Name() == "GetNumActiveUsedTasks" })
			})
			c.Check(gang && grew, "O4", "RET", fmt.Sprintf("%s true path#%d", funcKey(solve), i), rp.Pos, "solved ⇒ IsGangSatisfied() ∧ active count grew", "JobSolver.Solve can report a job solved without IsGangSatisfied() and progress")
		}
		c.Floor("O4", "RET solved paths", len(paths), 1)
	} else {
		c.Undec("O4", "ANCHOR", "JobSolver.Solve", 0, "not found")
	}
	// gang tests range over all pod sets of the job
	isGang := c.Anchor("O4", pkgPGInfo, "PodGroupInfo", "IsGangSatisfied")
	if isGang != nil {
		// GHOST: ANY pod set below its minimum makes the workload's gang test false, for every number of pod sets
		okG, und, desc := p.ghostForall(isGang, func(in ssa.Instruction) (ssa.Value, bool, bool) {
			cc, ok := in.(*ssa.Call)
			if !ok || calleeOf(cc) == nil || calleeOf(cc).Name() != "IsGangSatisfied" || sameFunc(calleeOf(cc), isGang) {
				return nil, false, false
			}
			return cc, false, true
		}, triF)
		if und != "" {
			c.Undec("O4", "GHOST", funcKey(isGang)+": any unsatisfied pod set makes the gang unsatisfied", isGang.Pos(), und)
		} else {
			c.Check(okG, "O4", "GHOST", funcKey(isGang)+": any unsatisfied pod set makes the gang unsatisfied", isGang.Pos(), desc,
				"PodGroupInfo.IsGangSatisfied can answer true although one of its pod sets is below its minimum: the solver accepts a scenario that places only part of the gang — "+desc)
		}
	}
	shouldPipe := c.Anchor("O4", pkgPGInfo, "PodGroupInfo", "ShouldPipelineJob")
	if isGang != nil && shouldPipe != nil {
		rangesOf := func(fn *ssa.Function) []string {
			var out []string
			for _, in := range instrsIn(fn, func(in ssa.Instruction) bool { _, ok := in.(*ssa.Range); return ok }) {
				t := termOf(in.(*ssa.Range).X)
				if rootParam(t) == 0 {
					out = append(out, canon(t))
				}
			}
			return out
		}
		a, b := rangesOf(isGang), rangesOf(shouldPipe)
		same := len(a) > 0 && len(b) > 0 && a[0] == b[0]
		c.Check(same, "O4", "SIBLING", "IsGangSatisfied / ShouldPipelineJob iterate the same pod-set registry", shouldPipe.Pos(), strings.Join(a, ","), fmt.Sprintf("the gang test and the pipeline test iterate different collections of pod sets (%v vs %v): nested pod sets can be missed by one of them", a, b))
		paths := fx.retPaths(shouldPipe, 0, WantTrue)
		for i, rp := range paths {
			// (the per-pod-set test may live in a predicate helper: its accepting paths are expanded)
			lt := fx.acceptWithExpansion(rp.Facts, func(fs FactSet) bool {
				_, ok := hasFact(fs, func(f Fact) bool {
					return f.Pol && f.T.Op == "bin" && f.T.Name == "<" && termHas(f.T.Args[1], func(x *Term) bool { return x.Op == "call" && x.Fn != nil && x.Fn.Name() == "GetMinAvailable" })
				})
				return ok
			})
			c.Check(lt, "O4", "RET", fmt.Sprintf("%s true path#%d", funcKey(shouldPipe), i), rp.Pos, "true ⇒ active-allocated count < minAvailable", "ShouldPipelineJob's positive answer is not tied to 'fewer really-allocated pods than minAvailable'")
		}
	}

	// ---- O5: victim selection
	pkgEv := pkgPGInfo
	// "evict ONE pod" (and "ONE sub group") is an elastic shrink: it is chosen only for a pod set that has more
	// active-allocated pods than its minimum. Stated without helper names: in the selection code reachable from
	// GetTasksToEvict, wherever the bound of the selection becomes the constant 1 — a `return 1`, or a variable that
	// takes the value 1 on some path — that path has established minAvailable < GetNumActiveAllocatedTasks().
	if root := c.Anchor("O5", pkgEv, "", "GetTasksToEvict"); root != nil {
		isOne := func(v ssa.Value) bool {
			k, ok := v.(*ssa.Const)
			if !ok || k.Value == nil || k.Value.ExactString() != "1" {
				return false
			}
			b, isB := k.Type().Underlying().(*types.Basic)
			return isB && b.Info()&types.IsInteger != 0
		}
		surplus := func(f Fact) bool {
			if f.T.Op != "bin" || len(f.T.Args) != 2 {
				return false
			}
			l, r := f.T.Args[0], f.T.Args[1]
			hasMin := func(t *Term) bool {
				return termHas(t, func(x *Term) bool { return x.Op == "call" && x.Fn != nil && x.Fn.Name() == "GetMinAvailable" })
			}
			isAct := func(t *Term) bool {
				return t.Op == "call" && t.Fn != nil && t.Fn.Name() == "GetNumActiveAllocatedTasks"
			}
			switch {
			case f.T.Name == "<" && f.Pol, f.T.Name == ">=" && !f.Pol:
				return hasMin(l) && isAct(r)
			case f.T.Name == ">" && f.Pol, f.T.Name == "<=" && !f.Pol:
				return isAct(l) && hasMin(r)
			}
			return false
		}
		seenFn := map[*ssa.Function]bool{}
		var fns []*ssa.Function
		var collect func(f *ssa.Function, d int)
		collect = func(f *ssa.Function, d int) {
			if f == nil || f.Blocks == nil || seenFn[f] || d > 3 || relPkg(funcPkgPath(f)) != pkgEv {
				return
			}
			seenFn[f] = true
			fns = append(fns, f)
			for _, in := range instrsIn(f, func(ssa.Instruction) bool { return true }) {
				if cc, ok := in.(ssa.CallInstruction); ok {
					collect(calleeOf(cc), d+1)
				}
			}
		}
		collect(root, 0)
		nOne := 0
		for _, fn := range fns {
			for _, b := range fn.Blocks {
				for _, in := range b.Instrs {
					switch x := in.(type) {
					case *ssa.Return:
						if len(x.Results) == 1 && isOne(x.Results[0]) {
							nOne++
							d, ok := hasFact(fx.blockFacts(fn, 0)[b], surplus)
							c.Check(ok, "O5", "DOM", funcKey(fn)+": single-victim answer only above minAvailable", instrPos(x), d, "'evict one pod' is chosen without minAvailable < number of ACTIVE-ALLOCATED pods of the pod set (terminating pods must not count as surplus): an elastic shrink could take a pod set below its minimum")
						}
					case *ssa.Phi:
						for ei, e := range x.Edges {
							if !isOne(e) {
								continue
							}
							nOne++
							ef := fx.edgeFacts(b.Preds[ei], b, 0)
							d, ok := hasFact(ef, surplus)
							if !ok {
								d, ok = hasFact(fx.blockFacts(fn, 0)[b.Preds[ei]], surplus)
							}
							c.Check(ok, "O5", "DOM", funcKey(fn)+": single-victim answer only above minAvailable", instrPos(b.Preds[ei].Instrs[len(b.Preds[ei].Instrs)-1]), d, "'evict one pod' is chosen without minAvailable < number of ACTIVE-ALLOCATED pods of the pod set (terminating pods must not count as surplus): an elastic shrink could take a pod set below its minimum")
						}
					}
				}
			}
		}
		c.Floor("O5", "DOM single-victim choices", nOne, 2)
	}
	if fn := c.Anchor("O5", pkgEv, "", "getTasksToEvictPriorityQueue"); fn != nil {
		pushes := instrsIn(fn, func(in ssa.Instruction) bool {
			cc, ok := in.(ssa.CallInstruction)
			return ok && calleeOf(cc) != nil && calleeOf(cc).Name() == "Push"
		})
		for _, pu := range pushes {
			fs := fx.FactsAt(pu)
			d, ok := hasFact(fs, func(f Fact) bool {
				return f.Pol && f.T.Op == "call" && f.T.Fn != nil && f.T.Fn.Name() == "IsActiveAllocatedStatus"
			})
			c.Check(ok, "O5", "DOM", funcKey(fn)+": only active-allocated pods are eviction candidates", instrPos(pu), d, "pods that are not active-allocated (e.g. already terminating) can be selected as victims: the victim count and the queue accounting of the eviction are wrong")
		}
		c.Floor("O5", "DOM victim pushes", len(pushes), 1)
	}
	// victims reach a scenario only from GetTasksToEvict
	getTTE := p.Func(pkgEv, "", "GetTasksToEvict")
	nv := 0
	for _, cs := range p.InvokeSitesOrStatic("AddPotentialVictimsTasks") {
		fn := cs.Parent()
		if isTestdataOrMock(fn) || strings.HasSuffix(relPkg(funcPkgPath(fn)), "/scenario") {
			continue
		}
		nv++
		args := cs.Common().Args
		t := termOf(args[len(args)-1])
		ok := getTTE != nil && t.contains(func(x *Term) bool { return x.isCallTo(getTTE) })
		c.Check(ok, "O5", "PROV", funcKey(fn)+": potential victims come from GetTasksToEvict", instrPos(cs), trunc(t.String(), 150), "victims are added to a scenario that were not selected by GetTasksToEvict (gang-aware selection bypassed)")
	}
	c.Floor("O5", "PROV AddPotentialVictimsTasks sites", nv, 1)
	stmtEvict := p.Func(pkgFramework, "Statement", "Evict")
	for _, cs := range p.CallSites(stmtEvict) {
		fn := cs.Parent()
		if isTestdataOrMock(fn) {
			continue
		}
		k := funcKey(rootFunc(fn))
		ok := k == "pkg/scheduler/actions/common.EvictAllPreemptees" || k == "(*pkg/scheduler/framework.Statement).undoOperation"
		c.Check(ok, "O5", "CALLERS", "Statement.Evict called by "+funcKey(fn), instrPos(cs), "through EvictAllPreemptees (or the redo closure)", "pods are evicted in a simulation outside EvictAllPreemptees: the victims do not come from a scenario built by the gang-aware selection")
	}
}

func calleeName(c *ssa.Call) string {
	if cal := c.Common().StaticCallee(); cal != nil {
		return cal.Name()
	}
	return "?"
}

// InvokeSitesOrStatic: call sites of any method/function with the given name declared in the repo.
func (p *Prog) InvokeSitesOrStatic(name string) []ssa.CallInstruction {
	var out []ssa.CallInstruction
	for _, f := range p.AllFuncs {
		for _, b := range f.Blocks {
			for _, in := range b.Instrs {
				c, ok := in.(ssa.CallInstruction)
				if !ok {
					continue
				}
				if cal := calleeOf(c); cal != nil && cal.Name() == name && strings.HasPrefix(funcPkgPath(cal), modPath) {
					out = append(out, c)
				} else if m := invokedMethod(c); m != nil && m.Name() == name {
					out = append(out, c)
				}
			}
		}
	}
	return out
}

// runC03Ready (O6): a pod set is offered for scheduling only when it has enough *alive*, ungated pods to reach its
// minimum — leftover Failed/Succeeded/terminating pod objects must not make up the difference, or an
// under-populated gang is admitted and the pending pods it has are bound below the minimum.
func runC03Ready(c *Ctx) {
	fx := c.Fx
	fn := c.Anchor("O6", "pkg/scheduler/api/podgroup_info/subgroup_info", "PodSet", "IsReadyForScheduling")
	if fn == nil {
		return
	}
	paths := fx.retPaths(fn, 0, WantTrue)
	for i, rp := range paths {
		_, ok := hasFact(rp.Facts, func(f Fact) bool {
			t := f.T
			if t.Op != "bin" || len(t.Args) != 2 {
				return false
			}
			a, b := t.Args[0], t.Args[1]
			alive := func(x *Term) bool {
				return x.contains(func(y *Term) bool { return isCallNamed(y, "GetNumAliveTasks") }) && !x.contains(func(y *Term) bool { return isCallNamed(y, "GetPodInfos") })
			}
			min := func(x *Term) bool {
				return strings.Contains(x.String(), "minAvailable") || isCallNamed(x, "GetMinAvailable")
			}
			switch {
			case alive(a) && min(b):
				return (t.Name == "<" && !f.Pol) || (t.Name == ">=" && f.Pol)
			case min(a) && alive(b):
				return (t.Name == ">" && !f.Pol) || (t.Name == "<=" && f.Pol)
			}
			return false
		})
		c.Check(ok, "O6", "RET", fmt.Sprintf("%s true path#%d: alive − gated ≥ minAvailable", funcKey(fn), i), rp.Pos, "counts alive pods", "a pod set counts as ready for scheduling without enough alive, ungated pods to reach minAvailable (e.g. every pod object is counted): a leftover Failed pod lets an under-populated gang through and its pending pods are bound below the minimum")
	}
	c.Floor("O6", "RET ready paths", len(paths), 1)
}

// C03-O7 (GHOST): a failed AllocateJob leaves the statement as it found it. The ghost bit is "something was placed
// since the statement was last in the state AllocateJob received it in": set by a successful Statement.Allocate /
// Pipeline, remembered by Statement.Checkpoint and put back by Statement.Rollback(that checkpoint). Whatever the
// number of node sets, sub-group sets, pod sets, tasks and nodes, and wherever the checkpoints are taken in the
// call tree, AllocateJob may return false only with the bit clear: the solvers re-place several victim jobs through
// the same statement and keep what earlier ones placed, so a partly placed gang left behind by a failed call would
// be committed with the scenario.
func runC03Clean(c *Ctx) {
	p := c.P
	allocJob := p.Func(pkgActCommon, "", "AllocateJob")
	stmtAlloc := p.Func(pkgFramework, "Statement", "Allocate")
	stmtPipe := p.Func(pkgFramework, "Statement", "Pipeline")
	checkpoint := p.Func(pkgFramework, "Statement", "Checkpoint")
	rollback := p.Func(pkgFramework, "Statement", "Rollback")
	if allocJob == nil || stmtAlloc == nil || stmtPipe == nil || checkpoint == nil || rollback == nil {
		c.Undec("O7", "GHOST", "AllocateJob / Statement anchors", 0, "not found")
		return
	}
	spec := &ghostSpec{
		Event: func(in ssa.Instruction) (ssa.Value, bool, bool) {
			call, ok := in.(*ssa.Call)
			if !ok {
				return nil, false, false
			}
			if cal := calleeOf(call); cal != nil && (sameFunc(cal, stmtAlloc) || sameFunc(cal, stmtPipe)) {
				return call, false, true // error result: nil (false) = placed
			}
			return nil, false, false
		},
		Capture: func(in ssa.Instruction) bool {
			call, ok := in.(*ssa.Call)
			return ok && calleeOf(call) != nil && sameFunc(calleeOf(call), checkpoint)
		},
		Restore: func(in ssa.Instruction) (ssa.Value, bool) {
			call, ok := in.(ssa.CallInstruction)
			if !ok || calleeOf(call) == nil || !sameFunc(calleeOf(call), rollback) || len(call.Common().Args) < 2 {
				return nil, false
			}
			return stripLoad(call.Common().Args[1]), true
		},
		ResultIdx: 0,
		BadResult: triT,
		MaxDepth:  12,
	}
	run := p.ghostVerdict(allocJob, spec)
	runC03Retry(c, run, allocJob, stmtAlloc, stmtPipe, rollback)
	key := funcKey(allocJob) + ": a failed gang placement leaves nothing placed in the statement"
	switch {
	case run.Undec != "":
		c.Undec("O7", "GHOST", key, allocJob.Pos(), run.Undec)
	case run.Events == 0:
		c.Undec("O7", "GHOST", key, allocJob.Pos(), "no Statement.Allocate/Pipeline reachable from AllocateJob")
	default:
		c.Check(len(run.Finds) == 0, "O7", "GHOST", key, allocJob.Pos(),
			fmt.Sprintf("%d abstract states over the whole placement tree: every 'false' is returned with all placements since entry rolled back", run.States),
			"AllocateJob can report failure while placements made during the call stay in the statement (a checkpoint is missing, taken too late, or an exit skips the rollback): a scenario solver that goes on with the same statement commits a partly placed gang — "+ghostWhy(p, run))
	}
}

// stripLoad: the value behind a load of a local variable that is stored exactly once.
func stripLoad(v ssa.Value) ssa.Value {
	if u, ok := v.(*ssa.UnOp); ok && u.Op == token.MUL {
		if a, ok := u.X.(*ssa.Alloc); ok {
			var st *ssa.Store
			n := 0
			for _, r := range *a.Referrers() {
				if s, ok := r.(*ssa.Store); ok && s.Addr == ssa.Value(a) {
					st = s
					n++
				}
			}
			if n == 1 {
				return st.Val
			}
		}
	}
	return v
}

// C03-O8 (WALK): the pod sets of a workload are collected over the WHOLE sub-group tree. PodGroupInfo.PodSets, the
// readiness test, GetTasksToAllocate and AddTaskInfo all work on SubGroupSet.GetAllPodSets(): a pod set that the
// collection does not reach loses its pods ("sub group not found") and the rest of the gang is bound without it.
func runC03Tree(c *Ctx) {
	fn := c.Anchor("O8", "pkg/scheduler/api/podgroup_info/subgroup_info", "SubGroupSet", "GetAllPodSets")
	if fn == nil {
		return
	}
	ok, desc := c.P.treeDescent(fn)
	c.Check(ok, "O8", "WALK", funcKey(fn)+": collects the pod sets of every nested sub-group set", fn.Pos(), desc,
		"GetAllPodSets does not descend through the child sub-group sets ("+desc+"): pod sets nested two or more levels below the root are unknown to the workload, their pods are dropped from it and the remaining members are scheduled as a complete gang")
}

// C03-O9 (MPT + GHOST summaries): nothing is built on top of an abandoned attempt. Where the placement tree tries
// alternatives (node sets, topology domains) an attempt that FAILED WITH PLACEMENTS LEFT BEHIND — by the GHOST
// summaries: a callee that, entered clean, can answer false with the statement dirty — must be rolled back before
// anything else is placed in that activation and before success is reported. Otherwise the next alternative is
// placed on top of the abandoned one: the same pod gets a second live allocate operation and Commit binds it twice.
func runC03Retry(c *Ctx, run *ghostRun, root, stmtAlloc, stmtPipe, rollback *ssa.Function) {
	p, fx := c.P, c.Fx
	if run.Undec != "" {
		return
	}
	placing := p.performs(isCallToFn(stmtAlloc, stmtPipe), 8)
	isRb := func(in ssa.Instruction) bool {
		cc, ok := in.(ssa.CallInstruction)
		return ok && calleeOf(cc) != nil && sameFunc(calleeOf(cc), rollback)
	}
	seen := map[*ssa.Function]bool{}
	var fns []*ssa.Function
	var collect func(f *ssa.Function, d int)
	collect = func(f *ssa.Function, d int) {
		if f == nil || f.Blocks == nil || seen[f] || d > 8 || relPkg(funcPkgPath(f)) != pkgActCommon {
			return
		}
		seen[f] = true
		fns = append(fns, f)
		for _, in := range instrsIn(f, func(ssa.Instruction) bool { return true }) {
			if cc, ok := in.(ssa.CallInstruction); ok {
				collect(calleeOf(cc), d+1)
			}
			if mc, ok := in.(*ssa.MakeClosure); ok {
				collect(mc.Fn.(*ssa.Function), d+1)
			}
		}
	}
	collect(root, 0)
	n := 0
	for _, fn := range fns {
		for _, in := range instrsIn(fn, func(x ssa.Instruction) bool { _, ok := x.(*ssa.Call); return ok }) {
			call := in.(*ssa.Call)
			if !isBool(call.Type()) {
				continue
			}
			// the attempt: a static callee that places, or a function-typed parameter bound to closures by the callers
			var attempts []*ssa.Function
			if cal := calleeOf(call); cal != nil {
				if placing(in) {
					attempts = append(attempts, cal)
				}
			} else if prm, isPrm := call.Call.Value.(*ssa.Parameter); isPrm {
				idx := paramIndexOf(prm)
				for _, cs := range p.CallSites(fn) {
					if args := cs.Common().Args; idx >= 0 && idx < len(args) {
						if cf := closureFn(args[idx]); cf != nil {
							attempts = append(attempts, cf)
						}
					}
				}
			}
			failsDirty := false
			for _, a := range attempts {
				for _, o := range run.outcomesOf(a) {
					if o.Ghost && o.Res != triT {
						failsDirty = true
					}
				}
			}
			if !failsDirty {
				continue
			}
			starts := falseEdgeStarts(fx, call)
			if len(starts) == 0 {
				continue // the verdict is handed on unexamined: the function that branches on it is responsible
			}
			n++
			isTrueRet := func(x ssa.Instruction) bool {
				r, ok := x.(*ssa.Return)
				if !ok || len(r.Results) == 0 {
					return false
				}
				k, isK := unspill(r, 0).(*ssa.Const)
				return isK && k.Value != nil && k.Value.ExactString() == "true"
			}
			_, path, found := reachAvoiding(starts, func(x ssa.Instruction) bool { return placing(x) || x == in || isTrueRet(x) }, isRb, nil)
			c.Check(!found, "O9", "MPT", funcKey(fn)+": an attempt that failed with placements left behind ("+calleeName(call)+") is rolled back before anything else is placed", instrPos(call), "Rollback between the failed attempt and the next placement / success",
				"after "+calleeName(call)+" failed — it can fail with placements of its earlier members still in the statement — the next alternative is tried (or success is reported) without a rollback ("+pathStr(path)+"): the abandoned placements stay, a pod can carry two live allocate operations and be bound twice")
		}
	}
	c.Floor("O9", "MPT attempts that can fail dirty", n, 2)
}

// runC03ReadyFilter (O11): the allocate action asks for the unready workloads to be filtered out
// (JobsOrderInitOptions.FilterUnready). That filter is the only thing that guarantees GetTasksToAllocate can pick
// enough pods to reach every pod set's minimum: for a workload with fewer alive pods than its minimum it silently
// returns fewer, AllocateJob places them and the gang runs below its minimum. Decided: with FilterUnready set, a
// workload reaches PushJob only behind IsReadyForScheduling() == true, on every path.
func runC03ReadyFilter(c *Ctx) {
	f := c.Anchor("O11", "pkg/scheduler/actions/utils", "JobsOrderByQueues", "InitializeWithJobs")
	if f == nil {
		return
	}
	n := 0
	for _, in := range instrsIn(f, func(in ssa.Instruction) bool {
		cc, ok := in.(ssa.CallInstruction)
		return ok && calleeOf(cc) != nil && calleeOf(cc).Name() == "PushJob"
	}) {
		n++
		// no path from an iteration's start to the push on which FilterUnready is set and the readiness test failed
		// or was never made
		push := in
		h := loopHeaderOf(in.Block())
		starts := []cfgPos{{B: f.Blocks[0], I: 0}}
		if h != nil {
			starts = nil
			for _, s := range loopBodyEntries(h) {
				starts = append(starts, cfgPos{B: s, I: 0})
			}
		}
		isReadyCall := func(x ssa.Instruction) bool {
			cc, ok := x.(ssa.CallInstruction)
			return ok && calleeOf(cc) != nil && calleeOf(cc).Name() == "IsReadyForScheduling"
		}
		_, path, found := reachAvoiding(starts, func(x ssa.Instruction) bool { return x == push }, nil, func(from, to *ssa.BasicBlock) bool {
			// prune: edges on which the filter is off, and edges on which readiness was established
			good := func(ft Fact) bool {
				return (!ft.Pol && ft.T.lastField() == "FilterUnready") || (ft.Pol && ft.T.Op == "call" && strings.HasSuffix(ft.T.Name, "IsReadyForScheduling"))
			}
			if c.Fx.edgeEstablishes(from, to, good) {
				return false
			}
			// the test moved into a predicate helper: every way the helper gives this answer establishes it
			return !c.Fx.edgeEstablishesAll(from, to, func(s FactSet) bool { _, ok := hasFact(s, good); return ok })
		})
		_ = isReadyCall
		c.Check(!found, "O11", "MPT", funcKey(f)+": with FilterUnready set only workloads that are ready for scheduling are pushed", instrPos(in), "every path to PushJob establishes !FilterUnready or IsReadyForScheduling()",
			"a workload can reach PushJob with FilterUnready set and without a successful readiness test ("+pathStr(path)+"): GetTasksToAllocate returns fewer pods than the minimum needs, AllocateJob places them, and a gang is bound below its minimum")
	}
	c.Floor("O11", "MPT PushJob in InitializeWithJobs", n, 1)
}

// runC03CloneRecursion (O14): the solver works on clones of a gang (victim representatives, remaining-task clones, the
// partial preemptor); which pods of the gang are really evicted is read from those clones. A clone of a tree-shaped
// sub-group structure must copy the whole tree: for every type T with a field holding children of the same type T, T's
// Clone method clones each child through itself. A flat copy of the first level loses the deeper pod sets, the tasks in
// them are dropped from the clone ("sub group not found") and only a part of the gang is evicted.
func runC03CloneRecursion(c *Ctx) {
	n := 0
	for _, fn := range c.P.FuncsIn("pkg/scheduler/api") {
		recv := fn.Signature.Recv()
		if recv == nil || !strings.HasPrefix(fn.Name(), "Clone") || len(fn.Blocks) == 0 {
			continue
		}
		ptr, ok := recv.Type().(*types.Pointer)
		if !ok {
			continue
		}
		named, ok := ptr.Elem().(*types.Named)
		if !ok {
			continue
		}
		st, ok := named.Underlying().(*types.Struct)
		if !ok {
			continue
		}
		for i := 0; i < st.NumFields(); i++ {
			fld := st.Field(i)
			var elem types.Type
			switch x := fld.Type().Underlying().(type) {
			case *types.Slice:
				elem = x.Elem()
			case *types.Map:
				elem = x.Elem()
			}
			if elem == nil || !types.Identical(elem, recv.Type()) {
				continue
			}
			n++
			// a self call whose receiver is an element of that field
			found := false
			// (searched also in the helpers the method calls: the child loop may have been extracted)
			for _, h := range c.P.deepFind(fn, isCallToFn(fn), 2) {
				cc := h.In.(ssa.CallInstruction)
				if len(cc.Common().Args) == 0 {
					continue
				}
				v := cc.Common().Args[0]
				for k := 0; k < 8 && v != nil && !found; k++ {
					switch x := v.(type) {
					case *ssa.Extract:
						v = x.Tuple
					case *ssa.Next:
						v = x.Iter
					case *ssa.Range:
						v = x.X
					case *ssa.UnOp:
						v = x.X
					case *ssa.IndexAddr:
						v = x.X
					case *ssa.Lookup:
						v = x.X
					case *ssa.FieldAddr:
						if x.X.Type().Underlying().(*types.Pointer).Elem().Underlying().(*types.Struct).Field(x.Field) == fld {
							found = true
						}
						v = nil
					case *ssa.Call:
						// a getter of the field (GetChildGroups)
						if cal := x.Call.StaticCallee(); cal != nil && len(cal.Blocks) == 1 {
							for _, gi := range cal.Blocks[0].Instrs {
								if fa, ok := gi.(*ssa.FieldAddr); ok && fa.X.Type().Underlying().(*types.Pointer).Elem().Underlying().(*types.Struct).Field(fa.Field) == fld {
									found = true
								}
							}
						}
						v = nil
					default:
						v = nil
					}
				}
			}
			c.Check(found, "O14", "SHAPE", fmt.Sprintf("%s: the children in field %s are cloned through %s itself", funcKey(fn), fld.Name(), fn.Name()), fn.Pos(), "recursive call on the elements of the field",
				"the clone of a "+named.Obj().Name()+" does not clone its children of the same type recursively: levels below the first are missing in every clone, the solver's victim representatives lose the tasks of the deeper pod sets and a gang is evicted in part")
		}
	}
	c.Floor("O14", "SHAPE Clone methods of self-nested types", n, 1)
}

// statusMaskOf: for a predicate of the form `return <constant set> & status != 0` the constant set.
func statusMaskOf(fn *ssa.Function) (int64, bool) {
	if fn == nil || len(fn.Blocks) != 1 {
		return 0, false
	}
	for _, in := range fn.Blocks[0].Instrs {
		b, ok := in.(*ssa.BinOp)
		if !ok || b.Op != token.AND {
			continue
		}
		for _, op := range []ssa.Value{b.X, b.Y} {
			if k, isC := op.(*ssa.Const); isC && k.Value != nil {
				if v, exact := constant.Int64Val(constant.ToInt(k.Value)); exact {
					return v, true
				}
			}
		}
	}
	return 0, false
}

// runC03StaleTearDown (O15): when a gang that fell below its minimum has used up its grace period, it is evicted as a
// whole: every pod that holds (or is about to hold) resources is part of the tear-down — Allocated, Pipelined, Binding,
// Bound and Running, the statuses that count as "active" in the staleness test itself. A filter that leaves one of
// them out (e.g. a pod whose bind is in flight) lets that pod run alone below the gang's minimum.
func runC03StaleTearDown(c *Ctx) {
	f := c.Anchor("O15", "pkg/scheduler/actions/stalegangeviction", "", "handleStaleJob")
	if f == nil {
		return
	}
	sp := c.P.SSAPkgs[modPath+"/pkg/scheduler/api/pod_status"]
	if sp == nil {
		c.Undec("O15", "ANCHOR", "package pod_status", 0, "not loaded")
		return
	}
	var required, all int64
	for name, m := range sp.Members {
		nc, ok := m.(*ssa.NamedConst)
		if !ok || !strings.HasSuffix(typeKey(nc.Type()), "pod_status.PodStatus") {
			continue
		}
		v, _ := constant.Int64Val(constant.ToInt(nc.Value.Value))
		all |= v
		switch name {
		case "Allocated", "Pipelined", "Binding", "Bound", "Running":
			required |= v
		}
	}
	n := 0
	for _, h := range c.P.deepFind(f, func(in ssa.Instruction) bool {
		call, ok := in.(*ssa.Call)
		if !ok {
			return false
		}
		bi, isB := call.Common().Value.(*ssa.Builtin)
		return isB && bi.Name() == "append" && strings.HasSuffix(typeKey(call.Type()), "pod_info.PodInfo")
	}, 2) {
		n++
		var accepted int64
		for _, fs := range c.Fx.pathFactsTo(h.In.Block(), 3) {
			if fs.Bottom {
				continue
			}
			pathMask := all // a path without a status test accepts every status
			for _, ft := range fs.sorted() {
				t := ft.T
				if ft.Pol && t.Op == "call" && len(t.Args) > 0 && t.Args[len(t.Args)-1].lastField() == "Status" {
					if cal, ok := t.V.(*ssa.Call); ok {
						if m, ok := statusMaskOf(cal.Call.StaticCallee()); ok {
							pathMask &= m
						}
					}
				}
				if t.Op == "bin" && len(t.Args) == 2 && t.Args[0].lastField() == "Status" && (t.Name == "==") == ft.Pol {
					if k, ok := t.Args[1].V.(*ssa.Const); ok && k.Value != nil {
						v, _ := constant.Int64Val(constant.ToInt(k.Value))
						pathMask &= v
					}
				}
			}
			accepted |= pathMask
		}
		c.Check(accepted&required == required, "O15", "RET", funcKey(f)+": the tear-down of a stale gang takes every pod in an active allocated status", instrPos(h.In), fmt.Sprintf("statuses taken %#x ⊇ Allocated|Pipelined|Binding|Bound|Running %#x", accepted, required),
			fmt.Sprintf("the pods evicted for a stale gang are selected by a status set (%#x) that misses an active status (required %#x, e.g. Binding or Pipelined): such a pod survives the tear-down and runs alone below the gang's minimum", accepted, required))
	}
	c.Floor("O15", "RET tear-down selections", n, 1)
}

// runC03OrderCountsLikeEviction (O16): which pod set of an elastic gang gives up a pod first is decided by the reverse
// of the pod-set order; the eviction selection itself counts active-ALLOCATED pods against the minimum (O5). The order
// must count the same way: in PodSetOrderFn the number compared with GetMinAvailable() comes from
// GetNumActiveAllocatedTasks(). Counting terminating pods too makes a pod set that sits exactly at its minimum look
// above it, it is shrunk first and falls below its minimum while the rest of the gang keeps running.
func runC03OrderCountsLikeEviction(c *Ctx) {
	f := c.Anchor("O16", "pkg/scheduler/plugins/subgrouporder", "", "PodSetOrderFn")
	if f == nil {
		return
	}
	n := 0
	for _, h := range c.P.deepFind(f, func(in ssa.Instruction) bool {
		b, ok := in.(*ssa.BinOp)
		if !ok {
			return false
		}
		switch b.Op {
		case token.LSS, token.LEQ, token.GTR, token.GEQ:
		default:
			return false
		}
		hasMin := func(v ssa.Value) bool {
			isMin := func(x *Term) bool { return x.Op == "call" && x.Fn != nil && x.Fn.Name() == "GetMinAvailable" }
			return isMin(termOf(v)) || termOf(v).contains(isMin)
		}
		// a count on one side, the minimum on the other (not the comparison of two ratios)
		return hasMin(b.X) != hasMin(b.Y)
	}, 1) {
		b := h.In.(*ssa.BinOp)
		n++
		counted := ""
		for _, side := range []ssa.Value{b.X, b.Y} {
			t := termOf(side)
			if t.contains(func(x *Term) bool { return x.Op == "call" && x.Fn != nil && x.Fn.Name() == "GetMinAvailable" }) {
				continue
			}
			isCount := func(x *Term) bool {
				if x.Op == "call" && x.Fn != nil && strings.HasPrefix(x.Fn.Name(), "GetNum") {
					counted = x.Fn.Name()
				}
				return false
			}
			isCount(t)
			t.contains(isCount)
		}
		c.Check(counted == "GetNumActiveAllocatedTasks", "O16", "SIBLING", funcKey(f)+": the pod-set order compares active-allocated pods with the minimum", instrPos(b), "GetNumActiveAllocatedTasks() ⋈ GetMinAvailable()",
			"the pod-set order measures a pod set against its minimum with "+counted+" while the eviction selection counts active-allocated pods: a pod set at its minimum that still has terminating pods looks above it, is chosen for the next elastic shrink and drops below its minimum")
	}
	c.Floor("O16", "SIBLING minimum comparisons of the pod-set order", n, 2)
}
