package main

import (
	"fmt"
	"go/token"
	"go/types"
	"strings"

	"golang.org/x/tools/go/ssa"
)

func init() {
	register("C04", runC04,
		"Decides structural necessary conditions of 'hard placement constraints hold for every bind and nomination': every new placement originates from the reviewed helpers and is dominated by FittingNode on the same task and node; FittingNode succeeds only with every registered predicate nil; the node predicate succeeds only after the node-condition check and after every upstream filter (host ports, taints, node affinity, inter-pod affinity) that is registered as always required, built from the matching upstream plugin, and either ran with a fitting result or was skipped by a pre-filter verdict recorded for this very evaluation; node conditions reject unschedulable and not-ready nodes; the per-node affinity state is updated on every task add and remove; nodes, pod groups and queues are listed through the node-pool selector; the topology plugin hands the unnarrowed node set on only without a constraint, returns nothing for an unknown topology, builds domain node sets only from nodes of the incoming set that carry all level labels, pins the domains of active pods, and every placement loop receives the node sets of SubsetNodesFn at both the sub-group-set and the pod-set level.",
		"what the upstream Kubernetes filters compute, the arithmetic of domain ids and lowest common domains, and resource fit inside a domain")
}

func runC04(c *Ctx) {
	runC04NodeLister(c)
	runC04Registration(c)
	runC04PrePredicateEvaluatedEachTime(c)
	runC04CloneCompleteness(c)
	p, fx := c.P, c.Fx
	const pkgFw = "pkg/scheduler/framework"
	const pkgCommon = "pkg/scheduler/actions/common"
	const pkgPredPlugin = "pkg/scheduler/plugins/predicates"
	const pkgK8sPred = "pkg/scheduler/k8s_internal/predicates"
	const pkgTopo = "pkg/scheduler/plugins/topology"

	fitting := c.Anchor("O1", pkgFw, "Session", "FittingNode")
	predFn := c.Anchor("O1", pkgFw, "Session", "PredicateFn")
	toNode := c.Anchor("O1", pkgCommon, "", "allocateTaskToNode")

	// ---- O1a: placements are dominated by FittingNode on the same values
	if toNode != nil && fitting != nil {
		sites := 0
		for _, cs := range p.CallSites(toNode) {
			if isTestdataOrMock(cs.Parent()) {
				continue
			}
			sites++
			args := cs.Common().Args
			task, node := termOf(args[2]), termOf(args[3])
			d, ok := hasFact(fx.FactsAt(cs), func(f Fact) bool {
				return f.Pol && f.T.isCallTo(fitting) && len(f.T.Args) >= 3 && sameTerm(f.T.Args[1], task) && sameTerm(f.T.Args[2], node)
			})
			c.Check(ok, "O1", "DOM", funcKey(cs.Parent())+": allocateTaskToNode only after FittingNode(task, node)", instrPos(cs), trunc(d, 100), "a task is placed on a node that did not pass FittingNode for this task and node")
		}
		c.Floor("O1", "DOM placement sites", sites, 1)
	}
	// ---- O1b: FittingNode ⇒ every predicate nil
	if fitting != nil && predFn != nil {
		tf := fx.retFacts(fitting, 0, WantTrue, 0)
		d, ok := hasFact(tf, func(f Fact) bool { return factNilOf(f, true, func(t *Term) bool { return t.isCallTo(predFn) }) })
		c.Check(ok, "O1", "RET", funcKey(fitting)+": true ⇒ PredicateFn(task, job, node) == nil", fitting.Pos(), trunc(d, 120), "FittingNode can report a fit although a predicate rejected the node")
		// the loop over the registered predicates stops at the first error
		for _, in := range instrsIn(predFn, func(in ssa.Instruction) bool {
			call, ok := in.(*ssa.Call)
			return ok && isDynCall(call)
		}) {
			call := in.(*ssa.Call)
			h := loopHeaderOf(call.Block())
			if h == nil {
				c.Undec("O1", "MPT", funcKey(predFn)+": predicate loop", instrPos(in), "predicate invocation outside a loop")
				continue
			}
			_, path, found := reachAvoiding([]cfgPos{afterInstr(call)}, func(x ssa.Instruction) bool { return x == h.Instrs[0] }, nil, func(from, to *ssa.BasicBlock) bool {
				return !fx.edgeEstablishes(from, to, func(f Fact) bool {
					return factNilOf(f, true, func(t *Term) bool { return t.V == ssa.Value(call) })
				})
			})
			c.Check(!found, "O1", "MPT", funcKey(predFn)+": the next predicate runs only after the previous returned nil", instrPos(in), "err == nil on the way to the next iteration", "a predicate error can be ignored ("+pathStr(path)+")")
			args := call.Common().Args
			c.Check(len(args) == 3 && termOf(args[0]).paramIndex() == 1 && termOf(args[2]).paramIndex() == 3, "O1", "PROV", funcKey(predFn)+": predicates receive the task and node under test", instrPos(in), "pfn(task, job, node)", "the registered predicates are evaluated on other operands")
		}
		for _, b := range predFn.Blocks {
			if ret, ok := b.Instrs[len(b.Instrs)-1].(*ssa.Return); ok && termOf(ret.Results[0]).isNilConst() {
				c.Check(!insideLoopBody(b), "O1", "MPT", funcKey(predFn)+": nil only after all predicates", ret.Pos(), "return nil after the loop", "PredicateFn returns nil from inside the loop over the predicates: the remaining predicates are not consulted")
			}
		}
	}
	// ---- O1c: who may create a placement
	stmtAlloc := c.Anchor("O1", pkgFw, "Statement", "Allocate")
	stmtPipe := c.Anchor("O1", pkgFw, "Statement", "Pipeline")
	allowed := map[string]string{
		"pkg/scheduler/actions/common.bindTaskToNode":                         "reached only from allocateTaskToNode",
		"pkg/scheduler/actions/common.pipelineTaskToNode":                     "reached only from allocateTaskToNode",
		"pkg/scheduler/gpu_sharing.allocateSharedGPUTask":                     "reached only from AllocateFractionalGPUTaskToNode, itself called by allocateTaskToNode",
		"(*pkg/scheduler/framework.Statement).ConvertAllAllocatedToPipelined": "re-labels placements already made on the same nodes",
		"(*pkg/scheduler/framework.Statement).undoOperation":                  "redo/undo of a recorded operation on its recorded node",
		"(*pkg/scheduler/framework.Statement).Rollback":                       "redo/undo of a recorded operation on its recorded node",
		"(*pkg/scheduler/framework.Statement).undoEvict":                      "restores a task to the node it was evicted from",
		"(*pkg/scheduler/framework.Statement).unevict":                        "restores a task to the node it was evicted from",
	}
	for _, target := range []*ssa.Function{stmtAlloc, stmtPipe} {
		if target == nil {
			continue
		}
		for _, cs := range p.CallSites(target) {
			caller := rootFunc(cs.Parent())
			if isTestdataOrMock(caller) {
				continue
			}
			key := funcKey(caller)
			why, ok := allowed[key]
			if !ok && !caller.Object().Exported() {
				// an unexported helper split off one of the reviewed originators: every static caller of it (up to two
				// levels) is a reviewed originator, and nothing takes its address
				up, all := []*ssa.Function{caller}, true
				via := ""
				for depth := 0; depth < 2 && all && len(up) > 0; depth++ {
					var next []*ssa.Function
					for _, f := range up {
						sites := p.CallSites(f)
						if len(sites) == 0 || p.addressTaken(f) {
							all = false
							break
						}
						for _, s := range sites {
							pc := rootFunc(s.Parent())
							if w, isAllowed := allowed[funcKey(pc)]; isAllowed {
								via = funcKey(pc) + " (" + w + ")"
							} else if pc.Object() != nil && !pc.Object().Exported() {
								next = append(next, pc)
							} else {
								all = false
							}
						}
					}
					up = next
				}
				if all && len(up) == 0 && via != "" {
					why, ok = "helper called only from "+via, true
				}
			}
			c.Check(ok, "O1", "CALLERS", key+": may call Statement."+target.Name(), instrPos(cs), why, "a new originator of placements: "+key+" calls Statement."+target.Name()+" and is not known to be reached only behind FittingNode")
		}
	}
	for _, nm := range []string{"bindTaskToNode", "pipelineTaskToNode"} {
		if fn := p.Func(pkgCommon, "", nm); fn != nil && toNode != nil {
			for _, cs := range p.CallSites(fn) {
				if isTestdataOrMock(cs.Parent()) {
					continue
				}
				c.Check(sameFunc(rootFunc(cs.Parent()), toNode), "O1", "CALLERS", funcKey(cs.Parent())+": calls "+nm, instrPos(cs), "allocateTaskToNode", nm+" is called from outside allocateTaskToNode")
			}
		}
	}
	if fr := p.Func("pkg/scheduler/gpu_sharing", "", "AllocateFractionalGPUTaskToNode"); fr != nil && toNode != nil {
		for _, cs := range p.CallSites(fr) {
			if isTestdataOrMock(cs.Parent()) {
				continue
			}
			c.Check(sameFunc(rootFunc(cs.Parent()), toNode), "O1", "CALLERS", funcKey(cs.Parent())+": calls AllocateFractionalGPUTaskToNode", instrPos(cs), "allocateTaskToNode", "the fractional placement helper is called from outside allocateTaskToNode")
		}
	}

	// ---- O2: the node predicate
	eval := c.Anchor("O2", pkgPredPlugin, "predicatesPlugin", "evaluateTaskOnPredicates")
	if eval != nil {
		nf := fx.retFacts(eval, 0, WantNil, 0)
		d, ok := hasFact(nf, func(f Fact) bool {
			return f.Pol && f.T.Op == "extract" && f.T.Name == "0" && isCallNamed(f.T.Args[0], "CheckNodeConditionPredicate")
		})
		c.Check(ok, "O2", "RET", funcKey(eval)+": nil ⇒ node conditions fit", eval.Pos(), trunc(d, 100), "the node predicate accepts a node without the node-condition check having passed")
		// the condition check is made on the node under test
		for _, in := range instrsIn(eval, func(in ssa.Instruction) bool {
			cc, ok := in.(ssa.CallInstruction)
			return ok && calleeOf(cc) != nil && calleeOf(cc).Name() == "CheckNodeConditionPredicate"
		}) {
			t := termOf(in.(ssa.CallInstruction).Common().Args[0])
			c.Check(t.lastField() == "Node" && rootParam(t) == 3, "O2", "PROV", funcKey(eval)+": conditions of the node under test", instrPos(in), t.String(), "node conditions are checked on another node: "+t.String())
		}
		// the loop over the upstream predicates
		var filterCalls []*ssa.Call
		filterChain := map[*ssa.Call][]ssa.Instruction{}
		for _, h := range p.deepFind(eval, func(in ssa.Instruction) bool {
			call, ok := in.(*ssa.Call)
			if !ok || !isDynCall(call) {
				return false
			}
			return termOf(call.Common().Value).lastField() == "Filter"
		}, 2) {
			filterCalls = append(filterCalls, h.In.(*ssa.Call))
			filterChain[h.In.(*ssa.Call)] = h.Chain
		}
		c.Floor("O2", "MPT upstream Filter invocations", len(filterCalls), 1)
		for _, call := range filterCalls {
			h := loopHeaderOf(call.Block())
			if h == nil {
				c.Undec("O2", "MPT", funcKey(eval)+": upstream filter loop", instrPos(call), "Filter invocation outside a loop")
				continue
			}
			// (1) every iteration reaches Filter unless excused by "not required" or "skipped by this pod's pre-filter"
			okIter, path := everyIterationPasses(call, func(x ssa.Instruction) bool { return x == ssa.Instruction(call) }, func(from, to *ssa.BasicBlock) bool {
				return !fx.edgeEstablishes(from, to, func(f Fact) bool {
					if f.T.Op != "call" {
						return false
					}
					if !f.Pol && f.T.Fn == nil && len(f.T.Args) > 0 && f.T.Args[0].lastField() == "IsFilterRequired" {
						return true
					}
					return f.Pol && f.T.Fn != nil && f.T.Fn.Name() == "ShouldSKip"
				})
			})
			c.Check(okIter, "O2", "MPT", funcKey(eval)+": every upstream predicate is filtered unless not required or skipped by the pre-filter", instrPos(call), "Filter on every other iteration", "an upstream predicate can be left out for another reason ("+pathStr(path)+")")
			// (2) the next iteration / the nil return is reached only with fit ∧ err == nil
			_, path2, found := reachAvoiding([]cfgPos{afterInstr(call)}, func(x ssa.Instruction) bool {
				if x == h.Instrs[0] {
					return true
				}
				r, ok := x.(*ssa.Return)
				return ok && termOf(r.Results[0]).isNilConst()
			}, nil, func(from, to *ssa.BasicBlock) bool {
				return !fx.edgeEstablishes(from, to, func(f Fact) bool {
					return f.Pol && f.T.Op == "extract" && f.T.Name == "0" && f.T.Args[0].V == ssa.Value(call)
				})
			})
			c.Check(!found, "O2", "MPT", funcKey(eval)+": a node is kept only when the upstream filter reports fit", instrPos(call), "fit == true on the way on", "the verdict of an upstream filter can be ignored ("+pathStr(path2)+")")
			// (3) operands
			args := call.Common().Args
			podArg := liftTerm(termOf(args[0]), filterChain[call])
			okArgs := len(args) == 2 && podArg.lastField() == "Pod" && rootParam(podArg) == 1
			c.Check(okArgs, "O2", "PROV", funcKey(eval)+": the upstream filter sees the pod under test and the node's scheduler view", instrPos(call), "Filter(task.Pod, k8sNodeInfo)", "the upstream filter is evaluated on other operands")
		}
	}
	// registry of the upstream predicates
	if nsp := c.Anchor("O2", pkgK8sPred, "", "NewSessionPredicates"); nsp != nil {
		want := map[string]string{
			`"PodFitsHostPorts"`:       "nodeports.NodePorts",
			`"PodToleratesNodeTaints"`: "tainttoleration.TaintToleration",
			`"NodeAffinity"`:           "nodeaffinity.NodeAffinity",
			`"PodAffinity"`:            "interpodaffinity.InterPodAffinity",
		}
		required := p.Func(pkgK8sPred, "", "predicateRequired")
		seen := map[string]bool{}
		for _, in := range instrsIn(nsp, func(in ssa.Instruction) bool { _, ok := in.(*ssa.MapUpdate); return ok }) {
			mu := in.(*ssa.MapUpdate)
			k, isC := mu.Key.(*ssa.Const)
			if !isC {
				c.Undec("O2", "REG", funcKey(nsp)+": predicate table entry", instrPos(in), "non-constant predicate name")
				continue
			}
			name := constString(k)
			plug, hard := want[name]
			if !hard {
				continue
			}
			construct := funcKey(nsp) + ": entry " + name
			if call, isCall := mu.Value.(*ssa.Call); isCall {
				// the stand-in for a plugin that is not initialised
				_, nilPlugin := hasFact(fx.FactsAt(in), func(f Fact) bool {
					return factNilTerm(f, true, func(t *Term) bool {
						return t.Op == "field" && t.Args[0].Op == "call" && strings.HasSuffix(t.Args[0].Name, "InternalK8sPlugins")
					})
				})
				c.Check(nilPlugin && calleeOf(call) != nil && calleeOf(call).Name() == "emptyPredicate", "O2", "REG", construct+" (plugin absent)", instrPos(in), "empty predicate only when the upstream plugin is nil", "an always-passing predicate is registered for "+name+" although the upstream plugin exists")
				continue
			}
			load, isLoad := mu.Value.(*ssa.UnOp)
			if !isLoad {
				c.Undec("O2", "REG", construct, instrPos(in), "entry value is not a composite literal")
				continue
			}
			alloc, _ := load.X.(*ssa.Alloc)
			fields := map[string]ssa.Value{}
			if alloc != nil {
				for _, r := range *alloc.Referrers() {
					if fa, ok := r.(*ssa.FieldAddr); ok {
						for _, rr := range *fa.Referrers() {
							if st, ok := rr.(*ssa.Store); ok && st.Addr == ssa.Value(fa) {
								fields[fieldOfAddr(fa).Name()] = st.Val
							}
						}
					}
				}
			}
			seen[name] = true
			reqFn := p.resolveFuncValue(fields["IsFilterRequired"])
			okReq := reqFn != nil && required != nil && sameFunc(reqFn, required)
			c.Check(okReq, "O2", "REG", construct+": IsFilterRequired is the constant-true predicateRequired", instrPos(in), "always required", "the "+name+" filter is not unconditionally required: whether it runs is decided by "+describeFuncValue(p, fields["IsFilterRequired"])+", which can go stale when pods are placed during the cycle")
			ft := termOf(fields["Filter"])
			okFilter := ft.Op == "call" && ft.Fn != nil && (ft.Fn.Name() == "FitPredicateConverter") && ft.contains(func(x *Term) bool { return x.Op == "typeassert" && strings.HasSuffix(x.Name, plug) })
			c.Check(okFilter, "O2", "REG", construct+": Filter is the converter of *"+plug, instrPos(in), trunc(ft.String(), 120), "the "+name+" entry does not filter with the upstream "+plug+" plugin: "+trunc(ft.String(), 160))
			if pre := fields["PreFilter"]; pre != nil && !termOf(pre).isNilConst() {
				preReq := p.resolveFuncValue(fields["IsPreFilterRequired"])
				c.Check(preReq != nil && required != nil && sameFunc(preReq, required), "O2", "REG", construct+": its pre-filter is always required too", instrPos(in), "always required", "the "+name+" pre-filter is conditional while its filter depends on the state it computes")
			}
		}
		for name := range want {
			if !seen[name] {
				c.Viol("O2", "REG", funcKey(nsp)+": entry "+name, nsp.Pos(), "no filter is registered for "+name)
			}
		}
		if required != nil {
			constTrue := true
			for _, b := range required.Blocks {
				if ret, ok := b.Instrs[len(b.Instrs)-1].(*ssa.Return); ok {
					k, isC := ret.Results[0].(*ssa.Const)
					if !isC || k.Value == nil || k.Value.ExactString() != "true" {
						constTrue = false
					}
				}
			}
			c.Check(constTrue, "O2", "CONST", funcKey(required)+": constantly true", required.Pos(), "never false", "predicateRequired can return false")
		}
	}

	// ---- O7: a pre-filter Skip is valid only for the evaluation that produced it
	if pre := c.Anchor("O7", pkgPredPlugin, "", "evaluateTaskOnPrePredicate"); pre != nil {
		writesSkip := func(fn *ssa.Function, wantDelete bool) bool {
			if fn == nil || fn.Signature.Recv() == nil || !strings.HasSuffix(typeKey(fn.Signature.Recv().Type()), "SkipPredicates") {
				return false
			}
			for _, b := range fn.Blocks {
				for _, in := range b.Instrs {
					if _, ok := in.(*ssa.MapUpdate); ok && !wantDelete {
						return true
					}
					if call, ok := in.(*ssa.Call); ok {
						if bi, isB := call.Common().Value.(*ssa.Builtin); isB && bi.Name() == "delete" {
							return true
						}
					}
				}
			}
			return false
		}
		isWrite := func(in ssa.Instruction) bool {
			cc, ok := in.(ssa.CallInstruction)
			return ok && writesSkip(calleeOf(cc), false)
		}
		isClear := func(in ssa.Instruction) bool {
			cc, ok := in.(ssa.CallInstruction)
			if ok && writesSkip(calleeOf(cc), true) {
				return true
			}
			if call, isCall := in.(*ssa.Call); isCall {
				if bi, isB := call.Common().Value.(*ssa.Builtin); isB && bi.Name() == "delete" && strings.HasSuffix(typeKey(call.Common().Args[0].Type()), "SkipPredicates") {
					return true
				}
			}
			return false
		}
		n := 0
		for _, in := range instrsIn(pre, func(in ssa.Instruction) bool {
			call, ok := in.(*ssa.Call)
			return ok && isDynCall(call) && termOf(call.Common().Value).lastField() == "PreFilter"
		}) {
			n++
			call := in.(*ssa.Call)
			h := loopHeaderOf(call.Block())
			// idiom 1: the pod's entries are cleared before the pre-filters run
			cleared, _ := p.precededBy(call, isClear, 0, map[*ssa.Function]bool{})
			// idiom 2: the entry is written (added or removed) after every pre-filter evaluation
			_, path, stale := reachAvoiding([]cfgPos{afterInstr(call)}, func(x ssa.Instruction) bool {
				if h != nil && x == h.Instrs[0] {
					return true
				}
				return isReturn(x)
			}, isWrite, nil)
			hasRemover := false
			for _, x := range instrsIn(pre, isClear) {
				_ = x
				hasRemover = true
			}
			c.Check(cleared || (!stale && hasRemover), "O7", "MUSTDEF", funcKey(pre)+": the recorded Skip of a pod is re-decided by every pre-filter evaluation", instrPos(in), "entry written on every path after PreFilter", "a Skip recorded by an earlier evaluation survives a later evaluation that does not skip ("+pathStr(path)+"): the pre-filter runs again on every allocation attempt, so after a pod with required anti-affinity was placed in the same cycle the inter-pod affinity filter is still skipped for this pod")
		}
		c.Floor("O7", "MUSTDEF pre-filter evaluations", n, 1)
	}
	if eval != nil {
		// the filter is skipped only for the pod under test and the predicate at hand
		for _, in := range instrsIn(eval, func(in ssa.Instruction) bool {
			cc, ok := in.(ssa.CallInstruction)
			return ok && calleeOf(cc) != nil && calleeOf(cc).Name() == "ShouldSKip"
		}) {
			args := in.(ssa.CallInstruction).Common().Args
			uid := termOf(args[1])
			c.Check(uid.lastField() == "UID" && rootParam(uid) == 1, "O7", "PROV", funcKey(eval)+": the Skip consulted is the one recorded for the pod under test", instrPos(in), uid.String(), "the skip table is consulted with "+uid.String())
		}
	}

	// ---- O3: node conditions
	if cn := c.Anchor("O3", "pkg/scheduler/scheduler_util", "", "CheckNodeConditionPredicate"); cn != nil {
		paths := fx.retPaths(cn, 0, WantTrue)
		for i, rp := range paths {
			_, ok := hasFact(rp.Facts, func(f Fact) bool {
				return f.T.Op == "bin" && f.T.Name == "==" && f.Pol && strings.Contains(f.T.Args[0].String(), "builtin.len") && f.T.Args[1].String() == "const:0"
			})
			c.Check(ok, "O3", "RET", fmt.Sprintf("%s: true path#%d only with no reason collected", funcKey(cn), i), rp.Pos, "len(reasons) == 0", "the node-condition check can pass although a reason was collected")
		}
		c.Floor("O3", "RET accepting paths", len(paths), 1)
		// a reason is collected on every path with Spec.Unschedulable set, and in every iteration over a Ready
		// condition that is not True. Formulated over paths, so that it does not matter whether the tests sit in
		// this function, in a switch, or in a helper that reports "violated".
		isAppend := func(in ssa.Instruction) bool {
			call, ok := in.(*ssa.Call)
			if !ok {
				return false
			}
			b, isB := call.Common().Value.(*ssa.Builtin)
			return isB && b.Name() == "append" && strings.HasSuffix(typeKey(call.Type()), "[]string")
		}
		has := func(fs FactSet, pred func(Fact) bool) bool { _, ok := fs.find(pred); return ok }
		isUnsched := func(f Fact) bool { return f.T.lastField() == "Unschedulable" }
		nApp := len(p.deepFind(cn, isAppend, 2))
		_, path, found := reachAvoiding([]cfgPos{entryPos(cn)}, isReturn, isAppend, func(from, to *ssa.BasicBlock) bool {
			excused := fx.edgeEstablishesAll(from, to, func(fs FactSet) bool {
				return has(fs, func(f Fact) bool { return !f.Pol && isUnsched(f) }) ||
					has(fs, func(f Fact) bool { return factNilTerm(f, true, func(t *Term) bool { return t.Op == "param" }) })
			})
			// once past the Unschedulable test (true edge taken and reason appended) the later loop is irrelevant:
			// the search stops at the append anyway
			return !excused
		})
		c.Check(nApp > 0 && !found, "O3", "DOM", funcKey(cn)+": a reason is collected whenever Spec.Unschedulable is set", cn.Pos(), "append on every path with node.Spec.Unschedulable", "an unschedulable (cordoned) node can pass the node-condition check ("+pathStr(path)+")")
		isReadyType := func(f Fact) bool {
			return f.T.Op == "bin" && len(f.T.Args) == 2 && f.T.Args[0].lastField() == "Type" && strings.Contains(f.T.Args[1].String(), `"Ready"`)
		}
		isTypeCmp := func(f Fact) bool {
			return f.T.Op == "bin" && len(f.T.Args) == 2 && f.T.Args[0].lastField() == "Type"
		}
		isStatusTrue := func(f Fact) bool {
			return f.T.Op == "bin" && len(f.T.Args) == 2 && f.T.Args[0].lastField() == "Status" && strings.Contains(f.T.Args[1].String(), `"True"`)
		}
		excusedIteration := func(fs FactSet) bool {
			// not a Ready condition …
			if has(fs, func(f Fact) bool {
				return isReadyType(f) && ((f.T.Name == "==" && !f.Pol) || (f.T.Name == "!=" && f.Pol))
			}) {
				return true
			}
			if has(fs, func(f Fact) bool { return isTypeCmp(f) && !isReadyType(f) && f.T.Name == "==" && f.Pol }) {
				return true
			}
			// … or Ready is True
			return has(fs, func(f Fact) bool {
				return isStatusTrue(f) && ((f.T.Name == "==" && f.Pol) || (f.T.Name == "!=" && !f.Pol))
			})
		}
		okReady, nLoops := true, 0
		var rpath []int
		for _, b := range cn.Blocks {
			h := loopHeaderOf(b)
			if h != b {
				continue
			}
			nLoops++
			var starts []cfgPos
			for _, s := range loopBodyEntries(h) {
				starts = append(starts, cfgPos{B: s, I: 0})
			}
			_, pth, fnd := reachAvoiding(starts, func(x ssa.Instruction) bool { return x == h.Instrs[0] || isReturn(x) }, isAppend, func(from, to *ssa.BasicBlock) bool {
				return !fx.edgeEstablishesAll(from, to, excusedIteration)
			})
			if fnd {
				okReady, rpath = false, pth
			}
		}
		c.Check(okReady && nLoops > 0, "O3", "DOM", funcKey(cn)+": a reason is collected for every Ready condition that is not True", cn.Pos(), "append in every iteration with Type == Ready ∧ Status != True", "a node whose Ready condition is not True (False or Unknown) can pass the node-condition check ("+pathStr(rpath)+")")
	}

	// ---- O4: affinity state follows every add and remove
	const pkgNode = "pkg/scheduler/api/node_info"
	if at := c.Anchor("O4", pkgNode, "NodeInfo", "addTask"); at != nil {
		isAdd := isInvokeNamed("AddPod")
		_, path, found := reachAvoiding([]cfgPos{entryPos(at)}, func(x ssa.Instruction) bool {
			r, ok := x.(*ssa.Return)
			return ok && termOf(r.Results[0]).isNilConst()
		}, isAdd, nil)
		c.Check(!found && len(instrsIn(at, isAdd)) > 0, "O4", "MPT", funcKey(at)+": every successful add updates the node's pod-affinity state", at.Pos(), "PodAffinityInfo.AddPod on all nil-returning paths", "a task can be added to a node without the affinity state learning about it ("+pathStr(path)+"): a later pod of the same cycle is not checked against its anti-affinity")
	}
	if rt := c.Anchor("O4", pkgNode, "NodeInfo", "RemoveTask"); rt != nil {
		isRem := isInvokeNamed("RemovePod")
		_, path, found := reachAvoiding([]cfgPos{entryPos(rt)}, func(x ssa.Instruction) bool {
			r, ok := x.(*ssa.Return)
			if !ok {
				return false
			}
			t := termOf(r.Results[0])
			return !(t.Op == "call" && t.Fn != nil && neverNilResult(t.Fn))
		}, isRem, nil)
		c.Check(!found && len(instrsIn(rt, isRem)) > 0, "O4", "MPT", funcKey(rt)+": every successful remove updates the node's pod-affinity state", rt.Pos(), "PodAffinityInfo.RemovePod on all non-error paths", "a task can be removed from a node while the affinity state still counts it ("+pathStr(path)+")")
	}

	// the per-node affinity state handed to the upstream filters is rebuilt for every cycle: pods of earlier
	// cycles must not satisfy (or block) a required term
	if sn := c.Anchor("O4", "pkg/scheduler/cache", "SchedulerCache", "Snapshot"); sn != nil {
		fresh := p.Func("pkg/scheduler/cache", "", "NewK8sClusterPodAffinityInfo")
		isReset := func(in ssa.Instruction) bool {
			st, ok := in.(*ssa.Store)
			if !ok {
				return false
			}
			fa, isFA := st.Addr.(*ssa.FieldAddr)
			if !isFA || !strings.Contains(fieldOfAddr(fa).Name(), "PodAffinityInfo") {
				return false
			}
			return termOf(st.Val).contains(func(x *Term) bool { return x.isCallTo(fresh) })
		}
		n := 0
		for _, in := range instrsIn(sn, func(in ssa.Instruction) bool {
			cc, ok := in.(ssa.CallInstruction)
			return ok && (invokedMethod(cc) != nil && invokedMethod(cc).Name() == "Snapshot" || calleeOf(cc) != nil && calleeOf(cc).Name() == "Snapshot")
		}) {
			n++
			pre, _ := p.precededBy(in, isReset, 0, map[*ssa.Function]bool{})
			c.Check(pre, "O4", "MPT", funcKey(sn)+": the cluster pod-affinity index is re-created before every snapshot", instrPos(in), "K8sClusterPodAffinityInfo = *NewK8sClusterPodAffinityInfo() first", "the pod-affinity index handed to the upstream InterPodAffinity plugin is not reset at the start of the cycle: entries of earlier snapshots accumulate, so a required pod affinity can be satisfied (or an anti-affinity triggered) by a pod that no longer exists")
		}
		c.Floor("O4", "MPT cluster snapshots", n, 1)
	}

	// ---- O5: node pool
	for _, nm := range []string{"ListNodes", "ListPodGroups", "ListQueues"} {
		fn := c.Anchor("O5", "pkg/scheduler/cache/cluster_info/data_lister", "k8sLister", nm)
		if fn == nil {
			continue
		}
		n := 0
		for _, in := range instrsIn(fn, isInvokeNamed("List")) {
			n++
			t := termOf(in.(ssa.CallInstruction).Common().Args[0])
			c.Check(t.lastField() == "partitionSelector" && rootParam(t) == 0, "O5", "PROV", funcKey(fn)+": lists through the node-pool selector", instrPos(in), t.String(), nm+" lists with "+t.String()+" instead of the node-pool selector: objects of other node pools enter the snapshot")
		}
		c.Floor("O5", "PROV List calls in "+nm, n, 1)
	}

	// ---- O6: topology narrowing
	if sub := c.Anchor("O6", pkgTopo, "topologyPlugin", "subSetNodesFn"); sub != nil {
		nodeSetIdx := len(sub.Params) - 1
		for _, b := range sub.Blocks {
			ret, ok := b.Instrs[len(b.Instrs)-1].(*ssa.Return)
			if !ok {
				continue
			}
			rv := ret.Results[0]
			if !valueContainsParam(rv, sub.Params[nodeSetIdx], 6) {
				continue
			}
			fs := fx.FactsAt(ret)
			_, noTopo := hasFact(fs, func(f Fact) bool {
				return factNilTerm(f, true, func(t *Term) bool {
					return t.Op == "extract" && t.Name == "0" && isCallNamed(t.Args[0], "getJobTopology")
				})
			})
			_, noTasks := hasFact(fs, func(f Fact) bool {
				return f.Pol && f.T.Op == "bin" && f.T.Name == "==" && strings.Contains(f.T.Args[0].String(), "builtin.len") && f.T.Args[1].String() == "const:0"
			})
			disj := noTopo || noTasks
			if !disj {
				// the disjunction `tree == nil || len(tasks) == 0` is one block: accept when every path into it carries one of the two
				all := true
				for _, pf := range fx.pathFactsTo(b, 2) {
					_, a := hasFact(pf, func(f Fact) bool {
						return factNilTerm(f, true, func(t *Term) bool {
							return t.Op == "extract" && t.Name == "0" && isCallNamed(t.Args[0], "getJobTopology")
						})
					})
					_, bb := hasFact(pf, func(f Fact) bool {
						return f.Pol && f.T.Op == "bin" && f.T.Name == "==" && strings.Contains(f.T.Args[0].String(), "builtin.len") && f.T.Args[1].String() == "const:0"
					})
					if !a && !bb {
						all = false
						if debugOn() {
							fmt.Println("C04 DEBUG path facts:", pf.String())
						}
					}
				}
				disj = all
			}
			c.Check(disj, "O6", "DOM", funcKey(sub)+": the unnarrowed node set is returned only without a topology constraint or without tasks", ret.Pos(), "topology == nil ∨ len(tasks) == 0", "the incoming node set is handed on unnarrowed although the sub-group has a topology constraint")
		}
		// unknown topology ⇒ empty list
		n := 0
		for _, b := range sub.Blocks {
			ret, ok := b.Instrs[len(b.Instrs)-1].(*ssa.Return)
			if !ok {
				continue
			}
			if _, notFound := hasFact(fx.FactsAt(ret), func(f Fact) bool {
				return !f.Pol && f.T.Op == "extract" && f.T.Name == "1" && isCallNamed(f.T.Args[0], "getJobTopology")
			}); notFound {
				n++
				c.Check(isEmptySliceValue(ret.Results[0]), "O6", "RET", funcKey(sub)+": a workload naming an unknown topology gets no node set", ret.Pos(), "empty list", "a sub-group whose topology does not exist still receives node sets")
			}
		}
		c.Floor("O6", "RET unknown-topology exits", n, 1)
		// nodes appended to a domain node set are members of validNodes
		lcd := p.Func(pkgTopo, "", "lowestCommonDomainID")
		nApp := 0
		// (the loops may live in helpers of subSetNodesFn: the map of the membership test is then a parameter, read as
		// the actual argument along the chain of call sites)
		for _, dh := range p.deepFind(sub, func(in ssa.Instruction) bool {
			call, ok := in.(*ssa.Call)
			if !ok {
				return false
			}
			b, isB := call.Common().Value.(*ssa.Builtin)
			if !isB || b.Name() != "append" {
				return false
			}
			tk := typeKey(call.Type())
			return strings.HasSuffix(tk, "node_info.NodeSet") && !strings.HasPrefix(tk, "[]")
		}, 2) {
			in := dh.In
			liftToRoot := func(t *Term) *Term {
				for i := len(dh.Chain) - 1; i >= 0; i-- {
					if cs, ok := dh.Chain[i].(ssa.CallInstruction); ok {
						t = t.subst(callActuals(cs))
					}
				}
				return t
			}
			nApp++
			var elem *Term
			if ev := appendedElem(in.(*ssa.Call).Common().Args[1]); ev != nil {
				elem = termOf(ev)
			}
			d, ok := hasFact(fx.FactsAt(in), func(f Fact) bool {
				if !(f.Pol && f.T.Op == "extract" && f.T.Name == "1" && f.T.Args[0].Op == "lookup") {
					return false
				}
				m, k := liftToRoot(f.T.Args[0].Args[0]), f.T.Args[0].Args[1]
				return m.Op == "extract" && m.Name == "2" && m.Args[0].isCallTo(lcd) && k.lastField() == "Name" && elem != nil && sameTerm(k.Args[0], elem)
			})
			c.Check(ok, "O6", "DOM", funcKey(sub)+": a domain's node set contains only nodes of the incoming node set that carry every level label", instrPos(in), trunc(d, 120), "a domain node set is no longer intersected with the valid nodes of the incoming node set: a nested sub-group can leave its parent's domain, and nodes lacking the topology labels can be used")
		}
		c.Floor("O6", "DOM domain node-set appends", nApp, 1)
	}
	if lcd := c.Anchor("O6", pkgTopo, "", "lowestCommonDomainID"); lcd != nil {
		// validNodes takes a node only after every level label was found on it
		n := 0
		for _, h := range p.deepFind(lcd, func(in ssa.Instruction) bool { _, ok := in.(*ssa.MapUpdate); return ok }, 2) {
			in := h.In
			mu := in.(*ssa.MapUpdate)
			if !strings.Contains(typeKey(mu.Map.Type()), "NodeInfo") {
				continue
			}
			n++
			vt := liftTerm(termOf(mu.Value), h.Chain)
			c.Hold("O6", "PROV", funcKey(lcd)+": validNodes is built from the incoming node set", instrPos(in), vt.String())
			c.Check(rootParam(vt) == 0, "O6", "PROV", funcKey(lcd)+": validNodes ⊆ incoming node set", instrPos(in), "node of nodeSet", "validNodes receives a node that is not from the incoming node set")
		}
		c.Floor("O6", "PROV validNodes insertions", n, 1)
		// GHOST: a node whose label map misses ANY level label is never inserted (the verdict over the levels is
		// sticky: a later level that is present cannot make up for an earlier one that is missing)
		run, hits := p.ghostForbidAfterEvent(lcd, commaOkLookupEvent("Labels"), func(in ssa.Instruction) bool {
			mu, ok := in.(*ssa.MapUpdate)
			return ok && strings.Contains(typeKey(mu.Map.Type()), "NodeInfo")
		})
		switch {
		case run.Undec != "":
			c.Undec("O6", "GHOST", funcKey(lcd)+": a node missing a level label is not a valid node", lcd.Pos(), run.Undec)
		case len(hits) == 0 || run.Events == 0:
			c.Check(false, "O6", "GHOST", funcKey(lcd)+": a node missing a level label is not a valid node", lcd.Pos(), "", "the insertion into validNodes is not preceded by a presence test of the level labels in the node's label map")
		default:
			c.Check(len(run.Finds) == 0, "O6", "GHOST", funcKey(lcd)+": a node missing a level label is not a valid node", lcd.Pos(),
				fmt.Sprintf("%d abstract states: no insertion after a missing label, for any number of levels", run.States),
				"a node that lacks one of the topology's level labels can still enter validNodes (and with it a domain with an empty id): a workload with a required level can be placed on it — "+ghostWhy(p, run))
		}
	}
	if ga := c.Anchor("O6", pkgTopo, "topologyPlugin", "getJobAllocatableDomains"); ga != nil {
		pinned := p.Func(pkgTopo, "", "getRelevantDomainsWithAllocatedPods")
		n := 0
		for _, h := range p.deepFind(ga, isCallToFn(pinned), 2) {
			in := h.In
			n++
			fs := fx.factsAtDeep(h)
			_, a := hasFact(fs, func(f Fact) bool { return f.Pol && isCallNamed(f.T, "hasActiveAllocatedTasks") })
			_, b := hasFact(fs, func(f Fact) bool { return f.Pol && isCallNamed(f.T, "hasTopologyRequiredConstraint") })
			c.Check(a && b, "O6", "DOM", funcKey(ga)+": pinned domains are computed when the job has active pods and a required level", instrPos(in), "hasActiveAllocatedTasks ∧ hasTopologyRequiredConstraint", "the pinning of active pods' domains is guarded differently")
		}
		c.Floor("O6", "DOM pinned-domain computations", n, 1)
		// the unpinned table is used only otherwise
		for _, in := range instrsIn(ga, func(in ssa.Instruction) bool {
			phi, ok := in.(*ssa.Phi)
			return ok && strings.HasSuffix(typeKey(phi.Type()), "domainsByLevel")
		}) {
			phi := in.(*ssa.Phi)
			for i, e := range phi.Edges {
				if termOf(e).lastField() != "DomainsByLevel" {
					continue
				}
				pred := phi.Block().Preds[i]
				ok := false
				for _, pf := range fx.pathFactsTo(pred, 2) {
					_, a := hasFact(pf, func(f Fact) bool { return !f.Pol && isCallNamed(f.T, "hasActiveAllocatedTasks") })
					_, b := hasFact(pf, func(f Fact) bool { return !f.Pol && isCallNamed(f.T, "hasTopologyRequiredConstraint") })
					ok = a || b
					if !ok {
						break
					}
				}
				c.Check(ok, "O6", "DOM", funcKey(ga)+": all domains are candidates only without active pods or without a required level", instrPos(in), "¬(active ∧ required)", "a workload with active pods and a required level may be extended into a different domain than the one its active pods occupy")
			}
		}
	}
	// the candidate levels go from the finest level up to the required level and no further: the scan over the
	// levels continues only while the required level has not been reached
	if rl := c.Anchor("O6", pkgTopo, "topologyPlugin", "calculateRelevantDomainLevels"); rl != nil {
		// the flag that records "required level seen": a boolean phi that becomes true on the edge where the
		// level equals the constraint's RequiredLevel
		var flag *ssa.Phi
		for _, b := range rl.Blocks {
			iff, ok := b.Instrs[len(b.Instrs)-1].(*ssa.If)
			if !ok {
				continue
			}
			bo, ok := iff.Cond.(*ssa.BinOp)
			if !ok || bo.Op != token.EQL || !(strings.Contains(termOf(bo.X).String(), "RequiredLevel") || strings.Contains(termOf(bo.Y).String(), "RequiredLevel")) {
				continue
			}
			t := b.Succs[0]
			for _, jb := range rl.Blocks {
				for _, in := range jb.Instrs {
					phi, isPhi := in.(*ssa.Phi)
					if !isPhi || !isBool(phi.Type()) {
						continue
					}
					for i, e := range phi.Edges {
						k, isC := e.(*ssa.Const)
						if isC && k.Value != nil && k.Value.ExactString() == "true" && (jb.Preds[i] == t || t.Dominates(jb.Preds[i])) && loopHeaderOf(jb) != nil && loopHeaderOf(jb) != jb {
							flag = phi
						}
					}
				}
			}
		}
		if c.Check(flag != nil, "O6", "MPT", funcKey(rl)+": the scan records when the required level is reached", rl.Pos(), "flag found", "the level scan no longer records that the required level was reached") {
			h := loopHeaderOf(flag.Block())
			ok := h != nil
			if ok {
				for _, pred := range h.Preds {
					if !h.Dominates(pred) {
						continue
					}
					// facts on the back edge
					fs := fx.blockFacts(rl, 0)[pred].clone()
					fs.addAll(fx.edgeFacts(pred, h, 0))
					if _, notFound := fs.find(func(f Fact) bool { return !f.Pol && f.T.V == ssa.Value(flag) }); !notFound && !fs.Bottom {
						ok = false
					}
				}
			}
			c.Check(ok, "O6", "MPT", funcKey(rl)+": no level above the required level becomes a candidate", instrPos(flag), "the scan goes on only while the required level has not been reached", "the scan over the topology levels can continue past the required level (e.g. up to a coarser preferred level): domains above the required level are offered as candidates and a workload with a required level is spread over several domains of that level")
		}
	}
	if hp := c.Anchor("O6", pkgTopo, "", "hasActiveJobPodInDomain"); hp != nil {
		paths := fx.retPaths(hp, 0, WantTrue)
		for i, rp := range paths {
			_, act := hasFact(rp.Facts, func(f Fact) bool { return f.Pol && isCallNamed(f.T, "IsActiveAllocatedStatus") })
			_, in := hasFact(rp.Facts, func(f Fact) bool {
				return factNilTerm(f, false, func(t *Term) bool {
					return t.Op == "lookup" && t.Args[0].lastField() == "Nodes" && t.Args[1].lastField() == "NodeName"
				})
			})
			c.Check(act && in, "O6", "RET", fmt.Sprintf("%s: true path#%d needs an active pod whose node is in the domain", funcKey(hp), i), rp.Pos, "IsActiveAllocatedStatus ∧ domain.Nodes[pod.NodeName] != nil", "a domain counts as occupied by the job without an active pod on one of its nodes")
		}
		c.Floor("O6", "RET occupied-domain paths", len(paths), 1)
	}
	// every placement loop iterates over the node sets of SubsetNodesFn
	subsetFn := p.Func(pkgFw, "Session", "SubsetNodesFn")
	for _, pr := range []struct{ outer, inner string }{{"allocateSubGroupSet", "allocateSubGroupSetOnNodes"}, {"allocatePodSet", "allocateTasksOnNodeSet"}} {
		outer := c.Anchor("O6", pkgCommon, "", pr.outer)
		inner := p.Func(pkgCommon, "", pr.inner)
		if outer == nil || inner == nil || subsetFn == nil {
			continue
		}
		n := 0
		for _, h := range p.deepFind(outer, isCallToFn(inner), 2) {
			in := h.In
			n++
			// the node set handed on — through a callback parameter if the loop was moved into a helper
			ok := false
			desc := ""
			for _, nodes := range p.originTerms(in.(ssa.CallInstruction).Common().Args[2], 2) {
				desc = trunc(nodes.String(), 100)
				ok = nodes.contains(func(x *Term) bool { return x.isCallTo(subsetFn) })
				if !ok {
					break
				}
			}
			c.Check(ok, "O6", "PROV", funcKey(outer)+": "+pr.inner+" receives a node set of SubsetNodesFn", instrPos(in), desc, pr.inner+" is handed "+desc+" instead of an element of SubsetNodesFn's result: the topology narrowing is bypassed")
		}
		c.Floor("O6", "PROV "+pr.inner+" hand-offs", n, 1)
		for _, in := range instrsIn(outer, isCallToFn(subsetFn)) {
			args := in.(ssa.CallInstruction).Common().Args
			init := termOf(args[len(args)-1])
			c.Check(init.paramIndex() == 2, "O6", "PROV", funcKey(outer)+": narrowing starts from the node set handed down by the parent", instrPos(in), init.String(), "SubsetNodesFn is started from "+init.String()+" instead of the parent's node set: constraints of nested sub-groups no longer compose")
		}
	}
	if ssnSub := subsetFn; ssnSub != nil {
		// plugins narrow successively: each plugin receives the node sets produced by the previous one
		for _, in := range instrsIn(ssnSub, func(in ssa.Instruction) bool {
			call, ok := in.(*ssa.Call)
			return ok && call.Common().StaticCallee() == nil && !call.Common().IsInvoke() && len(call.Common().Args) == 5
		}) {
			t := termOf(in.(*ssa.Call).Common().Args[4])
			c.Check(!(t.Op == "param"), "O6", "PROV", funcKey(ssnSub)+": each plugin narrows the sets produced so far", instrPos(in), trunc(t.String(), 80), "every plugin restarts from the initial node set: only the last plugin's narrowing survives")
		}
	}
}

func describeFuncValue(p *Prog, v ssa.Value) string {
	if v == nil {
		return "nothing"
	}
	if fn := p.resolveFuncValue(v); fn != nil {
		return funcKey(fn)
	}
	return termOf(v).String()
}

// valueContainsParam: v is (a slice literal containing, a phi of) the parameter.
func valueContainsParam(v ssa.Value, prm *ssa.Parameter, depth int) bool {
	if depth == 0 || v == nil {
		return false
	}
	switch x := v.(type) {
	case *ssa.Parameter:
		return x == prm
	case *ssa.Phi:
		for _, e := range x.Edges {
			if valueContainsParam(e, prm, depth-1) {
				return true
			}
		}
	case *ssa.Slice:
		return valueContainsParam(x.X, prm, depth-1)
	case *ssa.Alloc:
		for _, r := range *x.Referrers() {
			switch rr := r.(type) {
			case *ssa.IndexAddr:
				for _, r2 := range *rr.Referrers() {
					if st, ok := r2.(*ssa.Store); ok && valueContainsParam(st.Val, prm, depth-1) {
						return true
					}
				}
			case *ssa.Store:
				if valueContainsParam(rr.Val, prm, depth-1) {
					return true
				}
			}
		}
	case *ssa.ChangeType:
		return valueContainsParam(x.X, prm, depth-1)
	case *ssa.Convert:
		return valueContainsParam(x.X, prm, depth-1)
	}
	return false
}

// isEmptySliceValue: a nil slice constant or a zero-length slice literal.
func isEmptySliceValue(v ssa.Value) bool {
	switch x := v.(type) {
	case *ssa.Const:
		return x.Value == nil
	case *ssa.Slice:
		if a, ok := x.X.(*ssa.Alloc); ok {
			if arr, ok := a.Type().Underlying().(*types.Pointer).Elem().Underlying().(*types.Array); ok {
				return arr.Len() == 0
			}
		}
	case *ssa.MakeSlice:
		k, ok := x.Len.(*ssa.Const)
		return ok && k.Value != nil && k.Value.ExactString() == "0"
	case *ssa.ChangeType:
		return isEmptySliceValue(x.X)
	}
	return false
}

// isDynCall: a call through a function value (not a static callee, method invocation or builtin).
func isDynCall(call *ssa.Call) bool {
	com := call.Common()
	if com.StaticCallee() != nil || com.IsInvoke() {
		return false
	}
	_, isB := com.Value.(*ssa.Builtin)
	return !isB
}

// factNilTerm: the fact states that a term satisfying pred is nil (isNil) or non-nil (!isNil).
func factNilTerm(f Fact, isNil bool, pred func(*Term) bool) bool {
	if f.T.Op != "bin" || len(f.T.Args) != 2 {
		return false
	}
	var x *Term
	switch {
	case f.T.Args[1].isNilConst():
		x = f.T.Args[0]
	case f.T.Args[0].isNilConst():
		x = f.T.Args[1]
	default:
		return false
	}
	saysNil := (f.T.Name == "==" && f.Pol) || (f.T.Name == "!=" && !f.Pol)
	saysNonNil := (f.T.Name == "!=" && f.Pol) || (f.T.Name == "==" && !f.Pol)
	if isNil && !saysNil || !isNil && !saysNonNil {
		return false
	}
	return pred(x)
}

// C04-O8 (PROV): the upstream pre-filters see every node of the snapshot. InterPodAffinity's PreFilter counts the
// existing pods that match the incoming pod's own required (anti-)affinity terms over the node list it is given;
// pods keep running on cordoned, NotReady or pressured nodes, so that list must not be narrowed to schedulable nodes
// (whether a node can HOST the pod is decided later, per node). Session.GetNodes hands on what the snapshot lister
// returns — it does not build a filtered copy — and the pre-filter adapter passes GetNodes() on unchanged.
func runC04NodeLister(c *Ctx) {
	p := c.P
	fn := c.Anchor("O8", pkgFramework, "Session", "GetNodes")
	if fn == nil {
		return
	}
	n := 0
	for _, b := range fn.Blocks {
		ret, ok := b.Instrs[len(b.Instrs)-1].(*ssa.Return)
		if !ok || len(ret.Results) != 1 {
			continue
		}
		if k, isK := ret.Results[0].(*ssa.Const); isK && k.IsNil() {
			continue
		}
		n++
		okAll, why := true, ""
		for _, o := range p.origins(ret.Results[0], 4) {
			ex, isEx := o.(*ssa.Extract)
			if isEx {
				if call, isCall := ex.Tuple.(*ssa.Call); isCall && call.Call.IsInvoke() && call.Call.Method.Name() == "List" {
					continue
				}
			}
			if k, isK := o.(*ssa.Const); isK && k.IsNil() {
				continue
			}
			okAll, why = false, trunc(termOf(o).String(), 100)
		}
		c.Check(okAll, "O8", "PROV", funcKey(fn)+": the node list for the pre-filters is the snapshot lister's full list", instrPos(ret), "SnapshotSharedLister().List()",
			"Session.GetNodes returns a list it built itself ("+why+") instead of the snapshot lister's: if it leaves out nodes that cannot host new pods (cordoned, NotReady) the inter-pod (anti-)affinity pre-filter no longer counts the pods still running there, and a pod is bound into a topology domain its own required anti-affinity forbids")
	}
	c.Floor("O8", "PROV node-list returns", n, 1)
	// the adapter hands the list on unchanged
	np := 0
	for _, f := range p.FuncsIn("pkg/scheduler/k8s_internal") {
		if isTestdataOrMock(f) {
			continue
		}
		for _, in := range instrsIn(f, func(in ssa.Instruction) bool {
			cc, ok := in.(ssa.CallInstruction)
			return ok && cc.Common().IsInvoke() && cc.Common().Method.Name() == "PreFilter"
		}) {
			args := in.(ssa.CallInstruction).Common().Args
			if len(args) == 0 {
				continue
			}
			np++
			last := args[len(args)-1]
			t := termOf(last)
			c.Check(t.Op == "call" && strings.Contains(t.String(), "GetNodes"), "O8", "PROV", funcKey(f)+": the upstream PreFilter receives GetNodes() unchanged", instrPos(in), trunc(t.String(), 100),
				"the upstream PreFilter is not handed the session's node list as it is: "+trunc(t.String(), 100))
		}
	}
	c.Floor("O8", "PROV upstream PreFilter calls", np, 1)
}

// runC04Registration (O9, O10): two places where "every placement passes the filter" can be lost before any filter
// runs.
//
//	O9  — the topology plugin registers its node-subsetting callback on EVERY path of OnSessionOpen: a shortcut for
//	      "no Topology objects" leaves workloads that name a (missing) topology with a required level unconstrained;
//	O10 — the node's pod-affinity bookkeeping hands EVERY pod to the upstream NodeInfo (AddPod / RemovePod): a pod
//	      without an affinity stanza of its own is still what other pods' anti-affinity terms select.
func runC04Registration(c *Ctx) {
	if f := c.Anchor("O9", "pkg/scheduler/plugins/topology", "topologyPlugin", "OnSessionOpen"); f != nil {
		isReg := func(in ssa.Instruction) bool {
			cc, ok := in.(ssa.CallInstruction)
			return ok && calleeOf(cc) != nil && calleeOf(cc).Name() == "AddSubsetNodesFn"
		}
		_, path, found := reachAvoiding([]cfgPos{entryPos(f)}, isReturn, isReg, nil)
		c.Check(!found && len(instrsIn(f, isReg)) > 0, "O9", "MPT", funcKey(f)+": the node-subsetting callback is registered on every path", f.Pos(), "AddSubsetNodesFn on every path",
			"OnSessionOpen can return without registering SubsetNodesFn ("+pathStr(path)+"): in such a session a required topology level is not enforced at all")
	}
	for _, m := range []struct{ name, up string }{{"AddPod", "AddPod"}, {"RemovePod", "RemovePod"}} {
		f := c.Anchor("O10", "pkg/scheduler/cache/cluster_info", "K8sNodePodAffinityInfo", m.name)
		if f == nil {
			continue
		}
		isUp := func(in ssa.Instruction) bool {
			cc, ok := in.(ssa.CallInstruction)
			if !ok || calleeOf(cc) == nil || calleeOf(cc).Name() != m.up {
				return false
			}
			return strings.Contains(funcPkgPath(calleeOf(cc)), "k8s.io/kubernetes/pkg/scheduler/framework") || strings.Contains(funcPkgPath(calleeOf(cc)), "k8s.io/kube-scheduler")
		}
		_, path, found := reachAvoiding([]cfgPos{entryPos(f)}, isReturn, isUp, nil)
		c.Check(!found && len(instrsIn(f, isUp)) > 0, "O10", "MPT", funcKey(f)+": every pod reaches the upstream NodeInfo."+m.up, f.Pos(), "unconditional",
			"a pod can be skipped by the node's pod-affinity bookkeeping ("+pathStr(path)+"): the upstream inter-pod-affinity filter does not see it, and a pod with a required anti-affinity term against its labels is placed next to it")
	}
}

// runC04PrePredicateEvaluatedEachTime (O11): the pre-predicates (inter-pod affinity PreFilter state among them) are a
// snapshot of where the other pods are, including pods placed earlier in the same attempt; AllocateJob retries a gang on
// the next candidate domain after rolling back the previous one. The pre-predicate function the plugin registers
// therefore evaluates on every call: every path through it runs evaluateTaskOnPrePredicate (a memo per pod keeps the
// state computed while the siblings sat in the rolled-back domain, and pods with mutual anti-affinity land together).
func runC04PrePredicateEvaluatedEachTime(c *Ctx) {
	p := c.P
	open := c.Anchor("O11", "pkg/scheduler/plugins/predicates", "predicatesPlugin", "OnSessionOpen")
	eval := p.Func("pkg/scheduler/plugins/predicates", "", "evaluateTaskOnPrePredicate")
	add := p.Func(pkgFramework, "Session", "AddPrePredicateFn")
	if open == nil || eval == nil || add == nil {
		if open != nil {
			c.Undec("O11", "ANCHOR", "evaluateTaskOnPrePredicate / AddPrePredicateFn", open.Pos(), "not found")
		}
		return
	}
	n := 0
	for _, in := range instrsIn(open, isCallToFn(add)) {
		args := in.(ssa.CallInstruction).Common().Args
		var fn *ssa.Function
		arg := args[len(args)-1]
		for {
			if ct, ok := arg.(*ssa.ChangeType); ok {
				arg = ct.X
				continue
			}
			break
		}
		switch x := arg.(type) {
		case *ssa.MakeClosure:
			fn = x.Fn.(*ssa.Function)
		case *ssa.Function:
			fn = x
		}
		if fn == nil {
			c.Undec("O11", "REG", funcKey(open)+": registered pre-predicate function", instrPos(in), "not a resolvable function value")
			continue
		}
		n++
		evaluates := p.performs(isCallToFn(eval), 2)
		_, path, found := reachAvoiding([]cfgPos{entryPos(fn)}, isReturn, evaluates, nil)
		c.Check(!found, "O11", "MPT", funcKey(fn)+": the pre-predicates are evaluated on every call", instrPos(in), "every path runs evaluateTaskOnPrePredicate",
			"the registered pre-predicate function can answer without evaluating ("+pathStr(path)+"), e.g. from a per-pod memo: after a candidate domain was rolled back the later pods of the gang keep the affinity state computed while their siblings were placed there, and pods with mutual required anti-affinity are bound to one node")
	}
	c.Floor("O11", "MPT registered pre-predicate functions", n, 1)
}

// runC04CloneCompleteness (O12): the victim-based actions simulate placements on CLONES of a workload
// (PodGroupInfo.CloneWithTasks → SubGroupSet.Clone / PodSet.Clone → …); a constraint that a clone loses (the topology a
// sub group must stay within, a required level) is not enforced in the simulation, and victims are evicted for a
// placement that breaks it. For every Clone method of the scheduler's api types that builds its result as a composite
// literal of its own type, every field of the type is assigned (reviewed exceptions: caches that are recomputed).
func runC04CloneCompleteness(c *Ctx) {
	reviewed := map[string]string{
		"pkg/scheduler/api/topology_info.TopologyConstraintInfo.schedulingConstraintsSignature": "memo of a value derived from the other fields; recomputed on demand when empty",
	}
	n := 0
	for _, fn := range c.P.FuncsIn("pkg/scheduler/api") {
		recv := fn.Signature.Recv()
		if recv == nil || fn.Name() != "Clone" || len(fn.Blocks) == 0 || fn.Signature.Results().Len() != 1 {
			continue
		}
		ptr, ok := recv.Type().(*types.Pointer)
		if !ok || !types.Identical(fn.Signature.Results().At(0).Type(), recv.Type()) {
			continue
		}
		named, ok := ptr.Elem().(*types.Named)
		if !ok {
			continue
		}
		st, ok := named.Underlying().(*types.Struct)
		if !ok {
			continue
		}
		for _, in := range instrsIn(fn, func(in ssa.Instruction) bool {
			a, ok := in.(*ssa.Alloc)
			return ok && a.Comment == "complit" && types.Identical(a.Type(), recv.Type())
		}) {
			a := in.(*ssa.Alloc)
			n++
			set := map[int]bool{}
			for _, r := range *a.Referrers() {
				if fa, ok := r.(*ssa.FieldAddr); ok {
					for _, rr := range *fa.Referrers() {
						if s, ok := rr.(*ssa.Store); ok && s.Addr == ssa.Value(fa) {
							set[fa.Field] = true
						}
					}
				}
			}
			// decided for the types that carry placement constraints; the other Clone literals of the api packages are
			// counted (the rule must keep seeing them) but are outside this property
			pk := named.Obj().Pkg().Path()
			if !strings.HasSuffix(pk, "/topology_info") && !strings.HasSuffix(pk, "/subgroup_info") && !strings.HasSuffix(pk, "/podgroup_info") {
				continue
			}
			var missing []string
			for i := 0; i < st.NumFields(); i++ {
				key := typeKey(named) + "." + st.Field(i).Name()
				if !set[i] && reviewed[key] == "" {
					missing = append(missing, st.Field(i).Name())
				}
			}
			c.Check(len(missing) == 0, "O12", "MUSTDEF", funcKey(fn)+": the clone's literal assigns every field", instrPos(a), fmt.Sprintf("%d fields", st.NumFields()),
				"the clone built by "+funcKey(fn)+" leaves "+strings.Join(missing, ", ")+" at the zero value: a simulation on the clone does not see that part of the original (e.g. which topology a sub group is constrained to), and evictions are made for placements the real allocation would not accept")
		}
	}
	c.Floor("O12", "MUSTDEF Clone methods that build a literal of their own type", n, 3)
}
