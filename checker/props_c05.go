package main

import (
	"fmt"
	"go/types"
	"sort"
	"strings"

	"golang.org/x/tools/go/ssa"
)

func init() {
	register("C05", runC05,
		"Decides the shapes without which progress certainly fails (liveness itself is not decidable statically): allocate attempts every popped job and pushes a partly placed job back; the node loop of a task ends only with a placement or after every node of the handed-in set was tried, skipping a node only when FittingNode rejects it; reclaim and preempt attempt every popped job unless the queue may not reclaim or scheduling signatures are on and a not-larger job of the same queue and signature already failed; that memo is per queue, is fed only by failed attempts, never skips when nothing failed, and compares the candidate against the representative in that order; scenario filters can only reject a scenario with a clean 'invalid' verdict, a rejected scenario leads to the next one, and the solver gives up only when the scenario builder is exhausted.",
		"that the search finds a placement whenever one exists (completeness of node scoring, victim selection, scenario pruning by the filters' own arithmetic), and the fairness clauses deciding which workload may reclaim")
}

func runC05(c *Ctx) {
	runC05MaxNodeStrict(c)
	runC05PerJobReset(c)
	borrow(c, "O8", "C06", "O10", "cache", "a victim wrongly reported as protected is never displaced")
	borrow(c, "O11", "C14", "O1", "addTaskIndex <-> deleteTaskIndex", "the victim filters drop a workload whose cached active-allocated count is 0: a count that drifts after an undone simulation hides a legal victim from the later actions of the cycle")
	borrow(c, "O12", "C08", "O6", "given to the queue is in bytes", "a limit enforced a million times too low refuses every workload of the queue although capacity is free")
	runC05FilterNodes(c)
	borrow(c, "O17", "C03", "O4", "ShouldPipelineJob true path", "a gang whose minimum is met exactly by pods placed on idle resources must be bound: a non-strict comparison turns every such round into a pipelined one as soon as one sibling waits for releasing resources, and pods that fit on idle nodes stay unbound")
	borrow(c, "O19", "C03", "O4", "JobSolver).Solve true path", "progress is measured with one count before and after the solve: a mixed pair of counts (terminating pods included before, excluded after) marks every solution of a restarted workload as no progress, the statement is dropped and the workload stays pending although victims were found")
	borrow(c, "O16", "C07", "O7", "", "a queue limit taken from another resource (the memory limit from the CPU limit) refuses workloads that fit every configured limit: they stay pending although the cluster and the queue have room")
	borrow(c, "O14", "C08", "O13", "usage is accumulated for the allocated statuses", "a queue that is charged with its terminating pods looks fuller than it is: workloads that fit within its limit are refused and reclaimers within quota are turned away")
	borrow(c, "O9", "C01", "O7", "BindPod failure -> unallocate", "resources of a pod whose bind failed stay consumed in the session and a later job that fits is left pending")
	p, fx := c.P, c.Fx
	// ---- O10: the pod-slot predicate counts the slots of terminating pods as available (nominations go there)
	if chk := c.Anchor("O10", "pkg/scheduler/plugins/predicates", "predicatesPlugin", "checkMaxPodsWithGpuGroupReservation"); chk != nil {
		n := 0
		seenT := map[string]bool{}
		for _, rp := range fx.retPaths(chk, 0, WantNil) {
			for _, f := range rp.Facts.sorted() {
				if f.T.Op != "bin" || (f.T.Name != "<" && f.T.Name != "<=" && f.T.Name != ">" && f.T.Name != ">=") {
					continue
				}
				for _, a := range f.T.Args {
					if a.Op == "const" || seenT[a.String()] {
						continue
					}
					seenT[a.String()] = true
					n++
					hasIdle := termHas(a, func(x *Term) bool { return x.Op == "field" && x.Name == "Idle" })
					hasRel := termHas(a, func(x *Term) bool { return x.Op == "field" && x.Name == "Releasing" })
					c.Check(hasIdle && hasRel, "O10", "RET", funcKey(chk)+": free pod slots = idle + releasing slots of the node", rp.Pos, trunc(a.String(), 160),
						"the pod-slot predicate does not count the slots of terminating (virtually evicted) pods: on a node whose pod slots are all taken no reclaimer or preemptor can be nominated although its victims free their slots — "+trunc(a.String(), 160))
				}
			}
		}
		c.Floor("O10", "RET pod-slot comparisons", n, 1)
	}
	const pkgCommon = "pkg/scheduler/actions/common"
	const pkgUtils = "pkg/scheduler/actions/utils"
	const pkgFw = "pkg/scheduler/framework"
	pop := p.Func(pkgUtils, "JobsOrderByQueues", "PopNextJob")

	// ---- O1: allocate
	if ex := c.Anchor("O1", "pkg/scheduler/actions/allocate", "allocateAction", "Execute"); ex != nil {
		attempt := p.Func("pkg/scheduler/actions/allocate", "", "attemptToAllocateJob")
		n := 0
		for _, in := range instrsIn(ex, isCallToFn(pop)) {
			n++
			_, path, found := reachAvoiding([]cfgPos{afterInstr(in)}, func(x ssa.Instruction) bool { return x == in || isReturn(x) }, isCallToFn(attempt), nil)
			c.Check(!found, "O1", "MPT", funcKey(ex)+": every popped job is attempted", instrPos(in), "PopNextJob → attemptToAllocateJob on all paths", "a ready pending job can be popped and dropped without an allocation attempt ("+pathStr(path)+")")
			// the attempt is made on the popped job
			for _, a := range instrsIn(ex, isCallToFn(attempt)) {
				args := a.(ssa.CallInstruction).Common().Args
				c.Check(args[2] == in.(ssa.Value), "O1", "PROV", funcKey(ex)+": the attempt is made for the popped job", instrPos(a), "attemptToAllocateJob(ssn, stmt, job)", "the allocation attempt is made for another job than the one popped")
			}
		}
		c.Floor("O1", "MPT pops in allocate", n, 1)
		push := p.Func(pkgUtils, "JobsOrderByQueues", "PushJob")
		np := 0
		for _, in := range instrsIn(ex, isCallToFn(push)) {
			np++
			_, more := hasFact(fx.FactsAt(in), func(f Fact) bool { return f.Pol && isCallNamed(f.T, "HasTasksToAllocate") })
			c.Check(more, "O1", "DOM", funcKey(ex)+": a job with tasks left is pushed back after a successful step", instrPos(in), "PushJob behind HasTasksToAllocate", "the re-queue of partly placed jobs is guarded differently")
		}
		c.Floor("O1", "DOM re-queues", np, 1)
		// ---- O18: and ONLY the outcome of the commit and the presence of tasks left decide the re-queue: after a
		// commit, an iteration ends without PushJob only when the commit failed or nothing is left to allocate. (A
		// round that ended pipelined still re-queues the job: its remaining pods may fit on idle resources.)
		commit := p.Func(pkgFw, "Statement", "Commit")
		nc := 0
		for _, in := range instrsIn(ex, isCallToFn(commit)) {
			nc++
			cv, _ := in.(ssa.Value)
			h := loopHeaderOf(in.Block())
			if h == nil || cv == nil {
				c.Undec("O18", "MPT", funcKey(ex)+": commit outside the job loop", instrPos(in), "no loop")
				continue
			}
			first := h.Instrs[0]
			_, path, found := reachAvoiding([]cfgPos{afterInstr(in)}, func(x ssa.Instruction) bool { return x == first || isReturn(x) }, isCallToFn(push), func(from, to *ssa.BasicBlock) bool {
				return !fx.edgeEstablishes(from, to, func(f Fact) bool {
					if !f.Pol && isCallNamed(f.T, "HasTasksToAllocate") {
						return true
					}
					// the commit's error is not nil
					return !f.Pol && f.T.Op == "bin" && f.T.Name == "==" && len(f.T.Args) == 2 && f.T.Args[1].isNilConst() && f.T.Args[0].V == cv
				})
			})
			c.Check(!found, "O18", "MPT", funcKey(ex)+": after a successful commit a job with tasks left is pushed back", instrPos(in), "the iteration ends without PushJob only behind a failed commit or HasTasksToAllocate == false",
				"after a successful commit the job can be dropped from this cycle's order for another reason ("+pathStr(path)+"), e.g. because the round ended pipelined: its remaining pending pods are not attempted although they may fit on idle resources")
		}
		c.Floor("O18", "MPT commits in allocate", nc, 1)
	}

	// ---- O2: the node loop of a task
	if at := c.Anchor("O2", pkgCommon, "", "allocateTask"); at != nil {
		toNode := p.Func(pkgCommon, "", "allocateTaskToNode")
		ordered := p.Func(pkgFw, "Session", "OrderedNodesByTask")
		for _, in := range instrsIn(at, isCallToFn(ordered)) {
			t := termOf(in.(ssa.CallInstruction).Common().Args[1])
			c.Check(t.paramIndex() == 2, "O2", "PROV", funcKey(at)+": all nodes handed in are ordered and tried", instrPos(in), "OrderedNodesByTask(nodes, task)", "the node loop runs over "+t.String()+" instead of the node set handed in")
		}
		n := 0
		for _, in := range instrsIn(at, isCallToFn(toNode)) {
			n++
			call := in.(*ssa.Call)
			ok, path := everyIterationPasses(call, func(x ssa.Instruction) bool { return x == ssa.Instruction(call) }, func(from, to *ssa.BasicBlock) bool {
				return !fx.edgeEstablishes(from, to, func(f Fact) bool { return !f.Pol && isCallNamed(f.T, "FittingNode") })
			})
			c.Check(ok, "O2", "MPT", funcKey(at)+": a node is passed over only when FittingNode rejects it", instrPos(in), "every other iteration reaches allocateTaskToNode", "a node can be skipped for another reason ("+pathStr(path)+")")
			// leaving the loop early needs a successful placement
			h := loopHeaderOf(call.Block())
			if h == nil {
				c.Undec("O2", "MPT", funcKey(at)+": node loop", instrPos(in), "placement call outside a loop")
				continue
			}
			loop := naturalLoop(h)
			okExit := true
			for b := range loop {
				if b == h {
					continue
				}
				for _, s := range b.Succs {
					if loop[s] {
						continue
					}
					if !fx.edgeEstablishes(b, s, func(f Fact) bool { return f.Pol && f.T.V == ssa.Value(call) }) {
						if _, has := hasFact(fx.FactsAt(s.Instrs[0]), func(f Fact) bool { return f.Pol && f.T.V == ssa.Value(call) }); !has {
							okExit = false
						}
					}
				}
			}
			c.Check(okExit, "O2", "DOM", funcKey(at)+": the node loop ends early only after a successful placement", instrPos(in), "break behind success", "the search over nodes can stop before a node was found and before all nodes were tried")
		}
		c.Floor("O2", "MPT placement calls in the node loop", n, 1)
	}
	// ---- O3/O4/O5: reclaim and preempt
	type act struct {
		pkg, recv, attempt string
		mayReclaim         bool
	}
	for _, a := range []act{
		{"pkg/scheduler/actions/reclaim", "reclaimAction", "attemptToReclaimForSpecificJob", true},
		{"pkg/scheduler/actions/preempt", "preemptAction", "attemptToPreemptForPreemptor", false},
	} {
		ex := c.Anchor("O3", a.pkg, a.recv, "Execute")
		if ex == nil {
			continue
		}
		var attemptCalls []ssa.Instruction
		for _, in := range instrsIn(ex, func(in ssa.Instruction) bool {
			cc, ok := in.(ssa.CallInstruction)
			return ok && calleeOf(cc) != nil && calleeOf(cc).Name() == a.attempt
		}) {
			attemptCalls = append(attemptCalls, in)
		}
		c.Floor("O3", "MPT attempts in "+a.pkg, len(attemptCalls), 1)
		pops := instrsIn(ex, isCallToFn(pop))
		for _, at := range attemptCalls {
			args := at.(ssa.CallInstruction).Common().Args
			jobArg := args[len(args)-1]
			okJob := false
			for _, pp := range pops {
				if jobArg == pp.(ssa.Value) {
					okJob = true
				}
			}
			c.Check(okJob, "O3", "PROV", funcKey(ex)+": the attempt is made for the popped job", instrPos(at), a.attempt+"(ssn, job)", "the attempt is made for another job than the one popped")
			ok, path := everyIterationPasses(at, func(x ssa.Instruction) bool { return x == at }, func(from, to *ssa.BasicBlock) bool {
				excused := fx.edgeEstablishes(from, to, func(f Fact) bool {
					if a.mayReclaim && !f.Pol && isCallNamed(f.T, "CanReclaimResources") {
						return true
					}
					// !easier
					return !f.Pol && f.T.Op == "extract" && f.T.Name == "0" && isCallNamed(f.T.Args[0], "IsEasierToSchedule")
				})
				return !excused
			})
			c.Check(ok, "O3", "MPT", funcKey(ex)+": every popped job is attempted unless it may not reclaim or a not-larger job of its queue and signature already failed", instrPos(at), "all other iterations reach "+a.attempt, "a job can be skipped for another reason ("+pathStr(path)+")")
		}
		// the memo is consulted only with scheduling signatures on
		for _, in := range instrsIn(ex, func(in ssa.Instruction) bool {
			cc, ok := in.(ssa.CallInstruction)
			return ok && calleeOf(cc) != nil && calleeOf(cc).Name() == "IsEasierToSchedule"
		}) {
			_, on := hasFact(fx.FactsAt(in), func(f Fact) bool { return f.Pol && isCallNamed(f.T, "UseSchedulingSignatures") })
			c.Check(on, "O3", "DOM", funcKey(ex)+": jobs are skipped by signature only when scheduling signatures are enabled", instrPos(in), "behind UseSchedulingSignatures()", "the failed-job memo prunes jobs although scheduling signatures are disabled")
			recv := in.(ssa.CallInstruction).Common().Args[0]
			c.Check(memoKeyedByJobQueue(recv, pops, 6), "O5", "PROV", funcKey(ex)+": the failed-job memo consulted belongs to the job's own queue", instrPos(in), "table[job.Queue]", "the memo of failed jobs is shared between queues: victims are searched per queue, so a failure in one queue says nothing about another, yet its jobs are skipped without an attempt")
			arg := in.(ssa.CallInstruction).Common().Args[1]
			okA := false
			for _, pp := range pops {
				if arg == pp.(ssa.Value) {
					okA = true
				}
			}
			c.Check(okA, "O5", "PROV", funcKey(ex)+": the memo is asked about the popped job", instrPos(in), "IsEasierToSchedule(job)", "the memo is asked about another job")
		}
		for _, in := range instrsIn(ex, func(in ssa.Instruction) bool {
			cc, ok := in.(ssa.CallInstruction)
			return ok && calleeOf(cc) != nil && calleeOf(cc).Name() == "UpdateRepresentative"
		}) {
			failed := false
			for _, at := range attemptCalls {
				if _, ok := hasFact(fx.FactsAt(in), func(f Fact) bool {
					return !f.Pol && f.T.Op == "extract" && f.T.Name == "0" && f.T.Args[0].V == at.(ssa.Value)
				}); ok {
					failed = true
				}
			}
			c.Check(failed, "O4", "DOM", funcKey(ex)+": only a failed attempt becomes the representative of hopeless jobs", instrPos(in), "UpdateRepresentative behind !succeeded", "a job whose attempt succeeded is recorded as failed: it has no pending tasks left, so every later job of the same queue and signature compares as 'not easier' and is skipped")
			recv := in.(ssa.CallInstruction).Common().Args[0]
			c.Check(memoKeyedByJobQueue(recv, pops, 6), "O5", "PROV", funcKey(ex)+": the failure is recorded in the memo of the job's own queue", instrPos(in), "table[job.Queue]", "a failure is recorded in a memo shared between queues")
		}
	}

	// ---- O6: the memo itself
	if ie := c.Anchor("O6", pkgCommon, "MinimalJobRepresentatives", "IsEasierToSchedule"); ie != nil {
		cmp := p.Func(pkgCommon, "", "jobEasierToScheduleComparison")
		sawNotFound, sawCmp := false, false
		for _, b := range ie.Blocks {
			ret, ok := b.Instrs[len(b.Instrs)-1].(*ssa.Return)
			if !ok {
				continue
			}
			if k, isC := ret.Results[0].(*ssa.Const); isC {
				_, nf := hasFact(fx.FactsAt(ret), func(f Fact) bool {
					return !f.Pol && f.T.Op == "extract" && f.T.Name == "1" && f.T.Args[0].Op == "lookup"
				})
				if nf {
					sawNotFound = true
					c.Check(k.Value != nil && k.Value.ExactString() == "true", "O6", "RET", funcKey(ie)+": nothing failed yet ⇒ easier", ret.Pos(), "return true when no representative exists", "a job is skipped although no job of its signature failed before")
				} else {
					c.Check(k.Value != nil && k.Value.ExactString() == "true", "O6", "RET", funcKey(ie)+": constant answers are 'easier'", ret.Pos(), "true", "the memo answers 'not easier' without comparing")
				}
				continue
			}
			t := termOf(ret.Results[0])
			if t.isCallTo(cmp) {
				sawCmp = true
				ok := len(t.Args) == 2 && t.Args[0].paramIndex() == 1 && t.Args[1].Op != "param"
				c.Check(ok, "O6", "PROV", funcKey(ie)+": the candidate is compared against the representative, in that order", ret.Pos(), "jobEasierToScheduleComparison(job, representative)", "the comparison is made with swapped or foreign operands: "+t.String())
			}
		}
		c.Check(sawNotFound && sawCmp, "O6", "RET", funcKey(ie)+": both exits recognised", ie.Pos(), "not-found exit and comparison exit", "the shape of IsEasierToSchedule is not the one analysed")
	}
	if ur := c.Anchor("O6", pkgCommon, "MinimalJobRepresentatives", "UpdateRepresentative"); ur != nil {
		n := 0
		for _, in := range instrsIn(ur, func(in ssa.Instruction) bool { _, ok := in.(*ssa.MapUpdate); return ok }) {
			n++
			mu := in.(*ssa.MapUpdate)
			c.Check(termOf(mu.Value).paramIndex() == 1, "O6", "PROV", funcKey(ur)+": the recorded representative is the failed job itself", instrPos(in), "representatives[key] = newJob", "something other than the failed job is recorded")
			fs := fx.pathFactsTo(in.Block(), 2)
			okAll := true
			for _, pf := range fs {
				_, nf := hasFact(pf, func(f Fact) bool {
					return !f.Pol && f.T.Op == "extract" && f.T.Name == "1" && f.T.Args[0].Op == "lookup"
				})
				_, sm := hasFact(pf, func(f Fact) bool { return f.Pol && isCallNamed(f.T, "isPodGroupFootprintSmaller") })
				if !nf && !sm {
					okAll = false
				}
			}
			c.Check(okAll, "O6", "DOM", funcKey(ur)+": a representative is replaced only by a job with a smaller footprint", instrPos(in), "¬found ∨ isPodGroupFootprintSmaller(new, current)", "a larger failed job can replace a smaller representative: jobs between the two are then attempted again or — if the comparison is reversed — smaller jobs are skipped")
		}
		c.Floor("O6", "PROV representative updates", n, 1)
	}

	// ---- O7: scenario filters fail open, a rejected scenario leads to the next one
	const pkgSolvers = "pkg/scheduler/actions/common/solvers"
	if sv := c.Anchor("O7", pkgSolvers, "PodAccumulatedScenarioBuilder", "isScenarioValid"); sv != nil {
		paths := fx.retPaths(sv, 0, WantFalse)
		for i, rp := range paths {
			_, noErr := hasFact(rp.Facts, func(f Fact) bool {
				return factNilTerm(f, true, func(t *Term) bool { return t.Op == "extract" && t.Name == "1" && t.Args[0].isInvokeOf("Filter") })
			})
			_, invalid := hasFact(rp.Facts, func(f Fact) bool {
				return !f.Pol && f.T.Op == "extract" && f.T.Name == "0" && f.T.Args[0].isInvokeOf("Filter")
			})
			c.Check(noErr && invalid, "O7", "RET", fmt.Sprintf("%s: false path#%d needs a clean 'invalid' verdict", funcKey(sv), i), rp.Pos, "err == nil ∧ !valid", "a scenario is rejected because a filter failed (or without a filter saying so): filters may only prune hopeless scenarios")
		}
		c.Floor("O7", "RET rejecting paths", len(paths), 1)
		for _, in := range instrsIn(sv, isInvokeNamed("Filter")) {
			t := termOf(in.(ssa.CallInstruction).Common().Args[0])
			c.Check(t.lastField() == "lastScenario", "O7", "PROV", funcKey(sv)+": filters judge the scenario that will be solved", instrPos(in), t.String(), "filters are applied to "+t.String())
		}
	}
	if gv := c.Anchor("O7", pkgSolvers, "PodAccumulatedScenarioBuilder", "GetValidScenario"); gv != nil {
		next := p.Func(pkgSolvers, "PodAccumulatedScenarioBuilder", "GetNextScenario")
		for _, b := range gv.Blocks {
			ret, ok := b.Instrs[len(b.Instrs)-1].(*ssa.Return)
			if !ok {
				continue
			}
			_, invalid := hasFact(fx.FactsAt(ret), func(f Fact) bool {
				return !f.Pol && f.T.Op == "extract" && f.T.Name == "0" && isCallNamed(f.T.Args[0], "isScenarioValid")
			})
			if invalid {
				c.Check(termOf(ret.Results[0]).isCallTo(next), "O7", "RET", funcKey(gv)+": a filtered scenario leads to the next scenario", ret.Pos(), "return GetNextScenario()", "when a scenario is filtered out the builder stops instead of producing the next one: larger victim sets are never tried")
			} else {
				c.Check(termOf(ret.Results[0]).lastField() == "lastScenario", "O7", "RET", funcKey(gv)+": a valid scenario is returned", ret.Pos(), "return lastScenario", "a valid scenario is not handed to the solver")
			}
		}
	}
	if gn := c.Anchor("O7", pkgSolvers, "PodAccumulatedScenarioBuilder", "GetNextScenario"); gn != nil {
		for _, b := range gn.Blocks {
			ret, ok := b.Instrs[len(b.Instrs)-1].(*ssa.Return)
			if !ok {
				continue
			}
			if termOf(ret.Results[0]).isNilConst() {
				_, empty := hasFact(fx.FactsAt(ret), func(f Fact) bool { return f.Pol && isCallNamed(f.T, "IsEmpty") })
				c.Check(empty, "O7", "RET", funcKey(gn)+": the builder gives up only when no victim job is left", ret.Pos(), "nil behind victimsJobsQueue.IsEmpty()", "scenario generation stops although potential victims remain")
			}
		}
	}
	if sp := c.Anchor("O7", pkgSolvers, "JobSolver", "solvePartialJob"); sp != nil {
		n := 0
		for _, in := range instrsIn(sp, func(in ssa.Instruction) bool {
			cc, ok := in.(ssa.CallInstruction)
			return ok && calleeOf(cc) != nil && calleeOf(cc).Name() == "solve"
		}) {
			n++
			ok, path := everyIterationPasses(in, func(x ssa.Instruction) bool { return x == in }, nil)
			c.Check(ok, "O7", "MPT", funcKey(sp)+": every scenario produced is simulated", instrPos(in), "each iteration reaches solve", "a produced scenario can be dropped without simulation ("+pathStr(path)+")")
		}
		c.Floor("O7", "MPT scenario simulations", n, 1)
		for _, b := range sp.Blocks {
			ret, ok := b.Instrs[len(b.Instrs)-1].(*ssa.Return)
			if !ok || !termOf(ret.Results[0]).isNilConst() {
				continue
			}
			okNil := false
			for _, pf := range fx.pathFactsTo(b, 2) {
				_, exhausted := hasFact(pf, func(f Fact) bool {
					return factNilTerm(f, true, func(t *Term) bool {
						return t.Op == "phi" || isCallNamed(t, "GetValidScenario") || isCallNamed(t, "GetNextScenario")
					})
				})
				okNil = exhausted
				if !okNil {
					break
				}
			}
			c.Check(okNil, "O7", "RET", funcKey(sp)+": the solver gives up only when the scenario builder is exhausted", ret.Pos(), "nil behind scenario == nil", "the solver returns 'no solution' while scenarios remain")
		}
	}
}

// memoKeyedByJobQueue: v is (a phi of) table[job.Queue] lookups / the value just stored under job.Queue,
// where job is one of the popped jobs.
func memoKeyedByJobQueue(v ssa.Value, pops []ssa.Instruction, depth int) bool {
	if depth == 0 || v == nil {
		return false
	}
	isJobQueue := func(k ssa.Value) bool {
		t := termOf(k)
		if t.lastField() != "Queue" || len(t.Args) != 1 {
			return false
		}
		for _, pp := range pops {
			if t.Args[0].V == pp.(ssa.Value) {
				return true
			}
		}
		return false
	}
	switch x := v.(type) {
	case *ssa.Phi:
		for _, e := range x.Edges {
			if !memoKeyedByJobQueue(e, pops, depth-1) {
				return false
			}
		}
		return len(x.Edges) > 0
	case *ssa.Extract:
		if l, ok := x.Tuple.(*ssa.Lookup); ok {
			return isJobQueue(l.Index)
		}
	case *ssa.Lookup:
		return isJobQueue(x.Index)
	case *ssa.Call:
		cal := x.Common().StaticCallee()
		if cal == nil {
			return false
		}
		// a fresh memo is acceptable only if it is also stored under job.Queue
		if cal.Name() == "NewMinimalJobRepresentatives" {
			for _, r := range *x.Referrers() {
				if mu, ok := r.(*ssa.MapUpdate); ok && mu.Value == ssa.Value(x) && isJobQueue(mu.Key) {
					return true
				}
			}
			return false
		}
		// a get-or-create helper: handed job.Queue as argument k, it returns only the table entry under its
		// parameter k (looked up, or created and stored under that key)
		for k, a := range x.Common().Args {
			if isJobQueue(a) && k < len(cal.Params) && helperReturnsEntryUnderParam(cal, cal.Params[k], 4) {
				return true
			}
		}
	}
	return false
}

// helperReturnsEntryUnderParam: every value fn returns is m[key] for a map m, or a value that fn stores into
// a map under key (key = the given parameter).
func helperReturnsEntryUnderParam(fn *ssa.Function, key *ssa.Parameter, depth int) bool {
	if len(fn.Blocks) == 0 || fn.Signature.Results().Len() != 1 {
		return false
	}
	var okVal func(v ssa.Value, d int) bool
	okVal = func(v ssa.Value, d int) bool {
		if d == 0 {
			return false
		}
		switch x := v.(type) {
		case *ssa.Phi:
			for _, e := range x.Edges {
				if !okVal(e, d-1) {
					return false
				}
			}
			return len(x.Edges) > 0
		case *ssa.Extract:
			if l, ok := x.Tuple.(*ssa.Lookup); ok {
				return l.Index == ssa.Value(key)
			}
		case *ssa.Lookup:
			return x.Index == ssa.Value(key)
		case *ssa.Call:
			for _, r := range *x.Referrers() {
				if mu, ok := r.(*ssa.MapUpdate); ok && mu.Value == ssa.Value(x) && mu.Key == ssa.Value(key) {
					return true
				}
			}
		}
		return false
	}
	n := 0
	for _, b := range fn.Blocks {
		if ret, ok := b.Instrs[len(b.Instrs)-1].(*ssa.Return); ok {
			n++
			if !okVal(ret.Results[0], depth) {
				return false
			}
		}
	}
	return n > 0
}

// C05-O13 (MUSTDEF): per-job scratch tables of the topology plugin do not outlive the job. The plugin fills map
// fields while it evaluates one job (node scores per sub-group) and reads them while that job's tasks are ordered;
// the pre-job hook must wipe every such table COMPLETELY — replace it with a fresh map, or clear() it — on every
// path. Deleting selected keys leaves the entries of the previous job's other sub-groups (the root sub-group set is
// called "" in every job): a later job then sorts its nodes by another job's scores, and in a simulation the only
// nodes where it fits can drop out of its candidate order.
func runC05PerJobReset(c *Ctx) {
	p := c.P
	const pkgTopo = "pkg/scheduler/plugins/topology"
	hook := c.Anchor("O13", pkgTopo, "topologyPlugin", "preJobAllocationFn")
	tn := p.TypeObj(pkgTopo, "topologyPlugin")
	if hook == nil || tn == nil {
		return
	}
	// map fields of the plugin that are filled outside construction / session open
	filled := map[string]bool{}
	// what OnSessionOpen builds by direct calls is session state, not per-job scratch
	sessionInit := map[*ssa.Function]bool{}
	var mark func(f *ssa.Function, d int)
	mark = func(f *ssa.Function, d int) {
		if f == nil || f.Blocks == nil || sessionInit[f] || d > 4 {
			return
		}
		sessionInit[f] = true
		for _, in := range instrsIn(f, func(in ssa.Instruction) bool { _, ok := in.(ssa.CallInstruction); return ok }) {
			mark(calleeOf(in.(ssa.CallInstruction)), d+1)
		}
	}
	mark(p.Func(pkgTopo, "topologyPlugin", "OnSessionOpen"), 0)
	for _, fn := range p.FuncsIn(pkgTopo) {
		if isTestdataOrMock(fn) || fn.Name() == "New" || sessionInit[fn] {
			continue
		}
		for _, in := range instrsIn(fn, func(in ssa.Instruction) bool { _, ok := in.(*ssa.MapUpdate); return ok }) {
			t := termOf(in.(*ssa.MapUpdate).Map)
			if t.Op == "field" && rootParam(t) == 0 && len(t.Args) == 1 && t.Args[0].Op == "param" {
				if pt, ok := t.Args[0].V.Type().Underlying().(*types.Pointer); ok && types.Identical(pt.Elem(), tn.Type()) {
					filled[t.Name] = true
				}
			}
		}
	}
	var names []string
	for f := range filled {
		names = append(names, f)
	}
	sort.Strings(names)
	for _, f := range names {
		isWipe := func(in ssa.Instruction) bool {
			switch x := in.(type) {
			case *ssa.Store:
				if termOf(x.Addr).lastField() != f {
					return false
				}
				_, fresh := x.Val.(*ssa.MakeMap)
				return fresh
			case *ssa.Call:
				if b, ok := x.Call.Value.(*ssa.Builtin); ok && b.Name() == "clear" && len(x.Call.Args) == 1 {
					return termOf(x.Call.Args[0]).lastField() == f
				}
			}
			return false
		}
		_, path, found := reachAvoiding([]cfgPos{entryPos(hook)}, isReturn, isWipe, nil)
		c.Check(!found, "O13", "MUSTDEF", funcKey(hook)+": the per-job table "+f+" is wiped completely before every job", hook.Pos(), "replaced by a fresh map (or clear()) on every path",
			"the pre-job hook can return without wiping "+f+" completely ("+pathStr(path)+"): entries written for an earlier job (e.g. the scores of its root sub-group set, named \"\" in every job) are read by later jobs of the cycle, which then order — and in simulations lose — their candidate nodes by another job's preferences")
	}
	c.Floor("O13", "MUSTDEF per-job tables of the topology plugin", len(names), 1)
}

// runC05FilterNodes (O15): the accumulated-scenario filters decide which victim scenarios are simulated at all. The
// topology-aware idle-GPU filter asks "would the GPUs freed by these victims satisfy the required topology level";
// it must therefore know EVERY node of the session — a node without idle or releasing GPUs today is exactly where
// victims free them. Built over the feasible-nodes subset it rejects every scenario whose victims sit on fully used
// nodes before it is simulated, and a workload with a required level can neither preempt nor reclaim.
func runC05FilterNodes(c *Ctx) {
	n := 0
	for _, fn := range c.P.FuncsIn("pkg/scheduler/actions/common/solvers") {
		if isTestdataOrMock(fn) {
			continue
		}
		for _, in := range instrsIn(fn, func(in ssa.Instruction) bool {
			cc, ok := in.(ssa.CallInstruction)
			return ok && calleeOf(cc) != nil && calleeOf(cc).Name() == "NewTopologyAwareIdleGpusFilter"
		}) {
			n++
			args := in.(ssa.CallInstruction).Common().Args
			t := termOf(args[len(args)-1])
			c.Check(strings.HasSuffix(t.String(), "ClusterInfo.Nodes"), "O15", "PROV", funcKey(fn)+": the topology-aware idle-GPU filter is built over all nodes of the session", instrPos(in), t.String(),
				"the topology-aware scenario filter is built over "+trunc(t.String(), 80)+" instead of the session's node map: nodes whose GPUs only become free through the victims are unknown to it, every scenario on fully used nodes is rejected before simulation, and a workload with a required topology level starves")
		}
	}
	c.Floor("O15", "PROV topology-aware filter constructions", n, 1)
}

// runC05MaxNodeStrict (O20): the "no node of the pool is large enough" pre-filter rejects a request only when it is
// strictly larger than the largest node's amount (or the resource exists on no node): a request EQUAL to the maximum
// fits that node. Every rejecting exit of MaxNodeResourcesPredicate.PreFilter has established a strict comparison or a
// failed lookup.
func runC05MaxNodeStrict(c *Ctx) {
	f := c.Anchor("O20", "pkg/scheduler/k8s_internal/predicates", "MaxNodeResourcesPredicate", "PreFilter")
	if f == nil {
		return
	}
	strict := func(fs FactSet) bool {
		_, ok := fs.find(func(ft Fact) bool {
			t := ft.T
			if !ft.Pol && t.Op == "extract" && t.Name == "1" {
				return true // resource not found on any node
			}
			if t.Op != "bin" || len(t.Args) != 2 {
				return false
			}
			return (t.Name == "<" || t.Name == ">") && ft.Pol || (t.Name == "<=" || t.Name == ">=") && !ft.Pol
		})
		return ok
	}
	n := 0
	for _, b := range f.Blocks {
		ret, ok := b.Instrs[len(b.Instrs)-1].(*ssa.Return)
		if !ok || len(ret.Results) != 2 {
			continue
		}
		if k, isK := ret.Results[1].(*ssa.Const); isK && k.IsNil() {
			continue
		}
		n++
		c.Check(c.Fx.allPathsSatisfy(ret, strict), "O20", "RET", funcKey(f)+": a request is rejected only when it is strictly above the largest node", instrPos(ret), "strict comparison (or resource unknown) on every path to the rejection",
			"the pre-filter rejects a request that equals the largest node's amount of a resource: a full-node workload (all NICs, max-pods=1) stays pending in allocate and in every simulation although it fits an idle node")
	}
	c.Floor("O20", "RET rejecting exits of the max-node-resources pre-filter", n, 4)
}
