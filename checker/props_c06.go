package main

import (
	"fmt"
	"go/token"
	"go/types"
	"sort"
	"strings"

	"golang.org/x/tools/go/ssa"
)

func init() {
	register("C06", runC06,
		"Decides structural necessary conditions of 'only eligible victims, only to place a workload': every victim filter accepts a job only if it is preemptible (and, for preempt, of strictly lower priority in the same queue; for reclaim, of another queue); the min-runtime plugin registers all four hooks, its filters reject protected non-elastic victims and its validators require every protected elastic victim to stay at its minimum; each action hands the matching validator to the solver and a scenario counts as solved only behind it; evictions and the preemptor's placement use one Statement; consolidation accepts only scenarios without a still-evicted victim.",
		"protection-window arithmetic (clock, durations), which queue/LCA the min-runtime is resolved from")
}

const pkgPreempt = "pkg/scheduler/actions/preempt"
const pkgReclaim = "pkg/scheduler/actions/reclaim"
const pkgConsol = "pkg/scheduler/actions/consolidation"
const pkgActUtils = "pkg/scheduler/actions/utils"
const pkgMinRuntime = "pkg/scheduler/plugins/minruntime"

func isCallNamed(t *Term, name string) bool {
	return t != nil && t.Op == "call" && ((t.Fn != nil && t.Fn.Name() == name) || (t.M != nil && t.M.Name() == name))
}

func runC06(c *Ctx) {
	runC06SessionWiring(c)
	runC06ResolverQueues(c)
	runC06AnnotationSetters(c)
	p, fx := c.P, c.Fx

	// ---- O1/O2: victim filters of preempt and consolidation (closures returned by the filter builders)
	type need struct {
		desc string
		pred func(f Fact) bool
	}
	preemptible := need{"victim.IsPreemptibleJob()", func(f Fact) bool { return f.Pol && isCallNamed(f.T, "IsPreemptibleJob") && rootParam(f.T.Args[0]) == 0 }}
	notSelf := need{"victim.UID != preemptor.UID", func(f Fact) bool {
		return !f.Pol && f.T.Op == "bin" && f.T.Name == "==" && strings.HasSuffix(f.T.Args[0].String(), ".UID") && strings.HasSuffix(f.T.Args[1].String(), ".UID")
	}}
	active := need{"victim has active allocated pods", func(f Fact) bool {
		return !f.Pol && f.T.Op == "bin" && f.T.Name == "==" && isCallNamed(f.T.Args[0], "GetActiveAllocatedTasksCount") && f.T.Args[1].String() == "const:0"
	}}
	lowerPrio := need{"victim.Priority < preemptor.Priority", func(f Fact) bool {
		if !f.Pol || f.T.Op != "bin" || f.T.Name != "<" {
			return false
		}
		l, r := f.T.Args[0], f.T.Args[1]
		return l.lastField() == "Priority" && r.lastField() == "Priority" && rootParam(l) == 0 && strings.HasPrefix(r.String(), "free:")
	}}
	sameQueue := need{"victim.Queue == preemptor.Queue", func(f Fact) bool {
		return f.Pol && f.T.Op == "bin" && f.T.Name == "==" && f.T.Args[0].lastField() == "Queue" && f.T.Args[1].lastField() == "Queue"
	}}
	plugFilter := need{"ssn.PreemptVictimFilter(preemptor, victim)", func(f Fact) bool { return f.Pol && isCallNamed(f.T, "PreemptVictimFilter") }}
	checkFilter := func(id string, builder *ssa.Function, needs []need) {
		if builder == nil {
			c.Undec(id, "ANCHOR", "victim filter builder", 0, "not found")
			return
		}
		cl := returnedClosure(builder)
		if cl == nil {
			c.Undec(id, "REG", funcKey(builder), builder.Pos(), "filter builder does not return a closure literal")
			return
		}
		c.Analysed(funcKey(cl))
		paths := fx.retPaths(cl, 0, WantTrue)
		for _, nd := range needs {
			ok := len(paths) > 0
			for _, rp := range paths {
				if _, has := hasFact(rp.Facts, nd.pred); !has {
					ok = false
				}
			}
			c.Check(ok, id, "RET", funcKey(cl)+": accepts only if "+nd.desc, cl.Pos(), "holds on every accepting path", "the victim filter can accept a job without "+nd.desc)
		}
	}
	checkFilter("O2", c.Anchor("O2", pkgPreempt, "", "buildFilterFuncForPreempt"), []need{preemptible, lowerPrio, sameQueue, notSelf, active, plugFilter})
	checkFilter("O1", c.Anchor("O1", pkgConsol, "", "buildPreemptibleFilterFunc"), []need{preemptible, notSelf, active})
	// the filter is what GetVictimsQueue applies: insertion dominated by filter(job)==true (or filter == nil)
	if gvq := c.Anchor("O1", pkgActUtils, "", "GetVictimsQueue"); gvq != nil {
		n := 0
		for _, in := range instrsIn(gvq, func(in ssa.Instruction) bool { _, ok := in.(*ssa.MapUpdate); return ok }) {
			n++
			ok, d := true, ""
			for _, fs := range fx.pathFactsTo(in.Block(), 3) {
				d1, ok1 := hasFact(fs, func(f Fact) bool {
					return f.Pol && f.T.Op == "call" && f.T.Name == "dyn" && rootParam(f.T.Args[0]) == 1
				})
				if !ok1 {
					d1, ok1 = hasFact(fs, func(f Fact) bool {
						return f.Pol && f.T.Op == "bin" && f.T.Name == "==" && rootParam(f.T.Args[0]) == 1 && f.T.Args[1].isNilConst()
					})
				}
				if !ok1 {
					ok = false
				}
				d = d1
			}
			c.Check(ok, "O1", "DOM", funcKey(gvq)+": candidate only if the filter accepts", instrPos(in), d, "a job enters the victims queue without the action's victim filter having accepted it")
		}
		c.Floor("O1", "DOM victims-queue insertions", n, 1)
		// callers pass a real filter (not nil)
		for _, cs := range p.CallSites(gvq) {
			if isTestdataOrMock(cs.Parent()) {
				continue
			}
			a := cs.Common().Args[1]
			k, isNil := a.(*ssa.Const)
			c.Check(!(isNil && k.IsNil()), "O1", "REG", funcKey(cs.Parent())+": passes a victim filter", instrPos(cs), "filter supplied", "GetVictimsQueue is called without a victim filter: every job becomes a candidate")
		}
	}

	// ---- O3: reclaim candidates
	if gq := c.Anchor("O3", pkgReclaim, "", "getOrderedVictimsQueue"); gq != nil {
		cl := returnedClosure(gq)
		if cl == nil {
			c.Undec("O3", "REG", funcKey(gq), gq.Pos(), "does not return a closure literal")
		} else {
			c.Analysed(funcKey(cl))
			n := 0
			for _, in := range instrsIn(cl, func(in ssa.Instruction) bool { _, ok := in.(*ssa.MapUpdate); return ok }) {
				n++
				fs := fx.FactsAt(in)
				_, otherQ := hasFact(fs, func(f Fact) bool {
					return !f.Pol && f.T.Op == "bin" && f.T.Name == "==" && f.T.Args[0].lastField() == "Queue" && f.T.Args[1].lastField() == "Queue"
				})
				_, filt := hasFact(fs, func(f Fact) bool { return f.Pol && isCallNamed(f.T, "ReclaimVictimFilter") })
				c.Check(otherQ, "O3", "DOM", funcKey(cl)+": reclaim victims belong to another queue", instrPos(in), "job.Queue != reclaimer.Queue", "a job of the reclaimer's own queue can become a reclaim victim")
				c.Check(filt, "O3", "DOM", funcKey(cl)+": reclaim victims pass ssn.ReclaimVictimFilter", instrPos(in), "ReclaimVictimFilter(reclaimer, job)", "a job can become a reclaim victim without the plugins' reclaim victim filter (min-runtime protection) having accepted it")
			}
			c.Floor("O3", "DOM reclaim candidate insertions", n, 1)
			// the victims queue is built with FilterNonPreemptible: true
			opt := p.fieldVars(pkgActUtils, "JobsOrderInitOptions", "FilterNonPreemptible")
			okOpt := false
			for _, in := range instrsIn(cl, isStoreToField(opt)) {
				if k, ok := in.(*ssa.Store).Val.(*ssa.Const); ok && k.Value != nil && k.Value.ExactString() == "true" {
					okOpt = true
				}
			}
			c.Check(okOpt, "O1", "CONST", funcKey(cl)+": FilterNonPreemptible=true", cl.Pos(), "constant option", "the reclaim victims queue is no longer built with FilterNonPreemptible: true")
		}
	}
	if init := c.Anchor("O1", pkgActUtils, "JobsOrderByQueues", "InitializeWithJobs"); init != nil {
		push := p.Func(pkgActUtils, "JobsOrderByQueues", "PushJob")
		for _, in := range instrsIn(init, isCallToFn(push)) {
			// on the path to PushJob: !(FilterNonPreemptible && !IsPreemptibleJob): with the option set, the job is preemptible.
			// decided as: no path from the edge "FilterNonPreemptible true" reaches PushJob without passing the edge "IsPreemptibleJob true"
			bad := false
			var pth []int
			for _, b := range init.Blocks {
				for _, s := range b.Succs {
					if fx.edgeEstablishes(b, s, func(f Fact) bool { return f.Pol && f.T.lastField() == "FilterNonPreemptible" }) {
						_, pp, found := reachAvoiding([]cfgPos{{B: s, I: 0}}, func(x ssa.Instruction) bool { return x == in }, nil, func(from, to *ssa.BasicBlock) bool {
							// prune edges that establish "not preemptible"
							return !fx.edgeEstablishes(from, to, func(f Fact) bool { return !f.Pol && isCallNamed(f.T, "IsPreemptibleJob") })
						})
						// the path must establish IsPreemptibleJob: require that the facts at PushJob ∪ this path... approximated by the pruning above plus:
						_ = pp
						if found {
							// acceptable only if the first branch after s tests IsPreemptibleJob
							okEdge := false
							for _, s2 := range s.Succs {
								if fx.edgeEstablishes(s, s2, func(f Fact) bool { return isCallNamed(f.T, "IsPreemptibleJob") }) {
									okEdge = true
								}
							}
							if !okEdge {
								bad, pth = true, pp
							}
						}
					}
				}
			}
			c.Check(!bad, "O1", "MPT", funcKey(init)+": FilterNonPreemptible ⇒ only preemptible jobs are pushed", instrPos(in), "the option is followed by the IsPreemptibleJob test", "with FilterNonPreemptible set a non-preemptible job can still be pushed ("+pathStr(pth)+")")
		}
	}

	// ---- O4: min-runtime plugin
	if onOpen := c.Anchor("O4", pkgMinRuntime, "minruntimePlugin", "OnSessionOpen"); onOpen != nil {
		type hook struct {
			reg  string
			kind string // filter | validator
			prot string
		}
		for _, hk := range []hook{
			{"AddReclaimVictimFilterFn", "filter", "isReclaimMinRuntimeProtected"},
			{"AddPreemptVictimFilterFn", "filter", "isPreemptMinRuntimeProtected"},
			{"AddReclaimScenarioValidatorFn", "validator", "isReclaimMinRuntimeProtected"},
			{"AddPreemptScenarioValidatorFn", "validator", "isPreemptMinRuntimeProtected"},
		} {
			regFn := p.Func(pkgFramework, "Session", hk.reg)
			var h *ssa.Function
			for _, in := range instrsIn(onOpen, isCallToFn(regFn)) {
				h = p.resolveFuncValue(in.(ssa.CallInstruction).Common().Args[1])
			}
			if !c.Check(h != nil, "O4", "REG", funcKey(onOpen)+": registers "+hk.reg, onOpen.Pos(), "registered", "the min-runtime plugin no longer registers "+hk.reg+": protected workloads lose that protection") {
				continue
			}
			c.Analysed(funcKey(h))
			paths := fx.retPaths(h, 0, WantTrue)
			if hk.kind == "filter" {
				for i, rp := range paths {
					_, elastic := hasFact(rp.Facts, func(f Fact) bool { return f.Pol && isCallNamed(f.T, "IsElastic") })
					_, unprot := hasFact(rp.Facts, func(f Fact) bool { return !f.Pol && isCallNamed(f.T, hk.prot) })
					c.Check(elastic || unprot, "O4", "RET", fmt.Sprintf("%s accepting path#%d", funcKey(h), i), rp.Pos, "elastic (left to the validator) or not protected", "the min-runtime victim filter accepts a non-elastic victim without !"+hk.prot)
				}
				c.Floor("O4", "RET accepting paths of "+h.Name(), len(paths), 2)
			} else {
				// validator: inside the loop over victims, the only ways to continue are: not elastic, not protected, validVictimForMinAvailable
				valid := p.Func(pkgMinRuntime, "", "validVictimForMinAvailable")
				calls := instrsIn(h, isCallToFn(valid))
				if !c.Check(len(calls) > 0, "O4", "RET", funcKey(h)+": checks minAvailable of protected elastic victims", h.Pos(), "calls validVictimForMinAvailable", "the scenario validator no longer checks that a protected elastic victim keeps its minimum") {
					continue
				}
				ok, path := everyIterationPasses(calls[0], isCallToFn(valid), func(from, to *ssa.BasicBlock) bool {
					return !fx.edgeEstablishes(from, to, func(f Fact) bool {
						return (!f.Pol && isCallNamed(f.T, "IsElastic")) || (!f.Pol && isCallNamed(f.T, hk.prot))
					})
				})
				c.Check(ok, "O4", "MPT", funcKey(h)+": every protected elastic victim is checked", instrPos(calls[0]), "an iteration skips the check only for non-elastic or unprotected victims", "a protected elastic victim can pass the validator without the minAvailable check ("+pathStr(path)+")")
				// and a failed check makes the validator return false
				starts := falseEdgeStarts(fx, calls[0].(*ssa.Call))
				h0 := loopHeaderOf(calls[0].Block())
				bad := len(starts) == 0
				if h0 != nil {
					if _, _, found := reachAvoiding(starts, func(x ssa.Instruction) bool { return x == h0.Instrs[0] }, isReturn, nil); found {
						bad = true
					}
				}
				c.Check(!bad, "O4", "MPT", funcKey(h)+": a failed check rejects the scenario", instrPos(calls[0]), "false result leaves through return false", "a victim failing the minAvailable check does not reject the scenario")
			}
		}
	}
	if vv := c.Anchor("O4", pkgMinRuntime, "", "validVictimForMinAvailable"); vv != nil {
		// false is returned when minAvailable > running - victims, for some sub-group
		n := 0
		for _, b := range vv.Blocks {
			ret, ok := b.Instrs[len(b.Instrs)-1].(*ssa.Return)
			if !ok {
				continue
			}
			if k, ok := ret.Results[0].(*ssa.Const); !ok || k.Value.ExactString() != "false" {
				continue
			}
			n++
			fs := fx.blockFacts(vv, 0)[b]
			d, ok2 := hasFact(fs, func(f Fact) bool {
				if !f.Pol || f.T.Op != "bin" || f.T.Name != "<" {
					return false
				}
				// (running - victims) < minAvailable
				return f.T.Args[0].Op == "bin" && f.T.Args[0].Name == "-" && isCallNamed(f.T.Args[1], "GetMinAvailable")
			})
			c.Check(ok2, "O4", "RET", funcKey(vv)+": rejects when running - victims < minAvailable", instrPos(ret), d, "the elastic-minimum check no longer compares (running − victims) with minAvailable")
		}
		c.Floor("O4", "RET reject returns", n, 1)
		// the three quantities of the comparison belong to the same sub group: every per-sub-group count that is
		// stored under a sub-group key is read from the sub group with that very key
		nk := 0
		for _, in := range instrsIn(vv, func(in ssa.Instruction) bool { _, ok := in.(*ssa.MapUpdate); return ok }) {
			mu := in.(*ssa.MapUpdate)
			vt := termOf(mu.Value)
			if !vt.contains(func(x *Term) bool { return x.Op == "call" && x.Fn != nil && strings.HasPrefix(x.Fn.Name(), "GetNum") }) {
				continue // a counter increment, not a reading of the job's state
			}
			nk++
			key := termOf(mu.Key)
			same := vt.contains(func(x *Term) bool {
				return x.Op == "lookup" && isCallNamed(x.Args[0], "GetSubGroups") && sameTerm(x.Args[1], key)
			})
			c.Check(same, "O4", "PROV", funcKey(vv)+": the running count stored for a sub group is that sub group's own count", instrPos(in), trunc(vt.String(), 120),
				"the number of running pods recorded for a sub group is read from "+trunc(vt.String(), 140)+" rather than from the sub group with the same name: the pods of the other sub groups mask the loss and a protected elastic workload can be shrunk below a sub group's minAvailable")
		}
		c.Floor("O4", "PROV per-sub-group readings", nk, 1)
		for _, in := range instrsIn(vv, func(in ssa.Instruction) bool {
			bo, ok := in.(*ssa.BinOp)
			return ok && (bo.Op == token.GTR || bo.Op == token.LSS) && termOf(bo).contains(func(x *Term) bool { return isCallNamed(x, "GetMinAvailable") })
		}) {
			bo := in.(*ssa.BinOp)
			var keys []string
			termOf(bo).walk(func(x *Term) bool {
				if x.Op == "lookup" {
					keys = append(keys, x.Args[1].String())
				}
				return true
			})
			allSame := len(keys) >= 2
			for _, k := range keys {
				if k != keys[0] {
					allSame = false
				}
			}
			c.Check(allSame, "O4", "PROV", funcKey(vv)+": minAvailable, running and victims are compared for one and the same sub group", instrPos(in), fmt.Sprintf("%d lookups under one key", len(keys)), "the minimum-size comparison mixes quantities of different sub groups: "+trunc(termOf(bo).String(), 200))
		}
	}
	// each action gives the solver the matching validator; a solution counts only behind it
	newSolver := p.Func(pkgSolvers, "", "NewJobsSolver")
	wantValidator := map[string]string{pkgReclaim: "ReclaimScenarioValidatorFn", pkgPreempt: "PreemptScenarioValidator", pkgConsol: "allPodsReallocated"}
	nv := 0
	for _, cs := range p.CallSites(newSolver) {
		pk := relPkg(funcPkgPath(cs.Parent()))
		want, ok := wantValidator[pk]
		if !ok {
			continue
		}
		nv++
		h := p.resolveFuncValue(cs.Common().Args[1])
		got := ""
		if h != nil {
			got = h.Name()
		}
		c.Check(got == want, "O4", "REG", funcKey(cs.Parent())+": solver validator", instrPos(cs), got, fmt.Sprintf("the %s action gives the solver validator %q instead of %q", pk, got, want))
	}
	c.Floor("O4", "REG solver constructions", nv, 3)
	if hs := c.Anchor("O4", pkgSolvers, "byPodSolver", "handleScenarioSolution"); hs != nil {
		solvedF := p.fieldVars(pkgSolvers, "solutionResult", "solved")
		nres := 0
		for _, b := range hs.Blocks {
			ret, ok := b.Instrs[len(b.Instrs)-1].(*ssa.Return)
			if !ok {
				continue
			}
			solvedTrue, known := solvedFlagMayBeTrue(unspill(ret, 0), solvedF, 3)
			if !known {
				c.Undec("O4", "RET", funcKey(hs)+": result construction", instrPos(ret), "the solver result is neither a struct literal nor the result of a helper that returns one: the solved flag cannot be located")
				continue
			}
			if !solvedTrue {
				continue
			}
			nres++
			ok2 := true
			for _, fs := range fx.pathFactsTo(b, 4) {
				_, nilV := hasFact(fs, func(f Fact) bool {
					return f.Pol && f.T.Op == "bin" && f.T.Name == "==" && f.T.Args[0].lastField() == "solutionValidator" && f.T.Args[1].isNilConst()
				})
				_, okV := hasFact(fs, func(f Fact) bool {
					return f.Pol && f.T.Op == "call" && f.T.Name == "dyn" && f.T.Args[0].lastField() == "solutionValidator"
				})
				if !nilV && !okV {
					ok2 = false
				}
			}
			c.Check(ok2, "O4", "RET", funcKey(hs)+": solved result only behind the validator", instrPos(ret), "validator nil or accepted on every path to solved=true", "a scenario can be reported solved on a path where the scenario validator is set and did not accept it (min-runtime / re-placement protection bypassed)")
		}
		c.Floor("O4", "RET solved results", nres, 1)
	}

	// ---- O5: evictions and the preemptor's placement share one statement
	evictAll := p.Func(pkgActCommon, "", "EvictAllPreemptees")
	tryAlloc := p.Func(pkgActCommon, "", "TryToVirtuallyAllocatePreemptorAndGetVictims")
	if solveFn := c.Anchor("O5", pkgSolvers, "byPodSolver", "solve"); solveFn != nil && evictAll != nil && tryAlloc != nil {
		newStmt := p.Func(pkgFramework, "Session", "Statement")
		creates := instrsIn(solveFn, isCallToFn(newStmt))
		c.Check(len(creates) == 1, "O5", "STMT", funcKey(solveFn)+": one statement per scenario", solveFn.Pos(), "single creation", fmt.Sprintf("%d statements are created while solving one scenario: evictions and placement may be committed separately", len(creates)))
		// every EvictAllPreemptees / TryToVirtuallyAllocate call in the solver package gets the statement parameter/creation of its own function, unchanged
		n := 0
		for _, fn := range p.FuncsIn(pkgSolvers) {
			if isTestdataOrMock(fn) {
				continue
			}
			for _, in := range instrsIn(fn, isCallToFn(evictAll, tryAlloc)) {
				n++
				cc := in.(ssa.CallInstruction)
				var stmtArg ssa.Value
				for _, a := range cc.Common().Args {
					if n := namedOf(a.Type()); n != nil && n.Obj().Name() == "Statement" {
						stmtArg = a
					}
				}
				ok := false
				switch v := stmtArg.(type) {
				case *ssa.Parameter:
					ok = true
				case *ssa.Call:
					ok = v.Common().StaticCallee() != nil && sameFunc(v.Common().StaticCallee(), newStmt) && fn == solveFn
				}
				c.Check(ok, "O5", "PROV", funcKey(fn)+": "+calleeOf(cc).Name()+" uses the scenario's statement", instrPos(in), "statement parameter / the scenario's statement", "evictions or the preemptor's placement are recorded in a statement other than the scenario's")
			}
		}
		c.Floor("O5", "PROV statement uses in the solver", n, 3)
	}
	// Session.Evict (immediate, statement-less eviction) only from stale-gang eviction
	if se := p.Func(pkgFramework, "Session", "Evict"); se != nil {
		for _, cs := range p.CallSites(se) {
			if isTestdataOrMock(cs.Parent()) {
				continue
			}
			pk := relPkg(funcPkgPath(cs.Parent()))
			c.Check(strings.HasSuffix(pk, "actions/stalegangeviction"), "O5", "CALLERS", "Session.Evict called by "+funcKey(cs.Parent()), instrPos(cs), "stale-gang eviction", "an action evicts pods immediately (outside any statement): the eviction is not tied to placing a workload")
		}
	}

	// ---- O7: the start time that min-runtime protection is measured from is refreshed when a workload (re)starts
	if ex := c.Anchor("O7", "pkg/scheduler/actions/allocate", "allocateAction", "Execute"); ex != nil {
		setTS := p.Func("pkg/scheduler/actions/allocate", "", "setLastStartTimestamp")
		calls := instrsIn(ex, isCallToFn(setTS))
		c.Check(len(calls) > 0, "O7", "MPT", funcKey(ex)+": refreshes LastStartTimestamp", ex.Pos(), "present", "the allocate action no longer records the start time of a newly started workload: min-runtime protection is measured from a stale or missing time")
		for _, call := range calls {
			fs := fx.FactsAt(call)
			// skipped only for workloads that already hold resources (allocated statuses), never merely because of terminating/nominated pods
			var guards []string
			bad := ""
			for _, f := range fs.sorted() {
				if f.T.Op == "bin" && (f.T.Name == "<" || f.T.Name == "<=") {
					for _, a := range f.T.Args {
						if a.Op == "call" && a.Fn != nil && strings.HasPrefix(a.Fn.Name(), "GetNum") {
							guards = append(guards, f.String())
							if a.Fn.Name() != "GetNumAllocatedTasks" {
								bad = a.Fn.Name()
							}
						}
					}
				}
			}
			c.Check(bad == "" && len(guards) > 0, "O7", "DOM", funcKey(ex)+": 'already started' means already holding resources", instrPos(call), strings.Join(guards, "; "),
				"the start-time refresh is skipped based on "+bad+" instead of the number of pods really holding resources: a workload restarted while an old pod is still terminating keeps its old start time and loses its min-runtime protection")
		}
	}

	// ---- O8: the lowest common ancestor used to resolve the reclaim min-runtime only advances while both queue paths agree
	nscan := 0
	for _, fn := range p.FuncsIn(pkgMinRuntime) {
		if isTestdataOrMock(fn) || relPkg(funcPkgPath(fn)) != pkgMinRuntime {
			continue
		}
		for _, b := range fn.Blocks {
			iff, ok := b.Instrs[len(b.Instrs)-1].(*ssa.If)
			if !ok {
				continue
			}
			bo, ok := iff.Cond.(*ssa.BinOp)
			if !ok || (bo.Op.String() != "==" && bo.Op.String() != "!=") {
				continue
			}
			l, r := termOf(bo.X), termOf(bo.Y)
			idxOf := func(t *Term) (*Term, bool) {
				if t.Op == "field" && t.Name == "UID" && t.Args[0].Op == "index" {
					return t.Args[0].Args[1], true
				}
				return nil, false
			}
			li, lok := idxOf(l)
			ri, rok := idxOf(r)
			if !lok || !rok || li.String() != ri.String() || li.V == nil || loopHeaderOf(b) == nil {
				continue
			}
			nscan++
			c.Analysed(funcKey(fn))
			ind := li.V // the induction variable
			isEq := func(f Fact) bool {
				return f.Pol && f.T.Op == "bin" && f.T.Name == "==" && ((sameTerm(f.T.Args[0], l) && sameTerm(f.T.Args[1], r)) || (sameTerm(f.T.Args[0], r) && sameTerm(f.T.Args[1], l)))
			}
			okAll := true
			var badPos ssa.Instruction
			for _, pb := range fn.Blocks {
				for _, in := range pb.Instrs {
					phi, ok := in.(*ssa.Phi)
					if !ok || phi == ind {
						continue
					}
					for i, e := range phi.Edges {
						if e != ind {
							continue
						}
						ef := fx.edgeFacts(pb.Preds[i], pb, 0)
						if ef.Bottom {
							continue
						}
						if _, has := hasFact(ef, isEq); !has {
							okAll = false
							badPos = phi
						}
					}
				}
			}
			pos := b.Instrs[len(b.Instrs)-1].Pos()
			if badPos != nil {
				pos = instrPos(badPos)
			}
			c.Check(okAll, "O8", "DOM", funcKey(fn)+": common-ancestor index advances only while both paths agree", pos, "every assignment of the scan index to the ancestor index is on an edge where the two paths hold the same queue", "the common-ancestor index is advanced at a position where the two queue paths already differ: the min-runtime is resolved from a queue below the real common ancestor (protection of the victim's department is bypassed in hierarchies deeper than two levels)")
		}
	}
	c.Floor("O8", "DOM common-prefix scans in the min-runtime resolver", nscan, 1)

	// ---- O6: consolidation accepts only scenarios in which no victim stays evicted
	// ---- O10: the two protection caches are fed only by their own verdict (a reclaim verdict cached as a preempt
	// verdict makes a victim that is protected from reclaim only look protected from preemption too, and vice versa)
	for _, pr := range []struct{ cache, owner string }{
		{"cachePreemptProtection", "isPreemptMinRuntimeProtected"},
		{"cacheReclaimProtection", "isReclaimMinRuntimeProtected"},
	} {
		cf := c.Anchor("O10", pkgMinRuntime, "minruntimePlugin", pr.cache)
		if cf == nil {
			continue
		}
		n := 0
		for _, cs := range p.CallSites(cf) {
			if isTestdataOrMock(cs.Parent()) {
				continue
			}
			n++
			c.Check(rootFunc(cs.Parent()).Name() == pr.owner, "O10", "CALLERS", funcKey(cs.Parent())+": writes the "+strings.TrimPrefix(pr.cache, "cache")+" cache", instrPos(cs), "only "+pr.owner, pr.cache+" is called from "+funcKey(cs.Parent())+": the verdict of one kind of protection is stored where the other kind is looked up")
		}
		c.Floor("O10", "CALLERS writers of "+pr.cache, n, 1)
	}
	// … and so are the resolver's two min-runtime caches: the value resolved for a reclaim is stored in the reclaim
	// cache by the reclaim resolution, the value resolved for a preempt in the preempt cache by the preempt resolution
	// (the two durations differ; a reclaim value in the preempt cache lets a workload be preempted inside its
	// preempt min-runtime for the rest of the session)
	for _, pr := range []struct{ cache, kind string }{{"cachePreemptMinRuntime", "Preempt"}, {"cacheReclaimMinRuntime", "Reclaim"}} {
		cf := c.Anchor("O10", pkgMinRuntime, "resolver", pr.cache)
		if cf == nil {
			continue
		}
		n := 0
		for _, cs := range p.CallSites(cf) {
			if isTestdataOrMock(cs.Parent()) {
				continue
			}
			n++
			owner := rootFunc(cs.Parent()).Name()
			other := map[string]string{"Preempt": "Reclaim", "Reclaim": "Preempt"}[pr.kind]
			ok := strings.Contains(owner, pr.kind) && !strings.Contains(owner, other)
			c.Check(ok, "O10", "CALLERS", funcKey(cs.Parent())+": writes the resolver's "+pr.kind+" min-runtime cache", instrPos(cs), "a "+pr.kind+" resolution", pr.cache+" is called from "+funcKey(cs.Parent())+": a min-runtime resolved for the other kind of eviction is stored where "+strings.ToLower(pr.kind)+" looks its value up")
		}
		c.Floor("O10", "CALLERS writers of "+pr.cache, n, 1)
	}
	runC06Elastic(c)
	runC06VictimJob(c)
	borrow(c, "O12", "C13", "O5", "a failed eviction does not end the commit", "evictions are made only to place a workload: once some victims of a scenario are evicted for real, the nomination they were evicted for must still be recorded")

	// ---- O9: the start time that min-runtime protection relies on is not lost while the informer lags: a pending
	// pod-group update is reported as "equal to the snapshot" (and may therefore be dropped) only when the
	// snapshot already carries the in-flight last-start and stale timestamps
	if sp := c.Anchor("O9", "pkg/scheduler/cache/status_updater", "defaultStatusUpdater", "syncPodGroup"); sp != nil {
		e := newAbsExec(p)
		e.maxInline = 0 // the comparison of the scheduling conditions is one opaque result
		leaves, err := e.explore(sp, nil, paramSyms(sp, [2]int{0, 0}), newAbsState())
		construct := funcKey(sp) + ": 'equal' only when the snapshot has both in-flight timestamps"
		if err != nil {
			c.Undec("O9", "ABS", construct, sp.Pos(), err.Error())
		} else {
			ok, n, why := true, 0, ""
			for _, lf := range leaves {
				v := lf.Vals[0]
				// can this leaf return "equalStatuses"? Either the constant, or the comparison result left untouched
				// on a path where it equals the constant
				mayBeEqual := false
				if v.T != nil && strings.Contains(v.T.String(), "equalStatuses") {
					mayBeEqual = true
				}
				if v.T != nil && v.T.Op == "call" {
					for k, rel := range lf.St.ord {
						pp := lf.St.pairs[k]
						if (strings.Contains(pp[0], "equalStatuses") || strings.Contains(pp[1], "equalStatuses")) && (pp[0] == v.T.String() || pp[1] == v.T.String()) && rel == relEQ {
							mayBeEqual = true
						}
					}
				}
				if !mayBeEqual {
					continue
				}
				n++
				for _, key := range []string{"LastStartTimeStamp", "StalePodgroupTimeStamp", "last-start", "stale"} {
					_ = key
				}
				same := 0
				for k, rel := range lf.St.ord {
					pp := lf.St.pairs[k]
					if strings.HasPrefix(pp[0], "lookup(") && strings.HasPrefix(pp[1], "lookup(") && strings.Contains(pp[0], ".Annotations") && strings.Contains(pp[1], ".Annotations") {
						if rel == relEQ {
							same++
						} else {
							ok, why = false, lf.St.String()
						}
					}
				}
				if same < 2 {
					ok = false
					if why == "" {
						why = "fewer than two annotation comparisons decide: " + lf.St.String()
					}
				}
			}
			c.Check(ok && n > 0, "O9", "ABS", construct, sp.Pos(), fmt.Sprintf("%d abstract inputs return 'equal', all with both annotations equal", n),
				"a pending pod-group update can be reported equal to the snapshot although the snapshot lacks its last-start (or stale) timestamp ("+trunc(why, 300)+"): the applied update is dropped while the informer still lags, the job's LastStartTimestamp is nil in the next cycle and a workload that started seconds ago loses its min-runtime protection")
		}
	}
	if apr := c.Anchor("O6", pkgConsol, "", "allPodsReallocated"); apr != nil {
		rel, _ := p.ConstInt(pkgPodStatus, "Releasing")
		// GHOST: ANY victim task that is still Releasing makes the answer false — for every number of victims and
		// tasks and whatever form the loops take (early return, flag, counter, slices.ContainsFunc)
		relConst := fmt.Sprintf("const:%d", rel)
		okG, und, desc := p.ghostForall(apr, func(in ssa.Instruction) (ssa.Value, bool, bool) {
			bo, ok := in.(*ssa.BinOp)
			if !ok || (bo.Op != token.EQL && bo.Op != token.NEQ) {
				return nil, false, false
			}
			x, y := termOf(bo.X), termOf(bo.Y)
			if !((x.lastField() == "Status" && y.String() == relConst) || (y.lastField() == "Status" && x.String() == relConst)) {
				return nil, false, false
			}
			return bo, bo.Op == token.EQL, true
		}, triF)
		if und != "" {
			c.Undec("O6", "GHOST", funcKey(apr)+": any still-evicted victim task rejects the scenario", apr.Pos(), und)
		} else {
			c.Check(okG, "O6", "GHOST", funcKey(apr)+": any still-evicted victim task rejects the scenario", apr.Pos(), desc,
				"allPodsReallocated can answer true although some victim task is still Releasing (the verdict is not sticky over the victims / tasks): consolidation then evicts a pod it has no place for — "+desc)
		}
		// (the earlier edge-based form of this rule — 'from the Releasing edge only return false is reachable' — is
		// subsumed by the GHOST obligation above, which also accepts flag and counter forms of the same loop)
		_ = fx
	}
}

// solvedFlagMayBeTrue: v is a solutionResult literal (or the result of a module helper all of whose returns are
// such literals); reports whether its solved field can be anything but the constant false.
func solvedFlagMayBeTrue(v ssa.Value, solvedF map[*types.Var]bool, depth int) (mayBeTrue, known bool) {
	switch x := v.(type) {
	case *ssa.Alloc:
		for _, r := range *x.Referrers() {
			if fa, ok := r.(*ssa.FieldAddr); ok && solvedF[fieldOfAddr(fa)] {
				for _, rr := range *fa.Referrers() {
					if st, ok := rr.(*ssa.Store); ok {
						if k, ok := st.Val.(*ssa.Const); !ok || k.Value == nil || k.Value.ExactString() != "false" {
							mayBeTrue = true
						}
					}
				}
			}
		}
		return mayBeTrue, true
	case *ssa.Call:
		cal := x.Common().StaticCallee()
		if cal == nil || len(cal.Blocks) == 0 || depth == 0 || !hasModPrefix(cal) {
			return false, false
		}
		n := 0
		for _, b := range cal.Blocks {
			ret, ok := b.Instrs[len(b.Instrs)-1].(*ssa.Return)
			if !ok || len(ret.Results) != 1 {
				continue
			}
			n++
			m, k := solvedFlagMayBeTrue(unspill(ret, 0), solvedF, depth-1)
			if !k {
				return false, false
			}
			mayBeTrue = mayBeTrue || m
		}
		return mayBeTrue, n > 0
	case *ssa.Phi:
		for _, e := range x.Edges {
			m, k := solvedFlagMayBeTrue(e, solvedF, depth)
			if !k {
				return false, false
			}
			mayBeTrue = mayBeTrue || m
		}
		return mayBeTrue, len(x.Edges) > 0
	}
	return false, false
}

// C06-O11 (DEP): whether a pod set is elastic does not depend on the current status of its pods. The min-runtime
// victim filter asks IsElastic() before the solver evicts anything and the scenario validator asks it again after the
// virtual evictions; a count that moves when a pod becomes Releasing (alive / active counters, the status index) makes
// the two disagree — the filter lets the workload through as elastic and the validator no longer checks it.
func runC06Elastic(c *Ctx) {
	p, fx := c.P, c.Fx
	const pkgSub = "pkg/scheduler/api/podgroup_info/subgroup_info"
	fn := c.Anchor("O11", pkgSub, "PodSet", "IsElastic")
	tn := p.TypeObj(pkgSub, "PodSet")
	if fn == nil || tn == nil {
		return
	}
	// status-dependent fields: counters changed under a pod_status predicate, and maps keyed/valued by PodStatus
	dep := map[string]string{}
	for _, f := range structFields(tn.Type()) {
		if m, ok := f.Type().Underlying().(*types.Map); ok {
			if strings.HasSuffix(typeKey(m.Key()), "PodStatus") || strings.HasSuffix(typeKey(m.Elem()), "PodStatus") {
				dep[f.Name()] = "a map organised by pod status"
			}
		}
	}
	for _, w := range p.FuncsIn(pkgSub) {
		if isTestdataOrMock(w) {
			continue
		}
		for _, in := range instrsIn(w, func(in ssa.Instruction) bool { _, ok := in.(*ssa.Store); return ok }) {
			st := in.(*ssa.Store)
			fa, ok := st.Addr.(*ssa.FieldAddr)
			if !ok {
				continue
			}
			sty, ok := fa.X.Type().Underlying().(*types.Pointer)
			if !ok || !types.Identical(sty.Elem(), tn.Type()) {
				continue
			}
			if _, isBin := st.Val.(*ssa.BinOp); !isBin {
				continue
			}
			if _, ok := hasFact(fx.FactsAt(in), func(f Fact) bool {
				return f.T.Op == "call" && f.T.Fn != nil && strings.HasSuffix(funcPkgPath(f.T.Fn), "/pod_status")
			}); ok {
				name := sty.Elem().Underlying().(*types.Struct).Field(fa.Field).Name()
				dep[name] = "a counter updated under a pod-status predicate in " + w.Name()
			}
		}
	}
	c.Floor("O11", "DEP status-dependent PodSet fields", len(dep), 3)
	var bad []string
	nr := 0
	for _, h := range p.deepFind(fn, func(in ssa.Instruction) bool {
		fa, ok := in.(*ssa.FieldAddr)
		if !ok {
			return false
		}
		sty, ok := fa.X.Type().Underlying().(*types.Pointer)
		return ok && types.Identical(sty.Elem(), tn.Type())
	}, 3) {
		fa := h.In.(*ssa.FieldAddr)
		name := tn.Type().Underlying().(*types.Struct).Field(fa.Field).Name()
		nr++
		if why, isDep := dep[name]; isDep {
			bad = append(bad, name+" ("+why+")")
		}
	}
	sort.Strings(bad)
	c.Floor("O11", "DEP fields read by IsElastic", nr, 1)
	c.Check(len(bad) == 0, "O11", "DEP", funcKey(fn)+": elasticity is independent of the pods' current status", fn.Pos(),
		fmt.Sprintf("%d field reads, none status-dependent", nr),
		"IsElastic reads "+strings.Join(bad, ", ")+": a workload that the min-runtime victim filter let through as elastic stops being elastic once the solver has virtually evicted pods, so the scenario validator no longer protects its minAvailable")
}

// C06-O13 (PROV): the scenario validators judge the REAL workload. A VictimInfo carries the victim tasks of a
// scenario together with the job they belong to; the min-runtime validators read that job's LastStartTimestamp,
// elasticity and sub-group minimums. The per-chunk representatives a scenario builds (CloneWithTasks: only the chunk's
// tasks, no start time) must never stand in for it — a clone is never elastic and has no start time, so an elastic
// workload inside its min-runtime would lose its floor.
func runC06VictimJob(c *Ctx) {
	p := c.P
	n := 0
	for _, fn := range p.FuncsIn("pkg/scheduler") {
		if isTestdataOrMock(fn) {
			continue
		}
		for _, in := range instrsIn(fn, func(in ssa.Instruction) bool {
			st, ok := in.(*ssa.Store)
			if !ok {
				return false
			}
			fa, ok := st.Addr.(*ssa.FieldAddr)
			if !ok {
				return false
			}
			pt, ok := fa.X.Type().Underlying().(*types.Pointer)
			if !ok || !strings.HasSuffix(typeKey(pt.Elem()), "api.VictimInfo") {
				return false
			}
			stt, ok := pt.Elem().Underlying().(*types.Struct)
			return ok && stt.Field(fa.Field).Name() == "Job"
		}) {
			n++
			t := termOf(in.(*ssa.Store).Val)
			isClone := t.contains(func(x *Term) bool { return x.Op == "call" && x.Fn != nil && strings.HasPrefix(x.Fn.Name(), "Clone") })
			c.Check(!isClone, "O13", "PROV", funcKey(fn)+": VictimInfo.Job is the session's workload, not a per-chunk clone", instrPos(in), trunc(t.String(), 120),
				"the job handed to the scenario validators is a clone built for one chunk of victim tasks ("+trunc(t.String(), 120)+"): it has no start time and is never elastic, so the min-runtime validators skip it and an elastic workload inside its min-runtime can be shrunk below its minimum")
		}
	}
	c.Floor("O13", "PROV VictimInfo.Job stores", n, 1)
}

// runC06SessionWiring (O14): the session keeps one list of plugin callbacks per extension point ("<Point>Fns"); a
// plugin adds to it with Add<Point>Fn and the actions evaluate it through Session.<Point>. An evaluator that ranges
// over another point's list (the preempt victim filter running the reclaim filters) type-checks whenever the two
// points share a signature — and silently applies the wrong policy (the reclaim min-runtime to preemption).
// Decided: every Add* method appends to, and every evaluator ranges over, the list that its own name designates;
// the two historical name deviations are a reviewed table.
func runC06SessionWiring(c *Ctx) {
	p := c.P
	norm := func(s string) string {
		s = strings.TrimPrefix(s, "Add")
		s = strings.TrimPrefix(s, "Get")
		s = strings.TrimSuffix(s, "Fns")
		s = strings.TrimSuffix(s, "Fn")
		return s
	}
	reviewed := map[string]string{
		"IsJobOverQueueCapacityFn":     "IsJobOverCapacityFns",
		"MutateBindRequestAnnotations": "BindRequestMutateFns",
	}
	n := 0
	for _, fn := range p.FuncsIn(pkgFramework) {
		if isTestdataOrMock(fn) || fn.Parent() != nil || fn.Signature.Recv() == nil {
			continue
		}
		if n2 := namedOf(fn.Signature.Recv().Type()); n2 == nil || n2.Obj().Name() != "Session" {
			continue
		}
		// the *Fns fields of the session this method touches
		fields := map[string]token.Pos{}
		for _, in := range instrsIn(fn, func(in ssa.Instruction) bool { _, ok := in.(*ssa.FieldAddr); return ok }) {
			fa := in.(*ssa.FieldAddr)
			fv := fieldOfAddr(fa)
			if fv == nil || !strings.HasSuffix(fv.Name(), "Fns") || fa.X != ssa.Value(fn.Params[0]) {
				continue
			}
			fields[fv.Name()] = instrPos(in)
		}
		if len(fields) == 0 || fn.Name() == "clear" || strings.HasPrefix(fn.Name(), "open") || strings.HasPrefix(fn.Name(), "close") {
			continue
		}
		n++
		var names []string
		for f := range fields {
			names = append(names, f)
		}
		sort.Strings(names)
		ok := len(names) == 1 && (strings.EqualFold(norm(names[0]), norm(fn.Name())) || reviewed[fn.Name()] == names[0])
		c.Check(ok, "O14", "REG", funcKey(fn)+": uses the callback list of its own extension point", fn.Pos(), strings.Join(names, ", "),
			"the session method touches the callback list(s) "+strings.Join(names, ", ")+", which is not the list its name designates: the callbacks registered for another extension point are evaluated (or a registration lands in the wrong list) — e.g. the preempt victim filter applies the reclaim min-runtime")
	}
	c.Floor("O14", "REG session methods over callback lists", n, 40)
}

// runC06ResolverQueues (O15): the min-runtime of a workload is inherited along its queue's ancestors; the resolver
// walks them in the queue map it was constructed with. That map must be the session's: a plugin field read before it
// is assigned hands the resolver a nil map — leaf-level and default values still work, every min-runtime configured on
// a department is silently ignored.
func runC06ResolverQueues(c *Ctx) {
	f := c.Anchor("O15", "pkg/scheduler/plugins/minruntime", "minruntimePlugin", "OnSessionOpen")
	if f == nil {
		return
	}
	n := 0
	for _, in := range instrsIn(f, func(in ssa.Instruction) bool {
		cc, ok := in.(ssa.CallInstruction)
		return ok && calleeOf(cc) != nil && calleeOf(cc).Name() == "NewResolver"
	}) {
		n++
		arg := in.(ssa.CallInstruction).Common().Args[0]
		t := termOf(arg)
		ok := strings.HasSuffix(t.String(), "ClusterInfo.Queues")
		why := t.String()
		if !ok {
			// a plugin field: it must have been assigned the session's queues on every path before this call
			if ld, isLd := arg.(*ssa.UnOp); isLd && ld.Op == token.MUL {
				if fa, isFA := ld.X.(*ssa.FieldAddr); isFA && fieldOfAddr(fa) != nil {
					fname := fieldOfAddr(fa).Name()
					isAssign := func(x ssa.Instruction) bool {
						st, isSt := x.(*ssa.Store)
						if !isSt {
							return false
						}
						fa2, isFA2 := st.Addr.(*ssa.FieldAddr)
						return isFA2 && fieldOfAddr(fa2) != nil && fieldOfAddr(fa2).Name() == fname && strings.HasSuffix(termOf(st.Val).String(), "ClusterInfo.Queues")
					}
					this := in
					_, _, found := reachAvoiding([]cfgPos{entryPos(f)}, func(x ssa.Instruction) bool { return x == this }, isAssign, nil)
					ok = !found
					why = "field " + fname + " assigned from ssn.ClusterInfo.Queues before the call"
				}
			}
		}
		c.Check(ok, "O15", "PROV", funcKey(f)+": the min-runtime resolver walks the session's queue map", instrPos(in), why,
			"the resolver is constructed with "+trunc(t.String(), 80)+", which is not (yet) the session's queue map: min-runtimes configured on non-leaf queues are not found, and protected workloads are evicted inside their min runtime")
	}
	c.Floor("O15", "PROV resolver constructions", n, 1)
}

// runC06AnnotationSetters (O16): the min-runtime protection reads a workload's LastStartTimestamp from the PodGroup's
// annotation, which the status updater writes. In updatePodGroupAnnotations every annotation setter (a callee that
// writes the PodGroup's annotations) runs on every path — a setter evaluated as the right operand of `&&` / `||` is
// skipped whenever the left one already decided, so a restart in the cycle in which the stale mark changes is never
// recorded and the workload looks as if its minimum runtime were long over.
func runC06AnnotationSetters(c *Ctx) {
	f := c.Anchor("O16", "pkg/scheduler/cache/status_updater", "defaultStatusUpdater", "updatePodGroupAnnotations")
	if f == nil {
		return
	}
	writesAnnotations := func(in ssa.Instruction) bool {
		switch x := in.(type) {
		case *ssa.MapUpdate:
			return termOf(x.Map).lastField() == "Annotations"
		case ssa.CallInstruction:
			if bi, ok := x.Common().Value.(*ssa.Builtin); ok && bi.Name() == "delete" {
				return termOf(x.Common().Args[0]).lastField() == "Annotations"
			}
		}
		return false
	}
	n := 0
	seen := map[*ssa.Function]bool{}
	for _, in := range instrsIn(f, func(in ssa.Instruction) bool { _, ok := in.(ssa.CallInstruction); return ok }) {
		cal := in.(ssa.CallInstruction).Common().StaticCallee()
		if cal == nil || seen[cal] || len(cal.Blocks) == 0 || !hasModPrefix(cal) || !c.P.reachesInstr(cal, writesAnnotations, 2, map[*ssa.Function]bool{}) {
			continue
		}
		seen[cal] = true
		n++
		_, path, found := reachAvoiding([]cfgPos{entryPos(f)}, isReturn, isCallToFn(cal), nil)
		c.Check(!found, "O16", "MPT", funcKey(f)+": "+cal.Name()+" runs on every path", instrPos(in), "no exit before the setter",
			"the annotation setter "+cal.Name()+" is skipped on some path ("+pathStr(path)+"), e.g. as the right operand of a short-circuit: the PodGroup's last-start-timestamp (or stale timestamp) is not recorded in that cycle, and the min-runtime protection of the next cycles works with the time of an earlier run")
	}
	c.Floor("O16", "MPT annotation setters of the status updater", n, 2)
}
