package main

import (
	"fmt"
	"go/token"
	"go/types"
	"sort"
	"strings"

	"golang.org/x/tools/go/ssa"
)

func init() {
	register("C07", runC07,
		"Decides structural necessary conditions of 'reclaim protects deserved quota and moves toward fair share': a reclaim scenario is accepted only if every victim chunk fits a reclaim strategy evaluated on the remaining share of the queue at the divergence level and the boundary walk holds; the remaining share is initialised once per queue and reduced for every ancestor; the two strategies have their defining facts; the reclaimer passes CanReclaimResources (fair share, and deserved quota for non-preemptible) before any attempt and at every ancestor; the saturation test is strict with a multiplier clamped to >= 1 (NaN excluded); simulations run on a per-attempt clone that copies every field.",
		"numeric truth of the deserved / fair-share comparisons")
}

const pkgReclaimable = "pkg/scheduler/plugins/proportion/reclaimable"
const pkgStrategies = "pkg/scheduler/plugins/proportion/reclaimable/strategies"

func runC07(c *Ctx) {
	runC07Kinds(c)
	runC07MultiplierReachesValidator(c)
	borrow(c, "O8", "C08", "O13", "usage is accumulated for the allocated statuses", "the queue shares that reclaim reasons about start from the pods that HOLD resources: counting terminating pods makes a queue at its deserved quota look over quota and lets reclaim take more from it")
	borrow(c, "O10", "C08", "O6", "scaled by 10^6", "a deserved memory quota scaled by 2^20 instead of 10^6 is 4.86% larger than configured: a non-preemptible reclaimer is admitted above its real quota and another queue's workload is evicted for it")
	borrow(c, "O9", "C12", "O2", "AllocatedStatus(Binding)", "a pod whose bind is in flight holds its resources: if Binding is not an allocated status the reclaimer's queue looks smaller than it is at session open and reclaims past its fair share")
	p, fx := c.P, c.Fx
	// ---- O1
	recl := c.Anchor("O1", pkgReclaimable, "Reclaimable", "Reclaimable")
	fromVictims := c.Anchor("O1", pkgReclaimable, "Reclaimable", "reclaimResourcesFromReclaimees")
	bounds := c.Anchor("O1", pkgReclaimable, "Reclaimable", "reclaimingQueuesRemainWithinBoundaries")
	fits := c.Anchor("O2", pkgStrategies, "", "FitsReclaimStrategy")
	if recl == nil || fromVictims == nil || bounds == nil || fits == nil {
		return
	}
	tf := fx.retFacts(recl, 0, WantTrue, 0)
	_, a := hasFact(tf, func(f Fact) bool {
		return f.Pol && f.T.Op == "extract" && f.T.Name == "0" && f.T.Args[0].isCallTo(fromVictims)
	})
	_, b := hasFact(tf, func(f Fact) bool { return f.Pol && f.T.isCallTo(bounds) })
	c.Check(a, "O1", "RET", funcKey(recl)+": true ⇒ every victim fits a strategy", recl.Pos(), "reclaimResourcesFromReclaimees succeeded", "a reclaim scenario can be accepted although the victims do not fit a reclaim strategy")
	c.Check(b, "O1", "RET", funcKey(recl)+": true ⇒ boundaries hold", recl.Pos(), "reclaimingQueuesRemainWithinBoundaries", "a reclaim scenario can be accepted although the reclaiming queues leave their boundaries")
	// the validator registered by proportion evaluates Reclaimable on the per-attempt clone
	if rf := c.Anchor("O1", pkgProportion, "proportionPlugin", "reclaimableFn"); rf != nil {
		tfr := fx.retFacts(rf, 0, WantTrue, 0)
		d, ok := hasFact(tfr, func(f Fact) bool {
			return f.Pol && f.T.isCallTo(recl) && strings.HasSuffix(f.T.Args[1].String(), ".jobSimulationQueues")
		})
		c.Check(ok, "O1", "RET", funcKey(rf)+": true ⇒ Reclaimable(jobSimulationQueues, ...)", rf.Pos(), trunc(d, 160), "the reclaim scenario validator does not evaluate Reclaimable on the per-attempt queue snapshot")
	}

	// ---- O2: victim loop
	// the function that brings reclaimer and reclaimee to the level where their queue paths diverge is found by what
	// it is used for — the only function of the package that takes two queues and returns two — not by its name
	levelFn := p.Func(pkgReclaimable, "Reclaimable", "getLeveledQueues")
	if levelFn == nil {
		for _, f := range p.FuncsIn(pkgReclaimable) {
			if isTestdataOrMock(f) || f.Parent() != nil || f.Signature.Results().Len() != 2 || len(instrsIn(fromVictims, isCallToFn(f))) == 0 {
				continue
			}
			r0, r1 := f.Signature.Results().At(0).Type(), f.Signature.Results().At(1).Type()
			if types.Identical(r0, r1) && strings.Contains(typeKey(r0), "QueueAttributes") {
				levelFn = f
			}
		}
	}
	levelName := "getLeveledQueues"
	if levelFn != nil {
		levelName = levelFn.Name()
	}
	sub := c.Anchor("O2", pkgReclaimable, "Reclaimable", "subtractReclaimedResources")
	if sub != nil {
		calls := instrsIn(fromVictims, isCallToFn(sub))
		c.Floor("O2", "DOM subtract sites", len(calls), 1)
		for _, call := range calls {
			fs := fx.FactsAt(call)
			d, ok := hasFact(fs, func(f Fact) bool { return f.Pol && f.T.isCallTo(fits) })
			c.Check(ok, "O2", "DOM", funcKey(fromVictims)+": a victim chunk is subtracted only after FitsReclaimStrategy", instrPos(call), trunc(d, 200), "victim resources are taken although no reclaim strategy allows taking them from that queue")
		}
		// the strategy is evaluated on the remaining share of the leveled reclaimee queue
		for _, call := range instrsIn(fromVictims, isCallToFn(fits)) {
			args := call.(ssa.CallInstruction).Common().Args
			t := termOf(args[3])
			ok := true
			// (the share may be fetched by a get-or-initialise helper: every term it returns is looked at)
			for _, rt := range resultTerms(args[3]) {
				if !rt.contains(func(x *Term) bool {
					return x.Op == "lookup" && strings.Contains(x.Args[1].String(), levelName) && strings.HasSuffix(x.Args[1].String(), ".UID")
				}) {
					ok = false
				}
			}
			c.Check(ok, "O2", "PROV", funcKey(fromVictims)+": strategy evaluated on the remaining share of the queue at the divergence level", instrPos(call), trunc(t.String(), 160), "FitsReclaimStrategy is not given the remaining share of the reclaimee queue at the level where it diverges from the reclaimer")
			q := termOf(args[2])
			c.Check(strings.Contains(q.String(), levelName), "O2", "PROV", funcKey(fromVictims)+": strategy evaluated against the leveled reclaimee queue", instrPos(call), trunc(q.String(), 120), "FitsReclaimStrategy is not given the reclaimee queue at the divergence level")
		}
		// remaining share: initialised once per queue (only when absent), reduced for every ancestor
		nInit := 0
		for _, root := range []*ssa.Function{fromVictims, sub} {
			for _, dh := range p.deepFind(root, func(in ssa.Instruction) bool { _, ok := in.(*ssa.MapUpdate); return ok }, 1) {
				in := dh.In
				fn := in.Parent()
				mu := in.(*ssa.MapUpdate)
				if !strings.Contains(termOf(mu.Value).String(), "GetAllocatedShare") {
					continue
				}
				nInit++
				fs := fx.FactsAt(in)
				mt := termOf(mu.Map).String()
				d, ok := hasFact(fs, func(f Fact) bool {
					return !f.Pol && f.T.Op == "extract" && f.T.Name == "1" && f.T.Args[0].Op == "lookup" && f.T.Args[0].Args[0].String() == mt
				})
				// … and from the allocation of THAT queue: the queue whose share is read is looked up under the key
				// that is being initialised
				kt := termOf(mu.Key).String()
				sameKey := termOf(mu.Value).contains(func(x *Term) bool { return x.Op == "lookup" && x.Args[1].String() == kt })
				c.Check(sameKey, "O2", "PROV", funcKey(fn)+": a queue's remaining share starts from that queue's own allocation", instrPos(in), "queues[k].GetAllocatedShare() stored under k",
					"the remaining share of one queue is initialised from the allocation of another ("+trunc(termOf(mu.Value).String(), 120)+" stored under "+trunc(kt, 60)+"): an ancestor shared with the reclaimer looks emptier than it is, and the boundary check that keeps the reclaimer's ancestors within their fair share stops rejecting")
				c.Check(ok, "O2", "DOM", funcKey(fn)+": remaining share initialised only when absent", instrPos(in), trunc(d, 160), "the remaining share of a queue is (re)initialised from its current allocation although an entry exists: resources already taken from it in this scenario are forgotten")
			}
		}
		c.Floor("O2", "DOM remaining-share initialisations", nInit, 2)
		walks := findLinkWalks(sub, queueLinkFields)
		c.Check(len(walks) == 1, "O2", "WALK", funcKey(sub)+": reduces the remaining share of every ancestor", sub.Pos(), "walks queues[q.ParentQueue]", "reclaimed resources are subtracted from the leaf queue only: ancestors at the divergence level look unreduced")
		es := extractEffects(fx, sub, func(t *Term) bool { return true }, func(Fact) string { return "" }, 0)
		okSub := false
		for _, e := range es {
			if e.Op == "-" && len(walks) == 1 && walks[0].Header.Dominates(e.Block) {
				okSub = true
			}
		}
		c.Check(okSub, "O2", "PAIR", funcKey(sub)+": Sub inside the ancestor walk", sub.Pos(), "remaining.Sub(reclaimed)", "the reclaimed amount is not subtracted from the remaining share inside the ancestor walk")
	}

	// ---- O2 (ext.): the level at which reclaimer and reclaimee are compared is the FIRST level where their queue
	// paths differ (for queues of different departments: the departments, not the leaf queues). Once the paths have
	// diverged the scan does not look at deeper levels. GHOST: the ghost bit is "the paths differed at some level";
	// with it set, the comparison of a further level must not execute.
	if levelFn == nil {
		c.Undec("O2", "ANCHOR", pkgReclaimable+": the function that levels reclaimer and reclaimee queues", 0, "not found (neither by name nor by its use in the victim loop)")
	}
	if glq := levelFn; glq != nil {
		c.Analysed(funcKey(glq))
		isUIDCmp := func(in ssa.Instruction) (*ssa.BinOp, bool) {
			bo, ok := in.(*ssa.BinOp)
			if !ok || (bo.Op != token.NEQ && bo.Op != token.EQL) {
				return nil, false
			}
			return bo, termOf(bo.X).lastField() == "UID" && termOf(bo.Y).lastField() == "UID"
		}
		spec := &ghostSpec{
			Event: func(in ssa.Instruction) (ssa.Value, bool, bool) {
				if bo, ok := isUIDCmp(in); ok {
					return bo, bo.Op == token.NEQ, true
				}
				return nil, false, false
			},
			Forbidden: func(in ssa.Instruction) bool { _, ok := isUIDCmp(in); return ok },
			ResultIdx: -1,
			MaxDepth:  3,
		}
		run := p.ghostVerdict(glq, spec)
		key := funcKey(glq) + ": the scan over the two queue paths stops at the first level where they differ"
		switch {
		case run.Undec != "":
			c.Undec("O2", "GHOST", key, glq.Pos(), run.Undec)
		case run.Events == 0:
			c.Undec("O2", "GHOST", key, glq.Pos(), "no level-by-level comparison of queue UIDs found")
		default:
			c.Check(len(run.Finds) == 0, "O2", "GHOST", key, glq.Pos(), fmt.Sprintf("%d abstract states: no deeper level is compared after the paths diverged", run.States),
				"after the reclaimer's and the reclaimee's queue paths have diverged the scan goes on to deeper levels: queues of different departments are compared leaf against leaf instead of department against department, so a department under its quota can have pods reclaimed by a department that is also under quota — and allocate hands them back in the next cycle — "+ghostWhy(p, run))
		}
	}

	// ---- O3: strategies
	if v, ok := p.Obj(pkgStrategies, "strategies").(*types.Var); ok {
		c.Check(compositeLen(p, v) == 2, "O3", "CONST", pkgStrategies+".strategies has 2 elements", v.Pos(), "MaintainFairShare, GuaranteeDeservedQuota", "the list of reclaim strategies changed (expected exactly MaintainFairShare and GuaranteeDeservedQuota)")
	} else {
		c.Undec("O3", "CONST", pkgStrategies+".strategies", 0, "not found")
	}
	// FitsReclaimStrategy is true only behind some strategy's Reclaimable == true
	for i, rp := range fx.retPaths(fits, 0, WantTrue) {
		_, ok := hasFact(rp.Facts, func(f Fact) bool { return f.Pol && f.T.isInvokeOf("Reclaimable") })
		c.Check(ok, "O3", "RET", fmt.Sprintf("%s true path#%d", funcKey(fits), i), rp.Pos, "some strategy accepted", "FitsReclaimStrategy answers true without any strategy having accepted")
	}
	leq := func(f Fact, pol bool, recvParam int, argGetter string, argParam int) bool {
		if f.Pol != pol || !isCallNamed(f.T, "LessEqual") || len(f.T.Args) != 2 {
			return false
		}
		return rootParam(f.T.Args[0]) == recvParam && isCallNamed(f.T.Args[1], argGetter) && rootParam(f.T.Args[1]) == argParam
	}
	if g := c.Anchor("O3", pkgStrategies, "GuaranteeDeservedQuotaStrategy", "Reclaimable"); g != nil {
		tfg := fx.retFacts(g, 0, WantTrue, 0)
		// "the reclaimer stays within its deserved quota": allocated(+request) ≤ deserved of the RECLAIMER queue (param 2),
		// whatever the helper that computes it is called and whichever polarity it returns
		_, a := hasFact(tfg, func(f Fact) bool {
			return f.Pol && isCallNamed(f.T, "LessEqual") && len(f.T.Args) == 2 &&
				isCallNamed(f.T.Args[1], "GetDeservedShare") && rootParam(f.T.Args[1]) == 2 &&
				isCallNamed(f.T.Args[0], "GetAllocatedShare") && rootParam(f.T.Args[0]) == 2
		})
		_, b := hasFact(tfg, func(f Fact) bool { return leq(f, false, 4, "GetDeservedShare", 3) })
		c.Check(a, "O3", "RET", funcKey(g)+": reclaimer stays within deserved quota", g.Pos(), "reclaimer allocated+request ≤ deserved", "the guarantee-deserved-quota strategy accepts although the reclaimer would exceed its deserved quota")
		c.Check(b, "O3", "RET", funcKey(g)+": reclaimee remains above deserved quota", g.Pos(), "!remaining.LessEqual(reclaimee.GetDeservedShare())", "the guarantee-deserved-quota strategy takes from a queue whose remaining share is within its deserved quota in every resource")
		// the request is added to the reclaimer's allocation before that comparison (in the strategy or its helper)
		nLE := 0
		for _, h := range p.deepFind(g, func(in ssa.Instruction) bool {
			cc, ok := in.(ssa.CallInstruction)
			if !ok || calleeOf(cc) == nil || calleeOf(cc).Name() != "LessEqual" || len(cc.Common().Args) != 2 {
				return false
			}
			return isCallNamed(termOf(cc.Common().Args[0]), "GetAllocatedShare") && isCallNamed(termOf(cc.Common().Args[1]), "GetDeservedShare")
		}, 2) {
			nLE++
			recv := h.In.(ssa.CallInstruction).Common().Args[0]
			addOK := false
			for _, ad := range instrsIn(h.In.Parent(), func(in ssa.Instruction) bool {
				cc, ok := in.(ssa.CallInstruction)
				return ok && calleeOf(cc) != nil && calleeOf(cc).Name() == "Add"
			}) {
				if ad.(ssa.CallInstruction).Common().Args[0] == recv && dominatesInstr(ad, h.In) {
					addOK = true
				}
			}
			c.Check(addOK, "O3", "MPT", funcKey(h.In.Parent())+": the request is added before comparing", instrPos(h.In), "Add(request)", "the reclaimer's request is not added to its allocation before the comparison")
		}
		c.Floor("O3", "MPT reclaimer quota comparisons", nLE, 1)
	}
	if m := c.Anchor("O3", pkgStrategies, "MaintainFairShareStrategy", "Reclaimable"); m != nil {
		tfm := fx.retFacts(m, 0, WantTrue, 0)
		_, ok := hasFact(tfm, func(f Fact) bool { return leq(f, false, 4, "GetAllocatableShare", 3) })
		c.Check(ok, "O3", "RET", funcKey(m)+": reclaimee remains above its allocatable (fair) share", m.Pos(), "!remaining.LessEqual(reclaimee.GetAllocatableShare())", "the maintain-fair-share strategy takes from a queue whose remaining share is within its fair share")
	}

	// ---- O4: CanReclaimResources and where it is enforced
	if can := c.Anchor("O4", pkgReclaimable, "Reclaimable", "CanReclaimResources"); can != nil {
		paths := fx.retPaths(can, 0, WantTrue)
		for i, rp := range paths {
			_, fair := hasFact(rp.Facts, func(f Fact) bool {
				return f.Pol && isCallNamed(f.T, "LessEqual") && isCallNamed(f.T.Args[1], "GetFairShare") && isCallNamed(f.T.Args[0], "GetAllocatedShare")
			})
			_, pre := hasFact(rp.Facts, func(f Fact) bool { return f.Pol && f.T.lastField() == "IsPreemptable" })
			_, quota := hasFact(rp.Facts, func(f Fact) bool {
				return f.Pol && isCallNamed(f.T, "LessEqual") && isCallNamed(f.T.Args[1], "GetDeservedShare") && isCallNamed(f.T.Args[0], "GetAllocatedNonPreemptible")
			})
			c.Check(fair, "O4", "RET", fmt.Sprintf("%s true path#%d: within fair share", funcKey(can), i), rp.Pos, "allocated+request ≤ fair share", "a queue may reclaim although allocated+request exceeds its fair share")
			c.Check(pre || quota, "O4", "RET", fmt.Sprintf("%s true path#%d: non-preemptible within deserved", funcKey(can), i), rp.Pos, "preemptible, or non-preemptible+request ≤ deserved", "a non-preemptible reclaimer may reclaim although its queue's non-preemptible allocation would exceed deserved quota")
		}
		c.Floor("O4", "RET accepting paths", len(paths), 2)
		// both comparisons are made after adding the request
		adds := instrsIn(can, func(in ssa.Instruction) bool {
			cc, ok := in.(ssa.CallInstruction)
			return ok && calleeOf(cc) != nil && calleeOf(cc).Name() == "Add"
		})
		for _, le := range instrsIn(can, func(in ssa.Instruction) bool {
			cc, ok := in.(ssa.CallInstruction)
			return ok && calleeOf(cc) != nil && calleeOf(cc).Name() == "LessEqual"
		}) {
			recv := le.(ssa.CallInstruction).Common().Args[0]
			okAdd := false
			for _, ad := range adds {
				if ad.(ssa.CallInstruction).Common().Args[0] == recv && dominatesInstr(ad, le) {
					okAdd = true
				}
			}
			c.Check(okAdd, "O4", "MPT", funcKey(can)+": request added before "+termOf(recv).String()+" is compared", instrPos(le), "Add(request) dominates LessEqual", "a share is compared without the reclaimer's request having been added to it")
		}
	}
	if ex := c.Anchor("O4", pkgReclaim, "reclaimAction", "Execute"); ex != nil {
		att := p.Func(pkgReclaim, "reclaimAction", "attemptToReclaimForSpecificJob")
		for _, call := range instrsIn(ex, isCallToFn(att)) {
			d, ok := hasFact(fx.FactsAt(call), func(f Fact) bool { return f.Pol && isCallNamed(f.T, "CanReclaimResources") })
			c.Check(ok, "O4", "DOM", funcKey(ex)+": reclaim attempt behind CanReclaimResources", instrPos(call), trunc(d, 160), "reclaim is attempted for a job whose queue may not reclaim (over fair share / quota)")
		}
		// the attempt refreshes the per-attempt snapshot before solving
		if att != nil {
			start := p.Func(pkgFramework, "Session", "OnJobSolutionStart")
			solve := p.Func(pkgSolvers, "JobSolver", "Solve")
			for _, sv := range instrsIn(att, isCallToFn(solve)) {
				ok, chain := p.precededBy(sv, isCallToFn(start), 0, map[*ssa.Function]bool{})
				c.Check(ok, "O4", "MPT", funcKey(att)+": OnJobSolutionStart before Solve", instrPos(sv), "snapshot refreshed for every attempt", "the per-attempt queue snapshot is not refreshed before solving: "+strings.Join(chain, " <- "))
			}
		}
	}
	if js := c.Anchor("O4", pkgProportion, "proportionPlugin", "OnJobSolutionStartFn"); js != nil {
		fld := p.fieldVars(pkgProportion, "proportionPlugin", "jobSimulationQueues")
		_, path, found := reachAvoiding([]cfgPos{entryPos(js)}, isReturn, isStoreToField(fld), nil)
		c.Check(!found, "O4", "MUSTDEF", funcKey(js)+": snapshot rebuilt on every call", js.Pos(), "jobSimulationQueues assigned on every path", "the per-attempt queue snapshot is not rebuilt on every call: a later reclaimer is validated against allocations from before an earlier committed reclaim ("+pathStr(path)+")")
		clone := p.Func(pkgResShare, "QueueAttributes", "Clone")
		c.Check(len(instrsIn(js, isCallToFn(clone))) > 0, "O4", "PROV", funcKey(js)+": snapshot holds clones", js.Pos(), "queue.Clone()", "the snapshot shares queue objects with the live state")
	}
	// boundary walk
	walks := findLinkWalks(bounds, queueLinkFields)
	c.Check(len(walks) == 1, "O4", "WALK", funcKey(bounds)+": walks the reclaimer's ancestors", bounds.Pos(), "walks queues[q.ParentQueue]", "the boundary check no longer walks the reclaimer's ancestors")
	if len(walks) == 1 {
		// inside the walk: non-preemptible test unless IsPreemptable; true only after the loop
		for _, b := range bounds.Blocks {
			ret, ok := b.Instrs[len(b.Instrs)-1].(*ssa.Return)
			if !ok {
				continue
			}
			if k, ok := ret.Results[0].(*ssa.Const); ok && k.Value.ExactString() == "true" {
				c.Check(!insideLoopBody(b), "O4", "MPT", fmt.Sprintf("%s: 'within boundaries' only after the walk (block %d)", funcKey(bounds), b.Index), instrPos(ret), "after the loop", "the boundary check accepts from inside the ancestor walk")
			}
		}
		// the tests may live in helpers called from the walk: they are searched through the functions the walk calls,
		// and the loop rule is applied to the call that leads to them (the path search enters the helper)
		var quotaLE, quotaSite ssa.Instruction
		for _, h := range p.deepFind(bounds, func(in ssa.Instruction) bool {
			cc, ok := in.(ssa.CallInstruction)
			return ok && calleeOf(cc) != nil && calleeOf(cc).Name() == "LessEqual" && strings.Contains(termOf(cc.Common().Args[1]).String(), "GetDeservedShare")
		}, 2) {
			quotaLE, quotaSite = h.In, h.In
			if len(h.Chain) > 0 {
				quotaSite = h.Chain[0]
			}
		}
		if c.Check(quotaLE != nil, "O4", "MPT", funcKey(bounds)+": non-preemptible quota test present", bounds.Pos(), "LessEqual(GetDeservedShare)", "the boundary walk no longer tests non-preemptible allocation against deserved quota") {
			ok, path := everyIterationPassesR(quotaSite, func(in ssa.Instruction) bool { return in == quotaLE }, func(from, to *ssa.BasicBlock) bool {
				return !fx.edgeEstablishes(from, to, func(f Fact) bool { return f.Pol && f.T.lastField() == "IsPreemptable" })
			}, func(r *ssa.Return) bool {
				k, isC := r.Results[0].(*ssa.Const)
				return !(isC && k.Value != nil && k.Value.ExactString() == "false") // refusing is always allowed
			})
			// iterations may also end through `return false`
			c.Check(ok, "O4", "MPT", funcKey(bounds)+": every ancestor is tested for a non-preemptible reclaimer", instrPos(quotaLE), "skipped only for a preemptible reclaimer", "an ancestor can be skipped by the non-preemptible quota test ("+pathStr(path)+")")
		}
		sat := p.Func(pkgReclaimable, "Reclaimable", "isFairShareSaturationLowerPerResource")
		c.Check(len(p.deepFind(bounds, isCallToFn(sat), 2)) > 0, "O4", "MPT", funcKey(bounds)+": saturation compared with siblings", bounds.Pos(), "present", "the boundary walk no longer compares saturation with the sibling queues")
		// what is compared is the reclaiming queue's share AFTER the reclaim: on every path of an ancestor iteration the
		// reclaimer's request is added to the share that the saturation test receives (whether that share was taken
		// from the remaining-share table or from the queue's current allocation)
		for _, in := range instrsIn(bounds, isCallToFn(sat)) {
			args := in.(ssa.CallInstruction).Common().Args
			if len(args) < 3 {
				continue
			}
			R := args[2]
			isAddOfRequest := func(x ssa.Instruction) bool {
				cc, ok := x.(ssa.CallInstruction)
				if !ok || calleeOf(cc) == nil || calleeOf(cc).Name() != "Add" || len(cc.Common().Args) != 2 {
					return false
				}
				return cc.Common().Args[0] == R && strings.Contains(termOf(cc.Common().Args[1]).String(), "RequiredResources")
			}
			var starts []cfgPos
			for _, e := range loopBodyEntries(walks[0].Header) {
				starts = append(starts, cfgPos{B: e, I: 0})
			}
			_, path, found := reachAvoiding(starts, func(x ssa.Instruction) bool { return x == in }, isAddOfRequest, nil)
			c.Check(len(starts) > 0 && !found, "O4", "MPT", funcKey(bounds)+": the reclaimer's request is added to the share whose saturation is compared", instrPos(in), "Add(requested) on every path of the ancestor iteration",
				"an ancestor's saturation can be compared with its siblings without the reclaimer's request having been added to its share ("+pathStr(path)+"): when a victim of the same ancestor already put it into the remaining-share table the ancestor looks less saturated than it will be and the boundary is not enforced")
		}
	}

	// ---- O5 (edge case): a zero fair share with something allocated is infinitely saturated, never "not saturated"
	if fr := c.Anchor("O5", pkgReclaimable, "", "fairShareSaturationRatio"); fr != nil {
		n := 0
		okAll := true
		bad := ""
		for _, b := range fr.Blocks {
			ret, isRet := b.Instrs[len(b.Instrs)-1].(*ssa.Return)
			if !isRet {
				continue
			}
			isInf := func(v ssa.Value) bool {
				t := termOf(v)
				return t.Op == "call" && strings.HasSuffix(t.Name, "math.Inf")
			}
			for _, fs := range fx.pathFactsTo(b, 4) {
				_, zeroFair := hasFact(fs, func(f Fact) bool {
					return f.Pol && f.T.Op == "bin" && f.T.Name == "==" && f.T.Args[0].paramIndex() == 1 && f.T.Args[1].String() == "const:0"
				})
				if !zeroFair {
					continue
				}
				n++
				_, nothingAllocated := hasFact(fs, func(f Fact) bool {
					if f.T.Op != "bin" || len(f.T.Args) != 2 {
						return false
					}
					a, bb := f.T.Args[0], f.T.Args[1]
					// ¬(allocated > 0) in either orientation
					if a.paramIndex() == 0 && bb.String() == "const:0" {
						return (f.T.Name == ">" && !f.Pol) || (f.T.Name == "<=" && f.Pol) || (f.T.Name == "==" && f.Pol)
					}
					if bb.paramIndex() == 0 && a.String() == "const:0" {
						return (f.T.Name == "<" && !f.Pol) || (f.T.Name == ">=" && f.Pol) || (f.T.Name == "==" && f.Pol)
					}
					return false
				})
				v := ret.Results[0]
				infReturned := isInf(v)
				if phi, isPhi := v.(*ssa.Phi); isPhi {
					infReturned = true
					for _, e := range phi.Edges {
						if !isInf(e) {
							infReturned = false
						}
					}
				}
				if !nothingAllocated && !infReturned {
					okAll = false
					bad = trunc(fs.String(), 200)
				}
			}
		}
		c.Check(okAll && n > 0, "O5", "RET", funcKey(fr)+": fair share 0 with something allocated ⇒ +Inf", fr.Pos(), fmt.Sprintf("%d zero-fair-share paths", n),
			"with a fair share of 0 the saturation ratio can be a finite number although something is allocated ("+bad+"): the 'more saturated than 1 / than the sibling' guards never fire for an ancestor without entitlement, which can then take resources from a sibling")
	}

	// ---- O5: saturation comparison and clamp
	if sat := c.Anchor("O5", pkgReclaimable, "Reclaimable", "isFairShareSaturationLowerPerResource"); sat != nil {
		paths := fx.retPaths(sat, 0, WantFalse)
		for i, rp := range paths {
			_, gt1 := hasFact(rp.Facts, func(f Fact) bool {
				return f.Pol && f.T.Op == "bin" && f.T.Name == "<" && f.T.Args[0].String() == "const:1" && isCallNamed(f.T.Args[1], "fairShareSaturationRatio")
			})
			_, sibPos := hasFact(rp.Facts, func(f Fact) bool {
				return f.Pol && f.T.Op == "bin" && f.T.Name == "<" && f.T.Args[0].String() == "const:0"
			})
			_, ge := hasFact(rp.Facts, func(f Fact) bool {
				// ratioSibling <= ratioReclaimer * multiplier   (>= normalised to <= with swapped operands)
				if !f.Pol || f.T.Op != "bin" || f.T.Name != "<=" {
					return false
				}
				r := f.T.Args[1]
				return isCallNamed(f.T.Args[0], "fairShareSaturationRatio") && r.Op == "bin" && r.Name == "*" && strings.Contains(r.String(), "saturationMultiplier")
			})
			c.Check(gt1 && sibPos && ge, "O5", "RET", fmt.Sprintf("%s refusing path#%d", funcKey(sat), i), rp.Pos, "refuses exactly when ratio>1 ∧ siblingFair>0 ∧ ratio·m ≥ siblingRatio (equality refuses)", "the saturation test no longer refuses on (reclaimer ratio > 1) ∧ (sibling fair share > 0) ∧ (reclaimer ratio × multiplier ≥ sibling ratio): an ancestor may end above fair share and at least as saturated as the sibling it took from")
		}
		c.Floor("O5", "RET refusing paths", len(paths), 1)
	}
	if nw := c.Anchor("O5", pkgProportion, "", "New"); nw != nil {
		fld := p.fieldVars(pkgProportion, "proportionPlugin", "relcaimerSaturationMultiplier")
		n := 0
		for _, in := range instrsIn(nw, isStoreToField(fld)) {
			n++
			st := in.(*ssa.Store)
			// every value that can be stored is the constant 1, or is established ≥ 1 with NaN excluded
			ok := true
			why := ""
			var check func(v ssa.Value, facts FactSet, d int)
			check = func(v ssa.Value, facts FactSet, d int) {
				if k, isC := v.(*ssa.Const); isC {
					if f := constFloat(k); f < 1 {
						ok, why = false, fmt.Sprintf("constant %v", f)
					}
					return
				}
				if phi, isPhi := v.(*ssa.Phi); isPhi && d < 4 {
					for i, e := range phi.Edges {
						ef := fx.edgeFacts(phi.Block().Preds[i], phi.Block(), 0)
						if ef.Bottom {
							continue
						}
						check(e, ef, d+1)
					}
					return
				}
				t := termOf(v).String()
				_, pos := hasFact(facts, func(f Fact) bool {
					return f.Pol && f.T.Op == "bin" && f.T.Name == "<=" && f.T.Args[0].String() == "const:1" && f.T.Args[1].String() == t
				})
				_, notLess := hasFact(facts, func(f Fact) bool {
					return !f.Pol && f.T.Op == "bin" && f.T.Name == "<" && f.T.Args[0].String() == t && f.T.Args[1].String() == "const:1"
				})
				_, notNaN := hasFact(facts, func(f Fact) bool { return !f.Pol && isCallNamed(f.T, "IsNaN") && f.T.Args[0].String() == t })
				if !(pos || (notLess && notNaN)) {
					ok = false
					why = "a parsed value reaches the field with only NOT(value < 1) established: NaN passes (every saturation comparison with NaN is false, so the boundary never refuses)"
					if !notLess {
						why = "a parsed value reaches the field without a lower bound of 1"
					}
				}
			}
			check(st.Val, fx.FactsAt(in), 0)
			c.Check(ok, "O5", "ABS", funcKey(nw)+": saturation multiplier clamped to ≥ 1 (NaN excluded)", instrPos(in), "every stored value is 1 or established ≥ 1", "the reclaimer saturation multiplier is not clamped for every input: "+why)
		}
		c.Floor("O5", "ABS multiplier stores", n, 1)
	}

	// ---- O6: clones copy every field
	for _, tn := range []string{"QueueAttributes", "ResourceShare"} {
		fn := c.Anchor("O6", pkgResShare, tn, "Clone")
		to := p.TypeObj(pkgResShare, tn)
		if fn == nil || to == nil {
			continue
		}
		refs := fieldRefs(fn, 1)
		for _, f := range structFields(to.Type()) {
			c.Check(refs[f][0], "O6", "FIELDS", fmt.Sprintf("%s copies %s", funcKey(fn), f.Name()), fn.Pos(), "field read from the receiver", "Clone does not copy field "+f.Name()+": simulations on the clone start from a zero/stale value")
		}
	}
}

func constFloat(k *ssa.Const) float64 {
	if k.Value == nil {
		return 0
	}
	f, _ := constantFloat(k)
	return f
}

// C07-O7 (SIBLING): resource kinds agree. The proportion plugin speaks about resources through three parallel
// vocabularies — the ResourceName constants (CPU / Memory / GPU), the accessors of resource_info.Resource (Cpu(),
// Memory(), GPUs()) and the per-resource fields of the share structs. Wherever one statement ties a ResourceName
// constant to an accessor or field (a map entry whose key is the constant, guarded by or computed from an accessor; a
// switch arm on the constant that returns a field) the two are of the same kind. A slip (Memory() > 0 recorded as
// CPU) removes a resource from the saturation comparison or charges it to the wrong quota.
func runC07Kinds(c *Ctx) {
	p, fx := c.P, c.Fx
	kindOf := func(name string) string {
		n := strings.ToLower(name)
		switch {
		case strings.Contains(n, "cpu"):
			return "cpu"
		case strings.Contains(n, "mem"):
			return "memory"
		case strings.Contains(n, "gpu"):
			return "gpu"
		}
		return ""
	}
	isResName := func(t types.Type) bool { return strings.HasSuffix(typeKey(t), "resource_share.ResourceName") }
	constKind := func(v ssa.Value) string {
		k, ok := v.(*ssa.Const)
		if !ok || k.Value == nil || !isResName(k.Type()) {
			return ""
		}
		return kindOf(k.Value.ExactString())
	}
	// kinds mentioned by accessor calls / field selections in a term
	termKinds := func(t *Term) map[string]string {
		out := map[string]string{}
		t.contains(func(x *Term) bool {
			switch x.Op {
			case "call":
				if x.Fn != nil && (strings.HasSuffix(funcPkgPath(x.Fn), "/resource_info") || strings.HasSuffix(funcPkgPath(x.Fn), "/resource_share")) {
					if k := kindOf(x.Fn.Name()); k != "" && len(x.Fn.Name()) <= 8 {
						out[k] = x.Fn.Name() + "()"
					}
				}
			case "field":
				if k := kindOf(x.Name); k != "" && len(x.Name) <= 6 {
					out[k] = "." + x.Name
				}
			}
			return false
		})
		return out
	}
	n := 0
	for _, fn := range p.FuncsIn("pkg/scheduler/plugins/proportion") {
		if isTestdataOrMock(fn) {
			continue
		}
		for _, b := range fn.Blocks {
			for _, in := range b.Instrs {
				var key string
				var val *Term
				switch x := in.(type) {
				case *ssa.Call:
					// f(ResourceName constant, values…): the values are of the constant's kind
					// (SetQuotaResources(rs.MemoryResource, memory quota, memory limit, memory weight))
					for _, a := range x.Call.Args {
						if k := constKind(a); k != "" {
							key = k
						}
					}
					if key == "" {
						continue
					}
					val = mk("tuple", "")
					for _, a := range x.Call.Args {
						if constKind(a) == "" {
							val.Args = append(val.Args, termOf(a))
						}
					}
				case *ssa.MapUpdate:
					key = constKind(x.Key)
					val = termOf(x.Value)
				case *ssa.Return:
					if len(x.Results) != 1 {
						continue
					}
					val = termOf(x.Results[0])
				default:
					continue
				}
				kinds := termKinds(val)
				_, isCallInstr := in.(*ssa.Call)
				for _, f := range fx.FactsAt(in).sorted() {
					if isCallInstr {
						break
					}
					if f.T.Op == "bin" && len(f.T.Args) == 2 {
						// guard "x == CONST" on a ResourceName selects the arm; guard on an accessor names a kind
						for ai, a := range f.T.Args {
							if a.Op == "const" && a.V != nil && isResName(a.V.Type()) && f.Pol && f.T.Name == "==" && key == "" {
								key = kindOf(a.String())
							}
							_ = ai
						}
						if f.Pol {
							for k, w := range termKinds(f.T) {
								kinds[k] = w
							}
						}
					}
				}
				if key == "" || len(kinds) == 0 {
					continue
				}
				n++
				var bad []string
				for k, w := range kinds {
					if k != key {
						bad = append(bad, w)
					}
				}
				sort.Strings(bad)
				c.Check(len(bad) == 0, "O7", "SIBLING", fmt.Sprintf("%s: the %s entry is tied to %s values only", funcKey(fn), key, key), instrPos(in), "kinds agree",
					fmt.Sprintf("the %s resource name is tied to %s: that resource is recorded, compared or charged under the wrong name (e.g. memory never enters the set of resources whose saturation is compared)", key, strings.Join(bad, ", ")))
			}
		}
	}
	c.Floor("O7", "SIBLING resource-kind ties", n, 3)
}

// runC07MultiplierReachesValidator (O11): the saturation multiplier that New clamps to ≥ 1 (O5) is the value the reclaim
// validator runs with: the argument of reclaimable.New in OnSessionOpen is that field, not a neighbouring float of the
// plugin (kValue has the same type and the same default).
func runC07MultiplierReachesValidator(c *Ctx) {
	p := c.P
	f := c.Anchor("O11", pkgProportion, "proportionPlugin", "OnSessionOpen")
	ctor := p.Func(pkgProportion+"/reclaimable", "", "New")
	if f == nil || ctor == nil {
		return
	}
	fld := p.fieldVars(pkgProportion, "proportionPlugin", "relcaimerSaturationMultiplier")
	n := 0
	for _, h := range p.deepFind(f, isCallToFn(ctor), 1) {
		n++
		args := h.In.(ssa.CallInstruction).Common().Args
		ok := false
		if len(args) == 1 {
			if u, isU := args[0].(*ssa.UnOp); isU {
				if fa, isFA := u.X.(*ssa.FieldAddr); isFA && fld[fieldOfAddr(fa)] {
					ok = true
				}
			}
		}
		c.Check(ok, "O11", "PROV", funcKey(h.In.Parent())+": the reclaim validator is built with the plugin's saturation multiplier", instrPos(h.In), "reclaimable.New(pp.relcaimerSaturationMultiplier)",
			"the reclaim validator is built with another value than the clamped saturation multiplier ("+trunc(termOf(args[0]).String(), 60)+"): the configured boundary never reaches the saturation test, a reclaimer's ancestor can end above its fair share and at least as saturated as the sibling it took from")
	}
	c.Floor("O11", "PROV constructions of the reclaim validator", n, 1)
}
