package main

import (
	"fmt"
	"go/ast"
	"go/constant"
	"go/token"
	"go/types"
	"strings"

	"golang.org/x/tools/go/ssa"
)

func init() {
	register("C08", runC08,
		"Decides structural necessary conditions of 'queue limits and non-preemptible-within-quota hold at every level': the capacity gate dominates job allocation, the preempt attempt and every node predicate; every gate runs both checks; each check walks the whole parent chain and all three resources and answers 'over' exactly when limit < allocated+request (quota < non-preemptible+request); the plugin handlers keep Allocated / AllocatedNotPreemptible current for every ancestor; limits and quotas are scaled with the API's unit.",
		"the running sums over a cycle (numeric), fractional-GPU rounding")
}

const pkgCapPolicy = "pkg/scheduler/plugins/proportion/capacity_policy"

var queueLinkFields = map[string]bool{"ParentQueue": true}

func runC08(c *Ctx) {
	runC08AllNodes(c)
	runC08AmountsThroughFixedPoint(c)
	runC08PerNodeShareRecomputed(c)
	borrow(c, "O7", "C13", "O5", "Commit does not call Discard", "undoing already committed allocations fires the deallocate handlers: the queue and its ancestors are under-counted while the pods get bound")
	borrow(c, "O9", "C13", "O8", "plugin handlers fire after the job and node were updated", "the queue counters are charged with the task's accepted resources, which the node update computes")
	borrow(c, "O11", "C07", "O7", "entry is tied to", "the limit and quota enforced for a resource are the ones configured for that resource")
	borrow(c, "O12", "C01", "O9", "getPodResourceRequest", "the limit and quota checks and every queue's usage are computed from the pod request: it must be what Kubernetes reserves for the pod (max(containers, init) + overhead)")
	borrow(c, "O16", "C01", "O11", "no BindRequest reported only when there is none or it failed for good", "a pod whose bind request is hidden from the snapshot (e.g. because it already succeeded while the pod update has not arrived) is a Pending pod on no node: its resources vanish from the running sums of its queue and all ancestors and the limit / quota guards admit other workloads above them")
	borrow(c, "O8", "C03", "O5", "only active-allocated pods are eviction candidates", "evicting a pod that is already releasing subtracts resources from the queue that were never added")

	p, fx := c.P, c.Fx
	// ---- O10: the scheduler's snapshot decides 'non-preemptible' from the pod group's own spec.preemptibility
	// (falling back to the priority only when the spec leaves it open): the non-preemptible quota check and the
	// AllocatedNotPreemptible counters are keyed on that verdict
	if sp := c.Anchor("O10", "pkg/scheduler/cache/cluster_info", "ClusterInfo", "setPodGroupPriorityAndPreemptibility"); sp != nil {
		calc := 0
		for _, h := range p.deepFind(sp, func(in ssa.Instruction) bool {
			cc, ok := in.(ssa.CallInstruction)
			return ok && calleeOf(cc) != nil && calleeOf(cc).Name() == "CalculatePreemptibility"
		}, 2) {
			calc++
			args := h.In.(ssa.CallInstruction).Common().Args
			t0 := liftTerm(termOf(args[0]), h.Chain)
			okA := len(args) == 2 && strings.HasSuffix(t0.String(), ".Spec.Preemptibility")
			c.Check(okA, "O10", "PROV", funcKey(sp)+": preemptibility = CalculatePreemptibility(podGroup.Spec.Preemptibility, priority)", instrPos(h.In), trunc(t0.String(), 100),
				"the snapshot does not derive preemptibility from the pod group's spec.preemptibility ("+trunc(t0.String(), 100)+"): a pod group declared non-preemptible with a priority below the threshold is scheduled as preemptible — neither checked against nor counted in its queues' non-preemptible quota")
			// and the result is what the session's PodGroupInfo carries
			stored := false
			if v, isV := h.In.(ssa.Value); isV {
				for _, r := range *v.Referrers() {
					if st, isSt := r.(*ssa.Store); isSt && termOf(st.Addr).lastField() == "Preemptibility" {
						stored = true
					}
				}
			}
			c.Check(stored || len(h.Chain) > 0, "O10", "PROV", funcKey(sp)+": the computed preemptibility is stored in the PodGroupInfo", instrPos(h.In), "podGroupInfo.Preemptibility = …", "the computed preemptibility is not stored in the session's pod group")
		}
		c.Floor("O10", "PROV preemptibility computations", calc, 1)
	}
	// ---- O13: the running sum starts from EVERY allocated pod. At session open the queues' Allocated /
	// AllocatedNotPreemptible are accumulated from the pods that hold resources: inside the loops over the allocated
	// tasks nothing skips a task (not its node's condition, not its age): a pod that keeps running on a cordoned or
	// NotReady node still consumes its queue's limit and quota.
	if up := c.Anchor("O13", pkgProportion, "proportionPlugin", "updateQueuesCurrentResourceUsage"); up != nil {
		// the accumulation step, found by what it does: a call into a function that writes ResourceShare.Allocated
		// (itself or in a closure it creates), or that write itself when the step is written out in the loop
		allocWriters := map[*ssa.Function]bool{}
		for f := range p.writersOf(p.fieldVars(pkgResShare, "ResourceShare", "Allocated")) {
			allocWriters[f] = true
			allocWriters[rootFunc(f)] = true
		}
		isAllocStore := func(in ssa.Instruction) bool {
			st, ok := in.(*ssa.Store)
			if !ok {
				return false
			}
			fa, isFA := st.Addr.(*ssa.FieldAddr)
			return isFA && fieldOfAddr(fa).Name() == "Allocated" && strings.HasSuffix(typeKey(fa.X.Type()), "resource_share.ResourceShare")
		}
		reachesAllocStore := p.performs(isAllocStore, 3)
		n := 0
		for _, h := range p.deepFind(up, func(in ssa.Instruction) bool {
			if in.Parent() != up {
				return false // the step is judged where the status test is: in the session-open function itself
			}
			if cc, ok := in.(ssa.CallInstruction); ok {
				cal := cc.Common().StaticCallee()
				return cal != nil && cal != up && (allocWriters[cal] || reachesAllocStore(in))
			}
			if st, ok := in.(*ssa.Store); ok && in.Parent() == up {
				fa, isFA := st.Addr.(*ssa.FieldAddr)
				return isFA && fieldOfAddr(fa).Name() == "Allocated" && strings.HasSuffix(typeKey(fa.X.Type()), "resource_share.ResourceShare")
			}
			return false
		}, 2) {
			in := h.In
			if loopHeaderOf(in.Block()) == nil {
				continue
			}
			n++
			ok, path := everyIterationPasses(in, func(x ssa.Instruction) bool { return x == in }, nil)
			c.Check(ok, "O13", "MPT", funcKey(in.Parent())+": every allocated task is added to its queues' usage", instrPos(in), "no iteration of the task loop skips the accumulation",
				"an allocated pod can be left out of its queue's (and every ancestor's) Allocated / AllocatedNotPreemptible at session open ("+pathStr(path)+"): the limit and non-preemptible-quota checks then admit more than configured")
			d, okStatus := hasFact(fx.FactsAt(in), func(f Fact) bool { return f.Pol && isCallNamed(f.T, "AllocatedStatus") })
			c.Check(okStatus, "O13", "DOM", funcKey(in.Parent())+": usage is accumulated for the allocated statuses", instrPos(in), trunc(d, 100), "the accumulation of queue usage is not keyed on pod_status.AllocatedStatus")
		}
		c.Floor("O13", "MPT usage accumulations", n, 1)
	}
	isSchedFact := func(callName string) func(f Fact) bool {
		return func(f Fact) bool {
			return f.Pol && f.T.Op == "field" && f.T.Name == "IsSchedulable" && isCallNamed(f.T.Args[0], callName)
		}
	}
	dynSchedFact := func(f Fact) bool {
		return f.Pol && f.T.Op == "field" && f.T.Name == "IsSchedulable" && f.T.Args[0].Op == "call"
	}
	// ---- O1: the gates
	if aj := c.Anchor("O1", pkgActCommon, "", "AllocateJob"); aj != nil {
		placing := p.performs(isCallToFn(p.Func(pkgFramework, "Statement", "Allocate"), p.Func(pkgFramework, "Statement", "Pipeline")), 8)
		n := 0
		for _, in := range instrsIn(aj, placing) {
			n++
			d, ok := hasFact(fx.FactsAt(in), isSchedFact("IsJobOverQueueCapacityFn"))
			c.Check(ok, "O1", "DOM", funcKey(aj)+": allocation behind the queue capacity gate", instrPos(in), d, "AllocateJob places tasks without IsJobOverQueueCapacityFn(job, tasks).IsSchedulable having held")
		}
		c.Floor("O1", "DOM placements in AllocateJob", n, 1)
	}
	if pa := c.Anchor("O1", pkgPreempt, "", "attemptToPreemptForPreemptor"); pa != nil {
		solve := p.Func(pkgSolvers, "JobSolver", "Solve")
		for _, in := range instrsIn(pa, isCallToFn(solve)) {
			d, ok := hasFact(fx.FactsAt(in), isSchedFact("IsNonPreemptibleJobOverQueueQuotaFn"))
			c.Check(ok, "O1", "DOM", funcKey(pa)+": preempt behind the non-preemptible quota gate", instrPos(in), d, "preempt looks for victims for a non-preemptible job without checking that it keeps its queue within deserved quota")
		}
	}
	if ev := c.Anchor("O1", "pkg/scheduler/plugins/predicates", "predicatesPlugin", "evaluateTaskOnPredicates"); ev != nil {
		nf := fx.retFacts(ev, 0, WantNil, 0)
		d, ok := hasFact(nf, dynSchedFact)
		c.Check(ok, "O1", "RET", funcKey(ev)+": node accepted only behind the per-node capacity gate", ev.Pos(), d, "the node predicate accepts a node without the per-task queue capacity gate (IsTaskAllocationOnNodeOverCapacity) being schedulable")
		// and the gate passed in is the session's
		for _, cs := range p.CallSites(ev) {
			if isTestdataOrMock(cs.Parent()) {
				continue
			}
			t := termOf(cs.Common().Args[5])
			c.Check(strings.Contains(t.String(), "IsTaskAllocationOnNodeOverCapacityFn"), "O1", "PROV", funcKey(cs.Parent())+": passes ssn.IsTaskAllocationOnNodeOverCapacityFn", instrPos(cs), trunc(t.String(), 120), "the predicates plugin does not pass the session's capacity gate to the node predicate")
		}
	}
	// session dispatchers return the plugin's verdict
	for _, nm := range []string{"IsJobOverQueueCapacityFn", "IsNonPreemptibleJobOverQueueQuotaFn", "IsTaskAllocationOnNodeOverCapacityFn"} {
		fn := c.Anchor("O1", pkgFramework, "Session", nm)
		if fn == nil {
			continue
		}
		// inside the loop over registered functions the result of the call is returned unchanged
		ok := false
		for _, b := range fn.Blocks {
			if ret, isRet := b.Instrs[len(b.Instrs)-1].(*ssa.Return); isRet {
				if call, isCall := ret.Results[0].(*ssa.Call); isCall && call.Common().StaticCallee() == nil && !call.Common().IsInvoke() {
					ok = true
				}
			}
		}
		c.Check(ok, "O1", "PROV", funcKey(fn)+": returns the registered plugin's verdict", fn.Pos(), "result of the registered function", "the session no longer returns the capacity verdict of the registered plugin function")
	}
	// the plugin registers its three gates
	if open := c.Anchor("O1", pkgProportion, "proportionPlugin", "OnSessionOpen"); open != nil {
		for reg, want := range map[string]string{"AddIsJobOverCapacityFn": "IsJobOverQueueCapacity", "AddIsNonPreemptibleJobOverQueueQuotaFns": "IsNonPreemptibleJobOverQuota", "AddIsTaskAllocationOnNodeOverCapacityFn": "IsTaskAllocationOnNodeOverCapacity"} {
			got := ""
			for _, in := range instrsIn(open, isCallToFn(p.Func(pkgFramework, "Session", reg))) {
				if h := p.resolveFuncValue(in.(ssa.CallInstruction).Common().Args[1]); h != nil {
					got = h.Name()
				}
			}
			c.Check(got == want, "O1", "REG", funcKey(open)+": "+reg, open.Pos(), got, fmt.Sprintf("proportion registers %q at %s (expected %s)", got, reg, want))
		}
	}

	// ---- O2: which checks each gate runs; the combinator
	wantChecks := map[string][]string{
		"IsJobOverQueueCapacity":             {"resultsOverLimit", "resultsWithNonPreemptibleOverQuota"},
		"IsTaskAllocationOnNodeOverCapacity": {"resultsOverLimit", "resultsWithNonPreemptibleOverQuota"},
		"IsNonPreemptibleJobOverQuota":       {"resultsWithNonPreemptibleOverQuota"},
	}
	var combinator *ssa.Function
	for gate, want := range wantChecks {
		fn := c.Anchor("O2", pkgCapPolicy, "CapacityPolicy", gate)
		if fn == nil {
			continue
		}
		got := map[string]bool{}
		for _, b := range fn.Blocks {
			for _, in := range b.Instrs {
				if st, ok := in.(*ssa.Store); ok {
					if _, isIdx := st.Addr.(*ssa.IndexAddr); isIdx {
						if h := p.resolveFuncValue(st.Val); h != nil {
							got[h.Name()] = true
						}
					}
				}
				if cc, ok := in.(ssa.CallInstruction); ok {
					// the combinator: the function of the package that is handed the list of checks (method or plain function)
					if cal := calleeOf(cc); cal != nil && relPkg(funcPkgPath(cal)) == pkgCapPolicy && cal.Signature.Results().Len() == 1 {
						for _, a := range cc.Common().Args {
							if sl, isSl := a.Type().Underlying().(*types.Slice); isSl {
								if _, isFn := sl.Elem().Underlying().(*types.Signature); isFn {
									combinator = cal
								}
							}
						}
					}
				}
			}
		}
		for _, w := range want {
			c.Check(got[w], "O2", "REG", funcKey(fn)+" runs "+w, fn.Pos(), "in the check list", "the capacity gate "+gate+" no longer runs "+w)
		}
	}
	if combinator != nil {
		c.Analysed(funcKey(combinator))
		// a non-schedulable check result is returned (leaves the loop through a return), Schedulable() only after the loop
		n := 0
		for _, b := range combinator.Blocks {
			for _, s := range b.Succs {
				if fx.edgeEstablishes(b, s, func(f Fact) bool { return !f.Pol && f.T.Op == "field" && f.T.Name == "IsSchedulable" }) {
					n++
					h := loopHeaderOf(b)
					bad := h == nil
					if h != nil {
						_, _, found := reachAvoiding([]cfgPos{{B: s, I: 0}}, func(x ssa.Instruction) bool { return x == h.Instrs[0] }, isReturn, nil)
						bad = found
					}
					c.Check(!bad, "O2", "MPT", funcKey(combinator)+": first failing check decides", b.Instrs[len(b.Instrs)-1].Pos(), "a non-schedulable result is returned", "a failing capacity check does not stop the gate (later checks can overwrite it)")
				}
			}
		}
		c.Floor("O2", "MPT failing-check edges", n, 1)
	} else {
		c.Undec("O2", "ANCHOR", "capacity check combinator", 0, "not found")
	}

	// ---- O3/O4: each check walks the whole chain × all resources; the comparison
	type chk struct {
		walker, cmp, limitField, usedField string
		what                               string
	}
	for _, ck := range []chk{
		{"resultsOverLimit", "isOverLimit", "MaxAllowed", "Allocated", "limit"},
		{"resultsWithNonPreemptibleOverQuota", "isAllocatedNonPreemptibleOverQuota", "Deserved", "AllocatedNotPreemptible", "deserved quota (non-preemptible)"},
	} {
		w := c.Anchor("O3", pkgCapPolicy, "CapacityPolicy", ck.walker)
		cmp := c.Anchor("O4", pkgCapPolicy, "", ck.cmp)
		if w == nil || cmp == nil {
			continue
		}
		walks := findLinkWalks(w, queueLinkFields)
		wOuter := w
		if len(walks) == 0 {
			// the walk was extracted into a helper of the check ("first queue over quota"): the helper is analysed in
			// its place, and its answers inside the walk must be the 'over' ones
			for _, in := range instrsIn(w, func(in ssa.Instruction) bool {
				cc, ok := in.(ssa.CallInstruction)
				return ok && calleeOf(cc) != nil && hasModPrefix(calleeOf(cc)) && len(calleeOf(cc).Blocks) > 0
			}) {
				cal := calleeOf(in.(ssa.CallInstruction))
				if ws := findLinkWalks(cal, queueLinkFields); len(ws) == 1 && len(instrsIn(cal, isCallToFn(cmp))) > 0 {
					w, walks = cal, ws
					c.Analysed(funcKey(cal))
					for _, b := range cal.Blocks {
						ret, isRet := b.Instrs[len(b.Instrs)-1].(*ssa.Return)
						if !isRet || !insideLoopBody(b) {
							continue
						}
						_, over := hasFact(fx.FactsAt(ret), func(f Fact) bool {
							return f.Pol && f.T.contains(func(x *Term) bool { return x.isCallTo(cmp) })
						})
						c.Check(over, "O3", "MPT", fmt.Sprintf("%s: the walk is left early only for a queue that is over (block %d)", funcKey(cal), b.Index), instrPos(ret), "behind "+cmp.Name()+"() == true",
							"the extracted ancestor walk of the "+ck.what+" check returns from inside the loop without having found a queue that is over: the remaining ancestors are not checked")
					}
					break
				}
			}
		}
		c.Check(len(walks) == 1, "O3", "WALK", funcKey(wOuter)+": walks the parent chain", w.Pos(), "loop re-bound through queues[q.ParentQueue]", "the "+ck.what+" check no longer walks the queue's ancestors: limits of parent queues are not enforced")
		if len(walks) == 1 {
			wk := walks[0]
			// every iteration evaluates the comparison; "over" leaves through a return; schedulable only after the loop
			calls := instrsIn(w, isCallToFn(cmp))
			okIter := len(calls) > 0
			if okIter {
				ok, _ := everyIterationPasses(calls[0], isCallToFn(cmp), nil)
				okIter = ok && loopHeaderOf(calls[0].Block()) == wk.Header
			}
			c.Check(okIter, "O3", "MPT", funcKey(w)+": every ancestor is compared", w.Pos(), "comparison in every iteration", "an ancestor can be skipped by the "+ck.what+" check")
			for _, b := range w.Blocks {
				ret, ok := b.Instrs[len(b.Instrs)-1].(*ssa.Return)
				if !ok {
					continue
				}
				call, ok := ret.Results[0].(*ssa.Call)
				if !ok || call.Common().StaticCallee() == nil || call.Common().StaticCallee().Name() != "Schedulable" {
					continue
				}
				// a Schedulable() return inside the walk loop is allowed only when it does not depend on the queue (e.g. preemptible job before the loop)
				inLoop := insideLoopBody(b)
				c.Check(!inLoop, "O3", "MPT", fmt.Sprintf("%s: schedulable only outside the walk (block %d)", funcKey(w), b.Index), instrPos(ret), "after the loop / before it", "the "+ck.what+" check answers schedulable from inside the ancestor walk (remaining ancestors unchecked)")
			}
		}
		// comparison function: all resources, exact inequality
		c.Check(hasRangeOverGlobal(cmp, "AllResources"), "O3", "MPT", funcKey(cmp)+": iterates rs.AllResources", cmp.Pos(), "ranges over AllResources", "the "+ck.what+" comparison does not iterate all resources")
		// the comparison may live in a per-resource predicate (a helper or a closure handed to slices.IndexFunc):
		// the exactness and skip rules are evaluated where it lives
		cmpFn := cmp
		var cmpInstr ssa.Instruction
		for _, h := range p.deepFind(cmp, func(in ssa.Instruction) bool {
			bo, ok := in.(*ssa.BinOp)
			return ok && bo.Op == token.LSS && termOf(bo.X).lastField() == ck.limitField
		}, 3) {
			cmpInstr = h.In
			cmpFn = h.In.Parent()
		}
		paths := fx.retPaths(cmpFn, 0, WantTrue)
		for i, rp := range paths {
			d, ok := hasFact(rp.Facts, func(f Fact) bool {
				if f.T.Op != "bin" || f.T.Name != "<" || !f.Pol {
					return false
				}
				l, r := f.T.Args[0], f.T.Args[1]
				if l.lastField() != ck.limitField || r.Op != "bin" || r.Name != "+" {
					return false
				}
				return (r.Args[0].lastField() == ck.usedField && r.Args[1].Op != "field") || (r.Args[1].lastField() == ck.usedField && r.Args[0].Op != "field")
			})
			c.Check(ok, "O4", "RET", fmt.Sprintf("%s: over ⇔ %s < %s + request (path#%d)", funcKey(cmp), ck.limitField, ck.usedField, i), rp.Pos, d, fmt.Sprintf("the %s comparison answers 'over' without the exact test %s < %s + request (equality must be admitted, any excess refused)", ck.what, ck.limitField, ck.usedField))
		}
		c.Floor("O4", "RET over paths of "+ck.cmp, len(paths), 1)
		// a resource is left uncompared only when its limit is the "unlimited" constant or nothing of it is requested
		if c.Check(cmpInstr != nil, "O4", "MPT", funcKey(cmp)+": the limit comparison exists", cmp.Pos(), ck.limitField+" < "+ck.usedField+" + request", "the comparison "+ck.limitField+" < "+ck.usedField+" + request was not found") {
			passes := everyIterationPasses
			if loopHeaderOf(cmpInstr.Block()) == nil {
				// a per-resource predicate: every path through it reaches the comparison unless excused
				passes = func(must ssa.Instruction, pass func(ssa.Instruction) bool, edgeOK func(from, to *ssa.BasicBlock) bool) (bool, []int) {
					_, path, found := reachAvoiding([]cfgPos{entryPos(must.Parent())}, isReturn, pass, edgeOK)
					return !found, path
				}
			}
			ok, path := passes(cmpInstr, func(x ssa.Instruction) bool { return x == cmpInstr }, func(from, to *ssa.BasicBlock) bool {
				excusing := func(f Fact) bool {
					// the resource is absent from the request
					if !f.Pol && f.T.Op == "extract" && f.T.Name == "1" && f.T.Args[0].Op == "lookup" {
						return true
					}
					if f.T.Op != "bin" || len(f.T.Args) != 2 {
						return false
					}
					a, b := f.T.Args[0], f.T.Args[1]
					eq := (f.Pol && f.T.Name == "==") || (!f.Pol && f.T.Name == "!=")
					// limit == Unlimited (−1)
					if eq && a.lastField() == ck.limitField && b.Op == "const" && strings.HasPrefix(b.Name, "-1") {
						return true
					}
					// nothing requested: request == 0
					if eq && b.String() == "const:0" && a.Op == "extract" && a.Args[0].Op == "lookup" {
						return true
					}
					return false
				}
				excused := fx.edgeEstablishes(from, to, excusing) || fx.edgeEstablishesAll(from, to, func(s FactSet) bool {
					_, ok := hasFact(s, excusing)
					return ok
				})
				return !excused
			})
			c.Check(ok, "O4", "MPT", funcKey(cmp)+": a resource is skipped only if its "+ck.what+" is unlimited or nothing of it is requested", instrPos(cmpInstr), "every other iteration reaches the comparison", "a resource can be left uncompared for another reason ("+pathStr(path)+") — e.g. a "+ck.what+" of 0 treated as 'none': workloads are admitted past a configured "+ck.what+" of zero")
		}
		// the "not over" answer is only given after the resource loop (an in-loop false return would skip resources)
		for _, b := range cmp.Blocks {
			ret, ok := b.Instrs[len(b.Instrs)-1].(*ssa.Return)
			if !ok {
				continue
			}
			if k, ok := ret.Results[0].(*ssa.Const); ok && k.Value != nil && k.Value.ExactString() == "false" {
				c.Check(!insideLoopBody(b), "O4", "MPT", fmt.Sprintf("%s: 'not over' only after all resources (block %d)", funcKey(cmp), b.Index), instrPos(ret), "after the loop", "the comparison answers 'not over' before all resources were compared")
			}
		}
	}
	// AllResources = {gpu, cpu, memory}
	if obj, ok := p.Obj(pkgResShare, "AllResources").(*types.Var); ok {
		n := compositeLen(p, obj)
		c.Check(n == 3, "O3", "CONST", pkgResShare+".AllResources has 3 elements", obj.Pos(), "gpu, cpu, memory", fmt.Sprintf("rs.AllResources has %d elements (expected GPU, CPU, memory): a resource dimension is not subject to limits/quotas", n))
	} else {
		c.Undec("O3", "CONST", pkgResShare+".AllResources", 0, "not found")
	}

	// ---- O5: handlers keep both counters for every ancestor
	for _, nm := range []string{"allocateHandlerFn", "deallocateHandlerFn"} {
		h := returnedClosure(p.Func(pkgProportion, "proportionPlugin", nm))
		if h == nil {
			c.Undec("O5", "ANCHOR", nm, 0, "handler closure not found")
			continue
		}
		c.Analysed(funcKey(h))
		// the ancestor walk: a loop in the handler, or a walking helper that calls back into the handler's closure
		bodies := p.walkBodies(h, queueLinkFields)
		body, lab := h, armLabeler(preemptArm)
		if len(bodies) == 0 {
			// the whole walk was moved into a function the handler calls: it is analysed there, with its parameters
			// read as the handler's actual arguments (the preemptibility flag in particular)
			for _, in := range instrsIn(h, func(in ssa.Instruction) bool { _, ok := in.(ssa.CallInstruction); return ok }) {
				cs := in.(ssa.CallInstruction)
				g := cs.Common().StaticCallee()
				if g == nil || len(g.Blocks) == 0 || !strings.HasSuffix(funcPkgPath(g), pkgProportion) {
					continue
				}
				if wb := p.walkBodies(g, queueLinkFields); len(wb) == 1 && wb[0].MC == nil {
					bodies, body = wb, g
					actuals := callActuals(cs)
					lab = func(f Fact) string { return preemptArm(Fact{f.T.subst(actuals), f.Pol}) }
					break
				}
			}
		}
		c.Check(len(bodies) == 1, "O5", "WALK", funcKey(h)+": updates every ancestor", h.Pos(), "walks queues[q.ParentQueue]", "the handler updates the leaf queue only: ancestors' allocations drift, their limits are not enforced")
		if len(bodies) == 1 && bodies[0].MC != nil {
			wb := bodies[0]
			body = wb.Fn
			lab = func(f Fact) string { return preemptArm(Fact{substFree(f.T, wb.Fn, wb.MC), f.Pol}) }
		}
		es := extractEffects(fx, body, fieldNamed("Allocated", "AllocatedNotPreemptible"), lab, 0)
		sign := "+"
		if nm == "deallocateHandlerFn" {
			sign = "-"
		}
		c.Check(hasEffect(es, "", ".Allocated", sign), "O5", "PAIR", funcKey(h)+": Allocated "+sign+" unconditionally", h.Pos(), "present", "the handler does not update Allocated for every task")
		c.Check(hasEffect(es, "!IsPreemptibleJob", ".AllocatedNotPreemptible", sign) && !hasEffect(es, "", ".AllocatedNotPreemptible", sign) && !hasEffect(es, "IsPreemptibleJob", ".AllocatedNotPreemptible", sign),
			"O5", "PAIR", funcKey(h)+": AllocatedNotPreemptible "+sign+" iff !IsPreemptibleJob", h.Pos(), "guarded by !IsPreemptibleJob()", "AllocatedNotPreemptible is not updated exactly for non-preemptible jobs")
		if len(bodies) == 1 && bodies[0].MC == nil {
			for _, e := range es {
				c.Check(bodies[0].Walk.Header.Dominates(e.Block), "O5", "MPT", funcKey(h)+": "+e.Target+" updated inside the ancestor walk", e.Pos, "inside the walk", "a queue counter is updated outside the ancestor walk")
			}
		}
		allRes := hasRangeOverGlobal(body, "AllResources")
		if !allRes && len(bodies) == 1 && bodies[0].Call != nil {
			// the walking helper iterates the resources and calls back once per (queue, resource)
			allRes = hasRangeOverGlobal(bodies[0].Call.Parent(), "AllResources") && loopHeaderOf(bodies[0].Call.Block()) != nil
		}
		c.Check(allRes, "O5", "MPT", funcKey(h)+": iterates rs.AllResources", h.Pos(), "all resources", "the handler does not update all resources")
	}

	// ---- O6: units — queue memory quota/limit are scaled by the API's unit (10^6 bytes)
	if fn := c.Anchor("O6", pkgProportion, "proportionPlugin", "createQueueResourceAttrs"); fn != nil {
		n := 0
		// (the conversion may live in a helper of createQueueResourceAttrs)
		scaleFns := []*ssa.Function{fn}
		for _, in := range instrsIn(fn, func(in ssa.Instruction) bool { _, ok := in.(ssa.CallInstruction); return ok }) {
			if cal := in.(ssa.CallInstruction).Common().StaticCallee(); cal != nil && len(cal.Blocks) > 0 && relPkg(funcPkgPath(cal)) == pkgProportion {
				scaleFns = append(scaleFns, cal)
			}
		}
		for _, sfn := range scaleFns {
			for _, b := range sfn.Blocks {
				for _, in := range b.Instrs {
					bo, ok := in.(*ssa.BinOp)
					if !ok || bo.Op.String() != "*" {
						continue
					}
					var k *ssa.Const
					var other ssa.Value
					if kk, ok := bo.Y.(*ssa.Const); ok {
						k, other = kk, bo.X
					} else if kk, ok := bo.X.(*ssa.Const); ok {
						k, other = kk, bo.Y
					}
					if ot := termOf(other); k == nil || !strings.Contains(ot.String(), ".Memory.") || (ot.lastField() != "Quota" && ot.lastField() != "Limit") {
						continue
					}
					n++
					v, _ := constant.Float64Val(constant.ToFloat(k.Value))
					c.Check(v == 1e6, "O6", "CONST", funcKey(fn)+": memory "+termOf(other).lastField()+" scaled by 10^6", instrPos(in), "1 API unit = 10^6 bytes (pkg/apis/scheduling/v2/resources.go)", fmt.Sprintf("queue memory %s is scaled by %v, the Queue API defines the unit as 10^6 bytes: every finite memory limit/quota is enforced at a different value than configured", termOf(other).lastField(), v))
				}
			}
		}
		c.Floor("O6", "CONST memory scalings", n, 2)
		// … and BOTH memory quantities handed to the queue's attributes are scaled ones (quota and limit): pod requests,
		// node memory and the queue counters are in bytes
		ns := 0
		for _, dh := range p.deepFind(fn, func(in ssa.Instruction) bool {
			cc, ok := in.(*ssa.Call)
			if !ok {
				return false
			}
			for _, a := range cc.Call.Args {
				if k, isK := a.(*ssa.Const); isK && k.Value != nil && strings.HasSuffix(typeKey(k.Type()), "resource_share.ResourceName") && strings.Contains(strings.ToLower(k.Value.ExactString()), "mem") {
					return true
				}
			}
			return false
		}, 1) {
			in := dh.In
			call := in.(*ssa.Call)
			for _, a := range call.Call.Args {
				t := termOf(a)
				fld := ""
				t.contains(func(x *Term) bool {
					if x.Op == "field" && (x.Name == "Quota" || x.Name == "Limit") && strings.Contains(x.String(), "Memory") {
						fld = x.Name
					}
					return false
				})
				if fld == "" {
					continue
				}
				ns++
				scaled := t.contains(func(x *Term) bool {
					return x.Op == "bin" && x.Name == "*" && (strings.HasPrefix(x.Args[1].String(), "const:1000000") || strings.HasPrefix(x.Args[0].String(), "const:1000000") || strings.Contains(x.String(), "const:1e+06"))
				})
				c.Check(scaled, "O6", "CONST", funcKey(fn)+": the memory "+fld+" given to the queue is in bytes", instrPos(in), trunc(t.String(), 100),
					"the queue's memory "+fld+" is handed on unscaled (API unit: 10^6 bytes) while requests and usage are in bytes: a finite memory "+fld+" of N is enforced as N bytes — every workload of that queue sub-tree that requests memory is refused")
			}
		}
		c.Floor("O6", "CONST memory quantities handed to the queue", ns, 2)
	}
	_ = ast.NewIdent
}

// compositeLen returns the number of elements of the composite literal initialising a package-level slice variable.
func compositeLen(p *Prog, v *types.Var) int {
	for _, pk := range p.Pkgs {
		if pk.Types != v.Pkg() {
			continue
		}
		for _, f := range pk.Syntax {
			for _, d := range f.Decls {
				gd, ok := d.(*ast.GenDecl)
				if !ok {
					continue
				}
				for _, sp := range gd.Specs {
					vs, ok := sp.(*ast.ValueSpec)
					if !ok {
						continue
					}
					for i, nm := range vs.Names {
						if pk.TypesInfo.Defs[nm] == v && i < len(vs.Values) {
							if cl, ok := vs.Values[i].(*ast.CompositeLit); ok {
								return len(cl.Elts)
							}
						}
					}
				}
			}
		}
	}
	return -1
}

// compositeConsts: the constant values of the elements of a package-level composite literal (strings / numbers as
// written after constant folding), or nil if the variable is not initialised by a literal of constants.
func compositeConsts(p *Prog, v *types.Var) []string {
	for _, pk := range p.Pkgs {
		if pk.Types != v.Pkg() {
			continue
		}
		for _, f := range pk.Syntax {
			for _, d := range f.Decls {
				gd, ok := d.(*ast.GenDecl)
				if !ok {
					continue
				}
				for _, sp := range gd.Specs {
					vs, ok := sp.(*ast.ValueSpec)
					if !ok {
						continue
					}
					for i, nm := range vs.Names {
						if pk.TypesInfo.Defs[nm] != v || i >= len(vs.Values) {
							continue
						}
						cl, ok := vs.Values[i].(*ast.CompositeLit)
						if !ok {
							return nil
						}
						var out []string
						for _, e := range cl.Elts {
							tv, ok := pk.TypesInfo.Types[e]
							if !ok || tv.Value == nil {
								return nil
							}
							out = append(out, tv.Value.ExactString())
						}
						return out
					}
				}
			}
		}
	}
	return nil
}

// runC08AllNodes (O15): the running sums of a queue are the sums of the AcceptedResource of its pods, and a pod gets
// its AcceptedResource when it is added to the NodeInfo of its node. So every node the lister reports (after the
// node-pool partition filter, which is applied to the list as a whole) must be in the snapshot: an iteration of the
// node loop that files no NodeInfo (nodes that are not ready, cordoned, ...) makes the pods that still run there count
// zero, and the limit / quota guards admit workloads beyond the limit.
func runC08AllNodes(c *Ctx) {
	f := c.Anchor("O15", "pkg/scheduler/cache/cluster_info", "ClusterInfo", "snapshotNodes")
	if f == nil {
		return
	}
	n := 0
	for _, h := range c.P.deepFind(f, func(in ssa.Instruction) bool {
		mu, ok := in.(*ssa.MapUpdate)
		return ok && strings.HasSuffix(typeKey(mu.Map.Type()), "node_info.NodeInfo") && strings.HasPrefix(typeKey(mu.Map.Type()), "map[string]")
	}, 1) {
		site := h.In
		if len(h.Chain) > 0 {
			site = h.Chain[0]
		}
		if loopHeaderOf(site.Block()) == nil {
			continue
		}
		n++
		ok, path := everyIterationPasses(site, func(in ssa.Instruction) bool { return in == site }, nil)
		c.Check(ok, "O15", "MPT", funcKey(f)+": every listed node gets a NodeInfo in the snapshot", instrPos(site), "no iteration of the node loop skips the filing",
			"a listed node can be left out of the snapshot ("+pathStr(path)+"): the pods that run on it are added to no node, get no AcceptedResource and count zero in the running sums of their queues, so the limit and quota guards admit workloads beyond them")
	}
	c.Floor("O15", "MPT node filings of snapshotNodes", n, 1)
}

// runC08AmountsThroughFixedPoint (O17): what a GPU request is worth — for the node, for the queue's running sums, for the
// limit and quota checks — is portion × devices, computed in one place (getExtendedResourceGpus). In the methods of
// GpuResourceRequirement the portion is compared, copied and reported, but it never enters an addition or a
// multiplication directly: an amount formed from the bare portion counts a multi-device fraction as one device.
func runC08AmountsThroughFixedPoint(c *Ctx) {
	n := 0
	for _, fn := range c.P.FuncsIn("pkg/scheduler/api/resource_info") {
		recv := fn.Signature.Recv()
		if recv == nil || !strings.HasSuffix(typeKey(recv.Type()), "GpuResourceRequirement") {
			continue
		}
		for _, in := range instrsIn(fn, func(in ssa.Instruction) bool {
			fa, ok := in.(*ssa.FieldAddr)
			return ok && termOf(fa).lastField() == "portion"
		}) {
			fa := in.(*ssa.FieldAddr)
			for _, r := range *fa.Referrers() {
				ld, ok := r.(*ssa.UnOp)
				if !ok {
					continue
				}
				n++
				var bad ssa.Instruction
				seen := map[ssa.Value]bool{}
				var follow func(v ssa.Value)
				follow = func(v ssa.Value) {
					if seen[v] || v.Referrers() == nil {
						return
					}
					seen[v] = true
					for _, u := range *v.Referrers() {
						switch x := u.(type) {
						case *ssa.BinOp:
							switch x.Op {
							case token.ADD, token.SUB, token.MUL, token.QUO:
								bad = x
							}
						case *ssa.Convert:
							follow(x)
						case *ssa.Phi:
							follow(x)
						}
					}
				}
				follow(ld)
				pos := instrPos(in)
				if bad != nil {
					pos = instrPos(bad)
				}
				c.Check(bad == nil, "O17", "DEP", funcKey(fn)+": the portion enters an amount only through getExtendedResourceGpus", pos, "compared, copied, reported or handed to the fixed-point helper",
					"the GPU portion is used directly in an arithmetic expression: the amount it forms ignores the device count (a fraction on several devices is charged as one device's portion to the queue while the node's devices are all taken)")
			}
		}
	}
	c.Floor("O17", "DEP reads of the GPU portion", n, 8)
}

// runC08PerNodeShareRecomputed (O18): a gpu-memory request is worth a different share of a GPU on every node (it
// depends on the node's GPU memory), and the per-node capacity predicate is its only guard. The share is computed from
// the node at hand on every call: every path through IsTaskAllocationOnNodeOverCapacity calls
// node.GetRequiredInitQuota(task) (a memo per task reuses the first node's share on all others).
func runC08PerNodeShareRecomputed(c *Ctx) {
	f := c.Anchor("O18", pkgProportion+"/capacity_policy", "CapacityPolicy", "IsTaskAllocationOnNodeOverCapacity")
	if f == nil {
		return
	}
	quota := c.P.Func("pkg/scheduler/api/node_info", "NodeInfo", "GetRequiredInitQuota")
	if quota == nil {
		c.Undec("O18", "ANCHOR", "NodeInfo.GetRequiredInitQuota", f.Pos(), "not found")
		return
	}
	step := c.P.performs(isCallToFn(quota), 2)
	n := len(instrsIn(f, step))
	_, path, found := reachAvoiding([]cfgPos{entryPos(f)}, isReturn, step, nil)
	c.Check(!found, "O18", "MPT", funcKey(f)+": the requested share is computed from the node at hand on every call", f.Pos(), "every path calls node.GetRequiredInitQuota(task)",
		"the per-node capacity check can run without computing the task's share on this node ("+pathStr(path)+"), e.g. from a per-task memo: a gpu-memory request is checked with the share it has on the first node it met and bound on a node where it is worth more, past the queue's limit")
	c.Floor("O18", "MPT share computations of the per-node capacity check", n, 1)
}
