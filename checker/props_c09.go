package main

import (
	"fmt"
	"go/constant"
	"go/token"
	"go/types"
	"sort"
	"strings"

	"golang.org/x/tools/go/ssa"
)

func init() {
	register("C09", runC09,
		"Decides structural necessary conditions of the fair-share contract: the clause 'independent of the order in which queues are enumerated' (no order-sensitive sink, no unreviewed early exit and no hand-out that depends on a running value inside any loop over a queue map of the division), and the shape without which the numeric clauses certainly fail: every hand-out is debited from the running total by the same amount, the normaliser of the time-aware weights is the sum of exactly the weights that are stored, weights and normaliser used for a round come from one computation, the total over-quota weight counts exactly the unsatisfied queues, the over-quota priorities are served in descending order by an overflow-free comparator, rounding remainders are handed out by a strict total order ending in the UID, and each level of the hierarchy divides its parent's fair share among that parent's children.",
		"every numeric bound of the contract (lower bound, overshoot < 1 unit, surplus bound, monotonicity in weight), and the effect of floating-point rounding on sums taken in map order")
}

const pkgResDiv = "pkg/scheduler/plugins/proportion/resource_division"

// dependsOn: backward slice of v over SSA operands inside its function, stopping at depth; reports whether it
// reaches a value satisfying pred.
func dependsOn(v ssa.Value, pred func(ssa.Value) bool, within map[*ssa.BasicBlock]bool, seen map[ssa.Value]bool, depth int) bool {
	if v == nil || seen[v] || depth == 0 {
		return false
	}
	seen[v] = true
	if pred(v) {
		return true
	}
	in, ok := v.(ssa.Instruction)
	if !ok {
		return false
	}
	if within != nil && !within[in.Block()] {
		return false // defined outside the loop: invariant for it
	}
	for _, op := range in.Operands(nil) {
		if op != nil && *op != nil && dependsOn(*op, pred, within, seen, depth-1) {
			return true
		}
	}
	return false
}

type mapLoop struct {
	Fn     *ssa.Function
	Range  *ssa.Range
	Header *ssa.BasicBlock
	Blocks map[*ssa.BasicBlock]bool
}

func mapLoopsOf(fn *ssa.Function) []mapLoop {
	var out []mapLoop
	for _, r := range mapRanges(fn) {
		h, blocks := loopBlocksOfRange(r)
		if h == nil {
			continue
		}
		out = append(out, mapLoop{fn, r, h, blocks})
	}
	return out
}

// earlyExits: edges that leave the loop from a block other than the header (break / return inside the body).
func (l mapLoop) earlyExits() []*ssa.BasicBlock {
	var out []*ssa.BasicBlock
	for b := range l.Blocks {
		if b == l.Header {
			continue
		}
		if _, isRet := b.Instrs[len(b.Instrs)-1].(*ssa.Return); isRet {
			out = append(out, b)
			continue
		}
		for _, s := range b.Succs {
			if !l.Blocks[s] {
				out = append(out, b)
				break
			}
		}
	}
	sort.Slice(out, func(i, j int) bool { return out[i].Index < out[j].Index })
	return out
}

func runC09(c *Ctx) {
	runC09RequestCap(c)
	runC09UsageScaledByK(c)
	runC09Leftovers(c)
	runC09Satisfied(c)
	borrow(c, "O10", "C07", "O7", "entry is tied to", "each resource is divided by the queues' quota, limit and over-quota weight FOR THAT RESOURCE: a weight taken from another resource hands the surplus of one resource out in the proportions configured for another")
	p, fx := c.P, c.Fx
	e := newAbsExec(p)

	// ---- O1: order independence of every loop over a queue map
	var fns []*ssa.Function
	for _, fn := range p.FuncsIn(pkgResDiv) {
		if !isTestdataOrMock(fn) {
			fns = append(fns, fn)
		}
	}
	for _, nm := range []string{"setFairShareForQueues", "createQueueResourceAttrs"} {
		if fn := c.Anchor("O1", "pkg/scheduler/plugins/proportion", "proportionPlugin", nm); fn != nil {
			fns = append(fns, fn)
		}
	}
	// the two selectors of a level's queues, whatever they are called
	selTop, selChild := fairShareSelectors(p)
	for _, sel := range []*ssa.Function{selTop, selChild} {
		if sel == nil {
			c.Undec("O1", "ANCHOR", "queue selectors of the fair-share recursion", 0, "the queue-set argument of setFairShareForQueues is not a call")
			continue
		}
		fns = append(fns, sel)
	}
	// an early exit is acceptable when it is "nothing is left": its condition compares with zero a value that is
	// carried around this loop and only ever reduced by the amounts handed out in it (every amount of a round is a
	// share of the amount fixed before the loop and the shares sum to it, so the total reaches 0 only after all
	// positive shares were given)
	nothingLeftExit := func(l mapLoop, b *ssa.BasicBlock) bool {
		// b leaves the loop directly or through a block that only logs and jumps out
		var cond ssa.Value
		if iff, ok := b.Instrs[len(b.Instrs)-1].(*ssa.If); ok {
			cond = iff.Cond
		} else if len(b.Preds) == 1 {
			if iff, ok := b.Preds[0].Instrs[len(b.Preds[0].Instrs)-1].(*ssa.If); ok {
				cond = iff.Cond
			}
		}
		bo, ok := cond.(*ssa.BinOp)
		if !ok || (bo.Op != token.EQL && bo.Op != token.LEQ) {
			return false
		}
		k, isC := bo.Y.(*ssa.Const)
		phi, isPhi := bo.X.(*ssa.Phi)
		if !isC || !isPhi || phi.Block() != l.Header || k.Value == nil || (k.Value.ExactString() != "0") {
			return false
		}
		handed := map[ssa.Value]bool{}
		for blk := range l.Blocks {
			for _, in := range blk.Instrs {
				if call, ok := in.(*ssa.Call); ok && calleeOf(call) != nil && calleeOf(call).Name() == "AddResourceShare" {
					args := call.Common().Args
					handed[args[len(args)-1]] = true
				}
			}
		}
		for i, e := range phi.Edges {
			if !l.Blocks[phi.Block().Preds[i]] {
				continue // initial value
			}
			if e == ssa.Value(phi) {
				continue
			}
			sub, ok := e.(*ssa.BinOp)
			if !ok || sub.Op != token.SUB || sub.X != ssa.Value(phi) || !handed[sub.Y] {
				return false
			}
		}
		return len(handed) > 0
	}
	nLoops := 0
	for _, fn := range fns {
		for _, s := range findMapOrderSinks(fn) {
			c.Analysed(funcKey(fn))
			c.Viol("O1", "MAPORDER", funcKey(fn)+": map iteration order reaches an ordered value", instrPos(s.Sink), s.What+": the division result depends on the order in which the queues are enumerated")
		}
		for _, l := range mapLoopsOf(fn) {
			nLoops++
			c.Analysed(funcKey(fn))
			construct := fmt.Sprintf("%s: loop over %s", funcKey(fn), trunc(termOf(l.Range.X).String(), 60))
			ok := true
			// (b) early exits
			for _, eb := range l.earlyExits() {
				pos := instrPos(eb.Instrs[len(eb.Instrs)-1])
				if nothingLeftExit(l, eb) {
					c.Hold("O1", "MAPORDER", construct+": early exit", pos, "leaves the loop only when the running total, reduced only by the hand-outs of this loop, has reached zero")
				} else {
					ok = false
					c.Viol("O1", "MAPORDER", construct+": early exit", pos, "the loop over a queue map can stop before all queues were visited (for a reason other than 'nothing is left'): which queues are served depends on the enumeration order")
				}
			}
			// (c) amounts handed to an element must not depend on a value carried around this loop
			carried := func(v ssa.Value) bool {
				phi, isPhi := v.(*ssa.Phi)
				return isPhi && phi.Block() == l.Header
			}
			for b := range l.Blocks {
				for _, in := range b.Instrs {
					call, isCall := in.(*ssa.Call)
					if !isCall || calleeOf(call) == nil || calleeOf(call).Name() != "AddResourceShare" {
						continue
					}
					args := call.Common().Args
					amt := args[len(args)-1]
					if dependsOn(amt, carried, l.Blocks, map[ssa.Value]bool{}, 12) {
						ok = false
						c.Viol("O1", "MAPORDER", construct+": hand-out independent of earlier iterations", instrPos(in), "the amount given to a queue depends on a value updated by earlier iterations of the loop over the queue map ("+trunc(termOf(amt).String(), 120)+"): queues enumerated later receive a different amount than the same queues enumerated earlier")
					}
				}
			}
			if ok {
				c.Hold("O1", "MAPORDER", construct, l.Range.Pos(), "no ordered sink, no unreviewed early exit, hand-outs independent of earlier iterations")
			}
		}
	}
	c.Floor("O1", "MAPORDER loops over queue maps", nLoops, 8)

	// ---- O2: comparators that order hand-outs
	if gq := c.Anchor("O2", pkgResDiv, "", "getQueuesByPriority"); gq != nil {
		n := 0
		for _, in := range instrsIn(gq, func(in ssa.Instruction) bool {
			cc, ok := in.(ssa.CallInstruction)
			return ok && calleeOf(cc) != nil && strings.HasPrefix(calleeOf(cc).Name(), "SortFunc")
		}) {
			n++
			cmpFn := p.resolveFuncValue(in.(ssa.CallInstruction).Common().Args[1])
			if cmpFn == nil {
				c.Undec("O2", "ABS", funcKey(gq)+": priority comparator", instrPos(in), "comparator is not a resolvable function")
				continue
			}
			pairs := checkIntComparator(c, e, "O2", cmpFn, 0, 1)
			if pairs == nil {
				continue
			}
			// descending: negative exactly when i > j
			ok := true
			for _, pr := range pairs {
				for k, rel := range pr.St.ord {
					pp := pr.St.pairs[k]
					relIJ := rel
					if !strings.Contains(pp[0], "param:0:") {
						relIJ = rel.flip()
					}
					want := int64(0)
					if relIJ == relGT {
						want = -1
					} else if relIJ == relLT {
						want = 1
					}
					if sign(pr.Fwd.I) != want {
						ok = false
					}
				}
			}
			c.Check(ok && len(pairs) == 3, "O2", "ABS", funcKey(cmpFn)+": higher over-quota priority first", cmpFn.Pos(), "negative exactly when i > j", "the over-quota priorities are not served from the highest to the lowest")
		}
		// the same order written without a comparator: ascending sort followed by a reversal of the same slice
		for _, in := range instrsIn(gq, func(in ssa.Instruction) bool {
			cc, ok := in.(ssa.CallInstruction)
			return ok && calleeOf(cc) != nil && funcPkgPath(calleeOf(cc)) == "slices" && (calleeOf(cc).Name() == "Sort" || strings.HasPrefix(calleeOf(cc).Name(), "Sort["))
		}) {
			subject := in.(ssa.CallInstruction).Common().Args[0]
			rev := false
			for _, r := range instrsIn(gq, func(x ssa.Instruction) bool {
				cc, ok := x.(ssa.CallInstruction)
				return ok && calleeOf(cc) != nil && funcPkgPath(calleeOf(cc)) == "slices" && strings.HasPrefix(calleeOf(cc).Name(), "Reverse")
			}) {
				if r.(ssa.CallInstruction).Common().Args[0] == subject && dominatesInstr(in, r) {
					rev = true
				}
			}
			n++
			c.Check(rev, "O2", "ABS", funcKey(gq)+": higher over-quota priority first", instrPos(in), "slices.Sort then slices.Reverse of the same slice", "the over-quota priorities are sorted ascending and not reversed: they are not served from the highest to the lowest")
		}
		c.Floor("O2", "ABS priority sorts", n, 1)
	}
	if rr := c.Anchor("O2", pkgResDiv, "", "remainingRequestedOrderFn"); rr != nil {
		less := returnedClosure(rr)
		construct := funcKey(rr) + ": remainders are ordered by a strict total order ending in the UID"
		if less == nil {
			c.Undec("O2", "ABS", construct, rr.Pos(), "returned closure not found")
		} else {
			pairs, err := e.bothWays(less, nil, 0, 1)
			if err != nil {
				c.Undec("O2", "ABS", construct, rr.Pos(), err.Error())
			} else {
				ok, why := true, ""
				for _, pr := range pairs {
					if pr.Fwd.Kind != "bool" || pr.Back.Kind != "bool" {
						ok, why = false, "non-boolean result"
						continue
					}
					allEQ := true
					uidSeen := false
					for k, rel := range pr.St.ord {
						if rel != relEQ {
							allEQ = false
						}
						if strings.Contains(k, ".UID") {
							uidSeen = true
						}
					}
					if pr.Fwd.B && pr.Back.B {
						ok, why = false, "less(l,r) and less(r,l) both hold when "+pr.St.String()
					}
					if !pr.Fwd.B && !pr.Back.B && !(allEQ && uidSeen) {
						ok, why = false, "neither is before the other although they differ: "+pr.St.String()
					}
				}
				c.Check(ok && len(pairs) >= 7, "O2", "ABS", construct, less.Pos(), fmt.Sprintf("%d abstract inputs; ties end at the UID", len(pairs)), "the order in which rounding remainders are handed out is not a strict total order: "+why+" — with equal remainders the receiver depends on map order")
			}
		}
	}

	// ---- O3: conservation — every hand-out is debited from the running total by the same amount
	nAdd := 0
	for _, fn := range fns {
		if !strings.HasPrefix(relPkg(funcPkgPath(fn)), pkgResDiv) {
			continue
		}
		for _, in := range instrsIn(fn, func(in ssa.Instruction) bool {
			cc, ok := in.(*ssa.Call)
			return ok && calleeOf(cc) != nil && calleeOf(cc).Name() == "AddResourceShare"
		}) {
			nAdd++
			call := in.(*ssa.Call)
			args := call.Common().Args
			amt := args[len(args)-1]
			// a subtraction `running − amt` after the call, on every path to the loop back edge / return
			isDebit := func(x ssa.Instruction) bool {
				bo, ok := x.(*ssa.BinOp)
				return ok && bo.Op == token.SUB && bo.Y == amt
			}
			// the debit may also precede the call in the same block
			pre := false
			for _, x := range call.Block().Instrs {
				if x == ssa.Instruction(call) {
					break
				}
				if isDebit(x) {
					pre = true
				}
			}
			found := false
			var path []int
			if !pre {
				h := loopHeaderOf(call.Block())
				_, path, found = reachAvoiding([]cfgPos{afterInstr(call)}, func(x ssa.Instruction) bool {
					if isReturn(x) {
						return true
					}
					return h != nil && x == h.Instrs[0]
				}, isDebit, nil)
			}
			c.Check(!found, "O3", "PAIR", fmt.Sprintf("%s: AddResourceShare(%s) is debited from the running total", funcKey(fn), trunc(termOf(amt).String(), 50)), instrPos(in), "total −= the same amount on every path", "an amount is added to a queue's fair share without being subtracted from what is left ("+pathStr(path)+"): the shares handed out can exceed the total")
			// and the debited total is the one that is returned / carried
		}
	}
	c.Floor("O3", "PAIR hand-outs", nAdd, 3)

	// ---- O4: the normaliser is the sum of exactly the stored weights, and a round uses one computation
	if cs := c.Anchor("O4", pkgResDiv, "", "calcShareWeights"); cs != nil {
		var stored []ssa.Value
		for _, in := range instrsIn(cs, func(in ssa.Instruction) bool { _, ok := in.(*ssa.MapUpdate); return ok }) {
			stored = append(stored, in.(*ssa.MapUpdate).Value)
		}
		var added []ssa.Value
		for _, l := range mapLoopsOf(cs) {
			for b := range l.Blocks {
				for _, in := range b.Instrs {
					bo, ok := in.(*ssa.BinOp)
					if !ok || bo.Op != token.ADD {
						continue
					}
					if phi, isPhi := bo.X.(*ssa.Phi); isPhi && phi.Block() == l.Header {
						added = append(added, bo.Y)
					}
				}
			}
		}
		ok := len(stored) == 1 && len(added) == 1 && stored[0] == added[0]
		det := ""
		if len(stored) == 1 && len(added) == 1 {
			det = "stored " + trunc(termOf(stored[0]).String(), 80) + ", summed " + trunc(termOf(added[0]).String(), 80)
		}
		c.Check(ok, "O4", "PAIR", funcKey(cs)+": the sum accumulates the very value stored per queue", cs.Pos(), "Σ stored weights = normaliser", "the normaliser is not the sum of the stored per-queue weights ("+det+"): normalised weights no longer add up to 1, so a round hands out more (or less) than the amount of the round")
		// only unsatisfied queues get a weight
		for _, in := range instrsIn(cs, func(in ssa.Instruction) bool { _, ok := in.(*ssa.MapUpdate); return ok }) {
			d, ok := hasFact(fx.FactsAt(in), func(f Fact) bool { return !f.Pol && isCallNamed(f.T, "isQueueSatisfied") })
			c.Check(ok, "O4", "DOM", funcKey(cs)+": only unsatisfied queues receive a weight", instrPos(in), trunc(d, 80), "a satisfied queue takes part in the normalisation")
		}
	}
	if calc := c.Anchor("O4", pkgResDiv, "", "calcShareWeights"); calc != nil {
		n := 0
		for _, fn := range fns {
			if !strings.HasPrefix(relPkg(funcPkgPath(fn)), pkgResDiv) || sameFunc(fn, calc) {
				continue
			}
			for _, in := range instrsIn(fn, func(in ssa.Instruction) bool {
				bo, ok := in.(*ssa.BinOp)
				return ok && bo.Op == token.QUO
			}) {
				bo := in.(*ssa.BinOp)
				lk, isLookup := bo.X.(*ssa.Lookup)
				if !isLookup || termOf(lk.Index).lastField() != "UID" {
					continue
				}
				// where do the weight table and the divisor come from (through helper parameters)?
				ms, ss := p.origins(lk.X, 2), p.origins(bo.Y, 2)
				fromCalc := false
				for _, m := range ms {
					if termOf(m).contains(func(t *Term) bool { return t.isCallTo(calc) }) {
						fromCalc = true
					}
				}
				if !fromCalc {
					continue
				}
				n++
				okShape := len(ms) == len(ss) && len(ms) > 0
				for i := range ms {
					if !okShape {
						break
					}
					em, isEm := ms[i].(*ssa.Extract)
					es, isEs := ss[i].(*ssa.Extract)
					if !isEm || !isEs || em.Index != 0 || es.Index != 1 || em.Tuple != es.Tuple {
						okShape = false
					}
				}
				c.Check(okShape, "O4", "PROV", funcKey(fn)+": queue weight and normaliser come from the same calcShareWeights call", instrPos(in), "weights[queue.UID] / sum", "the normalised weight divides "+trunc(termOf(bo.X).String(), 80)+" by "+trunc(termOf(bo.Y).String(), 80)+", which are not the two results of one calcShareWeights call")
			}
		}
		c.Floor("O4", "PROV normalisations", n, 1)
		// the round's amount is fixed before the queues are visited (not the running total)
		for _, fn := range fns {
			if !strings.HasPrefix(relPkg(funcPkgPath(fn)), pkgResDiv) {
				continue
			}
			for _, l := range mapLoopsOf(fn) {
				carried := func(v ssa.Value) bool {
					phi, isPhi := v.(*ssa.Phi)
					return isPhi && phi.Block() == l.Header
				}
				for b := range l.Blocks {
					for _, in := range b.Instrs {
						bo, ok := in.(*ssa.BinOp)
						if !ok || bo.Op != token.MUL {
							continue
						}
						dep := dependsOn(bo.X, carried, l.Blocks, map[ssa.Value]bool{}, 8) || dependsOn(bo.Y, carried, l.Blocks, map[ssa.Value]bool{}, 8)
						c.Check(!dep, "O4", "MAPORDER", funcKey(fn)+": the share of a round is a fraction of the amount fixed at the start of the round", instrPos(in), "amountToGiveInCurrentRound × normalised weight", "the share is computed from the running total, which earlier queues of the same round already reduced")
					}
				}
			}
		}
	}

	// ---- O7: a queue whose remaining request does not exceed its share of the round is satisfied — it receives the
	// request and leaves the remainder table; only a queue whose request strictly exceeds the share is rounded
	// down and may keep a remainder entry
	if gr := c.Anchor("O7", pkgResDiv, "", "getResourceToGiveInCurrentRound"); gr != nil {
		strictlyMore := func(fs FactSet) bool {
			_, ok := fs.find(func(f Fact) bool {
				if f.T.Op != "bin" || len(f.T.Args) != 2 {
					return false
				}
				a, b := f.T.Args[0], f.T.Args[1]
				req, share := a.paramIndex() == 1 && b.paramIndex() == 0, a.paramIndex() == 0 && b.paramIndex() == 1
				switch {
				case req && f.T.Name == "<=" && !f.Pol, req && f.T.Name == ">" && f.Pol:
					return true // ¬(requested ≤ share), requested > share
				case share && f.T.Name == "<" && f.Pol, share && f.T.Name == ">=" && !f.Pol:
					return true // share < requested, ¬(share ≥ requested)
				}
				return false
			})
			return ok
		}
		n := 0
		for _, in := range instrsIn(gr, func(in ssa.Instruction) bool {
			if mu, ok := in.(*ssa.MapUpdate); ok {
				return termOf(mu.Map).paramIndex() == 3
			}
			cc, ok := in.(ssa.CallInstruction)
			return ok && calleeOf(cc) != nil && funcPkgPath(calleeOf(cc)) == "math" && calleeOf(cc).Name() == "Floor"
		}) {
			n++
			c.Check(strictlyMore(fx.FactsAt(in)), "O7", "DOM", funcKey(gr)+": rounding down / keeping a remainder only when the request strictly exceeds the share", instrPos(in), "requested > fairShare",
				"a queue whose remaining request equals its share of the round is treated as unsatisfied: it receives everything it asked for but is not taken out of the remainder table, so the remainder pass gives it a further whole unit — above its request (and possibly its limit), taken from an unsatisfied sibling")
		}
		c.Floor("O7", "DOM round-down sites", n, 2)
		for _, in := range instrsIn(gr, func(in ssa.Instruction) bool {
			cc, ok := in.(*ssa.Call)
			if !ok {
				return false
			}
			b, isB := cc.Common().Value.(*ssa.Builtin)
			return isB && b.Name() == "delete"
		}) {
			_, sat := hasFact(fx.FactsAt(in), func(f Fact) bool {
				if f.T.Op != "bin" || len(f.T.Args) != 2 {
					return false
				}
				a, b := f.T.Args[0], f.T.Args[1]
				return a.paramIndex() == 1 && b.paramIndex() == 0 && f.T.Name == "<=" && f.Pol || a.paramIndex() == 0 && b.paramIndex() == 1 && f.T.Name == ">=" && f.Pol
			})
			c.Check(sat, "O7", "DOM", funcKey(gr)+": a queue leaves the remainder table exactly when requested ≤ share", instrPos(in), "delete behind requested <= fairShare", "the satisfied branch is not guarded by requested ≤ fairShare (equality included)")
		}
	}
	// ---- O8: the remainder pass visits every priority tier; it stops early only when nothing is left
	if dq := c.Anchor("O8", pkgResDiv, "", "divideOverQuotaResource"); dq != nil {
		rem := p.Func(pkgResDiv, "", "divideRemainingResource")
		n := 0
		for _, dh := range p.deepFind(dq, isCallToFn(rem), 2) {
			in := dh.In
			n++
			h := loopHeaderOf(in.Block())
			if h == nil {
				c.Undec("O8", "MPT", funcKey(dq)+": remainder pass", instrPos(in), "divideRemainingResource is not called in a loop over the priorities")
				continue
			}
			loop := naturalLoop(h)
			ok := true
			for b := range loop {
				if b == h {
					continue
				}
				for _, sc := range b.Succs {
					if loop[sc] {
						continue
					}
					// an exit from inside the body: must establish "nothing left"
					if !fx.edgeEstablishes(b, sc, func(f Fact) bool {
						if f.T.Op != "bin" || len(f.T.Args) != 2 || f.T.Args[1].String() != "const:0" {
							return false
						}
						if f.T.Args[0].contains(func(x *Term) bool { return x.Op == "call" }) {
							return false // a length or a lookup result, not the running amount
						}
						return (f.T.Name == "<=" && f.Pol) || (f.T.Name == ">" && !f.Pol) || (f.T.Name == "==" && f.Pol)
					}) {
						ok = false
					}
				}
			}
			c.Check(ok, "O8", "MPT", funcKey(dq)+": the remainder pass leaves its loop early only when nothing is left", instrPos(in), "break behind remainingAmount <= 0", "the pass that hands out rounding remainders can stop at a priority tier for another reason (e.g. a tier without remainders): lower tiers never receive theirs and surplus stays undistributed while weighted queues are unsatisfied")
		}
		c.Floor("O8", "MPT remainder passes", n, 1)
	}

	// ---- O5: the total over-quota weight counts exactly the unsatisfied queues
	if tw := c.Anchor("O5", pkgResDiv, "", "getTotalWeightsForUnsatisfied"); tw != nil {
		n := 0
		for _, l := range mapLoopsOf(tw) {
			for b := range l.Blocks {
				for _, in := range b.Instrs {
					bo, ok := in.(*ssa.BinOp)
					if !ok || bo.Op != token.ADD {
						continue
					}
					if phi, isPhi := bo.X.(*ssa.Phi); !isPhi || phi.Block() != l.Header {
						continue
					}
					n++
					okW := termOf(bo.Y).lastField() == "OverQuotaWeight"
					d, okG := hasFact(fx.FactsAt(in), func(f Fact) bool {
						if !f.Pol && isCallNamed(f.T, "isQueueSatisfied") {
							return true
						}
						// getRemainingRequested(queue, res) > 0
						if f.T.Op == "bin" && len(f.T.Args) == 2 {
							a, b := f.T.Args[0], f.T.Args[1]
							if isCallNamed(a, "getRemainingRequested") && b.String() == "const:0" {
								return (f.T.Name == ">" && f.Pol) || (f.T.Name == "<=" && !f.Pol)
							}
							if isCallNamed(b, "getRemainingRequested") && a.String() == "const:0" {
								return (f.T.Name == "<" && f.Pol) || (f.T.Name == ">=" && !f.Pol)
							}
						}
						return false
					})
					c.Check(okW && okG, "O5", "DOM", funcKey(tw)+": a queue's over-quota weight is counted only while it is unsatisfied", instrPos(in), trunc(d, 100), "the total that normalises the weights also counts queues that are already satisfied (or counts something other than OverQuotaWeight): with time-based fairness the diluted weights can all floor to 0 and surplus stays undistributed although a weighted queue is unsatisfied")
				}
			}
		}
		c.Floor("O5", "DOM weight accumulations", n, 1)
	}

	// ---- O6: every level divides its parent's fair share among that parent's children
	if sf := c.Anchor("O6", "pkg/scheduler/plugins/proportion", "proportionPlugin", "setFairShareForQueues"); sf != nil {
		n := 0
		for _, in := range instrsIn(sf, isCallToFn(sf)) {
			n++
			args := in.(ssa.CallInstruction).Common().Args
			total, kids := termOf(args[1]), termOf(args[3])
			var q1, q2 *Term
			if total.Op == "call" && strings.HasSuffix(total.Name, "GetFairShare") && len(total.Args) > 0 {
				q1 = total.Args[0]
				for q1.Op == "field" {
					q1 = q1.Args[0]
				}
			}
			if kids.Op == "call" && kids.Fn != nil && kids.Fn == selChild {
				for _, a := range kids.Args {
					if q1 != nil && sameTerm(a, q1) {
						q2 = a
					}
				}
			}
			c.Check(q1 != nil && q2 != nil && sameTerm(q1, q2), "O6", "PROV", funcKey(sf)+": children divide the fair share of their own parent", instrPos(in), "setFairShareForQueues(queue.GetFairShare(), k, getChildQueues(queue))", "the recursion does not hand the parent's fair share to that parent's children: total="+trunc(total.String(), 80)+" children="+trunc(kids.String(), 80))
			// k is passed down unchanged
			c.Check(termOf(args[2]).paramIndex() == 2, "O6", "PROV", funcKey(sf)+": the k-value is passed down unchanged", instrPos(in), "kValue", "a different k-value is used below the top level")
		}
		c.Floor("O6", "PROV recursive divisions", n, 1)
		div := p.Func(pkgResDiv, "", "SetResourcesShare")
		for _, in := range instrsIn(sf, isCallToFn(div)) {
			args := in.(ssa.CallInstruction).Common().Args
			okA := termOf(args[0]).paramIndex() == 1 && termOf(args[1]).paramIndex() == 2 && termOf(args[2]).paramIndex() == 3
			c.Check(okA, "O6", "PROV", funcKey(sf)+": the level's own total, k and queues are divided", instrPos(in), "SetResourcesShare(totalResources, kValue, queues)", "the division at a level is not applied to that level's total and queues")
		}
	}
	if sf := c.P.Func("pkg/scheduler/plugins/proportion", "proportionPlugin", "setFairShareForQueues"); sf != nil {
		// a level that has queues is always divided: the only exit that skips the division is "no queues at this
		// level" (deserved quotas are granted whatever the total is — a zero total is no reason to skip)
		div := isCallNamedInstr("SetResourcesShare")
		qp := -1
		for i, prm := range sf.Params {
			if _, isMap := prm.Type().Underlying().(*types.Map); isMap {
				qp = i
			}
		}
		_, path, found := reachAvoiding([]cfgPos{entryPos(sf)}, isReturn, div, func(from, to *ssa.BasicBlock) bool {
			return !fx.edgeEstablishes(from, to, func(f Fact) bool {
				if f.T.Op != "bin" || len(f.T.Args) != 2 {
					return false
				}
				isLen := func(t *Term) bool {
					return t.Op == "call" && strings.Contains(t.String(), "builtin.len") && rootParam(t) == qp
				}
				zero := func(t *Term) bool { return t.String() == "const:0" }
				switch {
				case f.T.Name == "==" && f.Pol, f.T.Name == "!=" && !f.Pol:
					return (isLen(f.T.Args[0]) && zero(f.T.Args[1])) || (isLen(f.T.Args[1]) && zero(f.T.Args[0]))
				case f.T.Name == "<" && !f.Pol: // !(0 < len)
					return zero(f.T.Args[0]) && isLen(f.T.Args[1])
				case f.T.Name == ">" && !f.Pol:
					return isLen(f.T.Args[0]) && zero(f.T.Args[1])
				}
				return false
			})
		})
		c.Check(!found, "O6", "MPT", funcKey(sf)+": a level with queues is always divided", sf.Pos(), "the division is skipped only when the level has no queues",
			"setFairShareForQueues can return without dividing although the level has queues ("+pathStr(path)+"): those queues and everything below them keep a fair share of 0 instead of at least min(deserved, request)")
	}
	if gc := selChild; gc != nil {
		ok := false
		for _, in := range instrsIn(gc, func(in ssa.Instruction) bool { _, isMU := in.(*ssa.MapUpdate); return isMU }) {
			mu := in.(*ssa.MapUpdate)
			k, v := termOf(mu.Key), termOf(mu.Value)
			if v.Op == "lookup" && sameTerm(v.Args[1], k) && strings.Contains(k.String(), "ChildQueues") {
				ok = true
			}
		}
		c.Check(ok, "O6", "PROV", funcKey(gc)+": the children of a queue are the queues named in its ChildQueues", gc.Pos(), "childQueues[id] = pp.queues[id] for id in parent.ChildQueues", "the child set is not read from the parent's ChildQueues")
	}
	if st := c.Anchor("O6", pkgResDiv, "", "setResourceShare"); st != nil {
		// deserved first, surplus only from what is left
		sd := p.Func(pkgResDiv, "", "setDeservedResource")
		dq := p.Func(pkgResDiv, "", "divideOverQuotaResource")
		for _, in := range instrsIn(st, isCallToFn(dq)) {
			a0 := termOf(in.(ssa.CallInstruction).Common().Args[0])
			_, pos := hasFact(fx.FactsAt(in), func(f Fact) bool {
				if f.T.Op != "bin" || len(f.T.Args) != 2 {
					return false
				}
				a, b := f.T.Args[0], f.T.Args[1]
				if a.isCallTo(sd) && b.String() == "const:0" {
					return (f.T.Name == ">" && f.Pol) || (f.T.Name == "<=" && !f.Pol)
				}
				if b.isCallTo(sd) && a.String() == "const:0" {
					return (f.T.Name == "<" && f.Pol) || (f.T.Name == ">=" && !f.Pol)
				}
				return false
			})
			c.Check(a0.isCallTo(sd) && pos, "O6", "DOM", funcKey(st)+": the surplus divided is what setDeservedResource left, and only if positive", instrPos(in), "divideOverQuotaResource(remaining) behind remaining > 0", "the over-quota division is not fed the remainder of the deserved phase: "+a0.String())
		}
	}
}

// C09-O9 (RET): a queue counts as unsatisfied for a resource only when its request exceeds its fair share AND its
// limit does not stop it there: the limit is the unlimited sentinel, or above the fair share. A finite limit —
// including 0, the documented value of an unset limit on some resource — that is not above the fair share makes the
// queue satisfied; otherwise it keeps a weight in the over-quota rounds and is offered surplus it cannot take, which
// then reaches nobody although other queues still want it.
func runC09Satisfied(c *Ctx) {
	fx := c.Fx
	fn := c.Anchor("O9", pkgResDiv, "", "isQueueSatisfied")
	if fn == nil {
		return
	}
	paths := fx.retPaths(fn, 0, WantFalse)
	accept := func(fs FactSet) bool {
		_, over := hasFact(fs, func(f Fact) bool {
			return !f.Pol && f.T.Op == "bin" && f.T.Name == "<=" && f.T.Args[0].lastField() == "Request" && f.T.Args[1].lastField() == "FairShare"
		})
		_, unlimited := hasFact(fs, func(f Fact) bool {
			if f.T.Op != "bin" || len(f.T.Args) != 2 {
				return false
			}
			isMax := f.T.Args[0].lastField() == "MaxAllowed" && f.T.Args[1].String() == "const:-1"
			return isMax && ((f.T.Name == "==" && f.Pol) || (f.T.Name == "!=" && !f.Pol))
		})
		_, above := hasFact(fs, func(f Fact) bool {
			return !f.Pol && f.T.Op == "bin" && f.T.Name == "<=" && f.T.Args[0].lastField() == "MaxAllowed" && f.T.Args[1].lastField() == "FairShare"
		})
		return over && (unlimited || above)
	}
	for i, rp := range paths {
		ok := accept(rp.Facts)
		if !ok {
			// the two reasons may have been folded into named booleans (φ of comparisons): every way of reaching the
			// 'unsatisfied' answer, with such conditions split per way they can hold, must establish them
			for _, b := range fn.Blocks {
				if ret, isRet := b.Instrs[len(b.Instrs)-1].(*ssa.Return); isRet && ret.Pos() == rp.Pos {
					ok = fx.allPathsSatisfy(ret, accept)
				}
			}
		}
		c.Check(ok, "O9", "RET", fmt.Sprintf("%s unsatisfied path#%d", funcKey(fn), i), rp.Pos,
			"request > fair share ∧ (limit unlimited ∨ limit > fair share)",
			"a queue can count as unsatisfied although its request is within its fair share or a finite limit (0 included) stops it at its fair share: it keeps a share weight and is offered surplus it cannot take; facts: "+trunc(rp.Facts.String(), 400))
	}
	c.Floor("O9", "RET unsatisfied paths", len(paths), 1)
}

func isCallNamedInstr(name string) func(ssa.Instruction) bool {
	return func(in ssa.Instruction) bool {
		cc, ok := in.(ssa.CallInstruction)
		return ok && calleeOf(cc) != nil && calleeOf(cc).Name() == name
	}
}

// runC09Leftovers (O11, O12): "surplus stays undistributed only if every queue is satisfied".
//
//	O11 — the distribution loops stop on the running amount only when it is exactly exhausted: a comparison of the
//	      amount with anything but 0 (“less than one unit left”) strands the fraction that fractional requests leave;
//	O12 — in the pass that hands back the rounded-off units, every queue taken from the ordered list receives its
//	      unit: a queue that is popped and skipped is gone from the list, and its unit stays with nobody.
func runC09Leftovers(c *Ctx) {
	const pkg = "pkg/scheduler/plugins/proportion/resource_division"
	n := 0
	for _, name := range []string{"divideUpToFairShare", "divideRemainingResource", "divideOverQuotaResource"} {
		f := c.Anchor("O11", pkg, "", name)
		if f == nil {
			continue
		}
		// values that carry the running amount: parameter 0 and what is derived from it by φ and ±
		amount := map[ssa.Value]bool{ssa.Value(f.Params[0]): true}
		for changed := true; changed; {
			changed = false
			for _, b := range f.Blocks {
				for _, in := range b.Instrs {
					v, isV := in.(ssa.Value)
					if !isV || amount[v] {
						continue
					}
					switch x := in.(type) {
					case *ssa.Phi:
						for _, e := range x.Edges {
							if amount[e] {
								amount[v], changed = true, true
							}
						}
					case *ssa.BinOp:
						if (x.Op == token.SUB || x.Op == token.ADD) && amount[x.X] {
							amount[v], changed = true, true
						}
					case *ssa.Call:
						// what a division step hands back for the amount it was given (first argument → first result)
						if cal := x.Call.StaticCallee(); cal != nil && len(x.Call.Args) > 0 && amount[x.Call.Args[0]] && strings.HasPrefix(cal.Name(), "divide") {
							if _, isTuple := x.Type().(*types.Tuple); !isTuple {
								amount[v], changed = true, true
							}
						}
					case *ssa.Extract:
						if cl, ok := x.Tuple.(*ssa.Call); ok && x.Index == 0 {
							if cal := cl.Call.StaticCallee(); cal != nil && len(cl.Call.Args) > 0 && amount[cl.Call.Args[0]] && strings.HasPrefix(cal.Name(), "divide") {
								amount[v], changed = true, true
							}
						}
					}
				}
			}
		}
		for _, b := range f.Blocks {
			iff, ok := b.Instrs[len(b.Instrs)-1].(*ssa.If)
			if !ok {
				continue
			}
			bo, ok := iff.Cond.(*ssa.BinOp)
			if !ok || !amount[bo.X] {
				continue
			}
			k, isC := bo.Y.(*ssa.Const)
			if !isC {
				continue
			}
			n++
			zero := k.Value != nil && constant.Sign(constant.ToFloat(k.Value)) == 0
			okCmp := zero && (bo.Op == token.EQL || bo.Op == token.NEQ || bo.Op == token.LEQ || bo.Op == token.GTR)
			c.Check(okCmp, "O11", "RET", fmt.Sprintf("%s: the running amount is only tested for exhaustion (%s %s)", funcKey(f), bo.Op, k.Value), instrPos(bo), "compared with 0",
				fmt.Sprintf("the amount still to distribute is compared with %s %s: the distribution stops (or skips) while a fraction is left — with fractional GPU requests unsatisfied queues of the same priority go without it, or a lower priority gets it", bo.Op, k.Value))
		}
	}
	c.Floor("O11", "RET comparisons of the running amount", n, 2)

	if f := c.Anchor("O12", pkg, "", "divideRemainingResource"); f != nil {
		m := 0
		for _, in := range instrsIn(f, func(in ssa.Instruction) bool {
			cc, ok := in.(ssa.CallInstruction)
			return ok && calleeOf(cc) != nil && calleeOf(cc).Name() == "Pop"
		}) {
			m++
			isAdd := func(x ssa.Instruction) bool {
				cc, ok := x.(ssa.CallInstruction)
				return ok && calleeOf(cc) != nil && calleeOf(cc).Name() == "AddResourceShare"
			}
			h := loopHeaderOf(in.Block())
			if h == nil {
				c.Viol("O12", "MPT", funcKey(f)+": every queue taken from the list receives its unit", instrPos(in), "the queues are not popped in a loop")
				continue
			}
			_, path, found := reachAvoiding([]cfgPos{afterInstr(in)}, func(x ssa.Instruction) bool {
				if x == h.Instrs[0] {
					return true
				}
				_, isRet := x.(*ssa.Return)
				return isRet
			}, isAdd, nil)
			c.Check(!found, "O12", "MPT", funcKey(f)+": every queue taken from the list receives its unit", instrPos(in), "Pop is followed by AddResourceShare on every path",
				"a queue can be popped from the remainder list without being given its unit ("+pathStr(path)+"): the unit stays undistributed although that queue — and possibly no other — still requests it")
		}
		c.Floor("O12", "MPT pops of the remainder list", m, 1)
	}
}

// runC09RequestCap (O13): what a queue can ask for is its request capped by its limit, for EVERY limit except the
// "no limit" sentinel — a limit of 0 caps the request at 0. In ResourceShare.GetRequestableShare the bare request is
// answered only where MaxAllowed == UnlimitedResourceQuantity has been established (a sign test treats 0 like "no
// limit": the queue's deserved share then exceeds what it can ever take and the same amount is missing from the
// surplus of its siblings).
func runC09RequestCap(c *Ctx) {
	fn := c.Anchor("O13", "pkg/scheduler/plugins/proportion/resource_share", "ResourceShare", "GetRequestableShare")
	if fn == nil {
		return
	}
	fx := c.Fx
	unlimited := func(fs FactSet) bool {
		_, ok := hasFact(fs, func(f Fact) bool {
			if f.T.Op != "bin" || len(f.T.Args) != 2 {
				return false
			}
			isMax := f.T.Args[0].lastField() == "MaxAllowed" && f.T.Args[1].String() == "const:-1"
			return isMax && ((f.T.Name == "==" && f.Pol) || (f.T.Name == "!=" && !f.Pol))
		})
		return ok
	}
	isBareRequest := func(v ssa.Value) bool {
		u, ok := v.(*ssa.UnOp)
		if !ok {
			return false
		}
		fa, ok := u.X.(*ssa.FieldAddr)
		return ok && termOf(fa).lastField() == "Request"
	}
	n := 0
	for _, b := range fn.Blocks {
		ret, ok := b.Instrs[len(b.Instrs)-1].(*ssa.Return)
		if !ok || len(ret.Results) != 1 {
			continue
		}
		v := ret.Results[0]
		if phi, isPhi := v.(*ssa.Phi); isPhi {
			for i, e := range phi.Edges {
				if !isBareRequest(e) {
					continue
				}
				n++
				pred := phi.Block().Preds[i]
				fs := fx.FactsAt(pred.Instrs[len(pred.Instrs)-1])
				fs = fs.clone()
				fs.addAll(fx.edgeFacts(pred, phi.Block(), 0))
				c.Check(fx.acceptWithExpansion(fs, unlimited), "O13", "RET", fmt.Sprintf("%s: the uncapped request is answered only for the 'no limit' sentinel (φ edge %d)", funcKey(fn), i), instrPos(ret), "MaxAllowed == UnlimitedResourceQuantity",
					"the request is returned uncapped for a limit that is not the 'no limit' sentinel (e.g. limit 0): the queue is given a deserved share it can never use and its siblings get less surplus")
			}
			continue
		}
		if !isBareRequest(v) {
			continue
		}
		n++
		c.Check(fx.allPathsSatisfy(ret, unlimited), "O13", "RET", funcKey(fn)+": the uncapped request is answered only for the 'no limit' sentinel", instrPos(ret), "MaxAllowed == UnlimitedResourceQuantity",
			"the request is returned uncapped for a limit that is not the 'no limit' sentinel (e.g. limit 0): the queue is given a deserved share it can never use and its siblings get less surplus")
	}
	c.Floor("O13", "RET uncapped answers of GetRequestableShare", n, 1)
}

// runC09UsageScaledByK (O14): in the time-aware share weight the historical usage counts with the factor kValue
// (weight + k·(weight − usage)): k = 0 switches the history off, a larger k punishes past usage harder. Decided: on the
// way from GetUsage() to the share weight the usage passes a multiplication whose other operand derives from the
// kValue parameter — in whatever algebraic form the expression is written. A usage that reaches the weight unscaled
// makes k = 0 configurations divide by history anyway (and k ≠ 1 ones with the wrong strength).
func runC09UsageScaledByK(c *Ctx) {
	f := c.Anchor("O14", "pkg/scheduler/plugins/proportion/resource_division", "", "calcShareWeights")
	if f == nil {
		return
	}
	n := 0
	// the weight formula may live in a helper of calcShareWeights: judged in the function that reads the usage, whose
	// own float parameter fed from kValue plays kValue's role
	for _, h := range c.P.deepFind(f, func(in ssa.Instruction) bool {
		cc, ok := in.(*ssa.Call)
		return ok && calleeOf(cc) != nil && calleeOf(cc).Name() == "GetUsage"
	}, 2) {
		in := h.In
		g := in.Parent()
		fromK := map[ssa.Value]bool{}
		if g == f {
			for _, prm := range f.Params {
				if b, ok := prm.Type().Underlying().(*types.Basic); ok && b.Info()&types.IsFloat != 0 {
					fromK[prm] = true
				}
			}
		} else if len(h.Chain) > 0 {
			// parameters of the helper that receive a value derived from calcShareWeights' float parameter
			cs, isCall := h.Chain[len(h.Chain)-1].(ssa.CallInstruction)
			if isCall {
				for i, a := range cs.Common().Args {
					if i < len(g.Params) && termOf(a).contains(func(x *Term) bool { return x.Op == "param" }) || (i < len(g.Params) && termOf(a).Op == "param") {
						if b, ok := g.Params[i].Type().Underlying().(*types.Basic); ok && b.Info()&types.IsFloat != 0 {
							if prm, isPrm := a.(*ssa.Parameter); isPrm {
								if pb, ok := prm.Type().Underlying().(*types.Basic); ok && pb.Info()&types.IsFloat != 0 {
									fromK[g.Params[i]] = true
								}
							}
						}
					}
				}
			}
		}
		if len(fromK) == 0 {
			c.Undec("O14", "ANCHOR", funcKey(g)+": the kValue operand", instrPos(in), "no float parameter carrying kValue found")
			continue
		}
		for changed := true; changed; {
			changed = false
			for _, b := range g.Blocks {
				for _, bi := range b.Instrs {
					if bo, ok := bi.(*ssa.BinOp); ok && !fromK[bo] && (fromK[bo.X] || fromK[bo.Y]) {
						fromK[bo], changed = true, true
					}
				}
			}
		}
		n++
		var bad ssa.Instruction
		type st struct {
			v      ssa.Value
			scaled bool
		}
		seen := map[st]bool{}
		var follow func(v ssa.Value, scaled bool)
		follow = func(v ssa.Value, scaled bool) {
			if seen[st{v, scaled}] || v.Referrers() == nil {
				return
			}
			seen[st{v, scaled}] = true
			for _, u := range *v.Referrers() {
				switch x := u.(type) {
				case *ssa.BinOp:
					other := x.X
					if other == v {
						other = x.Y
					}
					follow(x, scaled || (x.Op == token.MUL && fromK[other]))
				case *ssa.Phi:
					follow(x, scaled)
				case *ssa.Convert:
					follow(x, scaled)
				case *ssa.Call:
					if cal := calleeOf(x); cal != nil && funcPkgPath(cal) == "math" {
						follow(x, scaled) // math.Max / Min / Floor keep the quantity
					} else if !scaled {
						bad = x
					}
				case *ssa.MapUpdate, *ssa.Store, *ssa.Return:
					if !scaled {
						bad = u
					}
				}
			}
		}
		follow(in.(*ssa.Call), false)
		pos := instrPos(in)
		if bad != nil {
			pos = instrPos(bad)
		}
		c.Check(bad == nil, "O14", "DEP", funcKey(g)+": the historical usage enters the share weight scaled by kValue", pos, "every flow of GetUsage() into the weight passes a multiplication by a kValue-derived factor",
			"the historical usage reaches the share weight without the kValue factor: with kValue 0 (history switched off) the surplus is still divided by past usage, a sole unsatisfied queue with usage ≥ its weight gets nothing while surplus stays undistributed")
	}
	c.Floor("O14", "DEP usage reads of calcShareWeights", n, 1)
}

// fairShareSelectors: the functions that select the queues of a level for the recursive fair-share division — found
// by their use (the queue-set argument of the calls of setFairShareForQueues), not by their names: "top" feeds the
// first call, "child" the recursive one.
func fairShareSelectors(p *Prog) (top, child *ssa.Function) {
	sf := p.Func("pkg/scheduler/plugins/proportion", "proportionPlugin", "setFairShareForQueues")
	if sf == nil {
		return nil, nil
	}
	for _, fn := range p.FuncsIn("pkg/scheduler/plugins/proportion") {
		for _, in := range instrsIn(fn, isCallToFn(sf)) {
			args := in.(ssa.CallInstruction).Common().Args
			cl, ok := args[len(args)-1].(*ssa.Call)
			if !ok || cl.Call.StaticCallee() == nil {
				continue
			}
			if fn == sf {
				child = cl.Call.StaticCallee()
			} else {
				top = cl.Call.StaticCallee()
			}
		}
	}
	return top, child
}
