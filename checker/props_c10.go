package main

import (
	"fmt"
	"go/token"
	"go/types"
	"sort"
	"strings"

	"golang.org/x/tools/go/ssa"
)

func init() {
	register("C10", runC10,
		"Decides structural necessary conditions of 'a scheduling cycle completes on any API state': every walk that follows queue parent links is itself bounded or runs on a queue map derived from the snapshot, whose hierarchy sanitiser (bounded walk + delete) runs before the queues are published; recursions along child links follow links built only from the sanitised parents; every dereference of a queue looked up by id on the session path is guarded or justified by a reviewed invariant; sub-group minimums are forced to at least 1.",
		"general panic freedom (indexing, arithmetic, type assertions), and the liveness clause 'untouched workloads are still scheduled'")
}

// walkIsBounded: the loop of the walk has an exit controlled by an integer counter that is advanced in the
// loop and compared with a length or constant.
func walkIsBounded(w LinkWalk) bool {
	h := w.Header
	fn := w.Fn
	loopSet := naturalLoop(h)
	inLoop := func(b *ssa.BasicBlock) bool { return loopSet[b] }
	for _, b := range fn.Blocks {
		if !h.Dominates(b) {
			continue
		}
		iff, ok := b.Instrs[len(b.Instrs)-1].(*ssa.If)
		if !ok {
			continue
		}
		bo, ok := iff.Cond.(*ssa.BinOp)
		if !ok {
			continue
		}
		switch bo.Op {
		case token.LSS, token.LEQ, token.GTR, token.GEQ:
		default:
			continue
		}
		isCounter := func(v ssa.Value) bool {
			// phi at the header of int type advanced by +const on the back edge, or phi+const
			if add, ok := v.(*ssa.BinOp); ok && add.Op == token.ADD {
				v = add.X
			}
			phi, ok := v.(*ssa.Phi)
			if !ok || phi.Block() != h {
				return false
			}
			for i, e := range phi.Edges {
				if h.Dominates(h.Preds[i]) {
					if add, ok := e.(*ssa.BinOp); ok && add.Op == token.ADD && add.X == phi {
						return true
					}
				}
			}
			return false
		}
		if !isCounter(bo.X) && !isCounter(bo.Y) {
			continue
		}
		// one successor leaves the loop
		for _, s := range b.Succs {
			if !inLoop(s) {
				return true
			}
		}
	}
	return false
}

func hasBackEdgeTo(b, h *ssa.BasicBlock) bool {
	for _, s := range b.Succs {
		if s == h {
			return true
		}
	}
	return false
}

func runC10(c *Ctx) {
	runC10Synthetic(c)
	runC10StepGuardedByIndexedSlice(c)
	runC10NilWrites(c)
	runC10NilFields(c)
	runC10PerObjectErrors(c)
	p, fx := c.P, c.Fx
	nilmapFacts = fx
	nilmapProg = p
	pkgClusterInfo := "pkg/scheduler/cache/cluster_info"
	// ---- O1: hierarchy walks
	sanitised := map[string]bool{"pkg/scheduler/api/queue_info.QueueInfo": true, pkgResShare + ".QueueAttributes": true}
	nWalk := 0
	var boundedWalkers []*ssa.Function
	for _, fn := range p.AllFuncs {
		if isTestdataOrMock(fn) || !strings.HasPrefix(relPkg(funcPkgPath(fn)), "pkg/scheduler") {
			continue
		}
		for _, w := range findLinkWalks(fn, queueLinkFields) {
			nWalk++
			c.Analysed(funcKey(fn))
			bounded := walkIsBounded(w)
			if bounded {
				boundedWalkers = append(boundedWalkers, fn)
			}
			elem := ""
			if m, ok := w.Lookup.X.Type().Underlying().(*types.Map); ok {
				elem = typeKey(m.Elem())
			}
			ok := bounded || sanitised[elem]
			detail := "walks a sanitised queue map (" + elem + ")"
			if bounded {
				detail = "bounded by a step counter"
			}
			c.Check(ok, "O1", "WALK", funcKey(fn)+": parent walk over "+canon(w.Map), instrPos(w.Lookup), detail,
				"a loop follows ParentQueue links through a map that is neither bounded nor known to be cycle-free (element type "+elem+"): a parent cycle makes it spin forever")
		}
	}
	c.Floor("O1", "WALK parent-chain walks", nWalk, 12)
	// the sanitiser: reachable from UpdateQueueHierarchy, bounded walk + delete from the same map
	if uq := c.Anchor("O1", pkgClusterInfo, "", "UpdateQueueHierarchy"); uq != nil {
		okSan := false
		var sanFn *ssa.Function
		for _, in := range instrsIn(uq, func(in ssa.Instruction) bool { _, ok := in.(ssa.CallInstruction); return ok }) {
			cal := calleeOf(in.(ssa.CallInstruction))
			if cal == nil {
				continue
			}
			// bounded walks in the candidate itself, or in a helper it hands the map to (the map then is the
			// helper's parameter and is translated back to the candidate's argument)
			type bw struct{ m *Term }
			var walks []bw
			for _, w := range findLinkWalks(cal, queueLinkFields) {
				if walkIsBounded(w) {
					walks = append(walks, bw{w.Map})
				}
			}
			for _, hin := range instrsIn(cal, func(x ssa.Instruction) bool { _, ok := x.(ssa.CallInstruction); return ok }) {
				helper := calleeOf(hin.(ssa.CallInstruction))
				if helper == nil || len(helper.Blocks) == 0 || !hasModPrefix(helper) || sameFunc(helper, cal) {
					continue
				}
				for _, w := range findLinkWalks(helper, queueLinkFields) {
					if !walkIsBounded(w) {
						continue
					}
					if idx := w.Map.paramIndex(); idx >= 0 {
						args := hin.(ssa.CallInstruction).Common().Args
						if idx < len(args) {
							walks = append(walks, bw{termOf(args[idx])})
						}
					}
				}
			}
			for _, w := range walks {
				// deletes from the same map parameter
				for _, d := range instrsIn(cal, func(x ssa.Instruction) bool {
					cc, ok := x.(ssa.CallInstruction)
					if !ok {
						return false
					}
					bi, ok := cc.Common().Value.(*ssa.Builtin)
					return ok && bi.Name() == "delete"
				}) {
					if canon(termOf(d.(ssa.CallInstruction).Common().Args[0])) == canon(w.m) {
						okSan, sanFn = true, cal
					}
				}
			}
		}
		c.Check(okSan, "O1", "WALK", funcKey(uq)+": removes queues whose parent chain does not terminate", uq.Pos(), "bounded walk + delete in "+funcKey(sanFn),
			"the queue hierarchy sanitiser no longer removes parent cycles: every unbounded ParentQueue walk in the scheduler can spin forever on a cyclic queue graph (queue specs are not validated against cycles)")
		// cycle removal runs before children are linked and orphans are cleaned (orphans created by the removal are then cleaned)
		if sanFn != nil {
			var sanCall, childCall ssa.Instruction
			for _, in := range instrsIn(uq, isCallToFn(sanFn)) {
				sanCall = in
			}
			for _, in := range instrsIn(uq, func(in ssa.Instruction) bool {
				cc, ok := in.(ssa.CallInstruction)
				return ok && calleeOf(cc) != nil && calleeOf(cc) != sanFn
			}) {
				if childCall == nil {
					childCall = in
				}
			}
			c.Check(sanCall != nil && childCall != nil && dominatesInstr(sanCall, childCall), "O1", "MPT", funcKey(uq)+": cycles removed before children are linked / orphans cleaned", uq.Pos(), "order", "cycle removal does not run first: descendants of removed queues are not cleaned as orphans")
		}
		// the snapshot publishes queues only after sanitising
		n := 0
		for _, cs := range p.CallSites(uq) {
			fn := cs.Parent()
			if isTestdataOrMock(fn) {
				continue
			}
			n++
			arg := cs.Common().Args[0]
			// every store of that map into a struct field happens after the call
			bad := false
			for _, in := range instrsIn(fn, func(in ssa.Instruction) bool {
				st, ok := in.(*ssa.Store)
				return ok && st.Val == arg
			}) {
				if _, isField := in.(*ssa.Store).Addr.(*ssa.FieldAddr); isField && !dominatesInstr(cs, in) {
					bad = true
				}
			}
			c.Check(!bad, "O1", "MPT", funcKey(fn)+": queues published after the hierarchy sanitiser", instrPos(cs), "UpdateQueueHierarchy dominates the store into the snapshot", "the snapshot can publish the queue map before it was sanitised")
		}
		c.Floor("O1", "MPT snapshot sanitiser call sites", n, 1)
	}
	// ClusterInfo.Queues and the attribute maps are filled only from the sanitised snapshot
	checkMapWriters := func(id, what string, elemKey string, allowed map[string]string) {
		n := 0
		for _, fn := range p.AllFuncs {
			if isTestdataOrMock(fn) || !strings.HasPrefix(relPkg(funcPkgPath(fn)), "pkg/scheduler") {
				continue
			}
			for _, in := range instrsIn(fn, func(in ssa.Instruction) bool { _, ok := in.(*ssa.MapUpdate); return ok }) {
				mu := in.(*ssa.MapUpdate)
				m, ok := mu.Map.Type().Underlying().(*types.Map)
				if !ok || typeKey(m.Elem()) != elemKey {
					continue
				}
				if kn := namedOf(m.Key()); kn == nil || kn.Obj().Name() != "QueueID" {
					continue
				}
				n++
				k := funcKey(rootFunc(fn))
				reason, ok := allowed[k]
				c.Check(ok, id, "CALLERS", what+" filled by "+funcKey(fn), instrPos(in), reason, "a queue map walked by the scheduler is filled outside the reviewed constructors: it may contain queues that did not pass the hierarchy sanitiser")
			}
		}
		c.Floor(id, "CALLERS writers of "+what, n, 1)
	}
	checkMapWriters("O1", "map[QueueID]*QueueInfo", "pkg/scheduler/api/queue_info.QueueInfo", map[string]string{
		"(*pkg/scheduler/cache/cluster_info.ClusterInfo).snapshotQueues": "snapshot construction, sanitised by UpdateQueueHierarchy before publication",
	})
	attrWriters := map[string]string{
		"(*pkg/scheduler/plugins/proportion.proportionPlugin).createQueueResourceAttrs": "one entry per key of ssn.ClusterInfo.Queues",
		"(*pkg/scheduler/plugins/proportion.proportionPlugin).OnJobSolutionStartFn":     "clone of pp.queues",
		"pkg/scheduler/plugins/proportion/resource_division.getQueuesByPriority":        "partition (by priority) of the queue map passed in",
	}
	// the selectors of a level's queues for the fair-share recursion (identified by use): subsets of the plugin's map
	selTop, selChild := fairShareSelectors(p)
	for _, sel := range []*ssa.Function{selTop, selChild} {
		if sel != nil {
			attrWriters[funcKey(sel)] = "subset of pp.queues (queue selector of the fair-share recursion)"
		}
	}
	checkMapWriters("O1", "map[QueueID]*QueueAttributes", pkgResShare+".QueueAttributes", attrWriters)
	// recursion along child links
	nRec := 0
	for _, fn := range p.AllFuncs {
		if isTestdataOrMock(fn) || fn.Parent() != nil || !strings.HasPrefix(relPkg(funcPkgPath(fn)), "pkg/scheduler") {
			continue
		}
		recs := selfRecursions(fn)
		if len(recs) == 0 {
			continue
		}
		follows := false
		for _, b := range fn.Blocks {
			for _, in := range b.Instrs {
				if fa, ok := in.(*ssa.FieldAddr); ok && fieldOfAddr(fa).Name() == "ChildQueues" {
					follows = true
				}
			}
		}
		for _, an := range fn.AnonFuncs {
			_ = an
		}
		if !follows && !reachesField(p, fn, "ChildQueues", 2) {
			continue
		}
		nRec++
		c.Analysed(funcKey(fn))
		c.Hold("O1", "WALK", funcKey(fn)+": recursion along ChildQueues", fn.Pos(), "child links are derived from the sanitised parent links (writers checked below), so the child relation is a forest")
	}
	c.Floor("O1", "WALK child-link recursions", nRec, 2)
	cq := p.fieldVars("pkg/scheduler/api/queue_info", "QueueInfo", "ChildQueues")
	if len(cq) == 1 {
		ws := p.writersOf(cq)
		var ks []string
		for f := range ws {
			if !isTestdataOrMock(f) {
				ks = append(ks, funcKey(f))
			}
		}
		sort.Strings(ks)
		allowedCQ := map[string]bool{"(*pkg/scheduler/api/queue_info.QueueInfo).AddChildQueue": true, "pkg/scheduler/api/queue_info.NewQueueInfo": true}
		for _, k := range ks {
			c.Check(allowedCQ[k], "O1", "CALLERS", "QueueInfo.ChildQueues written by "+k, 0, "constructor / AddChildQueue", "child links are written outside AddChildQueue: they may disagree with the sanitised parent links")
		}
		if add := p.Func("pkg/scheduler/api/queue_info", "QueueInfo", "AddChildQueue"); add != nil {
			for _, cs := range p.CallSites(add) {
				if isTestdataOrMock(cs.Parent()) {
					continue
				}
				c.Check(funcKey(cs.Parent()) == "pkg/scheduler/cache/cluster_info.updateQueueChildren", "O1", "CALLERS", "AddChildQueue called by "+funcKey(cs.Parent()), instrPos(cs), "updateQueueChildren (after cycle removal)", "child links are added outside the hierarchy sanitiser")
			}
		}
	} else {
		c.Undec("O1", "ANCHOR", "QueueInfo.ChildQueues", 0, "field not found")
	}

	// ---- O2: unguarded dereference of a queue looked up by id
	justified := map[string]string{
		"(*pkg/scheduler/actions/reclaim.reclaimAction).attemptToReclaimForSpecificJob|p1.ClusterInfo.Queues":   "the job was popped from JobsOrderByQueues; InitializeWithJobs admits only jobs whose queue exists",
		"pkg/scheduler/actions/allocate.attemptToAllocateJob|p0.ClusterInfo.Queues":                             "the job was popped from JobsOrderByQueues; InitializeWithJobs admits only jobs whose queue exists",
		"(*pkg/scheduler/actions/utils.JobsOrderByQueues).PushJob|p0.ssn.ClusterInfo.Queues":                    "callers push jobs that passed InitializeWithJobs' queue-exists filter or were popped from this structure (re-push, scenario builder clones)",
		"pkg/scheduler/actions/utils.GetMessageOfEviction|p0.ClusterInfo.Queues":                                "the preemptor was popped from JobsOrderByQueues and the victim came from a victims queue (both filtered by InitializeWithJobs); parent lookups are nil-checked before use",
		"(*pkg/scheduler/plugins/proportion.proportionPlugin).getQueueAllocatedResourceFn|p0.queues":            "pp.queues has an entry for every key of ssn.ClusterInfo.Queues; callers pass elements of that map (nil parents are filtered by the caller)",
		"(*pkg/scheduler/plugins/proportion.proportionPlugin).getQueueDeservedResourcesFn|p0.queues":            "pp.queues has an entry for every key of ssn.ClusterInfo.Queues; callers pass elements of that map",
		"(*pkg/scheduler/plugins/proportion.proportionPlugin).getQueueFairShareFn|p0.queues":                    "pp.queues has an entry for every key of ssn.ClusterInfo.Queues; callers pass elements of that map",
		"(*pkg/scheduler/plugins/proportion/reclaimable.Reclaimable).CanReclaimResources|p1":                    "the reclaimer was popped from JobsOrderByQueues: its queue exists in ClusterInfo.Queues and therefore in the attribute map",
		"(*pkg/scheduler/plugins/proportion/reclaimable.Reclaimable).reclaimResourcesFromReclaimees|p1":         "the key is the UID of a queue returned by getLeveledQueues, i.e. of an element of the same map",
		"(*pkg/scheduler/plugins/proportion/reclaimable.Reclaimable).reclaimingQueuesRemainWithinBoundaries|p1": "sibling ids are keys of remainingResourcesMap, which are UIDs of elements of the same map",
	}
	used := map[string]bool{}
	nSites := 0
	for _, fn := range p.AllFuncs {
		if isTestdataOrMock(fn) || !strings.HasPrefix(relPkg(funcPkgPath(fn)), "pkg/scheduler") {
			continue
		}
		sites := findNilMapDerefs(fx, fn, "QueueID")
		if len(sites) == 0 {
			continue
		}
		c.Analysed(funcKey(fn))
		// group by (function, map)
		byMap := map[string][]NilMapSite{}
		for _, s := range sites {
			if insertedBefore(s.Lookup) {
				continue
			}
			byMap[canon(termOf(s.Lookup.X))] = append(byMap[canon(termOf(s.Lookup.X))], s)
		}
		for m, ss := range byMap {
			nSites += len(ss)
			// a reviewed invariant speaks about queues looked up by the id a job or queue carries for ITSELF; a lookup
			// keyed by a parent link (empty for a top-level queue, so the result is nil by design) is never covered by
			// it and needs a real guard at the use
			var own []NilMapSite
			for _, s := range ss {
				if termOf(s.Lookup.Index).lastField() == "ParentQueue" {
					c.Viol("O2", "NILMAP", funcKey(fn)+": deref of "+m+"[q.ParentQueue]", instrPos(s.Deref),
						"a queue looked up through a parent link is used without a nil test ("+s.How+" at "+p.Pos(instrPos(s.Deref))+"): a top-level queue has no parent, the lookup yields nil and the scheduling cycle panics")
					continue
				}
				own = append(own, s)
			}
			ss = own
			if len(ss) == 0 {
				continue
			}
			key := funcKey(rootFunc(fn)) + "|" + m
			why, ok := justified[key]
			used[key] = true
			if !ok {
				// a helper of reviewed functions inherits their invariant: the map is the helper's parameter and at
				// every call site the argument is a map the caller is reviewed for
				if w, inherited := inheritedJustification(p, rootFunc(fn), ss[0].Lookup.X, justified, used, 2); inherited {
					why, ok = "helper of reviewed callers: "+w, true
				}
			}
			var where []string
			for _, s := range ss {
				where = append(where, p.Pos(instrPos(s.Deref))+" ("+s.How+")")
			}
			c.Check(ok, "O2", "NILMAP", funcKey(fn)+": deref of "+m+"[id]", instrPos(ss[0].Deref), why,
				"a queue looked up by id is dereferenced without an ok / nil test and without a reviewed invariant that the key is present ("+strings.Join(where, ", ")+"): a workload naming a missing or pruned queue crashes the cycle")
		}
	}
	c.Floor("O2", "NILMAP unguarded-but-justified sites", nSites, 10)
	for k := range justified {
		if !used[k] {
			c.Hold("O2", "NILMAP", "table entry no longer needed: "+k, 0, "the site is now guarded or gone")
		}
	}

	// ---- O9: the same for sub-groups looked up by the name a POD carries. A pod's sub-group label is free text; the
	// snapshot files an unlabelled pod under "default" but keeps the raw (possibly empty, possibly unknown) name in
	// the pod, so a lookup by task.SubGroupName can miss even in a well-formed job.
	nSub := 0
	for _, fn := range p.AllFuncs {
		if isTestdataOrMock(fn) || !strings.HasPrefix(relPkg(funcPkgPath(fn)), "pkg/scheduler") {
			continue
		}
		for _, elemT := range []string{"elem:PodSet", "elem:SubGroupSet"} {
			for _, s := range findNilMapDerefs(fx, fn, elemT) {
				nSub++
				if termOf(s.Lookup.Index).lastField() != "SubGroupName" {
					continue
				}
				c.Viol("O9", "NILMAP", funcKey(fn)+": deref of the sub-group looked up by the pod's SubGroupName", instrPos(s.Deref),
					"a sub-group looked up by the name a pod carries is used without an ok / nil test ("+s.How+" at "+p.Pos(instrPos(s.Deref))+"): a pod without a sub-group label (filed under \"default\") or with an unknown one makes the action panic, in every cycle")
			}
		}
	}
	c.Hold("O9", "NILMAP", fmt.Sprintf("%d unguarded dereferences of looked-up sub-groups in pkg/scheduler, none keyed by a pod's SubGroupName", nSub), 0, "lookups by task.SubGroupName are guarded")

	// ---- O5: a value that is nil on some path (a merge with a nil constant) is not handed, unguarded, to a function
	// that dereferences the corresponding parameter without testing it
	nNilPhi := 0
	for _, fn := range p.AllFuncs {
		if isTestdataOrMock(fn) || !strings.HasPrefix(relPkg(funcPkgPath(fn)), "pkg/scheduler") {
			continue
		}
		for _, b := range fn.Blocks {
			for _, in := range b.Instrs {
				cc, ok := in.(ssa.CallInstruction)
				if !ok {
					continue
				}
				cal := calleeOf(cc)
				if cal == nil || len(cal.Blocks) == 0 || !hasModPrefix(cal) {
					continue
				}
				for i, a := range cc.Common().Args {
					phi, isPhi := a.(*ssa.Phi)
					if !isPhi || i >= len(cal.Params) {
						continue
					}
					if _, isPtr := phi.Type().Underlying().(*types.Pointer); !isPtr {
						continue
					}
					// a nil that arrives from a branch (not the initial value of a loop-carried variable: whether a loop
					// over an API list can run zero times is a different question) and that is compatible with what
					// is known at the call
					if lh := loopHeaderOf(phi.Block()); lh == phi.Block() {
						continue
					}
					hasNil := false
					for ei, e := range phi.Edges {
						k, isC := e.(*ssa.Const)
						if !isC || !k.IsNil() {
							continue
						}
						fs := fx.FactsAt(in).clone()
						fs.addAll(fx.blockFacts(fn, 0)[phi.Block().Preds[ei]])
						fs.addAll(fx.edgeFacts(phi.Block().Preds[ei], phi.Block(), 0))
						if !fs.Bottom {
							hasNil = true
						}
					}
					if !hasNil {
						continue
					}
					nNilPhi++
					if !(derefsParamUnconditionally(cal, cal.Params[i]) || derefsParamUnguarded(cal, cal.Params[i])) {
						continue
					}
					// guarded at the call site?
					pt := termOf(phi).String()
					_, guarded := fx.FactsAt(in).find(func(f Fact) bool {
						return factNilTerm(f, false, func(t *Term) bool { return t.String() == pt })
					})
					if fx.FactsAt(in).Bottom {
						guarded = true
					}
					c.Analysed(funcKey(fn))
					c.Check(guarded, "O5", "NILFLOW", fmt.Sprintf("%s: possibly-nil %s passed to %s", funcKey(fn), phi.Comment, cal.Name()), instrPos(in), "argument tested before the call", fmt.Sprintf("the value is nil on one incoming path and %s dereferences it without a test: the scheduling cycle panics when that path is taken", funcKey(cal)))
				}
			}
		}
	}
	c.Hold("O5", "NILFLOW", fmt.Sprintf("%d call arguments that merge with a nil constant examined", nNilPhi), 0, "only those whose callee dereferences the parameter unguarded are reported")

	// ---- O4: sub-group minimums
	nps := p.Func(pkgSubGroup, "", "NewPodSet")
	sma := p.Func(pkgSubGroup, "PodSet", "SetMinAvailable")
	exemptMin := map[string]string{
		"pkg/scheduler/actions/common/solvers.getPartialJobRepresentative": "counts of pending tasks per sub-group (each incremented at least once)",
		"(*pkg/scheduler/api/podgroup_info/subgroup_info.PodSet).Clone":    "copies the minimum of an existing pod set",
	}
	nMin := 0
	for _, reg := range []struct {
		fn  *ssa.Function
		arg int
	}{{nps, 1}, {sma, 1}} {
		if reg.fn == nil {
			c.Undec("O4", "ANCHOR", "NewPodSet/SetMinAvailable", 0, "not found")
			continue
		}
		for _, cs := range p.CallSites(reg.fn) {
			fn := cs.Parent()
			if isTestdataOrMock(fn) {
				continue
			}
			nMin++
			a := cs.Common().Args[reg.arg]
			ok := false
			why := ""
			if k, isC := a.(*ssa.Const); isC {
				f, _ := constantFloat(k)
				ok, why = f >= 1, fmt.Sprintf("constant %v", f)
			} else if call, isCall := a.(*ssa.Call); isCall {
				if bi, isB := call.Common().Value.(*ssa.Builtin); isB && bi.Name() == "max" {
					for _, ma := range call.Common().Args {
						if k, isC := ma.(*ssa.Const); isC {
							if f, _ := constantFloat(k); f >= 1 {
								ok, why = true, "max(spec, 1)"
							}
						}
					}
				}
			}
			if !ok {
				if w, ex := exemptMin[funcKey(fn)]; ex {
					ok, why = true, "exempt: "+w
				}
			}
			c.Check(ok, "O4", "RET", funcKey(fn)+": pod-set minimum ≥ 1 ("+reg.fn.Name()+")", instrPos(cs), why, "a pod set can be given a minimum below 1 taken from the API object (zero or negative minMember): slices and counters sized by the minimum then panic or never fill")
		}
	}
	c.Floor("O4", "RET pod-set minimum sites", nMin, 4)
	// a task naming an unknown sub-group is dropped, never filed under another pod set (the allocate loop
	// matches tasks to pod sets by that name; a mismatch makes a job "allocatable" with zero tasks forever)
	if ati := c.Anchor("O4", pkgPGInfo, "PodGroupInfo", "AddTaskInfo"); ati != nil {
		assign := p.Func(pkgSubGroup, "PodSet", "AssignTask")
		calls := instrsIn(ati, isCallToFn(assign))
		c.Floor("O4", "DOM AssignTask sites in AddTaskInfo", len(calls), 1)
		for _, call := range calls {
			recv := call.(ssa.CallInstruction).Common().Args[0]
			ok := false
			if lk := lookupOf(recv); lk != nil && strings.HasSuffix(canon(termOf(lk.X)), ".PodSets") {
				_, okV := lookupParts(lk)
				ok = guardedNonNil(fx, call, recv, okV)
				// the key is the task's own sub-group name (or the default name when it has none)
				kt := termOf(lk.Index).String()
				if phi, isPhi := lk.Index.(*ssa.Phi); isPhi {
					kt = ""
					for _, e := range phi.Edges {
						kt += termOf(e).String() + "|"
					}
				}
				ok = ok && strings.Contains(kt, ".SubGroupName")
			}
			c.Check(ok, "O4", "DOM", funcKey(ati)+": a task is filed only under the pod set it names", instrPos(call), "PodSets[task sub-group name] found", "a task whose sub-group name matches no pod set is filed under another pod set: the allocate loop matches tasks to pod sets by name, so such a job is 'allocated' with zero tasks and re-queued forever")
		}
	}
	// a bad sub-group graph returns an error and the default pod set is kept
	if ssg := c.Anchor("O4", pkgPGInfo, "PodGroupInfo", "setSubGroups"); ssg != nil {
		from := p.Func(pkgSubGroup, "", "FromPodGroup")
		rootF := p.fieldVars(pkgPGInfo, "PodGroupInfo", "RootSubGroupSet", "PodSets")
		for _, call := range instrsIn(ssg, isCallToFn(from)) {
			ok, why := true, ""
			// on the error edge nothing is stored into RootSubGroupSet / PodSets
			vals, _ := errValuesOf(call.(*ssa.Call))
			isErr := func(v ssa.Value) bool {
				for _, e := range vals {
					if v == e {
						return true
					}
				}
				return false
			}
			_, path, found := reachAvoiding([]cfgPos{afterInstr(call)}, isStoreToField(rootF), nil, func(from, to *ssa.BasicBlock) bool {
				return !edgeAssertsNil(fx, from, to, isErr)
			})
			if found {
				ok, why = false, pathStr(path)
			}
			c.Check(ok, "O4", "MPT", funcKey(ssg)+": a rejected sub-group graph leaves the default pod set in place", instrPos(call), "no store on the error path", "sub-group state is overwritten although FromPodGroup rejected the graph ("+why+")")
		}
	}
}

// insertedBefore: the lookup is dominated by a MapUpdate of the same map and key in the same function
// (insert-if-absent followed by a re-read).
func insertedBefore(lk *ssa.Lookup) bool {
	fn := lk.Parent()
	mt, kt := termOf(lk.X).String(), termOf(lk.Index).String()
	for _, b := range fn.Blocks {
		for _, in := range b.Instrs {
			if mu, ok := in.(*ssa.MapUpdate); ok && termOf(mu.Map).String() == mt && termOf(mu.Key).String() == kt && dominatesInstr(mu, lk) {
				return true
			}
		}
	}
	return false
}

func reachesField(p *Prog, fn *ssa.Function, field string, depth int) bool {
	return p.reachesInstr(fn, func(in ssa.Instruction) bool {
		fa, ok := in.(*ssa.FieldAddr)
		return ok && fieldOfAddr(fa).Name() == field
	}, depth, map[*ssa.Function]bool{})
}

// inheritedJustification: the looked-up map is a parameter of helper fn, and every (non-test) call site of fn
// passes a map for which the calling function is listed in the table (or inherits in turn).
func inheritedJustification(p *Prog, fn *ssa.Function, mapVal ssa.Value, table map[string]string, used map[string]bool, depth int) (string, bool) {
	prm, ok := stripConv(mapVal).(*ssa.Parameter)
	if !ok || depth == 0 || prm.Parent() != fn {
		return "", false
	}
	idx := paramIndexOf(prm)
	n := 0
	why := ""
	for _, cs := range p.CallSites(fn) {
		caller := rootFunc(cs.Parent())
		if isTestdataOrMock(caller) {
			continue
		}
		args := cs.Common().Args
		if cs.Common().IsInvoke() || idx >= len(args) {
			return "", false
		}
		n++
		key := funcKey(caller) + "|" + canon(termOf(args[idx]))
		if w, ok := table[key]; ok {
			used[key] = true
			why = w
			continue
		}
		if w, ok := inheritedJustification(p, caller, args[idx], table, used, depth-1); ok {
			why = w
			continue
		}
		return "", false
	}
	return why, n > 0
}

// C10-O6 (DOM): a synthetic queue cannot be replaced by an API object. With project-level fairness the snapshot files
// a synthetic parent ("default") in the queue map and re-parents every listed queue to it. The map is keyed by the
// queue's name, so a listed Queue of that very name would replace the synthetic parent and become its own parent —
// and, because every other queue now hangs below a cycle, the hierarchy sanitiser removes ALL queues: one oddly
// named Queue stops scheduling for the whole cluster. Every other insertion into a map that received a synthetic
// queue is therefore guarded by "its name is not the synthetic one's".
func runC10Synthetic(c *Ctx) {
	p, fx := c.P, c.Fx
	fn := c.Anchor("O6", "pkg/scheduler/cache/cluster_info", "ClusterInfo", "snapshotQueues")
	synth := p.Func("pkg/scheduler/cache/cluster_info", "ClusterInfo", "getDefaultParentQueue")
	if fn == nil {
		return
	}
	if synth == nil {
		c.Hold("O6", "DOM", funcKey(fn)+": no synthetic queue is filed", fn.Pos(), "getDefaultParentQueue does not exist")
		return
	}
	var synthMaps []ssa.Value
	var others []*ssa.MapUpdate
	for _, in := range instrsIn(fn, func(in ssa.Instruction) bool { _, ok := in.(*ssa.MapUpdate); return ok }) {
		mu := in.(*ssa.MapUpdate)
		if termOf(mu.Value).contains(func(x *Term) bool { return x.isCallTo(synth) }) {
			synthMaps = append(synthMaps, mu.Map)
		} else {
			others = append(others, mu)
		}
	}
	if len(synthMaps) == 0 {
		c.Hold("O6", "DOM", funcKey(fn)+": no synthetic queue is filed", fn.Pos(), "nothing to protect")
		return
	}
	n := 0
	for _, mu := range others {
		same := false
		for _, m := range synthMaps {
			if m == mu.Map {
				same = true
			}
		}
		if !same {
			continue
		}
		// only insertions that can meet the synthetic queue: those reachable after it was filed
		reach := false
		for _, in := range instrsIn(fn, func(in ssa.Instruction) bool {
			m2, ok := in.(*ssa.MapUpdate)
			return ok && termOf(m2.Value).contains(func(x *Term) bool { return x.isCallTo(synth) })
		}) {
			if _, _, found := reachAvoiding([]cfgPos{afterInstr(in)}, func(x ssa.Instruction) bool { return x == ssa.Instruction(mu) }, nil, nil); found {
				reach = true
			}
		}
		if !reach {
			continue
		}
		n++
		d, ok := hasFact(fx.FactsAt(mu), func(f Fact) bool {
			if f.T.Op != "bin" || len(f.T.Args) != 2 {
				return false
			}
			ne := (f.T.Name == "==" && !f.Pol) || (f.T.Name == "!=" && f.Pol)
			if !ne {
				return false
			}
			nameSide := func(t *Term) bool {
				return t.lastField() == "Name" || t.lastField() == "UID" || strings.Contains(t.String(), "GetName")
			}
			synthSide := func(t *Term) bool {
				return (t.Op == "const" && strings.Contains(t.String(), "\"")) || t.contains(func(x *Term) bool { return x.isCallTo(synth) })
			}
			return (nameSide(f.T.Args[0]) && synthSide(f.T.Args[1])) || (nameSide(f.T.Args[1]) && synthSide(f.T.Args[0]))
		})
		c.Check(ok, "O6", "DOM", funcKey(fn)+": a listed queue cannot replace the synthetic parent queue", instrPos(mu), trunc(d, 120),
			"a Queue object whose name equals the synthetic parent's is filed under the same key: it replaces the parent, becomes its own parent, and the cycle removal then deletes every queue of the cluster (nothing is scheduled any more)")
	}
	c.Floor("O6", "DOM insertions next to a synthetic queue", n, 1)
}

// C10-O7 (NILWRITE): no write into the Annotations / Labels map of an API object without the map being known non-nil.
// An object without annotations (or labels) carries a nil map; `obj.Annotations[k] = v` then panics with "assignment
// to entry in nil map" — inside Snapshot / OpenSession that is a crash of every scheduling cycle while the object
// exists. Every such write on the scheduler's paths is preceded, on every path, by a nil test, a successful lookup in
// the same map, or an assignment of a fresh map.
func runC10NilWrites(c *Ctx) {
	p, fx := c.P, c.Fx
	total := 0
	for _, fn := range p.FuncsIn("pkg/scheduler") {
		if isTestdataOrMock(fn) {
			continue
		}
		bad, n := nilMapWrites(fx, fn)
		total += n
		for _, in := range bad {
			c.Viol("O7", "NILWRITE", funcKey(fn)+": write into "+trunc(termOf(in.(*ssa.MapUpdate).Map).String(), 80)+" behind a nil test", instrPos(in),
				"an Annotations/Labels map of an API object is written on a path that has neither tested it for nil nor initialised it: for an object without annotations (labels) the scheduling cycle panics with 'assignment to entry in nil map'")
		}
	}
	c.Hold("O7", "NILWRITE", fmt.Sprintf("%d writes into Annotations/Labels maps in pkg/scheduler are guarded or follow an initialisation", total), 0, "no unguarded write")
	c.Floor("O7", "NILWRITE annotation/label map writes", total, 3)
}

// C10-O8 (NILFIELD): an optional field of an API object is not dereferenced without a nil test. Optional scalars of
// Kubernetes and KAI API types are pointers (spec.storageClassName, spec.nodeName of a ResourceSlice, backoffLimit …);
// a well-typed object may leave them unset. Every `*obj.F` on such a field in the scheduler is dominated by
// `obj.F != nil` (the rule found F21: a PVC without storage class crashed every snapshot).
func runC10NilFields(c *Ctx) {
	p, fx := c.P, c.Fx
	nilmapProg = p
	total := 0
	var fns []*ssa.Function
	fns = append(fns, p.FuncsIn("pkg/scheduler")...)
	fns = append(fns, p.FuncsIn("pkg/common/resources")...) // helpers the snapshot calls for every pod / claim
	for _, fn := range fns {
		if isTestdataOrMock(fn) {
			continue
		}
		bad, n := nilFieldDerefs(fx, fn)
		total += n
		for _, in := range bad {
			var through ssa.Value
			switch x := in.(type) {
			case *ssa.UnOp:
				through = x.X
			case *ssa.FieldAddr:
				through = x.X
			}
			c.Viol("O8", "NILFIELD", funcKey(fn)+": *"+trunc(termOf(through).String(), 80)+" behind a nil test", instrPos(in),
				"an optional (pointer) field of an API object is dereferenced without a nil test: an object that leaves the field unset makes the scheduling cycle panic")
		}
	}
	c.Hold("O8", "NILFIELD", fmt.Sprintf("%d dereferences of optional API fields in pkg/scheduler are behind a nil test", total), 0, "no unguarded dereference")
	c.Floor("O8", "NILFIELD optional-field dereferences", total, 3)
}

// runC10PerObjectErrors (O10): the snapshot is built from whatever the API holds. When ONE listed object cannot be
// converted (a CSIStorageCapacity with an invalid selector, a malformed claim) that object is skipped; the snapshot —
// and with it the scheduling cycle for every other workload — must not fail. Decided: in the snapshot functions of
// cluster_info no error return inside a loop over listed objects is caused by a call that was given the loop's
// element (a lister call that fails is a different matter: the informer is broken, not an object).
func runC10PerObjectErrors(c *Ctx) {
	fx := c.Fx
	n := 0
	for _, fn := range c.P.FuncsIn("pkg/scheduler/cache/cluster_info") {
		if isTestdataOrMock(fn) || fn.Parent() != nil || !strings.HasPrefix(fn.Name(), "snapshot") {
			continue
		}
		res := fn.Signature.Results()
		if res.Len() == 0 || !types.Identical(res.At(res.Len()-1).Type(), errorType) {
			continue
		}
		c.Analysed(funcKey(fn))
		for _, b := range fn.Blocks {
			ret, ok := b.Instrs[len(b.Instrs)-1].(*ssa.Return)
			if !ok || !insideLoopBody(b) {
				continue
			}
			ev := unspill(ret, res.Len()-1)
			if k, isC := ev.(*ssa.Const); isC && k.IsNil() {
				continue
			}
			n++
			// the call(s) the returned error comes from (directly, or wrapped by fmt.Errorf / errors.*)
			var culprit ssa.CallInstruction
			var walk func(v ssa.Value, d int)
			seenV := map[ssa.Value]bool{}
			walk = func(v ssa.Value, d int) {
				if v == nil || d == 0 || seenV[v] {
					return
				}
				seenV[v] = true
				switch x := v.(type) {
				case *ssa.Extract:
					walk(x.Tuple, d)
				case *ssa.Phi:
					for _, e := range x.Edges {
						walk(e, d-1)
					}
				case *ssa.MakeInterface:
					walk(x.X, d)
				case *ssa.ChangeInterface:
					walk(x.X, d)
				case *ssa.UnOp:
					if a, isA := x.X.(*ssa.Alloc); isA {
						for _, sv := range storedValues(a) {
							walk(sv, d-1)
						}
					}
				case *ssa.Call:
					if x.Common().IsInvoke() {
						return
					}
					cal := x.Common().StaticCallee()
					if cal != nil && (funcPkgPath(cal) == "fmt" || strings.HasSuffix(funcPkgPath(cal), "errors")) {
						for _, a := range x.Common().Args {
							for _, sv := range valueSources(a, 3) {
								if sv != a {
									walk(sv, d-1)
								}
							}
							walk(a, d-1)
						}
						return
					}
					for _, a := range x.Common().Args {
						if derivesFromLoopElement(a, 3) {
							culprit = x
						}
					}
				}
			}
			walk(ev, 5)
			_ = fx
			what := ""
			if culprit != nil {
				what = termOf(culprit.Value()).String()
			}
			c.Check(culprit == nil, "O10", "MPT", fmt.Sprintf("%s: one object that cannot be processed does not fail the snapshot (return in loop, block %d)", funcKey(fn), b.Index), instrPos(ret), "in-loop error returns come from lister calls only",
				"the snapshot fails when one listed object cannot be processed ("+trunc(what, 100)+"): a single malformed object of any tenant stops every scheduling cycle, for all workloads")
		}
	}
	c.Hold("O10", "MPT", fmt.Sprintf("%d in-loop error returns of the snapshot functions examined", n), 0, "none caused by a per-object conversion")
}

// derivesFromLoopElement: v is (a field / conversion of) the element of a range loop.
func derivesFromLoopElement(v ssa.Value, depth int) bool {
	if depth == 0 {
		return false
	}
	switch x := v.(type) {
	case *ssa.Extract:
		if _, isNext := x.Tuple.(*ssa.Next); isNext {
			return true
		}
	case *ssa.UnOp:
		if x.Op == token.MUL {
			if ia, ok := x.X.(*ssa.IndexAddr); ok {
				_ = ia
				return loopHeaderOf(x.Block()) != nil
			}
			return derivesFromLoopElement(x.X, depth-1)
		}
	case *ssa.FieldAddr:
		return derivesFromLoopElement(x.X, depth-1)
	case *ssa.IndexAddr:
		return loopHeaderOf(x.Block()) != nil
	case *ssa.ChangeType:
		return derivesFromLoopElement(x.X, depth-1)
	case *ssa.MakeInterface:
		return derivesFromLoopElement(x.X, depth-1)
	}
	return false
}

// runC10StepGuardedByIndexedSlice (O11): "take one more step if there is room" — an index that is advanced under a test
// `i+1 < len(S)` and then used to index a slice X is in range only if S is X. In the min-runtime resolver the step
// down from the lowest common ancestor is guarded by the length of the path it then indexes; guarded by the other
// path's length it runs past the end whenever the victim's queue path is a strict prefix of the reclaimer's, and the
// reclaim action panics for every cycle in which such a pair of workloads exists.
func runC10StepGuardedByIndexedSlice(c *Ctx) {
	n := 0
	for _, fn := range c.P.FuncsIn("pkg/scheduler/plugins/minruntime") {
		for _, b := range fn.Blocks {
			iff, ok := b.Instrs[len(b.Instrs)-1].(*ssa.If)
			if !ok {
				continue
			}
			cmp, ok := iff.Cond.(*ssa.BinOp)
			if !ok || cmp.Op != token.LSS {
				continue
			}
			add, ok := cmp.X.(*ssa.BinOp)
			if !ok || add.Op != token.ADD {
				continue
			}
			if k, isK := add.Y.(*ssa.Const); !isK || k.Value == nil || k.Value.ExactString() != "1" {
				continue
			}
			lenCall, ok := cmp.Y.(*ssa.Call)
			if !ok {
				continue
			}
			if bi, isB := lenCall.Call.Value.(*ssa.Builtin); !isB || bi.Name() != "len" {
				continue
			}
			guardSlice := termOf(lenCall.Call.Args[0]).String()
			// values derived from the advanced index: i+1 itself (recomputed or reused), φ of it, ± constants
			derived := map[ssa.Value]bool{}
			for _, bb := range fn.Blocks {
				for _, in := range bb.Instrs {
					if bo, ok := in.(*ssa.BinOp); ok && bo.Op == token.ADD && bo.X == add.X {
						if k, isK := bo.Y.(*ssa.Const); isK && k.Value != nil && k.Value.ExactString() == "1" && (bo == add || b.Dominates(bb)) {
							derived[bo] = true
						}
					}
				}
			}
			for changed := true; changed; {
				changed = false
				for _, bb := range fn.Blocks {
					for _, in := range bb.Instrs {
						v, isV := in.(ssa.Value)
						if !isV || derived[v] {
							continue
						}
						switch x := in.(type) {
						case *ssa.Phi:
							for _, e := range x.Edges {
								if derived[e] {
									derived[v], changed = true, true
								}
							}
						case *ssa.BinOp:
							if _, isK := x.Y.(*ssa.Const); isK && (x.Op == token.ADD || x.Op == token.SUB) && derived[x.X] {
								derived[v], changed = true, true
							}
						}
					}
				}
			}
			for _, bb := range fn.Blocks {
				for _, in := range bb.Instrs {
					ia, ok := in.(*ssa.IndexAddr)
					if !ok || !derived[ia.Index] {
						continue
					}
					n++
					indexed := termOf(ia.X).String()
					c.Check(indexed == guardSlice, "O11", "DOM", funcKey(fn)+": the step is guarded by the length of the slice it indexes", instrPos(ia), "i+1 < len("+trunc(guardSlice, 40)+") guards "+trunc(indexed, 40)+"[i]",
						"an index advanced under `i+1 < len("+trunc(guardSlice, 60)+")` is used to index "+trunc(indexed, 60)+": when that slice is the shorter one the access is out of range and the action panics in every cycle in which the two workloads exist")
				}
			}
		}
	}
	c.Floor("O11", "DOM index steps guarded by a slice length in the min-runtime resolver", n, 1)
}
