package main

import (
	"fmt"
	"go/token"
	"go/types"
	"sort"
	"strings"

	"golang.org/x/tools/go/ssa"
)

func init() {
	register("C11", runC11,
		"Decides structural necessary conditions of 'binding is all-or-nothing': the pods/binding create is the last fallible step of Binder.Bind; every failing Bind in Reconcile reaches Rollback; Rollback (binder and plugin registry) runs every step and joins errors; the node synced on bind and rollback is the request's SelectedNode; Bind is attempted only for live, not-yet-succeeded requests of unbound pods and its outcome (including a recovered panic) always reaches UpdateStatus; plugins that create objects in PreBind / Bind release them in Rollback / UnAllocate.",
		"behaviour under a fault at API call k or a crash (needs execution); idempotence of a retry")
}

const pkgBinding = "pkg/binder/binding"
const pkgBinderCtl = "pkg/binder/controllers"
const pkgBinderPlugins = "pkg/binder/plugins"

func isSubresourceCreate(in ssa.Instruction, sub string) bool {
	c, ok := in.(ssa.CallInstruction)
	if !ok {
		return false
	}
	m := invokedMethod(c)
	if m == nil || m.Name() != "Create" {
		return false
	}
	recv, ok := c.Common().Value.(*ssa.Call)
	if !ok || invokedMethod(recv) == nil || invokedMethod(recv).Name() != "SubResource" {
		return false
	}
	k, ok := recv.Common().Args[0].(*ssa.Const)
	return ok && strings.Contains(k.Value.ExactString(), sub)
}

func runC11(c *Ctx) {
	runC11ClaimFill(c)
	runC11SwallowedErrors(c)
	runC11OutcomeKept(c)
	runC11ReservedForIdentity(c)
	runC11BindingPrecondition(c)
	borrow(c, "O13", "C17", "O2", "every handed-out mutex is counted", "a waiter that is not counted loses the group mutex when the holder releases: a concurrent sync then runs inside the reservation critical section and deletes the reservation pod of a bind that is about to succeed")
	borrow(c, "O13", "C17", "O2", "reference count changed once", "the per-group mutex is shared by the bind and the syncs of that group only while every user is counted")
	runC11LabelRemoval(c)
	runC11ImmediateDelete(c)
	borrow(c, "O7", "C17", "O2", "paired with ReleaseMutex", "a failed reservation step must not leave the group mutex held: the rollback of the same attempt would block forever and the request would never be reported failed")
	borrow(c, "O6", "C17", "O5", "label patch is applied through", "rollback removes the labels it sees on the reconciler's pod object")

	p, fx := c.P, c.Fx
	bind := c.Anchor("O1", pkgBinding, "Binder", "Bind")
	rollback := c.Anchor("O3", pkgBinding, "Binder", "Rollback")
	reconcile := c.Anchor("O2", pkgBinderCtl, "BindRequestReconciler", "Reconcile")
	if bind == nil || rollback == nil || reconcile == nil {
		return
	}
	// ---- O1: the binding create is the last fallible step
	creates := instrsIn(bind, func(in ssa.Instruction) bool { return isSubresourceCreate(in, "binding") })
	c.Floor("O1", "MPT pods/binding create sites", len(creates), 1)
	for _, cr := range creates {
		call := cr.(*ssa.Call)
		isErr := func(v ssa.Value) bool { return v == ssa.Value(call) }
		// after the create succeeded (err == nil edge), no return of a possibly non-nil error
		bad := ""
		for _, b := range bind.Blocks {
			ret, ok := b.Instrs[len(b.Instrs)-1].(*ssa.Return)
			if !ok {
				continue
			}
			if k, isC := unspill(ret, 0).(*ssa.Const); isC && k.IsNil() {
				continue
			}
			// reachable from the create along edges that do not assert "create failed"?
			_, path, found := reachAvoiding([]cfgPos{afterInstr(call)}, func(x ssa.Instruction) bool { return x == ssa.Instruction(ret) }, nil, func(from, to *ssa.BasicBlock) bool {
				// prune the failure edge of the create itself
				iff, ok := from.Instrs[len(from.Instrs)-1].(*ssa.If)
				if !ok {
					return true
				}
				if condAssertsNil(iff.Cond, from.Succs[0] != to, isErr, 0) {
					// this edge asserts err != nil … i.e. the create failed: allowed to return the error
					return false
				}
				return true
			})
			if found {
				bad = p.Pos(instrPos(ret)) + " (" + pathStr(path) + ")"
			}
		}
		c.Check(bad == "", "O1", "MPT", funcKey(bind)+": pods/binding create is the last fallible step", instrPos(cr), "after a successful create only nil is returned", "Binder.Bind can return an error after the pod was bound ("+bad+"): Reconcile then rolls back the side objects of a bound pod and reports the request Failed")
		// and nothing fallible that matters happens before? every other API write precedes the create: no Patch/Create/Update/Delete invoke after it
		after := ""
		if in, _, found := reachAvoiding([]cfgPos{afterInstr(call)}, func(x ssa.Instruction) bool {
			cc, ok := x.(ssa.CallInstruction)
			if !ok || invokedMethod(cc) == nil {
				return false
			}
			switch invokedMethod(cc).Name() {
			case "Patch", "Create", "Update", "Delete":
				return strings.Contains(typeKey(invokedMethod(cc).Type().(*types.Signature).Recv().Type()), "client")
			}
			return false
		}, nil, nil); found {
			after = p.Pos(instrPos(in))
		}
		c.Check(after == "", "O1", "MPT", funcKey(bind)+": no API write after the binding create", instrPos(cr), "none", "an API write follows the binding create in Binder.Bind ("+after+"): its failure cannot be rolled back")
	}

	// ---- O2: failing Bind ⇒ Rollback
	// the attempt may live in a helper of Reconcile: it is searched through the functions Reconcile calls; the
	// failure analysis is then made where the call is, the guards are collected along the call chain
	var bindCalls []ssa.Instruction
	bindHit := map[ssa.Instruction]deepHit{}
	for _, h := range p.deepFind(reconcile, isInvokeNamed("Bind"), 2) {
		bindCalls = append(bindCalls, h.In)
		bindHit[h.In] = h
	}
	c.Floor("O2", "MPT Bind calls in Reconcile", len(bindCalls), 1)
	for _, bc := range bindCalls {
		ok, why := failureCleanup(fx, bc.(*ssa.Call), isInvokeNamed("Rollback"))
		if strings.Contains(why, "deferred closure") {
			ok = false // the deferred status update is not the rollback
		}
		if !ok {
			// inline shape
			vals, allocs := errValuesOf(bc.(*ssa.Call))
			isErr := func(v ssa.Value) bool {
				for _, e := range vals {
					if v == e {
						return true
					}
				}
				if u, isU := v.(*ssa.UnOp); isU && u.Op == token.MUL {
					for _, a := range allocs {
						if u.X == a {
							return true
						}
					}
				}
				return false
			}
			_, path, found := reachAvoiding([]cfgPos{afterInstr(bc)}, isReturn, isInvokeNamed("Rollback"), func(from, to *ssa.BasicBlock) bool {
				return !edgeAssertsNil(fx, from, to, isErr)
			})
			ok, why = !found, pathStr(path)
		}
		c.Check(ok, "O2", "MPT", funcKey(reconcile)+": a failed Bind is rolled back", instrPos(bc), "every path with a non-nil error passes binder.Rollback", "a failed bind attempt can return without Rollback: side objects (GPU-group label, reservation pod, config maps, claims) of the attempt are left behind ("+why+")")
	}

	// ---- O3: Rollback never short-circuits; node arguments
	{
		plugRb := instrsIn(rollback, isCallToFn(p.Func(pkgBinderPlugins, "BinderPlugins", "Rollback")))
		_, path, found := reachAvoiding([]cfgPos{entryPos(rollback)}, isReturn, func(in ssa.Instruction) bool { return len(plugRb) > 0 && in == plugRb[0] }, nil)
		c.Check(len(plugRb) == 1 && !found, "O3", "MPT", funcKey(rollback)+": plugin rollback on every path", rollback.Pos(), "always", "Binder.Rollback can return without rolling the plugins back ("+pathStr(path)+")")
		for _, step := range []string{"RemovePodGpuGroupsConnection", "SyncForNode"} {
			// every path to the return runs the step, except paths that establish "not a shared-GPU request"
			_, pth, fnd := reachAvoiding([]cfgPos{entryPos(rollback)}, isReturn, isInvokeNamed(step), func(from, to *ssa.BasicBlock) bool {
				return !fx.edgeEstablishes(from, to, func(f Fact) bool { return !f.Pol && isCallNamed(f.T, "IsSharedGPUAllocation") })
			})
			has := len(p.deepFind(rollback, isInvokeNamed(step), 2)) > 0
			c.Check(has && !fnd, "O3", "MPT", funcKey(rollback)+": "+step+" on every shared-GPU rollback", rollback.Pos(), "errors are joined, never short-circuit", "Rollback can return for a shared-GPU request without "+step+" (an earlier failing step short-circuits it): "+pathStr(pth))
		}
	}
	for _, fn := range []*ssa.Function{bind, rollback} {
		for _, h := range p.deepFind(fn, isInvokeNamed("SyncForNode"), 2) {
			in := h.In
			t := liftTerm(termOf(in.(ssa.CallInstruction).Common().Args[1]), h.Chain)
			c.Check(strings.HasSuffix(t.String(), ".Spec.SelectedNode"), "O3", "PROV", funcKey(fn)+": SyncForNode(SelectedNode)", instrPos(in), t.String(), "the reservation sync is run for "+t.String()+" instead of the node selected in the BindRequest (an unbound pod has no node name): reservation pods of the failed attempt stay on the selected node")
		}
	}
	if prb := c.Anchor("O3", pkgBinderPlugins, "BinderPlugins", "Rollback"); prb != nil {
		calls := instrsIn(prb, isInvokeNamed("Rollback"))
		ok := len(calls) == 1
		if ok {
			ok2, _ := everyIterationPasses(calls[0], isInvokeNamed("Rollback"), nil)
			ok = ok2
		}
		inLoopRet := false
		for _, b := range prb.Blocks {
			if _, isRet := b.Instrs[len(b.Instrs)-1].(*ssa.Return); isRet && insideLoopBody(b) {
				inLoopRet = true
			}
		}
		c.Check(ok && !inLoopRet, "O3", "MPT", funcKey(prb)+": every plugin is rolled back", prb.Pos(), "no early exit from the plugin loop", "a failing plugin rollback stops the remaining plugins from being rolled back")
	}

	// ---- O4: when Bind is attempted; status always reported
	for _, bc := range bindCalls {
		fs := fx.factsAtDeep(bindHit[bc])
		_, live := hasFact(fs, func(f Fact) bool {
			return f.Pol && f.T.Op == "bin" && f.T.Name == "==" && strings.HasSuffix(f.T.Args[0].String(), "DeletionTimestamp") && f.T.Args[1].isNilConst()
		})
		_, notDone := hasFact(fs, func(f Fact) bool {
			return !f.Pol && f.T.Op == "bin" && f.T.Name == "==" && strings.HasSuffix(f.T.Args[0].String(), ".Status.Phase") && strings.Contains(f.T.Args[1].String(), "Succeeded")
		})
		_, unbound := hasFact(fs, func(f Fact) bool {
			return f.Pol && f.T.Op == "bin" && f.T.Name == "==" && strings.HasSuffix(f.T.Args[0].String(), ".Spec.NodeName") && f.T.Args[1].String() == `const:""`
		})
		c.Check(live, "O4", "DOM", funcKey(reconcile)+": no bind for a request being deleted", instrPos(bc), "DeletionTimestamp == nil", "a BindRequest that is being deleted can still be processed")
		c.Check(notDone, "O4", "DOM", funcKey(reconcile)+": a Succeeded request is a no-op", instrPos(bc), "Phase != Succeeded", "a request that already succeeded can be bound again")
		c.Check(unbound, "O4", "DOM", funcKey(reconcile)+": an already bound pod is a no-op", instrPos(bc), `pod.Spec.NodeName == ""`, "a pod that is already bound can be bound again (possibly to another node)")
		// … and for a pod that is already bound NOTHING fallible is attempted once the pod is known: every API step
		// after the pod was fetched (node lookup, bind, delete of an invalid request) runs only for an unbound pod.
		// Otherwise a transient fault turns "bound, nothing to do" into a reported failure of a running pod.
		var podGet ssa.Instruction
		for _, in := range instrsIn(reconcile, isInvokeNamed("Get")) {
			for _, a := range in.(ssa.CallInstruction).Common().Args {
				if mi, ok := a.(*ssa.MakeInterface); ok && strings.HasSuffix(typeKey(mi.X.Type()), "core/v1.Pod") {
					podGet = in
				}
			}
		}
		if podGet == nil {
			c.Undec("O4", "DOM", funcKey(reconcile)+": a bound pod is a no-op for every fallible step", reconcile.Pos(), "the fetch of the pod was not recognised")
		} else {
			nf := 0
			for _, in := range instrsIn(reconcile, func(x ssa.Instruction) bool {
				cc, ok := x.(*ssa.Call)
				if !ok || !cc.Call.IsInvoke() || x == podGet || !dominatesInstr(podGet, x) {
					return false
				}
				res := cc.Call.Signature().Results()
				for i := 0; i < res.Len(); i++ {
					if types.Identical(res.At(i).Type(), types.Universe.Lookup("error").Type()) {
						return true
					}
				}
				return false
			}) {
				nf++
				fsAt := fx.FactsAt(in)
				_, ub := hasFact(fsAt, func(f Fact) bool {
					return f.Pol && f.T.Op == "bin" && f.T.Name == "==" && strings.HasSuffix(f.T.Args[0].String(), ".Spec.NodeName") && f.T.Args[1].String() == `const:""`
				})
				if fsAt.Bottom {
					// the error-handling arm behind a re-assigned err: reached only through the steps checked above
					ub = true
				}
				c.Check(ub, "O4", "DOM", funcKey(reconcile)+": "+in.(*ssa.Call).Call.Method.Name()+" is attempted only for an unbound pod", instrPos(in), `pod.Spec.NodeName == ""`,
					"a fallible step ("+in.(*ssa.Call).Call.Method.Name()+") runs before the 'pod is already bound' no-op test: when it fails for a pod that is already bound (crash or lost status patch after the pods/binding call) the request is reported Failed and the running pod gets a binding-error condition")
			}
			c.Floor("O4", "DOM fallible steps after the pod fetch", nf, 2)
		}
		// the deferred status update is installed before the bind
		okDefer := false
		for _, b := range reconcile.Blocks {
			for _, in := range b.Instrs {
				if d, isD := in.(*ssa.Defer); isD && dominatesInstr(d, bindHit[bc].rootSite()) {
					if mc, isMC := d.Call.Value.(*ssa.MakeClosure); isMC {
						g := mc.Fn.(*ssa.Function)
						if len(instrsIn(g, func(x ssa.Instruction) bool {
							cc, ok := x.(ssa.CallInstruction)
							return ok && calleeOf(cc) != nil && calleeOf(cc).Name() == "UpdateStatus"
						})) > 0 {
							okDefer = true
							// recovered panic ⇒ err set before UpdateStatus
							checkRecoverSetsErr(c, g)
						}
					}
				}
			}
		}
		c.Check(okDefer, "O4", "MPT", funcKey(reconcile)+": outcome always reaches UpdateStatus", instrPos(bc), "deferred before the bind", "the status update is not deferred before the bind attempt: an error or panic can leave the request without a reported outcome")
	}

	// ---- O5: sibling agreement of plugin interfaces
	mutatingInvoke := func(names ...string) func(ssa.Instruction) bool {
		set := map[string]bool{}
		for _, n := range names {
			set[n] = true
		}
		return func(in ssa.Instruction) bool {
			cc, ok := in.(ssa.CallInstruction)
			if !ok {
				return false
			}
			if m := invokedMethod(cc); m != nil && set[m.Name()] {
				return true
			}
			if cal := calleeOf(cc); cal != nil && set[cal.Name()] && !strings.HasPrefix(funcPkgPath(cal), modPath) {
				return true
			}
			return false
		}
	}
	forward := mutatingInvoke("Create", "Update", "UpdateStatus", "Patch", "Reserve", "PreBind", "AssumePodVolumes", "BindPodVolumes")
	backward := mutatingInvoke("Delete", "Update", "UpdateStatus", "Patch", "Unreserve", "RevertAssumedPodVolumes")
	// binder plugins (plugins.Plugin): PreBind ↔ Rollback
	nPlug := 0
	for _, pkgRel := range []string{"pkg/binder/plugins/gpusharing"} {
		pk := p.ByPath[modPath+"/"+pkgRel]
		if pk == nil {
			continue
		}
		for _, name := range pk.Types.Scope().Names() {
			pre := p.Func(pkgRel, name, "PreBind")
			rb := p.Func(pkgRel, name, "Rollback")
			if pre == nil || rb == nil {
				continue
			}
			nPlug++
			c.Analysed(funcKey(pre), funcKey(rb))
			creates := p.reachesInstr(pre, forward, 4, map[*ssa.Function]bool{})
			deletes := p.reachesInstr(rb, mutatingInvoke("Delete"), 4, map[*ssa.Function]bool{})
			c.Check(!creates || deletes, "O5", "SIBLING", funcKey(pre)+" ↔ Rollback", pre.Pos(), "objects created in PreBind are deleted in Rollback", "the plugin creates or patches API objects in PreBind but its Rollback deletes nothing")
			// both gated by the same request predicate
			g1 := len(instrsIn(pre, func(in ssa.Instruction) bool {
				cc, ok := in.(ssa.CallInstruction)
				return ok && calleeOf(cc) != nil && calleeOf(cc).Name() == "IsSharedGPUAllocation"
			})) > 0
			g2 := len(instrsIn(rb, func(in ssa.Instruction) bool {
				cc, ok := in.(ssa.CallInstruction)
				return ok && calleeOf(cc) != nil && calleeOf(cc).Name() == "IsSharedGPUAllocation"
			})) > 0
			c.Check(g1 == g2, "O5", "SIBLING", funcKey(pre)+": PreBind and Rollback gated alike", pre.Pos(), "same request predicate", "PreBind and Rollback of the plugin are gated by different request predicates")
		}
	}
	c.Floor("O5", "SIBLING binder plugins", nPlug, 1)
	// K8sPlugin implementations: Allocate/Bind ↔ UnAllocate
	var impls []string
	for path, pk := range p.ByPath {
		rel := relPkg(path)
		if !strings.HasPrefix(rel, "pkg/binder/plugins/k8s-plugins/") {
			continue
		}
		for _, name := range pk.Types.Scope().Names() {
			if p.Func(rel, name, "UnAllocate") != nil && p.Func(rel, name, "Allocate") != nil && p.Func(rel, name, "Bind") != nil {
				impls = append(impls, rel+"|"+name)
			}
		}
	}
	sort.Strings(impls)
	for _, im := range impls {
		parts := strings.SplitN(im, "|", 2)
		al, bd, un := p.Func(parts[0], parts[1], "Allocate"), p.Func(parts[0], parts[1], "Bind"), p.Func(parts[0], parts[1], "UnAllocate")
		c.Analysed(funcKey(al), funcKey(bd), funcKey(un))
		fwd := p.reachesInstr(al, forward, 4, map[*ssa.Function]bool{}) || p.reachesInstr(bd, forward, 4, map[*ssa.Function]bool{})
		back := p.reachesInstr(un, backward, 4, map[*ssa.Function]bool{})
		c.Check(!fwd || back, "O5", "SIBLING", parts[0]+"."+parts[1]+": Allocate/Bind ↔ UnAllocate", un.Pos(), "what Allocate/Bind reserve or write is released by UnAllocate",
			"the plugin reserves or writes cluster state in Allocate/Bind but its UnAllocate releases nothing: after a failed bind the claim/volume stays reserved for the unbound pod")
	}
	c.Floor("O5", "SIBLING K8sPlugin implementations", len(impls), 2)
	// K8sPlugins.PreBind un-allocates the plugins that already ran before returning an error
	if kp := c.Anchor("O5", "pkg/binder/plugins/k8s-plugins", "K8sPlugins", "PreBind"); kp != nil {
		for _, b := range kp.Blocks {
			ret, ok := b.Instrs[len(b.Instrs)-1].(*ssa.Return)
			if !ok {
				continue
			}
			if k, isC := unspill(ret, 0).(*ssa.Const); isC && k.IsNil() {
				continue
			}
			_, path, found := reachAvoiding([]cfgPos{entryPos(kp)}, func(x ssa.Instruction) bool { return x == ssa.Instruction(ret) }, func(x ssa.Instruction) bool {
				// the un-allocate loop header: approximated by reaching an UnAllocate invoke or its loop
				if isInvokeNamed("UnAllocate")(x) {
					return true
				}
				return false
			}, nil)
			// a path that skips the UnAllocate call but passes its loop with zero iterations is fine; require the loop to exist
			hasLoop := false
			for _, h := range p.deepFind(kp, isInvokeNamed("UnAllocate"), 2) {
				lh := loopHeaderOf(h.In.Block())
				if lh == nil {
					continue
				}
				at := h.rootSite()
				if len(h.Chain) == 0 {
					at = lh.Instrs[0] // the loop may run zero times: it is its header that lies on the error path
				}
				if dominatesInstr(at, ret) {
					hasLoop = true
				}
			}
			_ = path
			_ = found
			c.Check(hasLoop, "O5", "MPT", funcKey(kp)+": earlier plugins are un-allocated when a later one fails", instrPos(ret), "UnAllocate loop on the error path", "a failing k8s plugin leaves the allocations of the plugins that already ran")
		}
	}
	if bw := c.Anchor("O5", "pkg/binder/plugins/k8s-plugins", "K8sPlugins", "bindPluginWrapper"); bw != nil {
		for _, in := range instrsIn(bw, isInvokeNamed("Bind")) {
			ok, why := failureCleanup(fx, in.(*ssa.Call), isInvokeNamed("UnAllocate"))
			c.Check(ok, "O5", "MPT", funcKey(bw)+": failed plugin Bind ⇒ UnAllocate", instrPos(in), why, "a failing plugin Bind is not followed by UnAllocate: "+why)
		}
	}
	_ = fmt.Sprint
}

// checkRecoverSetsErr: in the deferred closure of Reconcile, a recovered panic stores a non-nil error into the
// captured result before UpdateStatus is called.
func checkRecoverSetsErr(c *Ctx, g *ssa.Function) {
	upd := instrsIn(g, func(x ssa.Instruction) bool {
		cc, ok := x.(ssa.CallInstruction)
		return ok && calleeOf(cc) != nil && calleeOf(cc).Name() == "UpdateStatus"
	})
	if len(upd) == 0 {
		return
	}
	// error-typed free variable = the named result
	var errFV *ssa.FreeVar
	for _, fv := range g.FreeVars {
		if pt, ok := fv.Type().Underlying().(*types.Pointer); ok && pt.Elem().String() == "error" {
			errFV = fv
		}
	}
	n := 0
	for _, b := range g.Blocks {
		for _, s := range b.Succs {
			if c.Fx.edgeEstablishes(b, s, func(f Fact) bool {
				return !f.Pol && f.T.Op == "bin" && f.T.Name == "==" && strings.Contains(f.T.Args[0].String(), "recover") && f.T.Args[1].isNilConst()
			}) {
				n++
				_, path, found := reachAvoiding([]cfgPos{{B: s, I: 0}}, func(x ssa.Instruction) bool { return x == upd[0] }, func(x ssa.Instruction) bool {
					st, ok := x.(*ssa.Store)
					return ok && errFV != nil && st.Addr == ssa.Value(errFV)
				}, nil)
				c.Check(errFV != nil && !found, "O4", "MPT", funcKey(g)+": a recovered panic is reported as a failed attempt", g.Pos(), "err set before UpdateStatus on the recover path", "after a recovered panic UpdateStatus can be called with a nil error: the request is reported Succeeded although the pod was not bound ("+pathStr(path)+")")
			}
		}
	}
	if n == 0 {
		c.Viol("O4", "MPT", funcKey(g)+": a recovered panic is reported as a failed attempt", g.Pos(), "the deferred closure no longer recovers panics")
	}
}

// C11-O8 (DOM): the binder only FILLS the allocation of a ResourceClaim, it never replaces one. A claim that is
// already allocated is in use by a pod that is already bound (a shared claim's first consumer); writing the bind
// request's allocation over it re-points that pod's devices (and on a real API server, where the allocation is
// immutable, makes every attempt of this request fail after its earlier steps succeeded).
func runC11ClaimFill(c *Ctx) {
	p, fx := c.P, c.Fx
	const pkgDRA = "pkg/binder/plugins/k8s-plugins/dynamicresources"
	bind := c.Anchor("O8", pkgDRA, "dynamicResourcesPlugin", "Bind")
	if bind == nil {
		return
	}
	n := 0
	for _, h := range p.deepFind(bind, func(in ssa.Instruction) bool {
		st, ok := in.(*ssa.Store)
		if !ok {
			return false
		}
		fa, ok := st.Addr.(*ssa.FieldAddr)
		if !ok {
			return false
		}
		pt, ok := fa.X.Type().Underlying().(*types.Pointer)
		if !ok {
			return false
		}
		stt, ok := pt.Elem().Underlying().(*types.Struct)
		return ok && stt.Field(fa.Field).Name() == "Allocation" && strings.HasSuffix(typeKey(pt.Elem()), "ResourceClaimStatus")
	}, 3) {
		n++
		st := h.In.(*ssa.Store)
		target := termOf(st.Addr).String()
		d, ok := hasFact(fx.FactsAt(h.In), func(f Fact) bool {
			return f.Pol && f.T.Op == "bin" && f.T.Name == "==" && f.T.Args[0].String() == target && f.T.Args[1].isNilConst()
		})
		c.Check(ok, "O8", "DOM", funcKey(h.In.Parent())+": the claim's allocation is written only when it has none", instrPos(h.In), trunc(d, 120),
			"the DRA bind step overwrites the allocation of a ResourceClaim that is already allocated: the devices of the pod already using the claim are re-pointed to the new request's (on a real API server the status update is rejected and the bind fails after its earlier steps)")
	}
	c.Floor("O8", "DOM claim allocation writes", n, 1)
}

// C11-O9 (CONST/PROV): rollback's removal of the GPU-group labels cannot be refused because of a label that exists
// only in memory. The label is added to the reconciler's pod object BEFORE its patch is sent (updatePodGPUGroup), so
// after a failed patch the object names a label the server never got. A JSON patch "remove" of an absent key is an
// error that rejects the whole patch — the labels that did reach the server (earlier groups of a multi-fraction pod)
// then stay, and with them the reservation pods. The removal must be expressed so that an absent key is a no-op (a
// merge patch with nulls), or be computed from a pod re-read inside the function.
func runC11LabelRemoval(c *Ctx) {
	p := c.P
	fn := c.Anchor("O9", pkgResv, "service", "RemovePodGpuGroupsConnection")
	if fn == nil {
		return
	}
	n := 0
	for _, h := range p.deepFind(fn, func(in ssa.Instruction) bool {
		cc, ok := in.(ssa.CallInstruction)
		return ok && calleeOf(cc) != nil && calleeOf(cc).Name() == "RawPatch"
	}, 2) {
		n++
		args := h.In.(ssa.CallInstruction).Common().Args
		kind := "?"
		if k, ok := args[0].(*ssa.Const); ok && k.Value != nil {
			kind = constString(k)
		} else if g, ok := stripLoad(args[0]).(*ssa.Global); ok {
			kind = g.Name()
		} else if u, ok := args[0].(*ssa.UnOp); ok {
			if g, ok := u.X.(*ssa.Global); ok {
				kind = g.Name()
			}
		}
		jsonPatch := strings.Contains(kind, "json-patch") || kind == "JSONPatchType"
		reread := len(p.deepFind(fn, isInvokeNamed("Get"), 1)) > 0
		c.Check(!jsonPatch || reread, "O9", "CONST", funcKey(fn)+": removing a label the server never got is a no-op", instrPos(h.In), "patch type "+kind,
			"the GPU-group labels are removed with a JSON patch built from the in-memory pod (type "+kind+"): when one of those labels never reached the API server (its own patch failed) the whole patch is rejected and the labels that did reach it stay — the reservation pod keeps holding a GPU for a pod that was never bound")
	}
	c.Floor("O9", "CONST label-removal patches", n, 1)
}

// C11-O10 (CONST): a reservation pod is deleted at once. Rollback of a failed fractional bind deletes the reservation
// pod it created; the retry that follows looks the group's reservation pod up by label. With a graceful delete the pod
// is merely Terminating and still listed with its GPU index: the retry adopts it, the bind "succeeds", the pod
// disappears seconds later, and the next sync deletes the bound pod as a consumer without reservation.
// deleteReservationPod passes GracePeriodSeconds(0).
func runC11ImmediateDelete(c *Ctx) {
	fn := c.Anchor("O10", pkgResv, "service", "deleteReservationPod")
	if fn == nil {
		return
	}
	n := 0
	for _, in := range instrsIn(fn, isInvokeNamed("Delete")) {
		n++
		zeroGrace := false
		for _, a := range in.(ssa.CallInstruction).Common().Args {
			for _, src := range valueSources(a, 5) {
				if strings.HasSuffix(typeKey(src.Type()), "client.GracePeriodSeconds") {
					if k, ok := src.(*ssa.Const); ok && k.Value != nil && k.Value.ExactString() == "0" {
						zeroGrace = true
					}
					if cv, ok := src.(*ssa.Convert); ok {
						if k, ok := cv.X.(*ssa.Const); ok && k.Value != nil && k.Value.ExactString() == "0" {
							zeroGrace = true
						}
					}
				}
			}
		}
		c.Check(zeroGrace, "O10", "CONST", funcKey(fn)+": the reservation pod is deleted with grace period 0", instrPos(in), "client.GracePeriodSeconds(0)",
			"the reservation pod is deleted gracefully: it stays listed (Terminating, with its GPU index) while the retry of the failed bind looks the group's reservation pod up, is adopted, and vanishes after the pod was bound")
	}
	c.Floor("O10", "CONST reservation pod deletions", n, 1)
}

// runC11SwallowedErrors (O11): on the bind path an API write that failed must fail the attempt — a helper that logs
// the error and reports success lets Binder.Bind go on to the pods/binding create with a half-prepared pod (a shared
// GPU pod bound without its NVIDIA_VISIBLE_DEVICES / GPU_PORTION entry), and a bound pod is never repaired.
// reviewedSwallows: "<function suffix>|<callee>" → why reporting success after that failed call is right.
var reviewedSwallows = map[string]string{
	"gpusharing.GPUSharing).Rollback|GetFractionContainerRef": "PreBind resolves the same container reference first and fails before it creates anything if it cannot: there is nothing to roll back",
}

func runC11SwallowedErrors(c *Ctx) {
	n, nFn := 0, 0
	for _, pk := range []string{"pkg/binder/common", "pkg/binder/binding", "pkg/binder/plugins"} {
		for _, fn := range c.P.FuncsIn(pk) {
			if isTestdataOrMock(fn) || fn.Parent() != nil {
				continue
			}
			res := fn.Signature.Results()
			if res.Len() == 0 || !types.Identical(res.At(res.Len()-1).Type(), errorType) {
				continue
			}
			nFn++
			for _, rp := range swallowedCallErrors(c.Fx, fn) {
				skip := false
				for k, why := range reviewedSwallows {
					parts := strings.SplitN(k, "|", 2)
					if strings.HasSuffix(funcKey(fn), parts[0]) && strings.Contains(rp.Desc, parts[1]) {
						c.Hold("O11", "ERRFLOW", funcKey(fn)+": a failed "+parts[1]+" is deliberately not an error", rp.Pos, "reviewed: "+why)
						skip = true
					}
				}
				if skip {
					continue
				}
				n++
				c.Viol("O11", "ERRFLOW", funcKey(fn)+": success is not reported after a failed call", rp.Pos,
					"the function returns a nil error on a path on which "+trunc(rp.Desc, 120)+" is non-nil and was not recognised as harmless: the caller goes on as if the step had succeeded")
			}
			c.Hold("O11", "ERRFLOW", funcKey(fn)+": success is not reported after a failed call", fn.Pos(), "no success return holds a failed call's error")
		}
	}
	c.Floor("O11", "ERRFLOW error-returning functions of the bind path", nFn, 20)
	_ = n
}

// runC11OutcomeKept (O12): Reconcile reports the attempt's outcome through its named result `err`, which the deferred
// status update reads. Once the bind has failed (the branch that runs Rollback), nothing may overwrite that error:
// assigning Rollback's own result to it turns a failed bind with a successful rollback into "Succeeded" — and a
// Succeeded request is never looked at again.
func runC11OutcomeKept(c *Ctx) {
	f := c.Anchor("O12", "pkg/binder/controllers", "BindRequestReconciler", "Reconcile")
	if f == nil {
		return
	}
	n := 0
	for _, h := range c.P.deepFind(f, isInvokeNamed("Rollback"), 1) {
		rb, isVal := h.In.(ssa.Value)
		if !isVal {
			continue
		}
		g := h.In.Parent()
		res := g.Signature.Results()
		if res.Len() == 0 || !types.Identical(res.At(res.Len()-1).Type(), errorType) {
			continue
		}
		n++
		// what the function can return as its error: through φ, extraction, and every store into a result cell
		var bad ssa.Instruction
		for _, b := range g.Blocks {
			ret, ok := b.Instrs[len(b.Instrs)-1].(*ssa.Return)
			if !ok {
				continue
			}
			seen := map[ssa.Value]bool{}
			var walk func(v ssa.Value, d int)
			walk = func(v ssa.Value, d int) {
				if v == nil || d == 0 || seen[v] {
					return
				}
				seen[v] = true
				if v == rb {
					bad = ret
					return
				}
				switch x := v.(type) {
				case *ssa.Phi:
					for _, e := range x.Edges {
						walk(e, d-1)
					}
				case *ssa.Extract:
					walk(x.Tuple, d)
				case *ssa.UnOp:
					if a, isA := x.X.(*ssa.Alloc); isA {
						for _, sv := range storedValues(a) {
							walk(sv, d-1)
						}
					}
				case *ssa.MakeInterface:
					walk(x.X, d)
				case *ssa.ChangeInterface:
					walk(x.X, d)
				}
			}
			walk(ret.Results[res.Len()-1], 6)
		}
		pos := instrPos(h.In)
		c.Check(bad == nil, "O12", "MPT", funcKey(g)+": the outcome reported for a failed bind is the bind's error, never the rollback's result", pos, "the rollback's result does not reach the returned error",
			"the result of Rollback can become the function's returned error: when the bind failed and the rollback succeeded that value is nil, the deferred status update marks the request Succeeded and the pod bound although it was rolled back, and the request is never retried")
	}
	c.Floor("O12", "MPT rollbacks after a failed bind", n, 1)
}

// runC11ReservedForIdentity (O14): a ResourceClaim is reserved for a POD INSTANCE. UpsertReservedFor leaves the list
// alone only when it already holds this very pod — same name AND same UID; an entry of an earlier incarnation with
// the same name (left behind by a failed bind, which the binder does not roll back — finding F9) must not pass for
// it, or the new pod is bound while the claim is not reserved for it.
func runC11ReservedForIdentity(c *Ctx) {
	f := c.Anchor("O14", "pkg/common/resources", "", "UpsertReservedFor")
	if f == nil {
		return
	}
	n := 0
	for _, b := range f.Blocks {
		ret, ok := b.Instrs[len(b.Instrs)-1].(*ssa.Return)
		if !ok {
			continue
		}
		// an exit that does not add the reservation (whatever form the search takes: a loop, slices.ContainsFunc, …)
		isAdd := func(in ssa.Instruction) bool {
			st, isSt := in.(*ssa.Store)
			return isSt && termOf(st.Addr).lastField() == "ReservedFor"
		}
		if _, _, unreserved := reachAvoiding([]cfgPos{entryPos(f)}, func(in ssa.Instruction) bool { return in == ssa.Instruction(ret) }, isAdd, nil); !unreserved {
			continue
		}
		n++
		has := func(fld string) func(FactSet) bool {
			return func(s FactSet) bool {
				_, ok := hasFact(s, func(ft Fact) bool {
					return ft.Pol && ft.T.Op == "bin" && ft.T.Name == "==" && len(ft.T.Args) == 2 && ft.T.Args[0].lastField() == fld && ft.T.Args[1].lastField() == fld
				})
				return ok
			}
		}
		okN := c.Fx.allPathsSatisfy(ret, has("Name"))
		okU := c.Fx.allPathsSatisfy(ret, has("UID"))
		c.Check(okN && okU, "O14", "RET", funcKey(f)+": 'already reserved' means the same pod name and the same pod UID", instrPos(ret), "ref.Name == pod.Name ∧ ref.UID == pod.UID",
			fmt.Sprintf("the claim is taken for already reserved without comparing the pod's %s: a stale entry of another pod instance stands in for this pod, the bind reports success and the pod is bound to a claim that is not reserved for it", map[bool]string{true: "UID", false: "name"}[okN]))
	}
	c.Floor("O14", "RET early returns of UpsertReservedFor", n, 1)
}

// runC11BindingPrecondition (O15): the bind attempt was prepared for one pod object (its claims, its config maps, its
// labels). The Binding sent to the API server names that pod by UID, which the server treats as a precondition: a pod
// deleted and re-created under the same name during the attempt is refused (Conflict → the attempt fails and is rolled
// back) instead of being bound, unprepared, to the node chosen for its predecessor. Structural part decided: the
// Binding's ObjectMeta.UID is assigned, from the UID of the pod handed to Bind.
func runC11BindingPrecondition(c *Ctx) {
	f := c.Anchor("O15", "pkg/binder/binding", "Binder", "Bind")
	if f == nil {
		return
	}
	n := 0
	for _, h := range c.P.deepFind(f, func(in ssa.Instruction) bool {
		a, ok := in.(*ssa.Alloc)
		return ok && strings.HasSuffix(typeKey(a.Type()), "k8s.io/api/core/v1.Binding")
	}, 1) {
		a := h.In.(*ssa.Alloc)
		n++
		ok := false
		var walk func(v ssa.Value, d int)
		walk = func(v ssa.Value, d int) {
			if d == 0 || v.Referrers() == nil {
				return
			}
			for _, r := range *v.Referrers() {
				switch x := r.(type) {
				case *ssa.FieldAddr:
					if termOf(x).lastField() == "UID" {
						for _, rr := range *x.Referrers() {
							if st, isSt := rr.(*ssa.Store); isSt && st.Addr == x {
								t := termOf(st.Val)
								if i, g := rootParam(t), st.Parent(); t.lastField() == "UID" && i >= 0 && i < len(g.Params) && strings.HasSuffix(typeKey(g.Params[i].Type()), "k8s.io/api/core/v1.Pod") {
									ok = true
								}
							}
						}
					}
					// a nested literal is built in a local and copied in whole
					for _, rr := range *x.Referrers() {
						if st, isSt := rr.(*ssa.Store); isSt && st.Addr == x {
							if u, isU := st.Val.(*ssa.UnOp); isU {
								if la, isA := u.X.(*ssa.Alloc); isA {
									walk(la, d-1)
								}
							}
						}
					}
					walk(x, d-1)
				}
			}
		}
		walk(a, 4)
		c.Check(ok, "O15", "FIELDS", funcKey(h.In.Parent())+": the Binding carries the UID of the pod the attempt was prepared for", instrPos(a), "Binding.ObjectMeta.UID = pod.UID",
			"the Binding is sent without the pod's UID: a pod that was deleted and re-created under the same name during the attempt is bound to the node chosen for its predecessor although nothing was prepared for it, and the attempt reports success")
	}
	c.Floor("O15", "FIELDS Binding objects built by the binder", n, 1)
}
