package main

import (
	"fmt"
	"go/constant"
	"go/token"
	"go/types"
	"strings"

	"golang.org/x/tools/go/ssa"
)

func init() {
	register("C12", runC12,
		"Decides structural necessary conditions of 'the BindRequest hand-off conserves resources and terminates': a pending unbound pod with a live BindRequest is Binding on the request's node with the request's GPU groups, received type and claims; Binding is charged to node, job and queue; a request is hidden from the snapshot exactly when it is terminally failed, and exactly the deleted-node and terminally failed requests are deleted; the binder persists every status change it makes (attempt count included); 'binder schedules a retry' and 'scheduler treats as terminal' are complementary.",
		"interleavings of scheduler cycles with binder progress")
}

const pkgBRInfo = "pkg/scheduler/api/bindrequest_info"

func runC12(c *Ctx) {
	runC12CleanupScansEveryCycle(c)
	runC12AssumeEveryBindRequest(c)
	borrow(c, "O14", "C13", "O5", "Commit does not call Discard", "a pod whose BindRequest was already created stays charged to its node for the rest of the cycle: undoing it because a later BindRequest of the same statement failed hands its resources to the next workload while the binder binds it")
	borrow(c, "O10", "C11", "O12", "", "the scheduler learns the outcome of a bind attempt only from the BindRequest's status: a failed bind persisted as Succeeded is never retried by the binder and never deleted by the scheduler, and the unbound pod stays Binding — charged to its node — for ever")
	borrow(c, "O11", "C11", "O1", "pods/binding create is the last fallible step", "a step that can fail after the pod was bound turns a successful bind into a Failed request: the rollback strips the bound pod's GPU-group label, the scheduler deletes the terminally failed request, and later snapshots charge nothing for the running pod")
	runC12ClaimName(c)
	runC12NodePoolLabels(c)
	borrow(c, "O6", "C11", "O4", "a recovered panic is reported as a failed attempt", "the status written for the hand-off must reflect the outcome of the attempt")

	p, fx := c.P, c.Fx
	// ---- O1: getTaskStatus and the fields taken from the request
	if gts := c.Anchor("O1", pkgPodInfo, "", "getTaskStatus"); gts != nil {
		binding, _ := p.ConstInt(pkgPodStatus, "Binding")
		n := 0
		// the status is decided in getTaskStatus and in the helpers whose result it returns as it is (a branch of the
		// phase switch moved out): for a helper the facts of the call site are added, and the request is the parameter
		// that receives it — as the pointer, or as the boolean `bindRequest != nil`
		type statusFn struct {
			fn       *ssa.Function
			site     FactSet
			ptrParam int // parameter holding the request pointer (-1: none)
			hasParam int // boolean parameter holding `request != nil` (-1: none)
		}
		scan := []statusFn{{gts, emptySet(), 1, -1}}
		for _, b := range gts.Blocks {
			ret, ok := b.Instrs[len(b.Instrs)-1].(*ssa.Return)
			if !ok {
				continue
			}
			cl, ok := ret.Results[0].(*ssa.Call)
			if !ok || cl.Call.StaticCallee() == nil || len(cl.Call.StaticCallee().Blocks) == 0 || !hasModPrefix(cl.Call.StaticCallee()) {
				continue
			}
			sfn := statusFn{cl.Call.StaticCallee(), fx.FactsAt(cl), -1, -1}
			for i, a := range cl.Call.Args {
				if prm, isP := a.(*ssa.Parameter); isP && prm == gts.Params[1] {
					sfn.ptrParam = i
				}
				if bo, isB := a.(*ssa.BinOp); isB && bo.Op == token.NEQ && bo.X == ssa.Value(gts.Params[1]) {
					sfn.hasParam = i
				}
			}
			scan = append(scan, sfn)
		}
		for _, sfn := range scan {
			for _, b := range sfn.fn.Blocks {
				ret, ok := b.Instrs[len(b.Instrs)-1].(*ssa.Return)
				if !ok {
					continue
				}
				k, isC := ret.Results[0].(*ssa.Const)
				if !isC {
					continue
				}
				v, _ := constant.Int64Val(constant.ToInt(k.Value))
				fs := fx.blockFacts(sfn.fn, 0)[b].clone()
				fs.addAll(sfn.site)
				_, hasReq := hasFact(fs, func(f Fact) bool {
					if sfn.hasParam >= 0 && f.Pol && f.T.Op == "param" && f.T.paramIndex() == sfn.hasParam {
						return true
					}
					return sfn.ptrParam >= 0 && !f.Pol && f.T.Op == "bin" && f.T.Name == "==" && rootParam(f.T.Args[0]) == sfn.ptrParam && f.T.Args[1].isNilConst()
				})
				_, noReq := hasFact(fs, func(f Fact) bool {
					if sfn.hasParam >= 0 && !f.Pol && f.T.Op == "param" && f.T.paramIndex() == sfn.hasParam {
						return true
					}
					return sfn.ptrParam >= 0 && f.Pol && f.T.Op == "bin" && f.T.Name == "==" && rootParam(f.T.Args[0]) == sfn.ptrParam && f.T.Args[1].isNilConst()
				})
				_, pendingPhase := hasFact(fs, func(f Fact) bool {
					return f.Pol && strings.Contains(f.T.String(), ".Status.Phase") && strings.Contains(f.T.String(), "Pending")
				})
				_, unbound := hasFact(fs, func(f Fact) bool {
					return strings.Contains(f.T.String(), ".Spec.NodeName") && strings.Contains(f.T.String(), "builtin.len")
				})
				if v == binding {
					n++
					c.Check(hasReq, "O1", "RET", funcKey(gts)+": Binding only with a live BindRequest", instrPos(ret), "bindRequest != nil", "a pod can be reported Binding without a BindRequest")
					continue
				}
				// any other status returned for a pending, not deleted, unbound pod requires bindRequest == nil
				if pendingPhase && unbound {
					_, deleted := hasFact(fs, func(f Fact) bool {
						return !f.Pol && strings.Contains(f.T.String(), "DeletionTimestamp") && f.T.Args[1].isNilConst()
					})
					_, bound := hasFact(fs, func(f Fact) bool {
						return f.T.Op == "bin" && strings.Contains(f.T.String(), ".Spec.NodeName") && ((f.T.Name == "==" && !f.Pol) || (f.T.Name == "<" && f.Pol))
					})
					if deleted || bound {
						continue
					}
					c.Check(noReq, "O1", "RET", fmt.Sprintf("%s: status %d for a pending unbound pod only without a BindRequest", funcKey(gts), v), instrPos(ret), "bindRequest == nil", "a pending, unbound pod with a live BindRequest can be reported with a status other than Binding (its resources are handed out again)")
				}
			}
		}
		c.Floor("O1", "RET Binding returns", n, 1)
		// a pod that is being deleted is never reported in a status that counts as allocated and alive (Running, Bound,
		// Binding): it is Releasing. Gang counters, victim selection and the idle/releasing split all read this.
		nAlive := 0
		for _, sfn := range scan {
			for _, b := range sfn.fn.Blocks {
				ret, ok := b.Instrs[len(b.Instrs)-1].(*ssa.Return)
				if !ok {
					continue
				}
				k, isC := ret.Results[0].(*ssa.Const)
				if !isC {
					continue
				}
				v, _ := constant.Int64Val(constant.ToInt(k.Value))
				alive := false
				for _, nm := range []string{"Running", "Bound", "Binding", "Allocated"} {
					if cv, ok := p.ConstInt(pkgPodStatus, nm); ok && cv == v {
						alive = true
					}
				}
				if !alive {
					continue
				}
				nAlive++
				notDeleted := fx.allPathsSatisfy(ret, func(s FactSet) bool {
					_, ok := hasFact(s, func(f Fact) bool {
						return f.T.Op == "bin" && len(f.T.Args) == 2 && strings.HasSuffix(f.T.Args[0].String(), "DeletionTimestamp") && f.T.Args[1].isNilConst() &&
							((f.T.Name == "==" && f.Pol) || (f.T.Name == "!=" && !f.Pol))
					})
					return ok
				})
				c.Check(notDeleted, "O9", "RET", fmt.Sprintf("%s: status %d (allocated and alive) only for a pod that is not being deleted", funcKey(gts), v), instrPos(ret), "DeletionTimestamp == nil on every path",
					"a pod with a deletion timestamp can be reported as running / bound / binding: a terminating gang member counts as active (the gang looks complete and a lone replacement is bound below the minimum), and its resources count as used instead of releasing")
			}
		}
		c.Floor("O9", "RET alive statuses of getTaskStatus", nAlive, 3)
	}
	if ctor := c.Anchor("O1", pkgPodInfo, "", "NewTaskInfoWithBindRequest"); ctor != nil {
		// NodeName: pod's node, else the request's SelectedNode
		nodeF := p.fieldVars(pkgPodInfo, "PodInfo", "NodeName")
		okNode := false
		for _, in := range instrsIn(ctor, isStoreToField(nodeF)) {
			v := in.(*ssa.Store).Val
			if phi, isPhi := v.(*ssa.Phi); isPhi {
				for _, e := range phi.Edges {
					if strings.HasSuffix(termOf(e).String(), ".Spec.SelectedNode") {
						okNode = true
					}
				}
				// … and only as a fall-back: the node the pod is really bound to wins. The request's node is taken on
				// an edge that has established pod.Spec.NodeName == "" (a request can name another node than the one
				// a late bind attempt put the pod on — the pod is then charged to the wrong node for its lifetime)
				for i, e := range phi.Edges {
					if !strings.HasSuffix(termOf(e).String(), ".Spec.SelectedNode") || i >= len(phi.Block().Preds) {
						continue
					}
					fs := fx.edgeFacts(phi.Block().Preds[i], phi.Block(), 0)
					_, unbound := hasFact(fs, func(ft Fact) bool {
						if ft.T.Op != "bin" || len(ft.T.Args) != 2 || !strings.Contains(ft.T.Args[0].String(), ".Spec.NodeName") {
							return false
						}
						return (ft.T.Name == "==" && ft.Pol) || (ft.T.Name == "!=" && !ft.Pol)
					})
					c.Check(fs.Bottom || unbound, "O1", "DOM", funcKey(ctor)+": the request's node is used only for a pod that has no node yet", instrPos(in), "pod.Spec.NodeName == \"\" on the edge that takes SelectedNode",
						"the BindRequest's SelectedNode overrides the node the pod is actually bound to: after a late bind by an earlier request's attempt the pod is charged to the new request's node, and its real node's resources look idle and are handed out again")
				}
			}
		}
		c.Check(okNode, "O1", "PROV", funcKey(ctor)+": NodeName falls back to the request's SelectedNode", ctor.Pos(), "phi(pod.Spec.NodeName, bindRequest.Spec.SelectedNode)", "a pod being bound is not placed on the node selected in its BindRequest: the node's resources are handed out again")
	}
	if upf := c.Anchor("O1", pkgPodInfo, "PodInfo", "updatePodAdditionalFields"); upf != nil {
		for fld, src := range map[string]string{"GPUGroups": "SelectedGPUGroups", "ResourceReceivedType": "ReceivedResourceType"} {
			fv := p.fieldVars(pkgPodInfo, "PodInfo", fld)
			ok := false
			prefersRequest := false
			// (the assignment itself may have been moved into a setter method of the PodInfo: its receiver is then
			// parameter 0 there as well)
			for _, dh := range p.deepFind(upf, isStoreToField(fv), 1) {
				in := dh.In
				if g := in.Parent(); g != upf && (g.Signature.Recv() == nil || !strings.HasSuffix(typeKey(g.Signature.Recv().Type()), "pod_info.PodInfo")) {
					continue
				}
				st := in.(*ssa.Store)
				// the choice may have been moved into a helper "request's value, else the pod's": the helper's return
				// of the request's value is then the place where the precedence is decided
				if call, isCall := stripConv(st.Val).(*ssa.Call); isCall {
					if cal := call.Common().StaticCallee(); cal != nil && len(cal.Blocks) > 0 && hasModPrefix(cal) {
						for _, b := range cal.Blocks {
							ret, isRet := b.Instrs[len(b.Instrs)-1].(*ssa.Return)
							if !isRet || len(ret.Results) == 0 {
								continue
							}
							rt := termOf(unspill(ret, 0))
							if !strings.Contains(rt.String(), "."+src) {
								continue
							}
							ok = true
							root := rootParam(rt)
							_, dependsOnOther := hasFact(fx.FactsAt(ret), func(f Fact) bool {
								return f.T.contains(func(x *Term) bool { return x.Op == "param" && x.paramIndex() != root })
							})
							prefersRequest = !dependsOnOther
						}
					}
				}
				if strings.Contains(termOf(st.Val).String(), "."+src) {
					ok = true
					// taken from the request whenever the request carries it (not only when the pod has none)
					fs := fx.FactsAt(in)
					// the choice may depend on the request only, never on what the pod itself carries
					_, dependsOnPod := hasFact(fs, func(f Fact) bool {
						return f.T.contains(func(x *Term) bool { return x.Op == "param" && x.paramIndex() == 0 })
					})
					prefersRequest = !dependsOnPod
				}
			}
			c.Check(ok && prefersRequest, "O1", "PROV", funcKey(upf)+": "+fld+" taken from the BindRequest when it carries them", upf.Pos(), "request first", "the snapshot does not take "+fld+" from the in-flight BindRequest first: a stale label/annotation on the pod wins and the selected GPU group is not charged")
		}
	}
	// ---- O2: Binding is charged everywhere
	runStatusConsts(c, "O2")

	// ---- O3: visibility and deletion of requests
	isFailed := c.Anchor("O3", pkgBRInfo, "BindRequestInfo", "IsFailed")
	if get := c.Anchor("O3", pkgBRInfo, "BindRequestMap", "GetBindRequestForPod"); get != nil && isFailed != nil {
		for i, rp := range fx.retPaths(get, 0, WantNil) {
			if rp.Desc != "const:nil" {
				continue // the stored element itself (never nil: the map is filled with NewBindRequestInfo results)
			}
			_, absent := hasFact(rp.Facts, func(f Fact) bool { return !f.Pol && f.T.Op == "extract" && f.T.Name == "1" })
			_, failed := hasFact(rp.Facts, func(f Fact) bool { return f.Pol && f.T.isCallTo(isFailed) })
			c.Check(absent || failed, "O3", "RET", fmt.Sprintf("%s nil path#%d", funcKey(get), i), rp.Pos, "absent or terminally failed", "a live BindRequest can be hidden from the pod's snapshot (its pod becomes schedulable while the binder still works on it)")
		}
		for i, rp := range fx.retPaths(get, 0, WantNonNil) {
			_, notFailed := hasFact(rp.Facts, func(f Fact) bool { return !f.Pol && f.T.isCallTo(isFailed) })
			c.Check(notFailed, "O3", "RET", fmt.Sprintf("%s non-nil path#%d", funcKey(get), i), rp.Pos, "!IsFailed()", "a terminally failed BindRequest keeps its pod Binding forever")
		}
	}
	if clean := c.Anchor("O3", "pkg/scheduler/cache", "SchedulerCache", "cleanStaleBindRequest"); clean != nil && isFailed != nil {
		// the deleting closure is started for: every element of the deleted-node list; elements of the map behind IsFailed
		// a deletion is started by a `go` statement in this function, or in a local closure — then the places that
		// count are the calls of that closure, with the request handed to it
		type startSite struct {
			at  ssa.Instruction
			req *Term
		}
		var sites []startSite
		for _, b := range clean.Blocks {
			for _, in := range b.Instrs {
				if g, ok := in.(*ssa.Go); ok {
					// the request handed to the deleting function: the argument of BindRequestInfo type
					req := g.Call.Args[len(g.Call.Args)-1]
					for _, a := range g.Call.Args {
						if strings.HasSuffix(typeKey(a.Type()), "BindRequestInfo") {
							req = a
						}
					}
					sites = append(sites, startSite{in, termOf(req)})
				}
				// ... or by a `go` statement in a function / method this one calls with the request
				if call, isCall := in.(ssa.CallInstruction); isCall {
					_, viaClosure := call.Common().Value.(*ssa.MakeClosure) // calls of local closures are handled below
					if g := call.Common().StaticCallee(); g != nil && !viaClosure && g.Parent() == nil && len(g.Blocks) > 0 && hasModPrefix(g) {
						for _, gin := range instrsIn(g, func(x ssa.Instruction) bool { _, isGo := x.(*ssa.Go); return isGo }) {
							for _, a := range gin.(*ssa.Go).Call.Args {
								prm, isPrm := stripConv(a).(*ssa.Parameter)
								if !isPrm || !strings.HasSuffix(typeKey(a.Type()), "BindRequestInfo") {
									continue
								}
								if i := paramIndexOf(prm); i >= 0 && i < len(call.Common().Args) {
									sites = append(sites, startSite{in, termOf(call.Common().Args[i])})
								}
							}
						}
					}
				}
				mc, ok := in.(*ssa.MakeClosure)
				if !ok {
					continue
				}
				cl := mc.Fn.(*ssa.Function)
				for _, gin := range instrsIn(cl, func(x ssa.Instruction) bool { _, isGo := x.(*ssa.Go); return isGo }) {
					g := gin.(*ssa.Go)
					prm, isPrm := stripConv(g.Call.Args[len(g.Call.Args)-1]).(*ssa.Parameter)
					if !isPrm {
						continue
					}
					for _, call := range p.callsThroughValue(mc, 2) {
						if call.Parent() != clean {
							continue
						}
						args := call.Common().Args
						if i := paramIndexOf(prm); i >= 0 && i < len(args) {
							sites = append(sites, startSite{call, termOf(args[i])})
						}
					}
				}
			}
		}
		nFailedGuard, nUncond := 0, 0
		for _, st := range sites {
			fs := fx.FactsAt(st.at)
			if _, ok := hasFact(fs, func(f Fact) bool { return f.Pol && f.T.isCallTo(isFailed) }); ok {
				nFailedGuard++
			} else {
				nUncond++
				// unconditional deletion must iterate the deleted-nodes parameter
				c.Check(rootParam(st.req) == 2, "O3", "PROV", funcKey(clean)+": unconditional deletion only for deleted-node requests", instrPos(st.at), trunc(st.req.String(), 100), "requests other than those for deleted nodes are deleted unconditionally")
			}
		}
		c.Check(nFailedGuard == 1 && nUncond == 1, "O3", "DOM", funcKey(clean)+": deletes deleted-node requests and terminally failed ones", clean.Pos(), "one unconditional loop (deleted nodes), one behind IsFailed()", fmt.Sprintf("stale-request cleanup changed shape: %d deletions behind IsFailed, %d unconditional", nFailedGuard, nUncond))
	}
	if snap := c.Anchor("O3", "pkg/scheduler/cache/cluster_info", "ClusterInfo", "snapshotBindRequests"); snap != nil {
		for _, in := range instrsIn(snap, func(in ssa.Instruction) bool { _, ok := in.(*ssa.MapUpdate); return ok }) {
			fs := fx.FactsAt(in)
			d, ok := hasFact(fs, func(f Fact) bool {
				return f.Pol && f.T.Op == "extract" && f.T.Name == "1" && strings.Contains(f.T.String(), ".Spec.SelectedNode")
			})
			c.Check(ok, "O3", "DOM", funcKey(snap)+": only requests for known nodes enter the map", instrPos(in), trunc(d, 120), "a BindRequest for an unknown node enters the snapshot map")
		}
	}

	if snap := c.P.Func("pkg/scheduler/cache/cluster_info", "ClusterInfo", "snapshotBindRequests"); snap != nil {
		// … and every other request is: an iteration that does not file the request is one whose node is unknown.
		// (A request stays relevant until it is deleted — also a Succeeded one: the pod informer may not yet show
		// the pod as bound, and without the request the pod is Pending again and its node free.)
		for _, in := range instrsIn(snap, func(in ssa.Instruction) bool { _, ok := in.(*ssa.MapUpdate); return ok }) {
			if loopHeaderOf(in.Block()) == nil {
				continue
			}
			ok, path := everyIterationPasses(in, func(x ssa.Instruction) bool { return x == in }, func(from, to *ssa.BasicBlock) bool {
				return !fx.edgeEstablishes(from, to, func(f Fact) bool {
					return !f.Pol && f.T.Op == "extract" && f.T.Name == "1" && strings.Contains(f.T.String(), ".Spec.SelectedNode")
				})
			})
			c.Check(ok, "O3", "MPT", funcKey(snap)+": every BindRequest for a known node enters the snapshot", instrPos(in), "an iteration skips the request only when its node is unknown",
				"a BindRequest whose node exists can be left out of the snapshot ("+pathStr(path)+"), e.g. by its phase: the pod it was created for is taken for Pending and the resources it holds on the node are handed out again")
		}
	}

	// ---- O5 (ext.): the binder leaves a request alone only when there is nothing left to do: not found, being deleted,
	// or Succeeded. A request in phase Failed is NOT final for the binder — UpdateStatus sets Failed after every failed
	// attempt, also while retries remain, and the scheduler keeps the pod Binding until attempts ≥ backoffLimit.
	if rec := c.P.Func(pkgBinderCtl, "BindRequestReconciler", "Reconcile"); rec != nil {
		var dfr ssa.Instruction
		for _, in := range instrsIn(rec, func(x ssa.Instruction) bool { _, ok := x.(*ssa.Defer); return ok }) {
			dfr = in
		}
		ne := 0
		for _, b := range rec.Blocks {
			ret, isRet := b.Instrs[len(b.Instrs)-1].(*ssa.Return)
			if !isRet || dfr == nil || dominatesInstr(dfr, ret) {
				continue
			}
			// an exit taken before the status defer is installed: a no-op exit
			ne++
			ok := fx.allPathsSatisfy(ret, func(s FactSet) bool {
				_, a := hasFact(s, func(f Fact) bool {
					return f.T.Op == "bin" && strings.HasSuffix(f.T.Args[0].String(), "DeletionTimestamp") && f.T.Args[1].isNilConst() && ((f.T.Name == "==" && !f.Pol) || (f.T.Name == "!=" && f.Pol))
				})
				_, b2 := hasFact(s, func(f Fact) bool {
					return f.Pol && f.T.Op == "bin" && f.T.Name == "==" && strings.HasSuffix(f.T.Args[0].String(), ".Status.Phase") && strings.Contains(f.T.Args[1].String(), "Succeeded")
				})
				_, g := hasFact(s, func(f Fact) bool {
					// the fetch of the request failed
					if f.T.Op != "bin" || len(f.T.Args) != 2 || !f.T.Args[1].isNilConst() || !((f.T.Name == "!=" && f.Pol) || (f.T.Name == "==" && !f.Pol)) {
						return false
					}
					v := f.T.Args[0].V
					return v != nil && types.Identical(v.Type(), types.Universe.Lookup("error").Type())
				})
				return a || b2 || g
			})
			c.Check(ok, "O5", "RET", fmt.Sprintf("%s: no-op exit (block %d) only for a missing, deleted or Succeeded request", funcKey(rec), b.Index), instrPos(ret), "an error is returned (retried) ∨ DeletionTimestamp ≠ nil ∨ Phase == Succeeded",
				"the binder can leave a BindRequest untouched although it is neither gone, being deleted nor Succeeded (e.g. in phase Failed with retries left): it is never retried, never becomes terminal for the scheduler and the pod stays Binding with its resources charged")
		}
		c.Floor("O5", "RET no-op exits of Reconcile", ne, 2)
	}

	// ---- O4: the binder persists what it counts
	if us := c.Anchor("O4", pkgBinderCtl, "BindRequestReconciler", "UpdateStatus"); us != nil {
		isPatch := func(in ssa.Instruction) bool {
			cc, ok := in.(ssa.CallInstruction)
			if !ok || invokedMethod(cc) == nil || invokedMethod(cc).Name() != "Patch" {
				return false
			}
			recv, ok := cc.Common().Value.(*ssa.Call)
			return ok && invokedMethod(recv) != nil && invokedMethod(recv).Name() == "Status"
		}
		// status fields written on the in-memory request
		statusWrites := map[string][]ssa.Instruction{}
		writeHit := map[ssa.Instruction]deepHit{}
		for _, h := range p.deepFind(us, func(in ssa.Instruction) bool { _, ok := in.(*ssa.Store); return ok }, 2) {
			t := liftTerm(termOf(h.In.(*ssa.Store).Addr), h.Chain)
			if t.Op == "field" && t.Args[0].lastField() == "Status" && rootParam(t) == 2 {
				statusWrites[t.Name] = append(statusWrites[t.Name], h.In)
				writeHit[h.In] = h
			}
		}
		c.Floor("O4", "MPT status fields written", len(statusWrites), 3)
		// every return that skips the patch must be behind "field unchanged" for each written field whose change matters (Phase, FailedAttempts)
		for _, fld := range []string{"Phase", "FailedAttempts"} {
			ws := statusWrites[fld]
			if !c.Check(len(ws) > 0, "O4", "MPT", funcKey(us)+": writes Status."+fld, us.Pos(), "present", "UpdateStatus no longer maintains Status."+fld) {
				continue
			}
			for _, w := range ws {
				start := afterInstr(w)
				start.Ctx = writeHit[w].Chain
				_, path, found := reachAvoiding([]cfgPos{start}, isReturn, isPatch, func(from, to *ssa.BasicBlock) bool {
					// prune edges that establish "this field is unchanged" (original.Status.F == current.Status.F)
					return !fx.edgeEstablishes(from, to, func(f Fact) bool {
						return f.Pol && f.T.Op == "bin" && f.T.Name == "==" && f.T.Args[0].lastField() == fld && f.T.Args[1].lastField() == fld
					})
				})
				c.Check(!found, "O4", "MPT", fmt.Sprintf("%s: a change of Status.%s is persisted (write at %s)", funcKey(us), fld, p.Pos(instrPos(w))), instrPos(w), "every path from the write to the return passes Status().Patch unless the field is unchanged",
					"UpdateStatus can return without patching although it changed Status."+fld+" in memory ("+pathStr(path)+"): what the binder counts is not what the scheduler sees")
			}
		}
		// O5: retry ⇔ not terminal — the requeue is scheduled exactly when BackoffLimit is set and attempts < limit
		for _, h := range p.deepFind(us, func(in ssa.Instruction) bool {
			st, ok := in.(*ssa.Store)
			return ok && termOf(st.Addr).lastField() == "RequeueAfter"
		}, 2) {
			in := h.In
			// the delay may be computed by a helper that returns either the delay it was handed (no retry) or the
			// back-off: then every way the helper returns a NEW delay is judged, inside the helper, with the error
			// parameter that receives UpdateStatus's error
			if cl, isCall := in.(*ssa.Store).Val.(*ssa.Call); isCall && in.Parent() == us && cl.Call.StaticCallee() != nil && len(cl.Call.StaticCallee().Blocks) > 0 && hasModPrefix(cl.Call.StaticCallee()) {
				g := cl.Call.StaticCallee()
				errIdx := -1
				for i, a := range cl.Call.Args {
					if prm, isP := a.(*ssa.Parameter); isP && prm == us.Params[4] {
						errIdx = i
					}
				}
				okAll, nNew := true, 0
				judge := func(fs FactSet) bool {
					return fx.acceptWithExpansion(fs, func(s FactSet) bool {
						_, limSet := hasFact(s, func(f Fact) bool {
							return !f.Pol && f.T.Op == "bin" && f.T.Name == "==" && (f.T.Args[0].lastField() == "BackoffLimit" || strings.Contains(f.T.Args[0].String(), "BackoffLimit")) && f.T.Args[1].isNilConst()
						})
						_, below := hasFact(s, func(f Fact) bool {
							return f.Pol && f.T.Op == "bin" && f.T.Name == "<" && f.T.Args[0].lastField() == "FailedAttempts" && strings.Contains(f.T.Args[1].String(), "BackoffLimit")
						})
						_, failed := hasFact(s, func(f Fact) bool {
							return !f.Pol && f.T.Op == "bin" && f.T.Name == "==" && errIdx >= 0 && rootParam(f.T.Args[0]) == errIdx && f.T.Args[1].isNilConst()
						})
						return limSet && below && failed
					})
				}
				for _, b := range g.Blocks {
					ret, ok := b.Instrs[len(b.Instrs)-1].(*ssa.Return)
					if !ok || len(ret.Results) != 1 {
						continue
					}
					if phi, isPhi := ret.Results[0].(*ssa.Phi); isPhi {
						for i, e := range phi.Edges {
							if _, pass := e.(*ssa.Parameter); pass {
								continue
							}
							nNew++
							pred := phi.Block().Preds[i]
							fs := fx.FactsAt(pred.Instrs[len(pred.Instrs)-1]).clone()
							fs.addAll(fx.edgeFacts(pred, phi.Block(), 0))
							if !judge(fs) {
								okAll = false
							}
						}
						continue
					}
					if _, pass := ret.Results[0].(*ssa.Parameter); pass {
						continue
					}
					nNew++
					if !fx.allPathsSatisfy(ret, func(s FactSet) bool { return judge(s) }) {
						okAll = false
					}
				}
				c.Check(okAll && nNew > 0, "O5", "ABS", funcKey(us)+": a retry is scheduled iff limit set ∧ attempts < limit ∧ the attempt failed", instrPos(in), "BackoffLimit != nil ∧ FailedAttempts < *BackoffLimit ∧ err != nil (in "+g.Name()+")", "the binder's retry condition no longer complements the scheduler's terminal condition")
				continue
			}
			fs := fx.factsAtDeep(h)
			_, limSet := hasFact(fs, func(f Fact) bool {
				return !f.Pol && f.T.Op == "bin" && f.T.Name == "==" && f.T.Args[0].lastField() == "BackoffLimit" && f.T.Args[1].isNilConst()
			})
			_, below := hasFact(fs, func(f Fact) bool {
				return f.Pol && f.T.Op == "bin" && f.T.Name == "<" && f.T.Args[0].lastField() == "FailedAttempts" && strings.Contains(f.T.Args[1].String(), "BackoffLimit")
			})
			_, failed := hasFact(fs, func(f Fact) bool {
				return !f.Pol && f.T.Op == "bin" && f.T.Name == "==" && rootParam(f.T.Args[0]) == 4 && f.T.Args[1].isNilConst()
			})
			c.Check(limSet && below && failed, "O5", "ABS", funcKey(us)+": a retry is scheduled iff limit set ∧ attempts < limit ∧ the attempt failed", instrPos(in), "BackoffLimit != nil ∧ FailedAttempts < *BackoffLimit ∧ err != nil", "the binder's retry condition no longer complements the scheduler's terminal condition")
		}
	}
	if isFailed != nil {
		// IsFailed ⇔ phase Failed ∧ (limit nil ∨ attempts ≥ limit)
		for i, rp := range fx.retPaths(isFailed, 0, WantTrue) {
			_, ph := hasFact(rp.Facts, func(f Fact) bool {
				return f.Pol && f.T.Op == "bin" && f.T.Name == "==" && f.T.Args[0].lastField() == "Phase"
			})
			_, nilLim := hasFact(rp.Facts, func(f Fact) bool {
				return f.Pol && f.T.Op == "bin" && f.T.Name == "==" && f.T.Args[0].lastField() == "BackoffLimit" && f.T.Args[1].isNilConst()
			})
			_, reached := hasFact(rp.Facts, func(f Fact) bool {
				return f.Pol && f.T.Op == "bin" && f.T.Name == "<=" && strings.Contains(f.T.Args[0].String(), "BackoffLimit") && f.T.Args[1].lastField() == "FailedAttempts"
			})
			c.Check(ph && (nilLim || reached), "O5", "ABS", fmt.Sprintf("%s true path#%d", funcKey(isFailed), i), rp.Pos, "Failed ∧ (no limit ∨ attempts ≥ limit)", "the scheduler's terminal condition for a BindRequest is no longer 'phase Failed and (no limit or attempts ≥ limit)'")
		}
		for i, rp := range fx.retPaths(isFailed, 0, WantFalse) {
			_, notPh := hasFact(rp.Facts, func(f Fact) bool {
				return !f.Pol && f.T.Op == "bin" && f.T.Name == "==" && f.T.Args[0].lastField() == "Phase"
			})
			_, below := hasFact(rp.Facts, func(f Fact) bool {
				return f.Pol && f.T.Op == "bin" && f.T.Name == "<" && f.T.Args[0].lastField() == "FailedAttempts" && strings.Contains(f.T.Args[1].String(), "BackoffLimit")
			})
			c.Check(notPh || below, "O5", "ABS", fmt.Sprintf("%s false path#%d", funcKey(isFailed), i), rp.Pos, "not Failed, or attempts < limit", "IsFailed answers false for a failed request that has exhausted its attempts")
		}
	}
}

// runC12NodePoolLabels (O7): a BindRequest carries the labels of the scheduler's node pool. The snapshot recognises
// a request whose node disappeared — and deletes it — only if the node-pool selector matches the request's labels;
// without them the request is neither charged nor cleaned and the pod can never be bound again (the request is
// named after the pod).
func runC12NodePoolLabels(c *Ctx) {
	fn := c.Anchor("O7", "pkg/scheduler/cache", "SchedulerCache", "createBindRequest")
	if fn == nil {
		return
	}
	n := 0
	for _, in := range instrsIn(fn, func(in ssa.Instruction) bool {
		st, ok := in.(*ssa.Store)
		if !ok {
			return false
		}
		fa, isFA := st.Addr.(*ssa.FieldAddr)
		return isFA && fieldOfAddr(fa).Name() == "Labels"
	}) {
		n++
		labels := stripConv(in.(*ssa.Store).Val)
		isPoolLabels := func(v ssa.Value) bool {
			return termOf(v).contains(func(x *Term) bool { return x.Op == "call" && strings.HasSuffix(x.Name, "GetLabels") })
		}
		merged := false
		if labels.Referrers() != nil {
			for _, r := range *labels.Referrers() {
				switch x := r.(type) {
				case *ssa.MapUpdate:
					// labels[k] = v inside a loop over the node-pool labels
					if x.Map == labels {
						if h := loopHeaderOf(x.Block()); h != nil {
							for b := range naturalLoop(h) {
								for _, li := range b.Instrs {
									if rg, ok := li.(*ssa.Range); ok && isPoolLabels(rg.X) {
										merged = true
									}
								}
							}
							for _, li := range h.Instrs {
								if nx, ok := li.(*ssa.Next); ok {
									if rg, ok := nx.Iter.(*ssa.Range); ok && isPoolLabels(rg.X) {
										merged = true
									}
								}
							}
						}
					}
				case ssa.CallInstruction:
					// maps.Copy(labels, poolLabels): destination first
					cal := calleeOf(x)
					if cal != nil && funcPkgPath(cal) == "maps" && strings.HasPrefix(cal.Name(), "Copy") {
						args := x.Common().Args
						if len(args) == 2 && stripConv(args[0]) == labels && isPoolLabels(args[1]) {
							merged = true
						}
					}
				}
			}
		}
		c.Check(merged, "O7", "PROV", funcKey(fn)+": the request's labels include the node-pool labels", instrPos(in), "labels[k] = v for every node-pool label (or maps.Copy(labels, poolLabels))", "the labels written on the BindRequest do not receive the node-pool labels (e.g. the copy goes the other way): a shard's own requests no longer match its selector, a request for a deleted node is never cleaned up and its pod can never be re-bound")
	}
	c.Floor("O7", "PROV BindRequest label stores", n, 1)
}

// C12-O8 (PROV): the devices promised by an in-flight BindRequest are reserved under the claim OBJECT's name. A
// BindRequest names a claim by the pod-level reference (pod.spec.resourceClaims[].name); the ResourceClaim object has
// another name whenever it was generated from a template. assumePendingClaim resolves the reference
// (GetResourceClaimName) and must look the claim up under the resolved name: a lookup under the reference name fails,
// is only logged by the caller, and the devices of a pod that is being bound look free to the next pod.
func runC12ClaimName(c *Ctx) {
	fn := c.Anchor("O8", "pkg/scheduler/plugins/dynamicresources", "draPlugin", "assumePendingClaim")
	if fn == nil {
		return
	}
	n := 0
	for _, in := range instrsIn(fn, isInvokeNamed("Get")) {
		args := in.(ssa.CallInstruction).Common().Args
		if len(args) < 2 {
			continue
		}
		n++
		resolved := false
		for _, o := range phiLeaves(args[1]) {
			t := termOf(o)
			if t.contains(func(x *Term) bool { return x.Op == "call" && x.Fn != nil && x.Fn.Name() == "GetResourceClaimName" }) {
				resolved = true
			}
		}
		fromRef := termOf(args[1]).contains(func(x *Term) bool { return x.Op == "param" && x.V == ssa.Value(fn.Params[1]) }) && termOf(args[1]).lastField() == "Name"
		c.Check(resolved && !fromRef, "O8", "PROV", funcKey(fn)+": the claim is looked up under the resolved ResourceClaim name", instrPos(in), trunc(termOf(args[1]).String(), 100),
			"the claim of an in-flight BindRequest is looked up under "+trunc(termOf(args[1]).String(), 80)+" instead of the name GetResourceClaimName resolved: for a template-generated claim the lookup fails (only logged) and the devices promised to the pod being bound are handed to another pod")
	}
	c.Floor("O8", "PROV claim lookups", n, 1)
}

// phiLeaves: the non-φ values a value can take (through any nest of φ-nodes, loops included).
func phiLeaves(v ssa.Value) []ssa.Value {
	var out []ssa.Value
	seen := map[ssa.Value]bool{}
	var walk func(x ssa.Value)
	walk = func(x ssa.Value) {
		if seen[x] {
			return
		}
		seen[x] = true
		if ph, ok := x.(*ssa.Phi); ok {
			for _, e := range ph.Edges {
				walk(e)
			}
			return
		}
		out = append(out, x)
	}
	walk(v)
	return out
}

// runC12CleanupScansEveryCycle (O12): cleanStaleBindRequest has two duties — requests for deleted nodes and requests
// the binder has given up on. Both scans are on every path: no exit of the function comes before the scan of the
// request map (a fast path keyed on the other list being empty skips it for good, and a terminally failed request
// keeps its pod unschedulable: creating the new request fails with AlreadyExists in every cycle).
func runC12CleanupScansEveryCycle(c *Ctx) {
	f := c.Anchor("O12", "pkg/scheduler/cache", "SchedulerCache", "cleanStaleBindRequest")
	if f == nil {
		return
	}
	n := 0
	for k := 1; k <= 2 && k < len(f.Params); k++ {
		prm := f.Params[k]
		scans := func(in ssa.Instruction) bool {
			switch x := in.(type) {
			case *ssa.Range:
				return x.X == ssa.Value(prm)
			case *ssa.IndexAddr:
				return x.X == ssa.Value(prm)
			case ssa.CallInstruction:
				// handed to a helper / stdlib iterator as a whole
				for _, a := range x.Common().Args {
					if a == ssa.Value(prm) {
						if bi, isB := x.Common().Value.(*ssa.Builtin); isB && bi.Name() == "len" {
							// the bound of a loop over a slice (an empty slice is scanned by looking at its length)
							_, isSlice := prm.Type().Underlying().(*types.Slice)
							return isSlice
						}
						return true
					}
				}
			}
			return false
		}
		if len(instrsIn(f, scans)) == 0 {
			continue
		}
		n++
		_, path, found := reachAvoiding([]cfgPos{entryPos(f)}, isReturn, scans, nil)
		c.Check(!found, "O12", "MPT", funcKey(f)+": "+prm.Name()+" is scanned on every path", f.Pos(), "no exit before the scan",
			"the clean-up can return without looking at "+prm.Name()+" ("+pathStr(path)+"): stale BindRequests of that kind are never deleted in such cycles, a terminally failed request keeps blocking its pod (the new request collides with it) while younger workloads are bound")
	}
	c.Floor("O12", "MPT scans of the stale-request clean-up", n, 2)
}

// runC12AssumeEveryBindRequest (O13): at session open the DRA plugin marks the devices of every pod that has a
// BindRequest as taken, whatever the pod's status says at that moment (the pod and claim informers lag independently):
// assumePendingClaims walks all pods of every pod group.
func runC12AssumeEveryBindRequest(c *Ctx) {
	f := c.Anchor("O13", "pkg/scheduler/plugins/dynamicresources", "draPlugin", "assumePendingClaims")
	if f == nil {
		return
	}
	n := 0
	for _, in := range instrsIn(f, func(in ssa.Instruction) bool { _, ok := in.(*ssa.Range); return ok }) {
		r := in.(*ssa.Range)
		if !strings.Contains(typeKey(r.X.Type().Underlying()), "pod_info.PodInfo") {
			continue
		}
		n++
		t := termOf(r.X)
		all := t.Op == "call" && t.Fn != nil && t.Fn.Name() == "GetAllPodsMap"
		c.Check(all, "O13", "PROV", funcKey(f)+": the claims of every pod with a BindRequest are assumed", instrPos(in), "range over GetAllPodsMap()", "the pods whose BindRequest claims are assumed are pre-selected ("+trunc(t.String(), 80)+"): a pod that is already bound (or terminating) while its claim still looks unallocated to the scheduler is skipped, and its devices are handed to another pod")
	}
	c.Floor("O13", "PROV pod loops of assumePendingClaims", n, 1)
}
