package main

import (
	"fmt"
	"go/token"
	"go/types"
	"sort"
	"strings"

	"golang.org/x/tools/go/ssa"
)

func init() {
	register("C13", runC13,
		"Decides structural necessary conditions of 'what-if simulations are transactional': every Statement is committed, discarded or handed to the caller on every path; each forward operation logs exactly one record on success and registers an inverse that restores every pod field the forward operation writes, from values captured before the first write, and fires the opposite plugin handler; Commit emits only valid operations, only through commit*, never undoes; cluster side effects are reachable only through Commit/BindPod/Session.Evict; Rollback/Discard undo in reverse order and then truncate. Also: every previous value a forward operation captures for its inverse is written back by the inverse on every successful path and before any callee that reads that field of the task; a captured object that the operation or its plugin handlers mutate in place is handed over as a copy; plugin handlers fire after the job and node updates.",
		"that the restored state equals the earlier one for every operation sequence (needs execution or a proof over the data structures); feasibility of Solve returning a live statement together with false")
}

// handlerFire: dynamic call through EventHandler.AllocateFunc / DeallocateFunc.
func handlerFire(kind string) func(ssa.Instruction) bool {
	return func(in ssa.Instruction) bool {
		c, ok := in.(ssa.CallInstruction)
		if !ok || c.Common().IsInvoke() || c.Common().StaticCallee() != nil {
			return false
		}
		fv := fieldOfValue(c.Common().Value)
		return fv != nil && fv.Name() == kind && strings.HasSuffix(typeKey(fv.Type()), "") && fv.Pkg() != nil && relPkg(fv.Pkg().Path()) == pkgFramework
	}
}

func isStoreToField(fields map[*types.Var]bool) func(ssa.Instruction) bool {
	return func(in ssa.Instruction) bool {
		st, ok := in.(*ssa.Store)
		if !ok {
			return false
		}
		fa, ok := st.Addr.(*ssa.FieldAddr)
		return ok && fields[fieldOfAddr(fa)]
	}
}

// podFieldWrites: names of PodInfo fields written by fn (direct stores through a *PodInfo rooted at
// any value, plus Status when UpdateTaskStatus is called), following repo callees in the framework package to depth d.
func podFieldWrites(p *Prog, fn *ssa.Function, d int, seen map[*ssa.Function]bool) map[string]ssa.Instruction {
	out := map[string]ssa.Instruction{}
	if fn == nil || fn.Blocks == nil || seen[fn] {
		return out
	}
	seen[fn] = true
	podT := p.TypeObj(pkgPodInfo, "PodInfo")
	for _, b := range fn.Blocks {
		for _, in := range b.Instrs {
			switch x := in.(type) {
			case *ssa.Store:
				if fa, ok := x.Addr.(*ssa.FieldAddr); ok {
					if n := namedOf(fa.X.Type()); n != nil && podT != nil && n.Obj() == podT {
						out[fieldOfAddr(fa).Name()] = in
					}
				}
			case ssa.CallInstruction:
				cal := calleeOf(x)
				if cal == nil {
					continue
				}
				if cal.Name() == "UpdateTaskStatus" {
					out["Status"] = in
					continue
				}
				if d > 0 && relPkg(funcPkgPath(cal)) == pkgFramework {
					for k, v := range podFieldWrites(p, cal, d-1, seen) {
						_ = v
						out[k] = in
					}
				}
			}
		}
	}
	return out
}

func runC13(c *Ctx) {
	runC13HandlersLast(c)
	runC13IndexReplace(c)
	runC13PreviousGroups(c)
	runC13LookupsFirst(c, "O17", "C13")
	runC13CommitClearsVirtual(c)
	borrow(c, "O19", "C14", "O1", "PodSet.AssignTask <-> clearOldStatus", "an undone eviction moves the pod out of Releasing: counters that are decremented under another status predicate than they were incremented keep a phantom pod (or lose a real one) after Rollback / Discard")
	borrow(c, "O11", "C01", "O7", "BindPod failure -> unallocate", "a commit step that fails must be taken back in the session: the never-bound pod otherwise stays allocated on its node and in its queue for the rest of the cycle")
	borrow(c, "O12", "C14", "O7", "AcceptedResource is assigned on every path", "AcceptedResource is written by the placement into the caller's PodInfo and is not part of what an undo restores: it must therefore be recomputed by every placement, or an abandoned scenario leaks into the committed one")
	borrow(c, "O13", "C03", "O9", "is rolled back before anything else is placed", "a what-if attempt that is abandoned must leave no trace before the next one is simulated in the same statement")
	borrow(c, "O16", "C14", "O11", "", "an undone operation calls the opposite accounting function in a different node state than the one the forward call saw: only effects decided by the group's own counters are taken back exactly")
	borrow(c, "O7", "C14", "O1", "addTaskIndex <-> deleteTaskIndex", "an undone operation must leave the job's cached counters as they were")

	p, fx := c.P, c.Fx
	stmtT := p.TypeObj(pkgFramework, "Statement")
	if stmtT == nil {
		c.Undec("O1", "ANCHOR", "framework.Statement", 0, "type not found")
		return
	}
	method := func(name string) *ssa.Function { return p.Func(pkgFramework, "Statement", name) }
	commit, discard := c.Anchor("O1", pkgFramework, "Statement", "Commit"), c.Anchor("O1", pkgFramework, "Statement", "Discard")
	newStmt := c.Anchor("O1", pkgFramework, "Session", "Statement")
	if commit == nil || discard == nil || newStmt == nil {
		return
	}
	isStmtPtr := func(t types.Type) bool { n := namedOf(t); return n != nil && n.Obj() == stmtT }

	// ---- O1: typestate — every statement is resolved or handed over
	resolvesOn := func(v ssa.Value) func(ssa.Instruction) bool {
		return func(in ssa.Instruction) bool {
			cc, ok := in.(ssa.CallInstruction)
			if !ok {
				return false
			}
			cal := calleeOf(cc)
			if cal == nil || (!sameFunc(cal, commit) && !sameFunc(cal, discard)) {
				return false
			}
			return cc.Common().Args[0] == v
		}
	}
	// contract of helpers that receive a statement and return a result: memoised
	type ckey struct {
		fn  *ssa.Function
		idx int
	}
	contractMemo := map[ckey]string{} // "" = ok, otherwise the reason it fails
	inProg := map[ckey]bool{}
	var contract func(fn *ssa.Function, idx int) string
	// handedOver: is return r (result 0) a way of handing the statement v over? returns ok, description
	handed := func(fn *ssa.Function, v ssa.Value, ret *ssa.Return) (bool, string) {
		if len(ret.Results) == 0 {
			return false, "returns nothing"
		}
		for ri := range ret.Results {
			res := unspill(ret, ri)
			if res == v {
				return true, "statement returned to the caller"
			}
			// through a phi of results: every incoming must be checked by the path search, so only accept direct forms here
			switch x := res.(type) {
			case *ssa.Call:
				for ai, a := range x.Common().Args {
					if a == v {
						if cal := x.Common().StaticCallee(); cal != nil {
							if why := contract(cal, ai); why == "" {
								return true, "delegated to " + funcKey(cal)
							}
						}
					}
				}
			case *ssa.Extract:
				if call, ok := x.Tuple.(*ssa.Call); ok {
					for ai, a := range call.Common().Args {
						if a == v {
							if cal := call.Common().StaticCallee(); cal != nil {
								if why := contract(cal, ai); why == "" {
									return true, "delegated to " + funcKey(cal)
								}
							}
						}
					}
				}
			case *ssa.Alloc:
				// &solutionResult{..., statement}: a store of v into a field of the returned alloc
				for _, r := range *x.Referrers() {
					if fa, ok := r.(*ssa.FieldAddr); ok {
						for _, rr := range *fa.Referrers() {
							if st, ok := rr.(*ssa.Store); ok && st.Val == v {
								return true, "statement stored in the returned result"
							}
						}
					}
				}
			}
		}
		return false, ""
	}
	// a returned value that is the (non-nil) result of a call taking v: delegation; nil results keep ownership with the caller
	checkOwner := func(fn *ssa.Function, v ssa.Value, start cfgPos, what string, id string, loopBack func(ssa.Instruction) bool) string {
		// search for a path from start to a return (or the loop back target) that neither resolves v nor hands it over
		var bad string
		for _, b := range fn.Blocks {
			ret, ok := b.Instrs[len(b.Instrs)-1].(*ssa.Return)
			if !ok {
				continue
			}
			if ok2, _ := handed(fn, v, ret); ok2 {
				continue
			}
			// results that are phis/values produced by delegating calls guarded by "result != nil": prune paths through a delegating call whose result is returned
			blocker := orPred(resolvesOn(v), func(in ssa.Instruction) bool {
				call, ok := in.(*ssa.Call)
				if !ok {
					return false
				}
				cal := call.Common().StaticCallee()
				if cal == nil {
					return false
				}
				for ai, a := range call.Common().Args {
					if a == v && isStmtPtr(a.Type()) {
						if why := contract(cal, ai); why == "" {
							// the callee always resolves or hands over when it returns non-nil; the path continues only with a nil result
							return delegatesAndReturned(call, ret)
						}
					}
				}
				return false
			})
			if _, path, found := reachAvoiding([]cfgPos{start}, func(in ssa.Instruction) bool { return in == ssa.Instruction(ret) }, blocker, nil); found {
				bad = fmt.Sprintf("%s can reach the return at %s with the statement neither committed, discarded nor handed over (%s)", what, p.Pos(instrPos(ret)), pathStr(path))
			}
		}
		if loopBack != nil {
			if _, path, found := reachAvoiding([]cfgPos{start}, loopBack, resolvesOn(v), nil); found {
				bad = fmt.Sprintf("%s: the next statement is created while this one is neither committed nor discarded (%s)", what, pathStr(path))
			}
		}
		return bad
	}
	contract = func(fn *ssa.Function, idx int) string {
		k := ckey{fn, idx}
		if r, ok := contractMemo[k]; ok {
			return r
		}
		if inProg[k] {
			return ""
		}
		inProg[k] = true
		defer delete(inProg, k)
		if fn.Blocks == nil || idx >= len(fn.Params) {
			contractMemo[k] = "no body"
			return "no body"
		}
		c.Analysed(funcKey(fn))
		v := fn.Params[idx]
		// contract: on every path to a return whose result is non-nil, v is resolved or handed over.
		res := ""
		for _, b := range fn.Blocks {
			ret, ok := b.Instrs[len(b.Instrs)-1].(*ssa.Return)
			if !ok || len(ret.Results) == 0 {
				continue
			}
			r0 := unspill(ret, 0)
			if k, ok := r0.(*ssa.Const); ok && k.IsNil() {
				continue // nil result: ownership stays with the caller
			}
			if ok2, _ := handed(fn, v, ret); ok2 {
				continue
			}
			blocker := orPred(resolvesOn(v), func(in ssa.Instruction) bool {
				call, ok := in.(*ssa.Call)
				if !ok {
					return false
				}
				cal := call.Common().StaticCallee()
				if cal == nil {
					return false
				}
				for ai, a := range call.Common().Args {
					if a == v {
						if contract(cal, ai) == "" {
							return delegatesAndReturned(call, ret)
						}
					}
				}
				return false
			})
			if _, path, found := reachAvoiding([]cfgPos{entryPos(fn)}, func(in ssa.Instruction) bool { return in == ssa.Instruction(ret) }, blocker, nil); found {
				res = fmt.Sprintf("%s returns a result at %s on a path where the statement is neither discarded nor stored in the result (%s)", funcKey(fn), p.Pos(instrPos(ret)), pathStr(path))
			}
		}
		contractMemo[k] = res
		return res
	}
	nCreate := 0
	for _, cs := range p.CallSites(newStmt) {
		fn := cs.Parent()
		if isTestdataOrMock(fn) {
			continue
		}
		nCreate++
		c.Analysed(funcKey(fn))
		v := cs.Value()
		var loopBack func(ssa.Instruction) bool
		if loopHeaderOf(cs.Block()) != nil {
			loopBack = func(in ssa.Instruction) bool { return in == ssa.Instruction(cs.(*ssa.Call)) }
		}
		bad := checkOwner(fn, v, afterInstr(cs), funcKey(fn), "O1", loopBack)
		if bad != "" {
			// helpers returning the same result type that fail to hand the statement over explain the report
			var notes []string
			for k, why := range contractMemo {
				if why != "" && why != "no body" && fn.Signature.Results().Len() > 0 && k.fn.Signature.Results().Len() > 0 &&
					types.Identical(k.fn.Signature.Results().At(0).Type(), fn.Signature.Results().At(0).Type()) {
					notes = append(notes, why)
				}
			}
			sort.Strings(notes)
			if len(notes) > 0 {
				bad += "; helper(s) that do not discharge it: " + strings.Join(notes, " | ")
			}
		}
		c.Check(bad == "", "O1", "STMT", funcKey(fn)+": statement created here is resolved on every path", instrPos(cs), "committed, discarded, or handed to the caller (through a helper that resolves or returns it) on every path", bad)
	}
	c.Floor("O1", "STMT creation sites", nCreate, 2)
	// JobSolver.Solve: a non-final partial statement is discarded before it is overwritten
	if solve := c.Anchor("O1", "pkg/scheduler/actions/common/solvers", "JobSolver", "Solve"); solve != nil {
		// the statement field of a partial result is discarded behind "!satisfactorySolution"
		n := 0
		for _, in := range instrsIn(solve, isCallToFn(discard)) {
			n++
			t := termOf(in.(ssa.CallInstruction).Common().Args[0])
			c.Check(t.Op == "field" && t.Name == "statement", "O1", "STMT", funcKey(solve)+": partial statement discarded", instrPos(in), "Discard on the partial result's statement", "Solve discards something other than the partial result's statement")
		}
		c.Check(n >= 1, "O1", "STMT", funcKey(solve)+": discards non-final partial statements", solve.Pos(), "present", "Solve no longer discards the statement of a non-final partial solution before overwriting it (its evictions stay applied to the session)")
	}

	// ---- O2: each forward operation logs exactly one record on every nil-returning path
	opsField := p.fieldVars(pkgFramework, "Statement", "operations")
	storeOps := isStoreToField(opsField)
	logs := p.performs(storeOps, 3)
	for _, name := range []string{"Evict", "Pipeline", "Allocate"} {
		fn := c.Anchor("O2", pkgFramework, "Statement", name)
		if fn == nil {
			continue
		}
		n := 0
		for _, b := range fn.Blocks {
			ret, ok := b.Instrs[len(b.Instrs)-1].(*ssa.Return)
			if !ok {
				continue
			}
			r := unspill(ret, 0)
			if k, ok := r.(*ssa.Const); !ok || !k.IsNil() {
				// `return err` of a delegating call (Unevict) is fine: the callee logged or failed
				continue
			}
			n++
			_, path, found := reachAvoiding([]cfgPos{entryPos(fn)}, func(in ssa.Instruction) bool { return in == ssa.Instruction(ret) }, logs, nil)
			c.Check(!found, "O2", "MPT", fmt.Sprintf("%s: success return #%d logs an operation", funcKey(fn), n), instrPos(ret), "every successful path appends an operation record (or undoes an earlier one through undoOperation)", "a successful "+name+" can return without logging an operation: it could never be undone or committed ("+pathStr(path)+")")
			// at most one direct append on any path
		}
		direct := instrsIn(fn, storeOps)
		c.Check(len(direct) == 1, "O2", "MPT", funcKey(fn)+": single append site", fn.Pos(), "one append of an operation record", fmt.Sprintf("%d stores to Statement.operations in %s (expected exactly one append per forward operation)", len(direct), name))
	}

	// ---- O3: write-set ⊆ restore-set, inverse captured before the first write
	inverseOf := map[string]string{"Evict": "unevict", "Pipeline": "unpipeline", "Allocate": "unallocate"}
	exemptWrites := map[string]string{
		"Allocate.ResourceClaimInfo": "written only by the plugins' allocate handler; unallocate fires the deallocate handler which clears the recorded allocation, and an entry without allocation is treated as absent by the allocate handler (read and confirmed)",
	}
	// pod fields written by registered plugin handlers, per polarity
	handlerWrites := map[string]map[string]ssa.Instruction{"AllocateFunc": {}, "DeallocateFunc": {}}
	handlerInPlace := map[string]map[string]ssa.Instruction{"AllocateFunc": {}, "DeallocateFunc": {}}
	handlersOf := map[string][]*ssa.Function{}
	if addEH := p.Func(pkgFramework, "Session", "AddEventHandler"); addEH != nil {
		nreg := 0
		for _, cs := range p.CallSites(addEH) {
			if isTestdataOrMock(cs.Parent()) {
				continue
			}
			al, ok := cs.Common().Args[1].(*ssa.Alloc)
			if !ok {
				c.Undec("O3", "REG", funcKey(cs.Parent())+": event handler registration", instrPos(cs), "handler struct is not a literal: registered handlers cannot be enumerated")
				continue
			}
			for _, r := range *al.Referrers() {
				fa, ok := r.(*ssa.FieldAddr)
				if !ok {
					continue
				}
				kind := fieldOfAddr(fa).Name()
				for _, rr := range *fa.Referrers() {
					st, ok := rr.(*ssa.Store)
					if !ok {
						continue
					}
					var h *ssa.Function
					switch v := st.Val.(type) {
					case *ssa.Call:
						h = returnedClosure(v.Common().StaticCallee())
					case *ssa.MakeClosure:
						h = v.Fn.(*ssa.Function)
					case *ssa.Function:
						h = v
					}
					if h == nil {
						c.Undec("O3", "REG", funcKey(cs.Parent())+": "+kind, instrPos(st), "registered handler cannot be resolved to a function")
						continue
					}
					nreg++
					c.Analysed(funcKey(h))
					for k, v := range podTermWrites(p, h, 3, map[*ssa.Function]bool{}) {
						handlerWrites[kind][k] = v
					}
					for k, v := range podInPlaceWrites(p, h, 3, map[*ssa.Function]bool{}) {
						handlerInPlace[kind][k] = v
					}
					handlersOf[kind] = append(handlersOf[kind], h)
				}
			}
		}
		c.Floor("O3", "REG registered handlers", nreg, 4)
	}
	firesKind := func(fn *ssa.Function) string {
		// (directly, or through a notification helper split off the operation)
		if len(instrsIn(fn, p.performs(handlerFire("AllocateFunc"), 2))) > 0 {
			return "AllocateFunc"
		}
		if len(instrsIn(fn, p.performs(handlerFire("DeallocateFunc"), 2))) > 0 {
			return "DeallocateFunc"
		}
		return ""
	}
	nCaptured := 0
	for _, fwd := range sortedKeys(inverseOf) {
		f, g := method(fwd), method(inverseOf[fwd])
		if f == nil || g == nil {
			c.Undec("O3", "ANCHOR", "Statement."+fwd+"/"+inverseOf[fwd], 0, "operation or inverse not found")
			continue
		}
		c.Analysed(funcKey(f), funcKey(g))
		// the forward op registers a closure that calls the inverse
		reg := false
		var closure *ssa.Function
		var mcSite *ssa.MakeClosure
		for _, an := range f.AnonFuncs {
			if len(instrsIn(an, isCallToFn(g))) > 0 {
				reg = true
				closure = an
			}
		}
		c.Check(reg, "O3", "REG", funcKey(f)+": registers "+inverseOf[fwd]+" as reverse operation", f.Pos(), "reverse closure calls "+inverseOf[fwd], "the forward operation does not register "+inverseOf[fwd]+" as its inverse")
		if closure != nil {
			for _, mc := range closureSites(closure) {
				mcSite = mc
			}
		}
		w := podFieldWrites(p, f, 1, map[*ssa.Function]bool{})
		for k, v := range handlerWrites[firesKind(f)] {
			if _, ok := w[k]; !ok {
				w[k] = v
			}
		}
		r := podFieldWrites(p, g, 1, map[*ssa.Function]bool{})
		var ws []string
		for k := range w {
			ws = append(ws, k)
		}
		sort.Strings(ws)
		for _, fld := range ws {
			_, ok := r[fld]
			if why, ex := exemptWrites[fwd+"."+fld]; ex && !ok {
				c.Hold("O3", "FIELDS", funcKey(f)+" writes PodInfo."+fld, instrPos(w[fld]), "exempt: "+why)
				continue
			}
			c.Check(ok, "O3", "FIELDS", funcKey(f)+" writes PodInfo."+fld, instrPos(w[fld]), "restored by "+inverseOf[fwd], "forward operation writes PodInfo."+fld+" but its inverse "+inverseOf[fwd]+" never restores it: an undone "+fwd+" leaves the field changed")
		}
		c.Floor("O3", "FIELDS writes of "+fwd, len(ws), 2)
		// captured values are read before the first write of the same field
		if mcSite != nil {
			for _, b := range mcSite.Bindings {
				al, ok := b.(*ssa.Alloc)
				var src ssa.Value = b
				if ok {
					if sv := singleStore(al); sv != nil {
						src = sv
					}
				}
				t := termOf(src)
				if t.Op != "field" || namedOf(src.Type()) == nil && t.Args[0] == nil {
					continue
				}
				// only loads of PodInfo fields of the operated task
				ld, ok := src.(*ssa.UnOp)
				if !ok {
					continue
				}
				fa, ok := ld.X.(*ssa.FieldAddr)
				if !ok {
					continue
				}
				n := namedOf(fa.X.Type())
				if n == nil || n.Obj().Name() != "PodInfo" {
					continue
				}
				fld := fieldOfAddr(fa).Name()
				wr, written := w[fld]
				if !written {
					continue
				}
				isWrite := func(in ssa.Instruction) bool {
					if st, ok := in.(*ssa.Store); ok {
						if fa2, ok := st.Addr.(*ssa.FieldAddr); ok && fieldOfAddr(fa2).Name() == fld {
							if n2 := namedOf(fa2.X.Type()); n2 != nil && n2.Obj().Name() == "PodInfo" {
								return true
							}
						}
					}
					if cc, ok := in.(ssa.CallInstruction); ok && fld == "Status" {
						if cal := calleeOf(cc); cal != nil && cal.Name() == "UpdateTaskStatus" {
							return true
						}
					}
					return false
				}
				_ = wr
				// is there a path entry → write(fld) → load ?
				bad := false
				for _, wi := range instrsIn(f, isWrite) {
					if _, _, found := reachAvoiding([]cfgPos{afterInstr(wi)}, func(in ssa.Instruction) bool { return in == ssa.Instruction(ld) }, nil, nil); found {
						bad = true
					}
				}
				c.Check(!bad, "O3", "PROV", funcKey(f)+": previous "+fld+" captured before it is overwritten", instrPos(ld), "the value handed to the inverse is read before the first write", "the 'previous "+fld+"' given to the inverse is read after the forward operation already changed it: undo restores the new value")
			}
		}
		// O9/O10: captured values are restored (in time) and are private copies where the operation mutates in place
		inPlace := podInPlaceWrites(p, f, 2, map[*ssa.Function]bool{})
		for k, v := range handlerInPlace[firesKind(f)] {
			if _, ok := inPlace[k]; !ok {
				inPlace[k] = v
			}
		}
		nCaptured += runC13CaptureRestore(c, fwd, f, g, closure, mcSite, inPlace, handlersOf[firesKind(g)])
	}
	c.Floor("O9", "FIELDS captured PodInfo fields", nCaptured, 6)

	// ---- O4: handler polarity and node updates
	type hexp struct {
		fn      *ssa.Function
		fire    string
		notFire string
	}
	sessEvict := p.Func(pkgFramework, "Session", "Evict")
	for _, e := range []hexp{
		{method("Allocate"), "AllocateFunc", "DeallocateFunc"}, {method("Pipeline"), "AllocateFunc", "DeallocateFunc"}, {method("unevict"), "AllocateFunc", "DeallocateFunc"},
		{method("Evict"), "DeallocateFunc", "AllocateFunc"}, {method("unallocate"), "DeallocateFunc", "AllocateFunc"}, {method("unpipeline"), "DeallocateFunc", "AllocateFunc"},
		{sessEvict, "DeallocateFunc", "AllocateFunc"},
	} {
		if e.fn == nil {
			c.Undec("O4", "ANCHOR", "statement operation", 0, "operation not found")
			continue
		}
		c.Analysed(funcKey(e.fn))
		fires := len(instrsIn(e.fn, p.performs(handlerFire(e.fire), 2))) > 0
		wrong := len(instrsIn(e.fn, p.performs(handlerFire(e.notFire), 2))) > 0
		c.Check(fires && !wrong, "O4", "MPT", funcKey(e.fn)+": fires "+e.fire, e.fn.Pos(), "fires every "+e.fire+" and no "+e.notFire, fmt.Sprintf("plugin handlers are fired with the wrong polarity (fires %s=%v, fires %s=%v): queue usage kept by the plugins diverges from the pods", e.fire, fires, e.notFire, wrong))
		// every nil-returning path passes the handler loop header (the range over the handlers)
		for _, hi := range instrsIn(e.fn, p.performs(handlerFire(e.fire), 2)) {
			h := loopHeaderOf(hi.Block())
			if h == nil && handlerFire(e.fire)(hi) {
				continue
			}
			// the fire must not be guarded by anything except "handler != nil" inside the loop
			for _, b := range e.fn.Blocks {
				ret, ok := b.Instrs[len(b.Instrs)-1].(*ssa.Return)
				if !ok {
					continue
				}
				if k, ok := unspill(ret, 0).(*ssa.Const); !ok || !k.IsNil() {
					continue
				}
				delegating := p.performs(handlerFire(e.fire), 4)
				_, path, found := reachAvoiding([]cfgPos{entryPos(e.fn)}, func(in ssa.Instruction) bool { return in == ssa.Instruction(ret) }, func(in ssa.Instruction) bool { return (h != nil && in.Block() == h) || delegating(in) }, nil)
				c.Check(!found, "O4", "MPT", fmt.Sprintf("%s: success return at block %d passes the %s loop", funcKey(e.fn), b.Index, e.fire), instrPos(ret), "handlers fired on every successful path", "a successful path skips the plugin handlers ("+pathStr(path)+")")
			}
		}
	}

	// ---- O5: Commit emits only valid operations, never undoes; undo only of valid operations
	opValid := method("operationValid")
	undoOp := method("undoOperation")
	if opValid != nil && undoOp != nil {
		emitters := []*ssa.Function{method("commitEvict"), method("commitPipeline"), method("commitAllocate")}
		for _, em := range emitters {
			if em == nil {
				c.Undec("O5", "ANCHOR", "Statement.commit*", 0, "commit helper not found")
				continue
			}
			calls := instrsIn(commit, isCallToFn(em))
			c.Check(len(calls) >= 1, "O5", "REG", funcKey(commit)+" emits through "+em.Name(), commit.Pos(), "operation kind handled", "Commit no longer handles the operation kind served by "+em.Name()+" (it would be dropped silently)")
			for _, call := range calls {
				fs := fx.FactsAt(call)
				d, ok := hasFact(fs, func(f Fact) bool { return f.Pol && f.T.isCallTo(opValid) })
				c.Check(ok, "O5", "DOM", funcKey(commit)+": "+em.Name()+" only for valid operations", instrPos(call), d, "Commit can emit an operation that was undone (operationValid(i) is not established on the path to "+em.Name()+")")
			}
			// who else calls the emitters?
			for _, cs := range p.CallSites(em) {
				if cs.Parent() != commit && !isTestdataOrMock(cs.Parent()) {
					c.Viol("O5", "CALLERS", funcKey(cs.Parent())+" calls "+em.Name(), instrPos(cs), "cluster side effects of a statement are emitted outside Commit")
				}
			}
		}
		// Commit must not undo anything (directly): a failed bind stops and clears
		for _, forbidden := range []*ssa.Function{discard, method("Rollback"), undoOp, method("Unevict"), method("undoEarliestValidOperation")} {
			if forbidden == nil {
				continue
			}
			calls := instrsIn(commit, isCallToFn(forbidden))
			c.Check(len(calls) == 0, "O5", "CALLERS", funcKey(commit)+" does not call "+forbidden.Name(), commit.Pos(), "no undo inside Commit", "Commit undoes operations ("+forbidden.Name()+"): effects already emitted to the cluster (bind requests, evictions) would be reverted in the session only")
		}
		// after a failed commitAllocate: stop (no further emission)
		if ca := method("commitAllocate"); ca != nil {
			for _, call := range instrsIn(commit, isCallToFn(ca)) {
				vals, allocs := errValuesOf(call.(*ssa.Call))
				isErr := func(v ssa.Value) bool {
					for _, e := range vals {
						if v == e {
							return true
						}
					}
					if u, ok := v.(*ssa.UnOp); ok && u.Op == token.MUL {
						for _, a := range allocs {
							if u.X == a {
								return true
							}
						}
					}
					return false
				}
				emits := isCallToFn(emitters...)
				_, path, found := reachAvoiding([]cfgPos{afterInstr(call)}, emits, nil, func(from, to *ssa.BasicBlock) bool {
					return !edgeAssertsNil(fx, from, to, isErr)
				})
				c.Check(!found, "O5", "MPT", funcKey(commit)+": stops emitting after a failed bind", instrPos(call), "no emission is reachable once commitAllocate failed", "Commit keeps emitting operations after a bind failed ("+pathStr(path)+")")
			}
		}
		// a failed eviction must not drop the operations that follow it: the victims already evicted stay evicted, so
		// the placement they were evicted for (the pipeline operations later in the list) must still be emitted
		if ce := method("commitEvict"); ce != nil {
			for _, call := range instrsIn(commit, isCallToFn(ce)) {
				h := loopHeaderOf(call.Block())
				if h == nil {
					c.Undec("O5", "MPT", funcKey(commit)+": a failed eviction does not end the commit", instrPos(call), "commitEvict is not called from the operations loop")
					continue
				}
				hdr := h.Instrs[0]
				_, path, found := reachAvoiding([]cfgPos{afterInstr(call)}, isReturn, func(x ssa.Instruction) bool { return x == hdr }, nil)
				c.Check(!found, "O5", "MPT", funcKey(commit)+": a failed eviction does not end the commit", instrPos(call), "after commitEvict every path goes on with the next operation",
					"Commit can return right after an eviction (failed or not) without emitting the remaining operations ("+pathStr(path)+"): victims evicted earlier in the list stay evicted while the nomination of the workload they were evicted for is dropped")
			}
		}
		// undo paths: Reverse() only for valid operations
		for _, fnName := range []string{"undoOperation", "undoEarliestValidOperation"} {
			fn := method(fnName)
			if fn == nil {
				continue
			}
			c.Analysed(funcKey(fn))
			var sites []ssa.Instruction
			if fnName == "undoOperation" {
				sites = instrsIn(fn, isInvokeNamed("Reverse"))
			} else {
				sites = instrsIn(fn, isCallToFn(undoOp))
			}
			for _, s := range sites {
				fs := fx.FactsAt(s)
				d, ok := hasFact(fs, func(f Fact) bool { return f.Pol && f.T.isCallTo(opValid) })
				c.Check(ok, "O5", "DOM", funcKey(fn)+": undo only of a still-valid operation", instrPos(s), d, "an operation that was already undone can be selected/undone again (operationValid is not established): a later valid operation of the same pod is left applied while success is reported")
			}
			c.Floor("O5", "DOM undo sites in "+fnName, len(sites), 1)
		}
	}

	// ---- O6: who may touch the cluster / the operation log; reverse order then truncate
	allowedEmit := map[string]map[string]bool{
		"Bind":          {"(*pkg/scheduler/framework.Session).BindPod": true},
		"Evict":         {"(*pkg/scheduler/framework.Statement).commitEvict": true, "(*pkg/scheduler/framework.Session).Evict": true},
		"TaskPipelined": {"(*pkg/scheduler/framework.Statement).commitPipeline": true},
	}
	cacheIface := p.TypeObj("pkg/scheduler/cache", "Cache")
	n := 0
	for _, cs := range p.InvokeSites(func(m *types.Func) bool {
		if allowedEmit[m.Name()] == nil {
			return false
		}
		recv := m.Type().(*types.Signature).Recv()
		return recv != nil && cacheIface != nil && namedOf(recv.Type()) != nil && namedOf(recv.Type()).Obj() == cacheIface
	}) {
		fn := cs.Parent()
		if isTestdataOrMock(fn) {
			continue
		}
		n++
		name := invokedMethod(cs).Name()
		c.Check(allowedEmit[name][funcKey(fn)], "O6", "CALLERS", "Cache."+name+" called by "+funcKey(fn), instrPos(cs), "emission point of the commit path", "a cluster side effect (Cache."+name+") is reachable outside the commit path: an abandoned simulation could reach the cluster")
	}
	c.Floor("O6", "CALLERS cache emission sites", n, 4)
	// Session.BindPod only from commitAllocate; Session.Evict not from actions that simulate
	if bp := p.Func(pkgFramework, "Session", "BindPod"); bp != nil {
		for _, cs := range p.CallSites(bp) {
			if isTestdataOrMock(cs.Parent()) {
				continue
			}
			c.Check(funcKey(cs.Parent()) == "(*pkg/scheduler/framework.Statement).commitAllocate", "O6", "CALLERS", "Session.BindPod called by "+funcKey(cs.Parent()), instrPos(cs), "commit path", "pods are bound outside Statement.Commit")
		}
	}
	ws := p.writersOf(opsField)
	for f := range ws {
		if isTestdataOrMock(f) {
			continue
		}
		root := rootFunc(f)
		ok := root.Signature.Recv() != nil && isStmtPtr(root.Signature.Recv().Type())
		if root == newStmt {
			ok = true
		}
		c.Check(ok, "O6", "CALLERS", "Statement.operations written by "+funcKey(f), instrPos(ws[f][0]), "Statement method", "the operation log is modified outside the Statement type")
	}
	for _, name := range []string{"Rollback", "Discard"} {
		fn := method(name)
		if fn == nil || undoOp == nil {
			continue
		}
		calls := instrsIn(fn, isCallToFn(undoOp))
		c.Check(len(calls) == 1, "O6", "MPT", funcKey(fn)+": undo loop", fn.Pos(), "one undo loop", "expected exactly one undoOperation call site")
		for _, call := range calls {
			idx := call.(ssa.CallInstruction).Common().Args[1]
			phi, ok := idx.(*ssa.Phi)
			desc := false
			if ok {
				for _, e := range phi.Edges {
					if bo, ok := e.(*ssa.BinOp); ok && bo.Op == token.SUB && bo.X == phi {
						desc = true
					}
				}
			}
			c.Check(desc, "O6", "PROV", funcKey(fn)+": undoes in reverse order", instrPos(call), "index decreases from the end", "operations are not undone in reverse order of application (later operations depend on earlier ones)")
		}
		// truncate / clear after the loop on the success path
		clears := p.performs(storeOps, 1)
		for _, b := range fn.Blocks {
			ret, ok := b.Instrs[len(b.Instrs)-1].(*ssa.Return)
			if !ok {
				continue
			}
			if len(ret.Results) == 1 {
				if k, ok := unspill(ret, 0).(*ssa.Const); !ok || !k.IsNil() {
					continue
				}
			}
			// the early "nothing to do" return of Discard is allowed: it is behind len(operations)==0
			fs := fx.blockFacts(fn, 0)[b]
			if _, empty := hasFact(fs, func(f Fact) bool {
				return f.Pol && f.T.Op == "bin" && f.T.Name == "==" && strings.Contains(f.T.String(), "builtin.len") && strings.Contains(f.T.String(), "operations") && f.T.Args[1].String() == "const:0"
			}); empty {
				continue
			}
			// only clears that happen after the undo loop count
			var after []cfgPos
			for _, call := range calls {
				after = append(after, afterInstr(call))
			}
			_, path, found := reachAvoiding([]cfgPos{entryPos(fn)}, func(in ssa.Instruction) bool { return in == ssa.Instruction(ret) }, clears, nil)
			c.Check(!found, "O6", "MPT", fmt.Sprintf("%s: log truncated before the successful return (block %d)", funcKey(fn), b.Index), instrPos(ret), "operation log truncated/cleared", "undone operations stay in the log: a later Commit would re-apply bookkeeping for them ("+pathStr(path)+")")
		}
	}
}

// delegatesAndReturned: the result of call (or an extract of it) is what ret returns, or ret is only
// reachable from the call through a "result != nil" test — approximated as: ret returns the call's value
// (directly, through an extract, or through a phi one of whose edges is the call's value).
func delegatesAndReturned(call *ssa.Call, ret *ssa.Return) bool {
	derives := func(v ssa.Value) bool {
		seen := map[ssa.Value]bool{}
		var rec func(v ssa.Value) bool
		rec = func(v ssa.Value) bool {
			if v == ssa.Value(call) {
				return true
			}
			if seen[v] {
				return false
			}
			seen[v] = true
			switch x := v.(type) {
			case *ssa.Extract:
				return rec(x.Tuple)
			case *ssa.Phi:
				for _, e := range x.Edges {
					if rec(e) {
						return true
					}
				}
			}
			return false
		}
		return rec(v)
	}
	for i := range ret.Results {
		if derives(unspill(ret, i)) {
			return true
		}
	}
	return false
}

// podTermWrites: PodInfo fields mutated by fn through any access path (field store, map update on
// a map held in a PodInfo field, store through an element of such a map), following repo callees.
func podTermWrites(p *Prog, fn *ssa.Function, d int, seen map[*ssa.Function]bool) map[string]ssa.Instruction {
	out := map[string]ssa.Instruction{}
	if fn == nil || fn.Blocks == nil || seen[fn] {
		return out
	}
	seen[fn] = true
	podField := func(t *Term) string {
		// follow the access path only (first operand), never map keys or call arguments
		for x := t; x != nil; {
			if x.Op == "field" && x.Args[0].V != nil {
				if n := namedOf(x.Args[0].V.Type()); n != nil && n.Obj().Name() == "PodInfo" && n.Obj().Pkg() != nil && relPkg(n.Obj().Pkg().Path()) == pkgPodInfo {
					return x.Name
				}
			}
			if len(x.Args) == 0 || x.Op == "call" {
				break
			}
			x = x.Args[0]
		}
		return ""
	}
	for _, b := range fn.Blocks {
		for _, in := range b.Instrs {
			switch x := in.(type) {
			case *ssa.Store:
				if f := podField(termOf(x.Addr)); f != "" {
					out[f] = in
				}
			case *ssa.MapUpdate:
				if f := podField(termOf(x.Map)); f != "" {
					out[f] = in
				}
			case ssa.CallInstruction:
				if cal := calleeOf(x); cal != nil && d > 0 && strings.HasPrefix(funcPkgPath(cal), modPath) {
					for k := range podTermWrites(p, cal, d-1, seen) {
						out[k] = in
					}
				}
			}
		}
	}
	return out
}

// runC13HandlersLast (O8): in every statement operation and in every undo, the plugins' allocate/deallocate
// handlers are invoked after the job and node updates of that operation. The handlers read state that those
// updates compute (the task's accepted resources are recomputed per node inside NodeInfo.AddTask/UpdateTask), so a
// handler fired earlier charges the queues with the values of another node.
func runC13HandlersLast(c *Ctx) {
	p := c.P
	isHandler := func(in ssa.Instruction) bool {
		call, ok := in.(*ssa.Call)
		if !ok || !isDynCall(call) {
			return false
		}
		f := termOf(call.Common().Value).lastField()
		return f == "AllocateFunc" || f == "DeallocateFunc"
	}
	isStateUpdate := func(in ssa.Instruction) bool {
		cc, ok := in.(ssa.CallInstruction)
		if !ok || calleeOf(cc) == nil {
			return false
		}
		switch calleeOf(cc).Name() {
		case "AddTask", "UpdateTask", "RemoveTask":
			return strings.HasSuffix(funcPkgPath(calleeOf(cc)), "node_info")
		case "UpdateTaskStatus":
			return true
		}
		return false
	}
	n := 0
	for _, nm := range []string{"Evict", "unevict", "Pipeline", "unpipeline", "Allocate", "unallocate"} {
		fn := c.Anchor("O8", pkgFramework, "Statement", nm)
		if fn == nil {
			continue
		}
		for _, h := range p.deepFind(fn, isHandler, 1) {
			n++
			start := afterInstr(h.In)
			start.Ctx = h.Chain
			in, path, found := reachAvoiding([]cfgPos{start}, isStateUpdate, nil, nil)
			what := ""
			if found {
				what = p.Pos(instrPos(in))
			}
			c.Check(!found, "O8", "MPT", funcKey(fn)+": plugin handlers fire after the job and node were updated", instrPos(h.In), "no job/node update follows the handler invocation",
				"a plugin handler is invoked before the node/job update at "+what+" ("+pathStr(path)+"): the handler reads the task's accepted resources, which that update recomputes for the node — after an undone relocation of a gpu-memory task between nodes with different GPU sizes the queue stays charged with the other node's value")
		}
	}
	c.Floor("O8", "MPT handler invocations", n, 6)
}
