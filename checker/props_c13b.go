package main

// C13-O9/O10: what the forward operations capture for their inverse is (a) really restored by the inverse,
// on every successful path and before anything that reads the restored field, and (b) a private copy whenever
// the forward operation (or the plugin handlers it fires) mutates the captured object in place.

import (
	"fmt"
	"sort"
	"strings"

	"golang.org/x/tools/go/ssa"
)

// podFieldOfAddr: addr is &x.F with x a *PodInfo (or PodInfo) of the scheduler's pod_info package.
func podFieldOfAddr(addr ssa.Value) (string, ssa.Value) {
	fa, ok := addr.(*ssa.FieldAddr)
	if !ok {
		return "", nil
	}
	n := namedOf(fa.X.Type())
	if n == nil || n.Obj().Name() != "PodInfo" || n.Obj().Pkg() == nil || relPkg(n.Obj().Pkg().Path()) != pkgPodInfo {
		return "", nil
	}
	return fieldOfAddr(fa).Name(), fa.X
}

// capturedPodField: the PodInfo field a captured value was read from — the raw load of the field (alias=true), or
// the result of a call on that load (a copy made by Clone and the like; alias=false).
func capturedPodField(v ssa.Value) (fld string, alias bool, ld *ssa.UnOp) {
	v = stripConv(v)
	if u, ok := v.(*ssa.UnOp); ok {
		if f, _ := podFieldOfAddr(u.X); f != "" {
			return f, true, u
		}
	}
	if call, ok := v.(*ssa.Call); ok {
		for _, a := range call.Common().Args {
			if u, ok := stripConv(a).(*ssa.UnOp); ok {
				if f, _ := podFieldOfAddr(u.X); f != "" {
					return f, false, u
				}
			}
		}
	}
	return "", false, nil
}

// storedValues: the values a captured variable can hold (all stores to the alloc; the value itself otherwise;
// through phis).
func storedValues(b ssa.Value) []ssa.Value {
	var out []ssa.Value
	seen := map[ssa.Value]bool{}
	var add func(v ssa.Value, d int)
	add = func(v ssa.Value, d int) {
		if v == nil || seen[v] || d > 4 {
			return
		}
		seen[v] = true
		switch x := v.(type) {
		case *ssa.Alloc:
			for _, r := range *x.Referrers() {
				if st, ok := r.(*ssa.Store); ok && st.Addr == ssa.Value(x) {
					add(st.Val, d+1)
				}
			}
		case *ssa.Phi:
			for _, e := range x.Edges {
				add(e, d+1)
			}
		default:
			out = append(out, v)
		}
	}
	add(b, 0)
	return out
}

// podInPlaceWrites: PodInfo fields whose object is mutated in place by fn (map update on a map held in the field,
// store through an element reached from the field) — as opposed to the field being re-assigned.
func podInPlaceWrites(p *Prog, fn *ssa.Function, d int, seen map[*ssa.Function]bool) map[string]ssa.Instruction {
	out := map[string]ssa.Instruction{}
	if fn == nil || fn.Blocks == nil || seen[fn] {
		return out
	}
	seen[fn] = true
	under := func(t *Term) string {
		first := true
		for x := t; x != nil; {
			if x.Op == "field" && x.Args[0].V != nil {
				if n := namedOf(x.Args[0].V.Type()); n != nil && n.Obj().Name() == "PodInfo" && n.Obj().Pkg() != nil && relPkg(n.Obj().Pkg().Path()) == pkgPodInfo {
					if first {
						return "" // the field itself is assigned
					}
					return x.Name
				}
			}
			if len(x.Args) == 0 || x.Op == "call" {
				break
			}
			x = x.Args[0]
			first = false
		}
		return ""
	}
	for _, b := range fn.Blocks {
		for _, in := range b.Instrs {
			switch x := in.(type) {
			case *ssa.Store:
				if f := under(termOf(x.Addr)); f != "" {
					out[f] = in
				}
			case *ssa.MapUpdate:
				t := termOf(x.Map)
				if t.Op == "field" || t.Op == "load" {
					// the map held directly in the field
					if f := podFieldOfTerm(t); f != "" {
						out[f] = in
						continue
					}
				}
				if f := under(t); f != "" {
					out[f] = in
				}
			case ssa.CallInstruction:
				if cal := calleeOf(x); cal != nil && d > 0 && strings.HasPrefix(funcPkgPath(cal), modPath) {
					for k := range podInPlaceWrites(p, cal, d-1, seen) {
						out[k] = in
					}
				}
			}
		}
	}
	return out
}

func podFieldOfTerm(t *Term) string {
	for x := t; x != nil; {
		if x.Op == "field" && x.Args[0].V != nil {
			if n := namedOf(x.Args[0].V.Type()); n != nil && n.Obj().Name() == "PodInfo" && n.Obj().Pkg() != nil && relPkg(n.Obj().Pkg().Path()) == pkgPodInfo {
				return x.Name
			}
		}
		if len(x.Args) == 0 || x.Op == "call" {
			break
		}
		x = x.Args[0]
	}
	return ""
}

// readsPodFieldOfParam: fn (or a module callee it hands the parameter to) reads field fld of the PodInfo it
// receives as parameter idx.
func readsPodFieldOfParam(fn *ssa.Function, idx int, fld string, d int, seen map[string]bool) bool {
	if fn == nil || len(fn.Blocks) == 0 || idx < 0 || idx >= len(fn.Params) {
		return false
	}
	key := fmt.Sprintf("%s#%d", funcKey(fn), idx)
	if seen[key] {
		return false
	}
	seen[key] = true
	prm := fn.Params[idx]
	for _, b := range fn.Blocks {
		for _, in := range b.Instrs {
			switch x := in.(type) {
			case *ssa.FieldAddr:
				if x.X == ssa.Value(prm) && fieldOfAddr(x).Name() == fld {
					for _, r := range *x.Referrers() {
						if u, ok := r.(*ssa.UnOp); ok && u.X == ssa.Value(x) {
							return true
						}
					}
				}
			case ssa.CallInstruction:
				if d == 0 {
					continue
				}
				cal := calleeOf(x)
				if cal == nil || !hasModPrefix(cal) {
					continue
				}
				for k, a := range x.Common().Args {
					if stripConv(a) == ssa.Value(prm) && readsPodFieldOfParam(cal, k, fld, d-1, seen) {
						return true
					}
				}
			}
		}
	}
	return false
}

// handlerReadsPodField: a registered plugin handler reads field fld of a PodInfo (of the event's task).
func handlerReadsPodField(h *ssa.Function, fld string, d int, seen map[*ssa.Function]bool) bool {
	if h == nil || len(h.Blocks) == 0 || seen[h] {
		return false
	}
	seen[h] = true
	for _, b := range h.Blocks {
		for _, in := range b.Instrs {
			switch x := in.(type) {
			case *ssa.FieldAddr:
				if f, _ := podFieldOfAddr(x); f == fld {
					for _, r := range *x.Referrers() {
						if u, ok := r.(*ssa.UnOp); ok && u.X == ssa.Value(x) {
							return true
						}
					}
				}
			case ssa.CallInstruction:
				if cal := calleeOf(x); cal != nil && d > 0 && hasModPrefix(cal) && handlerReadsPodField(cal, fld, d-1, seen) {
					return true
				}
			}
		}
	}
	return false
}

// lookupMissEdge: the edge taken when a comma-ok map lookup misses. In the inverses these are the "job/node is
// not in the session" branches: the forward operation returned an error (and logged nothing) when the same lookup
// missed, and the session's job and node indexes are not shrunk during a cycle, so an inverse never takes them.
func lookupMissEdge(from, to *ssa.BasicBlock) bool {
	iff, ok := from.Instrs[len(from.Instrs)-1].(*ssa.If)
	if !ok || from.Succs[0] == from.Succs[1] || from.Succs[1] != to {
		return false
	}
	ex, ok := iff.Cond.(*ssa.Extract)
	if !ok || ex.Index != 1 {
		return false
	}
	lk, ok := ex.Tuple.(*ssa.Lookup)
	return ok && lk.CommaOk
}

type captureInfo struct {
	Param *ssa.Parameter // parameter of the inverse
	Field string
	Alias bool
	Load  *ssa.UnOp
	Val   ssa.Value
}

// capturesOf maps the parameters of the inverse g to the PodInfo fields the forward operation read the handed
// values from, through the reverse closure (closure calls g; its free variables are bound at mc).
func capturesOf(g, closure *ssa.Function, mc *ssa.MakeClosure) []captureInfo {
	var out []captureInfo
	for _, in := range instrsIn(closure, isCallToFn(g)) {
		args := in.(ssa.CallInstruction).Common().Args
		for j, a := range args {
			if j >= len(g.Params) {
				continue
			}
			var bound ssa.Value
			switch x := stripConv(a).(type) {
			case *ssa.UnOp:
				if fv, ok := x.X.(*ssa.FreeVar); ok {
					bound = bindingOf(closure, mc, fv)
				}
			case *ssa.FreeVar:
				bound = bindingOf(closure, mc, x)
			}
			if bound == nil {
				continue
			}
			for _, v := range storedValues(bound) {
				if f, alias, ld := capturedPodField(v); f != "" {
					out = append(out, captureInfo{g.Params[j], f, alias, ld, v})
				}
			}
		}
	}
	return out
}

func bindingOf(closure *ssa.Function, mc *ssa.MakeClosure, fv *ssa.FreeVar) ssa.Value {
	for i, x := range closure.FreeVars {
		if x == fv && i < len(mc.Bindings) {
			return mc.Bindings[i]
		}
	}
	return nil
}

func runC13CaptureRestore(c *Ctx, fwd string, f, g, closure *ssa.Function, mc *ssa.MakeClosure, inPlace map[string]ssa.Instruction, handlers []*ssa.Function) int {
	if closure == nil || mc == nil {
		return 0
	}
	caps := capturesOf(g, closure, mc)
	sort.Slice(caps, func(i, j int) bool { return caps[i].Field < caps[j].Field })
	done := map[string]bool{}
	n := 0
	notLookupMiss := func(from, to *ssa.BasicBlock) bool { return !lookupMissEdge(from, to) }
	for _, ci := range caps {
		ci := ci
		// ---- O10: a captured object that is mutated in place must be a copy
		if w, mutated := inPlace[ci.Field]; mutated {
			c.Check(!ci.Alias, "O10", "PROV", funcKey(f)+": previous "+ci.Field+" handed to "+g.Name()+" is a private copy", instrPos(ci.Load),
				"copied before the operation (the object is mutated in place at "+c.P.Pos(instrPos(w))+")",
				"the 'previous "+ci.Field+"' kept for the undo is the live object itself, and the operation (its plugin handlers) mutates that object in place ("+c.P.Pos(instrPos(w))+"): the undo restores the already-changed state, e.g. a DRA claim whose allocation was cleared is allocated anew on another device after Rollback")
		}
		if done[ci.Field] {
			continue
		}
		done[ci.Field] = true
		n++
		// ---- O9: the inverse writes the captured value back
		isRestore := func(in ssa.Instruction) bool {
			switch x := in.(type) {
			case *ssa.Store:
				if fld, _ := podFieldOfAddr(x.Addr); fld == ci.Field && stripConv(x.Val) == ssa.Value(ci.Param) {
					return true
				}
			case ssa.CallInstruction:
				// a helper that writes the handed value into the field
				if cal := calleeOf(x); cal != nil && hasModPrefix(cal) && len(cal.Blocks) > 0 {
					for k, a := range x.Common().Args {
						if stripConv(a) == ssa.Value(ci.Param) && k < len(cal.Params) && storesParamToPodField(cal, k, ci.Field) {
							return true
						}
					}
				}
				if ci.Field != "Status" {
					return false
				}
				if cal := calleeOf(x); cal != nil && cal.Name() == "UpdateTaskStatus" {
					for _, a := range x.Common().Args {
						if stripConv(a) == ssa.Value(ci.Param) {
							return true
						}
						// statusToRevertTo := previousStatus (a copy of the parameter)
						if ph, ok := a.(*ssa.Phi); ok {
							for _, e := range ph.Edges {
								if e == ssa.Value(ci.Param) {
									return true
								}
							}
						}
					}
				}
			}
			return false
		}
		restores := instrsIn(g, isRestore)
		c.Check(len(restores) > 0, "O9", "FIELDS", funcKey(g)+" restores the captured PodInfo."+ci.Field, g.Pos(), "written back from parameter "+ci.Param.Name(),
			fwd+" saves the task's "+ci.Field+" for its undo, but "+g.Name()+" never writes it back: another operation of the same scenario that changed the field in between (e.g. a re-placement that assigns new GPU groups) stays in effect after Rollback/Discard")
		if len(restores) == 0 {
			continue
		}
		// on every successful path
		for _, ret := range instrsIn(g, isReturn) {
			r := ret.(*ssa.Return)
			if len(r.Results) > 0 {
				if k, ok := r.Results[len(r.Results)-1].(*ssa.Const); !ok || !k.IsNil() {
					continue
				}
			}
			_, path, found := reachAvoiding([]cfgPos{entryPos(g)}, func(in ssa.Instruction) bool { return in == ret }, isRestore, notLookupMiss)
			c.Check(!found, "O9", "MPT", fmt.Sprintf("%s: PodInfo.%s restored before the successful return (block %d)", funcKey(g), ci.Field, ret.Block().Index), instrPos(ret), "restored on every path",
				"a successful "+g.Name()+" can return without restoring the task's "+ci.Field+" ("+pathStr(path)+")")
		}
		// before anything that reads the field from the task
		taskIdx := -1
		for i, prm := range g.Params {
			if n := namedOf(prm.Type()); n != nil && n.Obj().Name() == "PodInfo" {
				taskIdx = i
			}
		}
		if taskIdx < 0 {
			continue
		}
		task := g.Params[taskIdx]
		for _, b := range g.Blocks {
			for _, in := range b.Instrs {
				call, ok := in.(ssa.CallInstruction)
				if !ok {
					continue
				}
				reader := ""
				if cal := calleeOf(call); cal != nil && hasModPrefix(cal) && !isRestore(in) {
					for k, a := range call.Common().Args {
						if stripConv(a) == ssa.Value(task) && readsPodFieldOfParam(cal, k, ci.Field, 4, map[string]bool{}) {
							reader = cal.Name()
						}
					}
				} else if cv, isCall := in.(*ssa.Call); isCall && isDynCall(cv) {
					hf := termOf(cv.Common().Value).lastField()
					if hf == "AllocateFunc" || hf == "DeallocateFunc" {
						for _, h := range handlers {
							if handlerReadsPodField(h, ci.Field, 3, map[*ssa.Function]bool{}) {
								reader = "plugin handler " + funcKey(h)
								break
							}
						}
					}
				}
				if reader == "" {
					continue
				}
				cc := in
				_, path, found := reachAvoiding([]cfgPos{entryPos(g)}, func(x ssa.Instruction) bool { return x == cc }, isRestore, notLookupMiss)
				c.Check(!found, "O9", "MPT", fmt.Sprintf("%s: PodInfo.%s restored before %s reads it", funcKey(g), ci.Field, reader), instrPos(in), "the restore precedes the reader",
					g.Name()+" hands the task to "+reader+", which reads PodInfo."+ci.Field+", before that field was restored ("+pathStr(path)+"): the node is re-charged under the values of the abandoned scenario (e.g. the GPU group of a re-placement) and the accounting no longer matches the pods")
			}
		}
	}
	return n
}

// storesParamToPodField: on every path, fn stores its parameter k into field fld of a PodInfo.
func storesParamToPodField(fn *ssa.Function, k int, fld string) bool {
	prm := fn.Params[k]
	isSt := func(in ssa.Instruction) bool {
		st, ok := in.(*ssa.Store)
		if !ok {
			return false
		}
		f, _ := podFieldOfAddr(st.Addr)
		return f == fld && stripConv(st.Val) == ssa.Value(prm)
	}
	if len(instrsIn(fn, isSt)) == 0 {
		return false
	}
	_, _, found := reachAvoiding([]cfgPos{entryPos(fn)}, isReturn, isSt, nil)
	return !found
}
