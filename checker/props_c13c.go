package main

import (
	"fmt"
	"go/token"
	"strings"

	"golang.org/x/tools/go/ssa"
)

// runC13IndexReplace (O14): NodeInfo.ConsolidateSharedPodInfoToDifferentGPU re-adds a pod that the node already
// indexes (the releasing copy of an evicted shared-GPU pod): it keeps the old copy's resources and only REPLACES the
// entry in NodeInfo.PodInfos. The inverse of a forward operation that does this must put the replaced entry back —
// RemoveTask of the new copy alone leaves the node accounting for a pod it no longer indexes, and the following
// un-evict adds the pod a second time (finding F23). Decided: every forward operation calling the method registers
// an inverse that stores into PodInfos a value that the forward operation read from that index before the call.
func runC13IndexReplace(c *Ctx) {
	n := 0
	for _, f := range c.P.FuncsIn(pkgFramework) {
		if isTestdataOrMock(f) {
			continue
		}
		sites := instrsIn(f, func(in ssa.Instruction) bool {
			cc, ok := in.(ssa.CallInstruction)
			return ok && calleeOf(cc) != nil && calleeOf(cc).Name() == "ConsolidateSharedPodInfoToDifferentGPU"
		})
		for _, site := range sites {
			n++
			restored, why := false, "no reverse closure of this operation stores into NodeInfo.PodInfos"
			for _, in := range instrsIn(f, func(in ssa.Instruction) bool { _, ok := in.(*ssa.MakeClosure); return ok }) {
				mc := in.(*ssa.MakeClosure)
				closure, _ := mc.Fn.(*ssa.Function)
				if closure == nil {
					continue
				}
				for _, call := range instrsIn(closure, func(in ssa.Instruction) bool {
					cc, ok := in.(ssa.CallInstruction)
					return ok && calleeOf(cc) != nil && hasModPrefix(calleeOf(cc)) && len(calleeOf(cc).Blocks) > 0
				}) {
					g := calleeOf(call.(ssa.CallInstruction))
					for _, mu := range instrsIn(g, func(in ssa.Instruction) bool {
						m, ok := in.(*ssa.MapUpdate)
						return ok && termOf(m.Map).lastField() == "PodInfos"
					}) {
						prm, isParam := stripConv(mu.(*ssa.MapUpdate).Value).(*ssa.Parameter)
						if !isParam {
							why = "the inverse stores a value into PodInfos that is not handed over by the forward operation"
							continue
						}
						k := -1
						for i, p := range g.Params {
							if p == prm {
								k = i
							}
						}
						args := call.(ssa.CallInstruction).Common().Args
						if k < 0 || k >= len(args) {
							continue
						}
						var bound ssa.Value
						switch x := stripConv(args[k]).(type) {
						case *ssa.UnOp:
							if fv, ok := x.X.(*ssa.FreeVar); ok {
								bound = bindingOf(closure, mc, fv)
							}
						case *ssa.FreeVar:
							bound = bindingOf(closure, mc, x)
						}
						if bound == nil {
							why = "the value stored into PodInfos by the inverse is not a captured variable of the forward operation"
							continue
						}
						fromIndex, other := false, false
						for _, v := range storedValues(bound) {
							v = stripConv(v)
							if k, isC := v.(*ssa.Const); isC && k.IsNil() {
								continue
							}
							src := v
							if ex, ok := v.(*ssa.Extract); ok {
								src = ex.Tuple
							}
							if lk, ok := src.(*ssa.Lookup); ok && termOf(lk.X).lastField() == "PodInfos" && instrBefore(lk, site) {
								fromIndex = true
							} else {
								other = true
							}
						}
						if fromIndex && !other {
							restored = true
						} else {
							why = "the value the inverse stores into PodInfos is not (only) the entry the forward operation read from the index before the move"
						}
					}
				}
			}
			c.Check(restored, "O14", "PROV", funcKey(f)+": the index entry replaced by ConsolidateSharedPodInfoToDifferentGPU is put back by the inverse", instrPos(site),
				"inverse stores the captured PodInfos entry",
				why+": after a rollback the node keeps the resources of the releasing copy without indexing it, the un-evict adds the pod again, and the node carries it twice for the rest of the cycle")
		}
	}
	c.Floor("O14", "PROV index-replacing moves in forward operations", n, 1)
}

// instrBefore: a is executed before b on every path that reaches b (same block and earlier, or a's block dominates b's).
func instrBefore(a, b ssa.Instruction) bool {
	if a.Block() == b.Block() {
		for _, in := range a.Block().Instrs {
			if in == a {
				return true
			}
			if in == b {
				return false
			}
		}
	}
	return a.Block().Dominates(b.Block())
}

// runC13PreviousGroups (O15): the fractional-GPU placement writes the chosen groups into the pod BEFORE it calls
// Statement.Pipeline, so the pod's own GPUGroups field is not the previous value for a pod that some node still
// indexes (an evicted pod being re-placed): its previous groups are those of the indexed copy — on the target node
// (same-node move) or on the node it is releasing from (finding F25). Decided: the previous-groups value that
// Pipeline hands to its inverse is assigned from the indexed copy of both nodes.
func runC13PreviousGroups(c *Ctx) {
	f := c.Anchor("O15", pkgFramework, "Statement", "Pipeline")
	g := c.P.Func(pkgFramework, "Statement", "unpipeline")
	if f == nil || g == nil {
		return
	}
	// the parameter of the inverse that is stored into task.GPUGroups
	k := -1
	for _, in := range instrsIn(g, func(in ssa.Instruction) bool {
		st, ok := in.(*ssa.Store)
		return ok && termOf(st.Addr).lastField() == "GPUGroups"
	}) {
		if prm, ok := stripConv(in.(*ssa.Store).Val).(*ssa.Parameter); ok {
			for i, p := range g.Params {
				if p == prm {
					k = i
				}
			}
		}
	}
	if k < 0 {
		c.Viol("O15", "PROV", funcKey(g)+": restores GPUGroups from a handed-over value", g.Pos(), "no parameter of the inverse is stored into task.GPUGroups")
		return
	}
	n := 0
	for _, in := range instrsIn(f, func(in ssa.Instruction) bool { _, ok := in.(*ssa.MakeClosure); return ok }) {
		mc := in.(*ssa.MakeClosure)
		closure, _ := mc.Fn.(*ssa.Function)
		if closure == nil {
			continue
		}
		for _, call := range instrsIn(closure, isCallToFn(g)) {
			args := call.(ssa.CallInstruction).Common().Args
			if k >= len(args) {
				continue
			}
			var bound ssa.Value
			switch x := stripConv(args[k]).(type) {
			case *ssa.UnOp:
				if fv, ok := x.X.(*ssa.FreeVar); ok {
					bound = bindingOf(closure, mc, fv)
				}
			case *ssa.FreeVar:
				bound = bindingOf(closure, mc, x)
			}
			if bound == nil {
				continue
			}
			n++
			target, previous := false, false
			var seen []string
			for _, v := range storedValues(bound) {
				t := termOf(v)
				s := t.String()
				seen = append(seen, s)
				if t.lastField() != "GPUGroups" || !strings.Contains(s, ".PodInfos") {
					continue
				}
				// which node's index: keyed by the hostname parameter, or by the pod's (previous) NodeName
				if strings.Contains(s, "param:2:") {
					target = true
				}
				if strings.Contains(s, ".NodeName") {
					previous = true
				}
			}
			c.Check(target, "O15", "PROV", funcKey(f)+": previous GPU groups of a pod indexed on the target node come from that copy", instrPos(call), "assigned from Nodes[hostname].PodInfos[key].GPUGroups",
				"the previous GPU groups kept for the undo never come from the target node's indexed copy (values: "+strings.Join(seen, " | ")+"): the caller has already stored the new groups in the pod, a same-node move is undone onto the new group")
			c.Check(previous, "O15", "PROV", funcKey(f)+": previous GPU groups of a pod still releasing from another node come from that copy", instrPos(call), "assigned from Nodes[task.NodeName].PodInfos[key].GPUGroups",
				"the previous GPU groups kept for the undo never come from the copy indexed on the node the pod is releasing from (values: "+strings.Join(seen, " | ")+"): the caller has already stored the new groups in the pod, so after a rollback the still-releasing pod carries the groups of the abandoned placement")
		}
	}
	c.Floor("O15", "PROV reverse closures of Pipeline", n, 1)
}

// runC13LookupsFirst (O17): a forward operation that cannot find what it needs (job, node — a failed comma-ok
// lookup) gives up with an error and records nothing; that is only harmless BEFORE its first state change. A
// lookup-miss return that is reachable after the pod's status / node accounting was changed leaves a change that no
// recorded operation can undo: Discard and Rollback do not know about it (a victim stays Releasing in the session,
// later victim selection sees a smaller gang).
func runC13LookupsFirst(c *Ctx, ob, prop string) {
	n := 0
	for _, name := range []string{"Evict", "Pipeline", "Allocate"} {
		f := c.Anchor(ob, pkgFramework, "Statement", name)
		if f == nil {
			continue
		}
		isWrite := func(in ssa.Instruction) bool {
			switch x := in.(type) {
			case ssa.CallInstruction:
				cal := calleeOf(x)
				if cal == nil {
					return false
				}
				switch cal.Name() {
				case "UpdateTaskStatus", "UpdateTask", "AddTask", "RemoveTask", "ConsolidateSharedPodInfoToDifferentGPU":
					return true
				}
			case *ssa.Store:
				if fa, ok := x.Addr.(*ssa.FieldAddr); ok {
					if _, isP := fa.X.(*ssa.Parameter); isP && fa.X == ssa.Value(f.Params[1]) {
						return true
					}
				}
			}
			return false
		}
		writes := instrsIn(f, isWrite)
		for _, b := range f.Blocks {
			iff, ok := b.Instrs[len(b.Instrs)-1].(*ssa.If)
			if !ok {
				continue
			}
			// the branch tests the comma-ok of a lookup keyed by data of the POD (its job, its node): those can miss
			// on real API state; a lookup keyed by the hostname argument cannot (callers pass nodes of the session)
			cond, missSucc := iff.Cond, 1
			if u, isNot := cond.(*ssa.UnOp); isNot && u.Op == token.NOT {
				cond, missSucc = u.X, 0
			}
			ex, isEx := cond.(*ssa.Extract)
			if !isEx || ex.Index != 1 {
				continue
			}
			lk, isLk := ex.Tuple.(*ssa.Lookup)
			if !isLk || !lk.CommaOk || rootParam(termOf(lk.Index)) != 1 {
				continue
			}
			// the miss side gives up: it reaches a return without another branch
			t := b.Succs[missSucc]
			for len(t.Instrs) == 1 && len(t.Succs) == 1 {
				t = t.Succs[0]
			}
			ret, isRet := t.Instrs[len(t.Instrs)-1].(*ssa.Return)
			if !isRet {
				continue
			}
			n++
			var after ssa.Instruction
			for _, w := range writes {
				if _, _, found := reachAvoiding([]cfgPos{afterInstr(w)}, func(in ssa.Instruction) bool { return in == ssa.Instruction(iff) }, nil, nil); found {
					after = w
					break
				}
			}
			detail := ""
			if after != nil {
				detail = "after the state change at " + c.P.Pos(instrPos(after))
			}
			c.Check(after == nil, ob, "MPT", fmt.Sprintf("%s: giving up because %s is missing comes before the first state change", funcKey(f), trunc(termOf(lk).String(), 90)), instrPos(ret), "no state change precedes the lookup",
				"the operation gives up on a failed lookup "+detail+" without recording an operation: the change cannot be undone by Discard / Rollback — the pod keeps the new status in the session, and later decisions of the cycle (victim selection, gang counts) are taken on it")
		}
	}
	c.Floor(ob, "MPT lookup-miss returns of the forward operations", n, 2)
	_ = prop
}

// runC13CommitClearsVirtual (O18): a victim whose eviction has really been sent is no longer a what-if: commitEvict
// clears its IsVirtualStatus. While the flag stays set, ShouldAllocate(pipeline-only) holds for the pod and a later
// scenario of the same cycle re-places ("nominates") a pod that is being deleted.
func runC13CommitClearsVirtual(c *Ctx) {
	f := c.Anchor("O18", pkgFramework, "Statement", "commitEvict")
	if f == nil {
		return
	}
	clears := func(in ssa.Instruction) bool {
		st, ok := in.(*ssa.Store)
		if !ok || termOf(st.Addr).lastField() != "IsVirtualStatus" {
			return false
		}
		k, isC := st.Val.(*ssa.Const)
		return isC && k.Value != nil && k.Value.String() == "false"
	}
	n := 0
	for _, b := range f.Blocks {
		ret, ok := b.Instrs[len(b.Instrs)-1].(*ssa.Return)
		if !ok {
			continue
		}
		if k, isC := unspill(ret, 0).(*ssa.Const); !isC || !k.IsNil() {
			continue
		}
		n++
		this := ret
		_, path, found := reachAvoiding([]cfgPos{entryPos(f)}, func(x ssa.Instruction) bool { return x == ssa.Instruction(this) }, clears, nil)
		c.Check(!found, "O18", "MPT", fmt.Sprintf("%s: a committed eviction clears the pod's virtual flag (success return at block %d)", funcKey(f), b.Index), instrPos(ret), "IsVirtualStatus = false on every successful path",
			"commitEvict can report success without clearing IsVirtualStatus ("+pathStr(path)+"): the evicted pod still counts as 'virtually evicted', a later scenario of the cycle nominates it on another node, and the pod is evicted and nominated in one cycle")
	}
	c.Floor("O18", "MPT success returns of commitEvict", n, 1)
}
