package main

import (
	"fmt"
	"go/types"
	"strings"

	"golang.org/x/tools/go/ssa"
)

func init() {
	register("C14", runC14,
		"Decides structural necessary conditions of 'accounting equals ground truth': every incremental add has an exact inverse remove under the same status predicate; struct and vector representations are updated in lock-step; status updates are reset → store → add; the accounting fields are written only by the accounting functions (reviewed writer table); the status groups form the required lattice. Also (shared with C13): an undo re-adds the task to its node only after the task's fields were restored; handlers fire after the node update.",
		"equality with from-scratch recomputation for every history (needs execution or a proof over the data structures)")
}

const pkgSubGroup = "pkg/scheduler/api/podgroup_info/subgroup_info"
const pkgProportion = "pkg/scheduler/plugins/proportion"
const pkgResShare = "pkg/scheduler/plugins/proportion/resource_share"

type pairSpec struct {
	name   string
	f, g   *ssa.Function
	target func(*Term) bool
	lab    armLabeler
	inline int
	ignore func(Effect) string // non-empty reason ⇒ effect not part of the pairing
	floor  int
}

func fieldNamed(names ...string) func(*Term) bool {
	return func(t *Term) bool {
		for x := t; x != nil; {
			if x.Op == "field" {
				for _, n := range names {
					if x.Name == n {
						return true
					}
				}
			}
			if len(x.Args) == 0 {
				break
			}
			x = x.Args[0]
		}
		return false
	}
}

func runPair(c *Ctx, id string, ps pairSpec) {
	if ps.f == nil || ps.g == nil {
		c.Undec(id, "ANCHOR", ps.name, 0, "one of the paired functions was not found")
		return
	}
	c.Analysed(funcKey(ps.f), funcKey(ps.g))
	filter := func(es []Effect) []Effect {
		var out []Effect
		for _, e := range es {
			if e.Op == "set" {
				continue
			}
			if ps.ignore != nil && ps.ignore(e) != "" {
				continue
			}
			out = append(out, e)
		}
		return out
	}
	ef := filter(extractEffects(c.Fx, ps.f, ps.target, ps.lab, ps.inline))
	eg := filter(extractEffects(c.Fx, ps.g, ps.target, ps.lab, ps.inline))
	mism := pairInverse(ef, eg)
	c.Check(len(mism) == 0, id, "PAIR", ps.name, ps.f.Pos(), fmt.Sprintf("%d effects inverted per arm: %s", len(ef), trunc(effectsSummary(ef), 700)), "not exact inverses: "+strings.Join(mism, "; "))
	c.Floor(id, "PAIR "+ps.name, len(ef), ps.floor)
}

func preemptArm(f Fact) string {
	if l := statusArm(f); l != "" {
		return l
	}
	if f.T.Op == "call" && f.T.Fn != nil && f.T.Fn.Name() == "IsPreemptibleJob" {
		if f.Pol {
			return "IsPreemptibleJob"
		}
		return "!IsPreemptibleJob"
	}
	return ""
}

// registeredClosure returns the closure returned by a "handler factory" method (func(ssn) func(event)).
func returnedClosure(fn *ssa.Function) *ssa.Function {
	if fn == nil {
		return nil
	}
	for _, b := range fn.Blocks {
		for _, in := range b.Instrs {
			if r, ok := in.(*ssa.Return); ok && len(r.Results) == 1 {
				v := r.Results[0]
				if ct, ok := v.(*ssa.ChangeType); ok {
					v = ct.X
				}
				if mc, ok := v.(*ssa.MakeClosure); ok {
					return mc.Fn.(*ssa.Function)
				}
				if f, ok := v.(*ssa.Function); ok {
					return f
				}
			}
		}
	}
	return nil
}

func c14Pairs(c *Ctx) []pairSpec {
	p := c.P
	recv0 := func(names ...string) func(*Term) bool {
		fn := fieldNamed(names...)
		return func(t *Term) bool { return rootParam(t) == 0 && fn(t) }
	}
	return []pairSpec{
		{name: "NodeInfo.addTaskResources <-> removeTaskResources", f: p.Func(pkgNodeInfo, "NodeInfo", "addTaskResources"), g: p.Func(pkgNodeInfo, "NodeInfo", "removeTaskResources"),
			target: func(t *Term) bool { return rootParam(t) == 0 && t.Op == "field" }, lab: statusArm, floor: 10},
		{name: "NodeInfo.addSharedTaskResourcesPerPodGroup <-> removeSharedTaskResourcesPerPodGroup", f: p.Func(pkgNodeInfo, "NodeInfo", "addSharedTaskResourcesPerPodGroup"), g: p.Func(pkgNodeInfo, "NodeInfo", "removeSharedTaskResourcesPerPodGroup"),
			target: func(t *Term) bool { return rootParam(t) == 0 }, lab: statusArm, inline: 2, floor: 17},
		{name: "PodGroupInfo.AddTaskInfo <-> resetTaskState", f: p.Func(pkgPGInfo, "PodGroupInfo", "AddTaskInfo"), g: p.Func(pkgPGInfo, "PodGroupInfo", "resetTaskState"),
			target: recv0("Allocated", "AllocatedVector", "PodStatusIndex", "activeAllocatedCount"), lab: statusArm, inline: 1, floor: 4,
			ignore: func(e Effect) string {
				if e.Target == "p0.PodStatusIndex" {
					return "lazy creation / pruning of the per-status index bucket"
				}
				return ""
			}},
		{name: "PodGroupInfo.addTaskIndex <-> deleteTaskIndex", f: p.Func(pkgPGInfo, "PodGroupInfo", "addTaskIndex"), g: p.Func(pkgPGInfo, "PodGroupInfo", "deleteTaskIndex"),
			target: recv0("PodStatusIndex", "activeAllocatedCount"), lab: statusArm, floor: 2,
			ignore: func(e Effect) string {
				if e.Target == "p0.PodStatusIndex" {
					return "lazy creation / pruning of the per-status index bucket"
				}
				return ""
			}},
		{name: "PodSet.AssignTask <-> clearOldStatus", f: p.Func(pkgSubGroup, "PodSet", "AssignTask"), g: p.Func(pkgSubGroup, "PodSet", "clearOldStatus"),
			target: recv0("numActiveAllocatedTasks", "numActiveUsedTasks", "numAliveTasks", "podStatusIndex", "podStatusMap", "podInfos"), lab: statusArm, floor: 6,
			ignore: func(e Effect) string {
				if e.Target == "p0.podStatusIndex" {
					return "lazy creation of the per-status index bucket"
				}
				return ""
			}},
		{name: "proportion allocate <-> deallocate handler", f: returnedClosure(p.Func(pkgProportion, "proportionPlugin", "allocateHandlerFn")), g: returnedClosure(p.Func(pkgProportion, "proportionPlugin", "deallocateHandlerFn")),
			target: fieldNamed("Allocated", "AllocatedNotPreemptible", "Request"), lab: preemptArm, floor: 2},
		{name: "BaseResource.Add <-> Sub", f: p.Func(pkgResInfo, "BaseResource", "Add"), g: p.Func(pkgResInfo, "BaseResource", "Sub"),
			target: func(t *Term) bool { return rootParam(t) == 0 }, lab: statusArm, floor: 3,
			ignore: func(e Effect) string {
				if e.Op == "del" {
					return "both directions prune zero-valued scalar entries"
				}
				return ""
			}},
		{name: "Resource.Add <-> Sub", f: p.Func(pkgResInfo, "Resource", "Add"), g: p.Func(pkgResInfo, "Resource", "Sub"),
			target: func(t *Term) bool { return rootParam(t) == 0 }, lab: statusArm, floor: 2},
		{name: "Resource.AddResourceRequirements <-> SubResourceRequirements", f: p.Func(pkgResInfo, "Resource", "AddResourceRequirements"), g: p.Func(pkgResInfo, "Resource", "SubResourceRequirements"),
			target: func(t *Term) bool { return rootParam(t) == 0 }, lab: func(Fact) string { return "" }, floor: 4},
		{name: "Resource.AddGPUs <-> SubGPUs", f: p.Func(pkgResInfo, "Resource", "AddGPUs"), g: p.Func(pkgResInfo, "Resource", "SubGPUs"),
			target: func(t *Term) bool { return rootParam(t) == 0 }, lab: statusArm, floor: 1},
		{name: "ResourceVector.Add <-> Sub", f: p.Func(pkgResInfo, "ResourceVector", "Add"), g: p.Func(pkgResInfo, "ResourceVector", "Sub"),
			target: func(t *Term) bool { return rootParam(t) == 0 }, lab: statusArm, floor: 1},
	}
}

func runC14(c *Ctx) {
	runC14AcceptedFractionKeepsDevices(c)
	borrow(c, "O17", "C07", "O2", "remaining share initialised only when absent", "the simulated allocation of a department is the running difference over ALL its victim queues of the scenario: re-reading the current allocation for every leaf forgets the earlier victims and the validator accepts scenarios that push the department below its deserved quota")
	borrow(c, "O15", "C07", "O4", "snapshot rebuilt on every call", "the per-attempt copy of the queue attributes is what the reclaim validators read: a copy that survives from an earlier attempt no longer equals the queues' allocation after that attempt was committed")
	borrow(c, "O16", "C01", "O7", "BindPod failure -> unallocate", "a bind that failed must be taken back in the session: otherwise node, job and queue keep charging a pod that is still pending")
	borrow(c, "O9", "C13", "O9", "restored before", "an undo re-adds the pod to its node with the fields the task carries at that moment: the node's per-GPU and per-status counters equal the recomputation from the pods only if the task was restored first")
	borrow(c, "O8", "C13", "O8", "plugin handlers fire after the job and node were updated", "incremental queue accounting must be fed the values the node accounting used")
	p := c.P
	// O1: inverse pairs
	for _, ps := range c14Pairs(c) {
		runPair(c, "O1", ps)
	}
	// O2: struct and vector in lock-step, over every function of the accounting packages
	twinOf := func(base *Term, field string) bool {
		if base == nil || base.V == nil {
			return false
		}
		st := derefStruct(base.V.Type())
		if st == nil {
			return false
		}
		for i := 0; i < st.NumFields(); i++ {
			if st.Field(i).Name() == field {
				return true
			}
			// promoted through an embedded struct
			if st.Field(i).Embedded() {
				if est := derefStruct(st.Field(i).Type()); est != nil {
					for j := 0; j < est.NumFields(); j++ {
						if est.Field(j).Name() == field {
							return true
						}
					}
				}
			}
		}
		return false
	}
	dualExempt := map[string]string{
		"(*pkg/scheduler/api/node_info.NodeInfo).AddDRAGPUs": "vector twin updated through Set(idx, Get(idx)+Δ) behind the index lookup; read and confirmed equivalent",
	}
	total := 0
	for _, pk := range []string{pkgNodeInfo, pkgPGInfo, pkgSubGroup} {
		for _, fn := range p.FuncsIn(pk) {
			if relPkg(funcPkgPath(fn)) != pk || isTestdataOrMock(fn) {
				continue
			}
			es := extractEffects(c.Fx, fn, func(t *Term) bool { return t.Op == "field" }, statusArm, 0)
			if len(es) == 0 {
				continue
			}
			n, bad := dualCheckArm(es, twinOf)
			if n == 0 && len(bad) == 0 {
				continue
			}
			c.Analysed(funcKey(fn))
			if why, ok := dualExempt[funcKey(fn)]; ok {
				c.Hold("O2", "DUAL", funcKey(fn), fn.Pos(), "exempt: "+why)
				continue
			}
			total += n
			if len(bad) == 0 {
				c.Hold("O2", "DUAL", funcKey(fn), fn.Pos(), fmt.Sprintf("%d struct effects each paired with the vector twin", n))
			}
			for _, b := range bad {
				c.Viol("O2", "DUAL", funcKey(fn)+": "+b.Target+" "+b.Op+" ["+b.Arm+"]", b.Pos, "the structured and the vector representation are not updated together: effect on "+b.Target+" has no twin effect (same arm, same direction) on its Vector/struct sibling")
			}
		}
	}
	c.Floor("O2", "DUAL paired op sites", total, 20)

	// O4: ordering of the composite updates
	if fn := c.Anchor("O4", pkgPGInfo, "PodGroupInfo", "UpdateTaskStatus"); fn != nil {
		reset := p.Func(pkgPGInfo, "PodGroupInfo", "resetTaskState")
		addTI := p.Func(pkgPGInfo, "PodGroupInfo", "AddTaskInfo")
		statusF := p.fieldVars(pkgPodInfo, "PodInfo", "Status")
		rawStore := func(in ssa.Instruction) bool {
			st, ok := in.(*ssa.Store)
			if !ok {
				return false
			}
			fa, ok := st.Addr.(*ssa.FieldAddr)
			return ok && statusF[fieldOfAddr(fa)]
		}
		isStatusStore := p.performs(rawStore, 2)
		isAdd := p.performs(isCallToFn(addTI), 2)
		isReset := p.performs(isCallToFn(reset), 2)
		var p1, p2, p3 []int
		var f1, f2, f3 bool
		nStores := 0
		var check func(g *ssa.Function, d int)
		check = func(g *ssa.Function, d int) {
			// no status store before the reset (top level only); no add before the status store; add after every status store
			if d == 0 {
				_, p1, f1 = reachAvoiding([]cfgPos{entryPos(g)}, isStatusStore, isReset, nil)
			}
			if _, pp, ff := reachAvoiding([]cfgPos{entryPos(g)}, func(in ssa.Instruction) bool { return isAdd(in) && !isStatusStore(in) }, isStatusStore, nil); ff {
				p2, f2 = pp, true
			}
			for _, st := range instrsIn(g, isStatusStore) {
				nStores++
				if isAdd(st) && d < 2 {
					// a helper that performs both: check the order inside it
					if cal := calleeOf(st.(ssa.CallInstruction)); cal != nil {
						check(cal, d+1)
						continue
					}
				}
				if _, pp, ff := reachAvoiding([]cfgPos{afterInstr(st)}, isReturn, isAdd, nil); ff {
					p3, f3 = pp, true
				}
			}
		}
		check(fn, 0)
		c.Check(nStores > 0 && !f1, "O4", "MPT", funcKey(fn)+": reset before status store", fn.Pos(), "the old status is un-accounted before the status changes", "the status is overwritten before the old status was un-accounted (counters keyed by the old status leak): "+pathStr(p1))
		c.Check(!f2, "O4", "MPT", funcKey(fn)+": status store before add", fn.Pos(), "the new status is stored before it is accounted", "the task is re-accounted before its status is updated: "+pathStr(p2))
		c.Check(nStores > 0 && !f3, "O4", "MPT", funcKey(fn)+": add after status store", fn.Pos(), "every status change is re-accounted", "a status change can return without re-accounting the task: "+pathStr(p3))
	}
	if fn := c.Anchor("O4", pkgNodeInfo, "NodeInfo", "UpdateTask"); fn != nil {
		remT := p.Func(pkgNodeInfo, "NodeInfo", "RemoveTask")
		addT := p.Func(pkgNodeInfo, "NodeInfo", "addTask")
		addT2 := p.Func(pkgNodeInfo, "NodeInfo", "AddTask")
		_, pth, f := reachAvoiding([]cfgPos{entryPos(fn)}, isCallToFn(addT, addT2), isCallToFn(remT), nil)
		n := len(instrsIn(fn, isCallToFn(addT, addT2)))
		c.Check(n > 0 && !f, "O4", "MPT", funcKey(fn)+": remove before add", fn.Pos(), "UpdateTask = RemoveTask then addTask", "UpdateTask can add the task without first removing its old accounting: "+pathStr(pth))
	}

	// O5: writers of the accounting state are confined
	ctor := "constructor / clone: initialises a fresh object"
	checkWriters(c, "O5", "NodeInfo.{Idle,Used,Releasing}(+Vector)", p.fieldVars(pkgNodeInfo, "NodeInfo", "Idle", "Used", "Releasing", "IdleVector", "UsedVector", "ReleasingVector"), 6, map[string]string{
		"(*pkg/scheduler/api/node_info.NodeInfo).addTaskResources":                     "accounting: add",
		"(*pkg/scheduler/api/node_info.NodeInfo).removeTaskResources":                  "accounting: remove",
		"(*pkg/scheduler/api/node_info.NodeInfo).addSharedTaskResourcesPerPodGroup":    "accounting: shared add",
		"(*pkg/scheduler/api/node_info.NodeInfo).removeSharedTaskResourcesPerPodGroup": "accounting: shared remove",
		"(*pkg/scheduler/api/node_info.NodeInfo).AddDRAGPUs":                           "snapshot construction: DRA GPU capacity added to Allocatable and Idle together",
		"pkg/scheduler/api/node_info.NewNodeInfo":                                      ctor,
	})
	checkWriters(c, "O5", "GpuSharingNodeInfo maps", p.fieldVars(pkgNodeInfo, "GpuSharingNodeInfo", "UsedSharedGPUsMemory", "ReleasingSharedGPUsMemory", "AllocatedSharedGPUsMemory", "ReleasingSharedGPUs"), 4, map[string]string{
		"(*pkg/scheduler/api/node_info.NodeInfo).addSharedTaskResourcesPerPodGroup":    "accounting: shared add",
		"(*pkg/scheduler/api/node_info.NodeInfo).removeSharedTaskResourcesPerPodGroup": "accounting: shared remove",
		"(*pkg/scheduler/api/node_info.NodeInfo).markSharedGpuAsReleasing":             "accounting helper",
		"(*pkg/scheduler/api/node_info.NodeInfo).unmarkSharedGpuAsReleasing":           "accounting helper",
		"(*pkg/scheduler/api/node_info.GpuSharingNodeInfo).Clone":                      ctor,
		"pkg/scheduler/api/node_info.newGpuSharingNodeInfo":                            ctor,
		"(*pkg/scheduler/framework.Statement).commitAllocate":                          "zero-initialises a missing group key before binding (value 0, no change of any sum)",
	})
	checkWriters(c, "O5", "PodGroupInfo.{Allocated,AllocatedVector,PodStatusIndex,activeAllocatedCount}", p.fieldVars(pkgPGInfo, "PodGroupInfo", "Allocated", "AllocatedVector", "PodStatusIndex", "activeAllocatedCount"), 4, map[string]string{
		"(*pkg/scheduler/api/podgroup_info.PodGroupInfo).AddTaskInfo":                  "accounting: add",
		"(*pkg/scheduler/api/podgroup_info.PodGroupInfo).resetTaskState":               "accounting: remove",
		"(*pkg/scheduler/api/podgroup_info.PodGroupInfo).addTaskIndex":                 "accounting: index add",
		"(*pkg/scheduler/api/podgroup_info.PodGroupInfo).deleteTaskIndex":              "accounting: index remove",
		"(*pkg/scheduler/api/podgroup_info.PodGroupInfo).GetActiveAllocatedTasksCount": "lazy recomputation from the pods when the cache is nil",
		"(*pkg/scheduler/api/podgroup_info.PodGroupInfo).CloneWithTasks":               ctor,
		"(*pkg/scheduler/api/podgroup_info.PodGroupInfo).SetVectorMap":                 "(re)initialises an empty vector for a new index map",
		"pkg/scheduler/api/podgroup_info.NewPodGroupInfoWithVectorMap":                 ctor,
	})
	checkWriters(c, "O5", "PodSet counters and indexes", p.fieldVars(pkgSubGroup, "PodSet", "numActiveAllocatedTasks", "numActiveUsedTasks", "numAliveTasks", "podStatusIndex", "podStatusMap", "podInfos"), 6, map[string]string{
		"(*pkg/scheduler/api/podgroup_info/subgroup_info.PodSet).AssignTask":     "accounting: add",
		"(*pkg/scheduler/api/podgroup_info/subgroup_info.PodSet).clearOldStatus": "accounting: remove",
		"pkg/scheduler/api/podgroup_info/subgroup_info.NewPodSet":                ctor,
	})
	checkWriters(c, "O5", "ResourceShare.{Allocated,AllocatedNotPreemptible,Request}", p.fieldVars(pkgResShare, "ResourceShare", "Allocated", "AllocatedNotPreemptible", "Request"), 3, map[string]string{
		"(*pkg/scheduler/plugins/proportion.proportionPlugin).allocateHandlerFn":                        "accounting: allocate handler",
		"(*pkg/scheduler/plugins/proportion.proportionPlugin).deallocateHandlerFn":                      "accounting: deallocate handler",
		"(*pkg/scheduler/plugins/proportion.proportionPlugin).updateQueuesResourceUsageForAllocatedJob": "snapshot-time accumulation over allocated jobs",
		"(*pkg/scheduler/plugins/proportion.proportionPlugin).updateQueuesResourceUsageForPendingJob":   "snapshot-time accumulation over pending jobs",
		"(*pkg/scheduler/plugins/proportion.proportionPlugin).updateQueuesCurrentResourceUsage":         "snapshot-time accumulation: the root of the two accumulating helpers (a helper called only from here inherits)",
		"(*pkg/scheduler/plugins/proportion/resource_share.ResourceShare).Clone":                        ctor,
		"(*pkg/scheduler/plugins/proportion/resource_share.ResourceShareOverrides).ResourceShare":       ctor,
		"pkg/scheduler/plugins/proportion/queue_order.calculateDominantResourceShareWithJob":            "what-if inside one comparison: saves Allocated, adjusts, restores the saved value before returning (checked below)",
	})
	// the what-if writer restores what it changed
	if fn := p.Func(pkgProportion+"/queue_order", "", "calculateDominantResourceShareWithJob"); fn != nil {
		es := extractEffects(c.Fx, fn, fieldNamed("Allocated"), func(Fact) string { return "" }, 0)
		var lastSet *Effect
		arith := 0
		for i := range es {
			if es[i].Op == "set" {
				lastSet = &es[i]
			} else {
				arith++
			}
		}
		ok := lastSet != nil && lastSet.AmountT != nil && strings.Contains(lastSet.AmountT.String(), "GetAllocatedShare")
		if ok {
			// every return is preceded by the restoring store
			// every return is preceded by the restoring loop (the restore iterates the same resource list as the adjustments)
			blk := lastSet.Block
			if h := loopHeaderOf(blk); h != nil {
				blk = h
			}
			_, _, found := reachAvoiding([]cfgPos{entryPos(fn)}, isReturn, func(in ssa.Instruction) bool { return in.Block() == blk }, nil)
			ok = !found
		}
		c.Check(ok, "O5", "MPT", funcKey(fn)+": what-if restore", fn.Pos(), fmt.Sprintf("%d temporary adjustments, Allocated restored from the value saved at entry on every path", arith), "the temporary adjustment of the queue's Allocated share is not restored on every path")
	} else {
		c.Undec("O5", "ANCHOR", "queue_order.calculateDominantResourceShareWithJob", 0, "what-if writer not found")
	}

	// O7: the per-node accepted resources are recomputed before they are charged
	if setAcc := c.Anchor("O7", pkgNodeInfo, "NodeInfo", "setAcceptedResources"); setAcc != nil {
		addRes := p.Func(pkgNodeInfo, "NodeInfo", "addTaskResources")
		n := 0
		for _, cs := range p.CallSites(addRes) {
			if isTestdataOrMock(cs.Parent()) {
				continue
			}
			n++
			ok, chain := p.precededBy(cs, isCallToFn(setAcc), 3, map[*ssa.Function]bool{})
			c.Check(ok, "O7", "MPT", funcKey(cs.Parent())+": setAcceptedResources before addTaskResources", instrPos(cs), "the node-dependent accepted resources are recomputed on every path that charges the task to the node",
				"a task can be charged to a node with accepted resources computed for another node (add/remove and the queue handlers then disagree): "+strings.Join(chain, " <- "))
		}
		c.Floor("O7", "MPT addTaskResources call sites", n, 1)
		// … and "recomputed" means assigned afresh: for a task that occupies the node (active-used status) every path
		// through setAcceptedResources stores AcceptedResource. A value left over from an abandoned what-if placement on
		// another node (different GPU memory ⇒ different portion) must never survive.
		isAccStore := func(in ssa.Instruction) bool {
			st, ok := in.(*ssa.Store)
			return ok && termOf(st.Addr).lastField() == "AcceptedResource" && rootParam(termOf(st.Addr)) == 1
		}
		_, path, found := reachAvoiding([]cfgPos{entryPos(setAcc)}, isReturn, isAccStore, func(from, to *ssa.BasicBlock) bool {
			return !c.Fx.edgeEstablishes(from, to, func(f Fact) bool { return !f.Pol && isCallNamed(f.T, "IsActiveUsedStatus") })
		})
		c.Check(!found, "O7", "MUSTDEF", funcKey(setAcc)+": AcceptedResource is assigned on every path for a task that occupies the node", setAcc.Pos(), "skipped only when the status is not active-used",
			"setAcceptedResources can return without assigning AcceptedResource to an active task ("+pathStr(path)+"): the value computed for an earlier, rolled-back placement on another node is charged to this node and its queues and is written into the BindRequest")
	}

	// O10: a whole GPU moves between Idle / Releasing and "shared" only at a group boundary. In the per-group
	// functions every ±1 GPU on NodeInfo.Idle / Releasing is decided by the state of THAT group (its memory counters
	// or its releasing mark): the first sharer takes the device out of Idle, the last one hands it back. A ±1 that
	// depends on node-level state only is applied once per sharer and drifts away from the recomputation.
	for _, name := range []string{"addSharedTaskResourcesPerPodGroup", "removeSharedTaskResourcesPerPodGroup"} {
		fn := p.Func(pkgNodeInfo, "NodeInfo", name)
		if fn == nil {
			c.Undec("O10", "ANCHOR", name, 0, "not found")
			continue
		}
		n := 0
		for _, h := range p.deepFind(fn, func(in ssa.Instruction) bool {
			cc, ok := in.(ssa.CallInstruction)
			if !ok || calleeOf(cc) == nil || (calleeOf(cc).Name() != "SubGPUs" && calleeOf(cc).Name() != "AddGPUs") {
				return false
			}
			lf := termOf(cc.Common().Args[0]).lastField()
			return lf == "Idle" || lf == "Releasing"
		}, 1) {
			n++
			fs := c.Fx.factsAtDeep(h)
			isIdle := termOf(h.In.(ssa.CallInstruction).Common().Args[0]).lastField() == "Idle"
			d, ok := hasFact(fs, func(f Fact) bool {
				return f.T.contains(func(x *Term) bool {
					if isIdle {
						// a device enters / leaves the idle pool with its first / last sharer of ANY status: the deciding
						// counter is the group's USED memory (allocated + releasing + pipelined), not a partial one
						return x.Op == "lookup" && x.Args[0].lastField() == "UsedSharedGPUsMemory"
					}
					if x.Op == "lookup" && strings.HasSuffix(x.Args[0].lastField(), "SharedGPUsMemory") {
						return true
					}
					if x.Op == "lookup" && strings.Contains(x.Args[0].lastField(), "SharedGPU") {
						return true
					}
					return x.Op == "call" && x.Fn != nil && (strings.Contains(x.Fn.Name(), "SharedGpuMarkedAsReleasing") || strings.Contains(x.Fn.Name(), "isPipelinedToReleasingGpu"))
				})
			})
			cc := h.In.(ssa.CallInstruction)
			c.Check(ok, "O10", "DOM", fmt.Sprintf("%s: %s.%s(1) is decided by the state of the GPU group", funcKey(fn), termOf(cc.Common().Args[0]).lastField(), calleeOf(cc).Name()), instrPos(h.In), trunc(d, 140),
				"a whole GPU is moved in or out of the node's Idle/Releasing pool for a sharer without looking at its group's state (for Idle: the group's USED memory — first / last sharer of any status; for Releasing: its releasing counter or mark): a device is handed back while it still has sharers, or taken once per sharer")
		}
		c.Floor("O10", "DOM whole-GPU effects in "+name, n, 2)
	}
	runC14GlobalGuards(c, "O11")
	runC14GroupBoundary(c)
	runC14AddTaskIndex(c)
	runC14ConvertPairs(c)

	// O6: status lattice
	runStatusConsts(c, "O6")
	_ = types.Typ
}

// runC14GlobalGuards (O11): the ±1 whole GPU that a sharer's add / remove applies to NodeInfo.Idle must be undone by
// the opposite call. That holds only if the decision is a function of the GROUP's own counters (which the opposite
// call restores). A guard that also reads node-wide totals — Idle + used GPUs against the GPU count — is evaluated
// in a different node state by the inverse (other pods were nominated or evicted in between) and add / remove stop
// being inverses: Idle drifts by one GPU after a rollback (finding F24).
func runC14GlobalGuards(c *Ctx, ob string) {
	p := c.P
	n := 0
	for _, name := range []string{"addSharedTaskResourcesPerPodGroup", "removeSharedTaskResourcesPerPodGroup"} {
		fn := p.Func(pkgNodeInfo, "NodeInfo", name)
		if fn == nil {
			c.Undec(ob, "ANCHOR", name, 0, "not found")
			continue
		}
		for _, h := range p.deepFind(fn, func(in ssa.Instruction) bool {
			cc, ok := in.(ssa.CallInstruction)
			if !ok || calleeOf(cc) == nil || (calleeOf(cc).Name() != "SubGPUs" && calleeOf(cc).Name() != "AddGPUs") {
				return false
			}
			return termOf(cc.Common().Args[0]).lastField() == "Idle"
		}, 1) {
			n++
			fs := c.Fx.factsAtDeep(h)
			arm := "default"
			for _, f := range fs.M {
				if f.Pol && f.T.Op == "bin" && f.T.Name == "==" && len(f.T.Args) == 2 && f.T.Args[0].lastField() == "Status" && strings.HasPrefix(f.T.Args[1].String(), "const:") {
					arm = "status " + strings.TrimPrefix(f.T.Args[1].String(), "const:")
					if v, ok := p.ConstInt(pkgPodStatus, "Releasing"); ok && f.T.Args[1].String() == fmt.Sprintf("const:%d", v) {
						arm = "Releasing"
					}
				}
			}
			d, global := hasFact(fs, func(f Fact) bool {
				return f.T.contains(func(x *Term) bool {
					return x.Op == "call" && x.Fn != nil && (x.Fn.Name() == "GetNumberOfGPUsInNode" || x.Fn.Name() == "getNumberOfUsedGPUs" || x.Fn.Name() == "getNumberOfUsedSharedGPUs")
				})
			})
			cc := h.In.(ssa.CallInstruction)
			c.Check(!global, ob, "DOM", fmt.Sprintf("%s: Idle.%s(1) in the arm for %s is decided by the group's own counters only", funcKey(fn), calleeOf(cc).Name(), arm), instrPos(h.In), "no node-wide total in the guard",
				"the whole GPU is moved in or out of Idle under a guard that reads node-wide totals ("+trunc(d, 160)+"): the opposite call evaluates it in another node state, so add and remove are not inverses and Idle drifts by one GPU when a scenario is undone")
		}
	}
	c.Floor(ob, "DOM Idle effects of shared-GPU add/remove", n, 4)
}

// includesEquality: the comparison fact holds when both sides are equal.
func includesEquality(f Fact) bool {
	switch f.T.Name {
	case "<=", ">=", "==":
		return f.Pol
	case "<", ">", "!=":
		return !f.Pol
	}
	return false
}

// runC14GroupBoundary (O12): the whole GPU changes hands exactly AT the boundary of the group's used memory. The
// remove side hands the device back when the group's used memory has reached 0 — the guard must hold at 0, a strict
// "< 0" never fires for the last sharer; the add side takes it when the used memory equals the request just added
// (first sharer) — the guard must hold at equality.
func runC14GroupBoundary(c *Ctx) {
	p := c.P
	n := 0
	for _, name := range []string{"addSharedTaskResourcesPerPodGroup", "removeSharedTaskResourcesPerPodGroup"} {
		fn := p.Func(pkgNodeInfo, "NodeInfo", name)
		if fn == nil {
			c.Undec("O12", "ANCHOR", name, 0, "not found")
			continue
		}
		isAdd := strings.HasPrefix(name, "add")
		for _, h := range p.deepFind(fn, func(in ssa.Instruction) bool {
			cc, ok := in.(ssa.CallInstruction)
			if !ok || calleeOf(cc) == nil {
				return false
			}
			want := "AddGPUs"
			if isAdd {
				want = "SubGPUs"
			}
			return calleeOf(cc).Name() == want && termOf(cc.Common().Args[0]).lastField() == "Idle"
		}, 1) {
			n++
			fs := c.Fx.factsAtDeep(h)
			isUsed := func(t *Term) bool {
				return t.contains(func(x *Term) bool { return x.Op == "lookup" && x.Args[0].lastField() == "UsedSharedGPUsMemory" })
			}
			d, ok := hasFact(fs, func(f Fact) bool {
				if f.T.Op != "bin" || len(f.T.Args) != 2 || !includesEquality(f) {
					return false
				}
				l, r := f.T.Args[0], f.T.Args[1]
				if !isAdd {
					// used[g] against 0
					return (isUsed(l) && r.String() == "const:0") || (isUsed(r) && l.String() == "const:0")
				}
				// used[g] against the request's memory (the amount just added), or used[g] − request against 0
				isReq := func(t *Term) bool {
					return t.contains(func(x *Term) bool { return x.Op == "call" && x.Fn != nil && x.Fn.Name() == "GetResourceGpuMemory" })
				}
				// (the Releasing arm: the group's used memory against its releasing memory — all sharers are releasing)
				isRel := func(t *Term) bool {
					return t.contains(func(x *Term) bool { return x.Op == "lookup" && x.Args[0].lastField() == "ReleasingSharedGPUsMemory" })
				}
				if (isUsed(l) && isRel(r)) || (isUsed(r) && isRel(l)) {
					return true
				}
				return (isUsed(l) && isReq(r) && !isUsed(r)) || (isUsed(r) && isReq(l) && !isUsed(l)) ||
					(isUsed(l) && isReq(l) && r.String() == "const:0") || (isUsed(r) && isReq(r) && l.String() == "const:0")
			})
			what, bad := "the group's used memory has reached 0 (guard holds at 0)", "the guard on the group's used memory does not hold when it is exactly 0: the last sharer never hands the device back to Idle — every undone fractional allocation leaks one idle GPU for the rest of the cycle"
			if isAdd {
				what, bad = "the group's used memory equals the request just added (guard holds at equality)", "the guard on the group's used memory does not hold when it equals the request just added: the first sharer of an idle device does not take it out of Idle and the device is handed out twice"
			}
			cc := h.In.(ssa.CallInstruction)
			c.Check(ok, "O12", "DOM", fmt.Sprintf("%s: Idle.%s(1) happens when %s", funcKey(fn), calleeOf(cc).Name(), what), instrPos(h.In), trunc(d, 140), bad)
		}
	}
	c.Floor("O12", "DOM boundary guards of Idle effects", n, 4)
}

// runC14AddTaskIndex (O13): NodeInfo.addTask charges the pod's resources to the node and files a copy under the pod's
// key. A pod that is already filed must be refused — its resources would be charged twice while the index holds one
// copy — except for the one deliberate case: moving a shared-GPU pod to another GPU of the node, asked for by the
// caller (allowTaskToExistOnDifferentGPU) AND only for a shared-GPU allocation.
func runC14AddTaskIndex(c *Ctx) {
	f := c.Anchor("O13", pkgNodeInfo, "NodeInfo", "addTask")
	if f == nil {
		return
	}
	isDelete := func(in ssa.Instruction) bool {
		cc, ok := in.(ssa.CallInstruction)
		if !ok {
			return false
		}
		b, isB := cc.Common().Value.(*ssa.Builtin)
		return isB && b.Name() == "delete" && len(cc.Common().Args) == 2 && termOf(cc.Common().Args[0]).lastField() == "PodInfos"
	}
	nd := 0
	for _, in := range instrsIn(f, isDelete) {
		nd++
		fs := c.Fx.FactsAt(in)
		_, allow := hasFact(fs, func(ft Fact) bool { return ft.Pol && ft.T.Op == "param" && rootParam(ft.T) == 2 })
		_, shared := hasFact(fs, func(ft Fact) bool {
			return ft.Pol && ft.T.Op == "call" && strings.HasSuffix(ft.T.Name, "IsSharedGPUAllocation")
		})
		c.Check(fs.Bottom || (allow && shared), "O13", "DOM", funcKey(f)+": an indexed copy is replaced only for the requested move of a shared-GPU pod", instrPos(in), "allowTaskToExistOnDifferentGPU ∧ IsSharedGPUAllocation()",
			"the copy a node holds of a pod can be dropped from the index without the caller asking for a move, or for a pod that is not a shared-GPU allocation (facts: "+factKeys(fs)+"): its resources stay charged and are charged again — one pod, double Used / shared-GPU memory, which no undo repairs")
	}
	ni := 0
	for _, in := range instrsIn(f, func(in ssa.Instruction) bool {
		m, ok := in.(*ssa.MapUpdate)
		return ok && termOf(m.Map).lastField() == "PodInfos"
	}) {
		ni++
		ins := in
		_, path, found := reachAvoiding([]cfgPos{entryPos(f)}, func(x ssa.Instruction) bool { return x == ins }, isDelete, func(from, to *ssa.BasicBlock) bool {
			return !c.Fx.edgeEstablishes(from, to, func(ft Fact) bool {
				return !ft.Pol && ft.T.Op == "extract" && ft.T.Name == "1" && len(ft.T.Args) == 1 && ft.T.Args[0].Op == "lookup" && ft.T.Args[0].Args[0].lastField() == "PodInfos"
			})
		})
		c.Check(!found, "O13", "MPT", funcKey(f)+": a pod is filed only if it was not filed before (or its copy was deliberately replaced)", instrPos(in), "behind !found or the requested replacement",
			"a pod can be filed and charged although the node already holds it ("+pathStr(path)+")")
	}
	c.Floor("O13", "DOM/MPT index writes of addTask", nd+ni, 2)
}

// runC14ConvertPairs (O14): ConvertAllAllocatedToPipelined replaces every allocation of a gang by a nomination. The
// nomination (Statement.Pipeline) fires the plugins' allocate handlers again; the allocation it replaces must
// therefore be taken back first (Statement.unallocate fires the deallocate handlers), on every path to the Pipeline
// call — otherwise every converted pod is charged twice to its queue and all ancestors while the gang waits.
func runC14ConvertPairs(c *Ctx) {
	f := c.Anchor("O14", pkgFramework, "Statement", "ConvertAllAllocatedToPipelined")
	if f == nil {
		return
	}
	unalloc := c.P.Func(pkgFramework, "Statement", "unallocate")
	pipe := c.P.Func(pkgFramework, "Statement", "Pipeline")
	n := 0
	for _, h := range c.P.deepFind(f, isCallToFn(pipe), 1) {
		n++
		root := h.In
		if len(h.Chain) > 0 {
			root = h.Chain[0]
		}
		fn := h.In.Parent()
		lh := loopHeaderOf(h.In.Block())
		starts := []cfgPos{entryPos(fn)}
		if lh != nil {
			starts = nil
			for _, s := range loopBodyEntries(lh) {
				starts = append(starts, cfgPos{B: s, I: 0})
			}
		}
		this := h.In
		_, path, found := reachAvoiding(starts, func(x ssa.Instruction) bool { return x == this }, isCallToFn(unalloc), nil)
		c.Check(!found, "O14", "MPT", funcKey(f)+": an allocation is taken back before it is replaced by a nomination", instrPos(root), "unallocate precedes Pipeline on every path",
			"Pipeline is reached without the unallocate of the allocation it replaces ("+pathStr(path)+"): the allocate handlers fire a second time without the matching deallocate, and the queue (and every ancestor) is charged twice for each converted pod")
	}
	c.Floor("O14", "MPT conversions", n, 1)
}

// runC14AcceptedFractionKeepsDevices (O18): what a pod is charged (AcceptedResource) equals what it holds. A fraction
// candidate holds portion × devices: in setAcceptedResources the accepted GPU requirement of a fraction candidate is
// built from the request's device count (GetNumOfGpuDevices) as well as from the portion and the memory.
func runC14AcceptedFractionKeepsDevices(c *Ctx) {
	f := c.Anchor("O18", "pkg/scheduler/api/node_info", "NodeInfo", "setAcceptedResources")
	if f == nil {
		return
	}
	n := 0
	for _, in := range instrsIn(f, func(in ssa.Instruction) bool {
		cc, ok := in.(ssa.CallInstruction)
		if !ok || calleeOf(cc) == nil || !strings.HasPrefix(calleeOf(cc).Name(), "NewGpuResourceRequirement") {
			return false
		}
		_, frac := hasFact(c.Fx.FactsAt(in), func(ft Fact) bool { return ft.Pol && isCallNamed(ft.T, "IsFractionCandidate") })
		return frac
	}) {
		n++
		t := termOf(in.(ssa.Value))
		devices := t.contains(func(x *Term) bool { return x.Op == "call" && x.Fn != nil && x.Fn.Name() == "GetNumOfGpuDevices" })
		c.Check(devices, "O18", "PROV", funcKey(f)+": the accepted requirement of a fraction candidate carries the device count", instrPos(in), "built from GetNumOfGpuDevices(), the portion and the memory",
			"a fraction candidate's accepted GPU requirement is built without the request's device count: a pod holding a fraction of several devices is charged one device's portion to its queue, and the queue's limit admits more than configured")
	}
	c.Floor("O18", "PROV accepted requirements of fraction candidates", n, 1)
}
