package main

import (
	"go/types"
	"strings"

	"golang.org/x/tools/go/ssa"
)

func init() {
	register("C15", runC15,
		"Decides the structural guards without which an eviction cycle certainly exists (absence of livelock itself quantifies over infinite executions and is not decided): every eviction is ordered by a strict relation between evictor and victim — preempt only for a strictly higher priority inside one queue; reclaim only for a queue that stays within its fair share (and deserved quota) from a queue that remains strictly above its share; the saturation test refuses on equality with a multiplier clamped to ≥ 1 (NaN excluded); consolidation only when every victim is placed again — and evictions reach the cluster only together with the placement they were made for (one statement, committed only behind a successful attempt). Each guard is the obligation of the property that states it (C06, C07, C03), evaluated here under C15's own id.",
		"absence of a lasso in the closed system (needs exploration of cluster states over cycles); that the strict relations compose into a well-founded order across reclaim, preempt and consolidation")
}

// C15 — no eviction livelock. The property's anchors name the mechanisms; every one of them is a *strict* relation or
// an all-victims-replaced condition whose weakening re-creates the documented ping-pong (two equal-priority jobs
// preempting each other; two queues at equal saturation reclaiming from each other; a multiplier below 1; a
// consolidation that leaves a victim pending, which the next cycle consolidates back).
func runC15(c *Ctx) {
	// preempt: strictly higher priority, same queue, never itself
	borrow(c, "O1", "C06", "O2", "victim.Priority < preemptor.Priority", "with '≤' two equal-priority workloads of one queue evict each other in alternating cycles")
	borrow(c, "O1", "C06", "O2", "victim.Queue == preemptor.Queue", "preemption across queues is not ordered by priority (priorities are per queue): it would undo what reclaim decided")
	borrow(c, "O1", "C06", "O2", "victim.UID != preemptor.UID", "a workload evicting its own pods to place its pending ones repeats every cycle")
	// reclaim: asymmetric share conditions
	borrow(c, "O10", "C16", "O3", "fallback is creation time ascending, then UID ascending", "two workloads that no plugin separates and that were created in the same second must still be ordered the same way by every heap: the simulation of an eviction replays the order of the next allocate, and an order that follows map iteration lets the victim be placed first in one and last in the other, so the same pod is evicted again and again")
	borrow(c, "O2", "C07", "O2", "stops at the first level where they differ", "the share conditions order the eviction only if they are evaluated on the queues at the level where the two hierarchies diverge")
	borrow(c, "O2", "C07", "O3", "Reclaimable: ", "a strategy that takes from a queue at or below its share lets that queue reclaim the same resources back")
	borrow(c, "O2", "C07", "O3", "the request is added before comparing", "the reclaimer must stay within the quota it reclaims for, counting what it is about to receive")
	borrow(c, "O2", "C07", "O4", "CanReclaimResources", "a queue above its fair share that may reclaim becomes a reclaimee of its victim in the next cycle")
	borrow(c, "O2", "C06", "O3", "reclaim victims belong to another queue", "reclaim inside one queue is not ordered by the share comparison")
	// saturation: strict, multiplier ≥ 1
	borrow(c, "O3", "C07", "O5", "", "equality (or a multiplier < 1, or NaN) lets two sibling queues at the same saturation reclaim from each other for ever — the documented reason for forbidding multipliers below 1")
	borrow(c, "O3", "C07", "O4", "saturation compared with siblings", "the saturation boundary must be part of every reclaim validation")
	// consolidation: all victims re-placed
	borrow(c, "O4", "C06", "O6", "allPodsReallocated", "a consolidation that leaves a victim evicted creates a pending workload that the next cycle consolidates for")
	borrow(c, "O4", "C06", "O4", "consolidation.attemptToConsolidatePreemptor: solver validator", "the all-victims-replaced test must be the validator the consolidation solver uses")
	borrow(c, "O4", "C06", "O4", "handleScenarioSolution", "a scenario counts as solved only behind its validator")
	// evictions only together with the placement they were made for
	borrow(c, "O12", "C08", "O1", "allocation behind the queue capacity gate", "the simulation of reclaim / preempt / consolidation must refuse what the next allocate refuses: without the queue limit in the simulation victims are evicted for a workload that is then turned away, the victim is bound again and the same eviction repeats every cycle")
	borrow(c, "O5", "C03", "O2", "Commit behind a successful attempt", "evictions committed for a failed placement are repeated by the next cycle for the same pending workload")
	borrow(c, "O5", "C06", "O5", "", "evictions and the preemptor's placement are one statement: no eviction is kept when the placement is undone")
	borrow(c, "O5", "C13", "O5", "a failed eviction does not end the commit", "victims evicted for real while the nomination they were evicted for is dropped are evicted again for the same workload in the next cycle")
	runC15Own(c)
	runC15ShareIndependentOfAllocation(c)
	runC15SimulationRefusesLikeAllocate(c)
	runC15ActionWiring(c)
}

// runC15Own: guards that no other property states. The solvers approve an eviction by SIMULATING the allocation that
// the next cycle will really make; where the simulation sees the cluster differently from that allocation, it approves
// evictions whose beneficiary the real allocate does not serve — the freed capacity goes back to the evicted workload
// and the same eviction is approved again next cycle.
func runC15Own(c *Ctx) {
	p, fx := c.P, c.Fx
	// O6: the simulation ranks queues over ALL workloads that have pending pods, exactly the set allocate works on
	// (a running elastic workload with a pending extra pod included)
	if gp := c.Anchor("O6", "pkg/scheduler/actions/utils", "", "GetAllPendingJobs"); gp != nil {
		n := 0
		for _, in := range instrsIn(gp, func(in ssa.Instruction) bool { _, ok := in.(*ssa.MapUpdate); return ok }) {
			if loopHeaderOf(in.Block()) == nil {
				continue
			}
			n++
			ok, path := everyIterationPasses(in, func(x ssa.Instruction) bool { return x == in }, func(from, to *ssa.BasicBlock) bool {
				// excused: the workload has no pending pod
				return !fx.edgeEstablishes(from, to, func(f Fact) bool {
					if f.T.Op != "bin" || len(f.T.Args) != 2 || !strings.Contains(f.T.String(), "PodStatusIndex") {
						return false
					}
					zero := f.T.Args[1].String() == "const:0" || f.T.Args[0].String() == "const:0"
					switch f.T.Name {
					case ">", "<", "!=":
						return zero && !f.Pol
					case "==", "<=", ">=":
						return zero && f.Pol
					}
					return false
				})
			})
			c.Check(ok, "O6", "MPT", funcKey(gp)+": every workload with a pending pod takes part in the simulation", instrPos(in), "skipped only without pending pods",
				"a workload that has pending pods can be left out of the job set the solvers simulate with ("+pathStr(path)+"): the simulation ranks its queue differently from the next cycle's allocate, approves an eviction whose capacity allocate then hands back to the victim, and approves it again every cycle")
		}
		c.Floor("O6", "MPT pending-job insertions", n, 1)
	}
	// O7: node scoring counts capacity that is being released as available. In a simulation the victim's resources
	// are Releasing; in the next cycle they are Idle. A score computed from Idle alone orders the nodes differently in
	// the two situations (spread: the victim's own node no longer looks emptiest).
	nScore := 0
	for _, fn := range p.FuncsIn("pkg/scheduler/plugins/nodeplacement") {
		if isTestdataOrMock(fn) {
			continue
		}
		for _, in := range instrsIn(fn, func(in ssa.Instruction) bool {
			cc, ok := in.(ssa.CallInstruction)
			if !ok || calleeOf(cc) == nil || calleeOf(cc).Name() != "Get" || len(cc.Common().Args) < 1 {
				return false
			}
			lf := termOf(cc.Common().Args[0]).lastField()
			return lf == "Idle" || lf == "Releasing"
		}) {
			nScore++
			c.Viol("O7", "PROV", funcKey(fn)+": node scores are computed from idle + releasing capacity", instrPos(in),
				"a node-placement score reads NodeInfo."+termOf(in.(ssa.CallInstruction).Common().Args[0]).lastField()+" alone instead of NonAllocatedResource (idle + releasing): simulated evictions do not change the score the way the real ones will, the simulation places the victim elsewhere and approves a move that the next cycle undoes")
		}
		for _, in := range instrsIn(fn, func(in ssa.Instruction) bool {
			cc, ok := in.(ssa.CallInstruction)
			return ok && calleeOf(cc) != nil && calleeOf(cc).Name() == "NonAllocatedResource"
		}) {
			nScore++
			c.Hold("O7", "PROV", funcKey(fn)+": node scores are computed from idle + releasing capacity", instrPos(in), "NonAllocatedResource")
		}
	}
	c.Floor("O7", "PROV node-placement capacity reads", nScore, 2)
}

// runC15ActionWiring (O8, O9): allocate and the three evicting actions must look at the same workloads, or one of them
// frees capacity for a workload another never serves.
//
//	O8 — every action that orders PENDING workloads (FilterNonPending) also filters the unready ones (FilterUnready):
//	     allocate without it binds the pods of a gang below its minimum, stale-gang eviction evicts them, and the
//	     pair repeats every cycle;
//	O9 — each action limits its queue depth with ITS OWN entry of queueDepthPerAction (the constant its Name()
//	     returns): reclaim looking deeper than allocate evicts for a workload allocate never reaches, allocate hands
//	     the capacity back to the victim, and reclaim evicts it again.
func runC15ActionWiring(c *Ctx) {
	p := c.P
	n8, n9 := 0, 0
	for _, fn := range p.FuncsIn("pkg/scheduler/actions") {
		if isTestdataOrMock(fn) || fn.Name() != "Execute" || fn.Signature.Recv() == nil {
			continue
		}
		// the action's own name constant
		var own *ssa.Const
		recvT := fn.Signature.Recv().Type()
		if nameFn := p.SSA.LookupMethod(recvT, fn.Pkg.Pkg, "Name"); nameFn != nil && len(nameFn.Blocks) > 0 {
			for _, b := range nameFn.Blocks {
				if ret, ok := b.Instrs[len(b.Instrs)-1].(*ssa.Return); ok && len(ret.Results) == 1 {
					if k, isC := ret.Results[0].(*ssa.Const); isC {
						own = k
					}
				}
			}
		}
		for _, in := range instrsIn(fn, func(in ssa.Instruction) bool {
			cc, ok := in.(ssa.CallInstruction)
			return ok && calleeOf(cc) != nil && calleeOf(cc).Name() == "GetJobsDepth"
		}) {
			n9++
			args := in.(ssa.CallInstruction).Common().Args
			k, isC := args[len(args)-1].(*ssa.Const)
			ok := isC && own != nil && k.Value != nil && own.Value != nil && k.Value.ExactString() == own.Value.ExactString()
			got := termOf(args[len(args)-1]).String()
			c.Check(ok, "O9", "CONST", funcKey(fn)+": the queue depth is the one configured for this action", instrPos(in), got,
				"the action limits its job order with the depth configured for another action ("+got+"): with queueDepthPerAction set it looks at a different prefix of each queue than allocate does, evicts for a workload allocate never reaches, and repeats the eviction every cycle")
		}
		// options literal(s) of NewJobsOrderByQueues built in this function
		for _, in := range instrsIn(fn, func(in ssa.Instruction) bool {
			st, ok := in.(*ssa.Store)
			if !ok {
				return false
			}
			fa, ok := st.Addr.(*ssa.FieldAddr)
			return ok && fieldOfAddr(fa) != nil && fieldOfAddr(fa).Name() == "FilterNonPending"
		}) {
			st := in.(*ssa.Store)
			if k, isC := st.Val.(*ssa.Const); !isC || k.Value == nil || k.Value.String() != "true" {
				continue
			}
			n8++
			base := st.Addr.(*ssa.FieldAddr).X
			unready := false
			for _, r := range *base.Referrers() {
				fa, ok := r.(*ssa.FieldAddr)
				if !ok || fieldOfAddr(fa) == nil || fieldOfAddr(fa).Name() != "FilterUnready" {
					continue
				}
				for _, r2 := range *fa.Referrers() {
					if s2, ok := r2.(*ssa.Store); ok && s2.Addr == ssa.Value(fa) {
						if k, isC := s2.Val.(*ssa.Const); isC && k.Value != nil && k.Value.String() == "true" {
							unready = true
						}
					}
				}
			}
			c.Check(unready, "O8", "CONST", funcKey(fn)+": pending workloads are ordered with FilterUnready", instrPos(in), "FilterNonPending ∧ FilterUnready",
				"the action orders pending workloads without filtering the unready ones: the pods of a gang that has fewer alive pods than its minimum are placed (bound, or victims are evicted for them), the gang still cannot run, stale-gang eviction removes them, and the same happens in the next cycle")
		}
	}
	c.Floor("O8", "CONST pending-workload orders", n8, 4)
	c.Floor("O9", "CONST queue-depth lookups", n9, 4)
}

// runC15ShareIndependentOfAllocation (O11): the fair shares are computed once per cycle and are the yardstick of the
// reclaim validators and of the queue order; the no-livelock argument needs them to be the same in the cycle that
// simulates an eviction and in the cycle that allocates after it. They must therefore not depend on what the queues
// currently hold: in the division package the current allocation (ResourceShare.Allocated / AllocatedNotPreemptible,
// directly or through a function that reads them) only flows into logging and metrics — never into a comparison, an
// arithmetic expression, a stored value or a result. (A tie-break "the queue that holds less gets the left-over unit"
// flips the shares after every reclaim and the two queues take the unit from each other for ever.)
func runC15ShareIndependentOfAllocation(c *Ctx) {
	const pkgDiv = "pkg/scheduler/plugins/proportion/resource_division"
	isAllocField := func(fa *ssa.FieldAddr) bool {
		st, ok := fa.X.Type().Underlying().(*types.Pointer).Elem().Underlying().(*types.Struct)
		if !ok {
			return false
		}
		name := st.Field(fa.Field).Name()
		return strings.HasPrefix(name, "Allocated") && strings.HasSuffix(typeKey(fa.X.Type()), "resource_share.ResourceShare")
	}
	// functions of the proportion plugin that (transitively) return something read from an Allocated field
	readsAlloc := map[*ssa.Function]bool{}
	for changed, round := true, 0; changed && round < 4; round++ {
		changed = false
		for _, fn := range c.P.FuncsIn("pkg/scheduler/plugins/proportion/resource_share") {
			if readsAlloc[fn] || fn.Signature.Results().Len() == 0 {
				continue
			}
			for _, b := range fn.Blocks {
				for _, in := range b.Instrs {
					if fa, ok := in.(*ssa.FieldAddr); ok && isAllocField(fa) && !strings.HasPrefix(fn.Name(), "Clone") {
						readsAlloc[fn] = true
					}
					if cc, ok := in.(ssa.CallInstruction); ok && cc.Common().StaticCallee() != nil && readsAlloc[cc.Common().StaticCallee()] {
						readsAlloc[fn] = true
					}
				}
			}
			if readsAlloc[fn] {
				changed = true
			}
		}
	}
	sinkOK := func(cal *ssa.Function) bool {
		if cal == nil {
			return false
		}
		pk := funcPkgPath(cal)
		return strings.HasSuffix(pk, "/log") || strings.HasSuffix(pk, "/metrics") || pk == "fmt" || cal.Name() == "HumanizeResource"
	}
	nFuncs, nReads := 0, 0
	for _, fn := range c.P.FuncsIn(pkgDiv) {
		nFuncs++
		for _, b := range fn.Blocks {
			for _, in := range b.Instrs {
				var src ssa.Value
				switch x := in.(type) {
				case *ssa.FieldAddr:
					if isAllocField(x) {
						src = x
					}
				case *ssa.Call:
					if cal := x.Call.StaticCallee(); cal != nil && readsAlloc[cal] {
						src = x
					}
				}
				if src == nil {
					continue
				}
				nReads++
				var bad ssa.Instruction
				seen := map[ssa.Value]bool{}
				var follow func(v ssa.Value)
				follow = func(v ssa.Value) {
					if seen[v] || v.Referrers() == nil {
						return
					}
					seen[v] = true
					for _, r := range *v.Referrers() {
						switch x := r.(type) {
						case *ssa.UnOp, *ssa.Convert, *ssa.ChangeType, *ssa.MakeInterface, *ssa.Phi, *ssa.Extract:
							follow(x.(ssa.Value))
						case *ssa.Call:
							cal := x.Call.StaticCallee()
							if !sinkOK(cal) {
								bad = x
							} else if cal.Name() == "HumanizeResource" {
								follow(x)
							}
						case *ssa.Store:
							// only into the argument array of a variadic logging call
							if _, isIdx := x.Addr.(*ssa.IndexAddr); !isIdx || x.Val != v {
								bad = x
							}
						case *ssa.DebugRef:
						default:
							bad = r
						}
					}
				}
				follow(src)
				pos := instrPos(in)
				if bad != nil {
					pos = instrPos(bad)
				}
				c.Check(bad == nil, "O11", "DEP", funcKey(fn)+": the current allocation is only reported, it does not enter the division of shares", pos, "flows into logging / metrics only",
					"the division of fair shares reads what a queue currently holds and uses it (comparison, arithmetic, stored value or result): the shares then change with every reclaim and allocation, the cycle that simulates an eviction and the cycle that allocates after it disagree, and two queues can take the same unit from each other for ever")
			}
		}
	}
	c.Floor("O11", "DEP functions of the share division", nFuncs, 10)
	c.Floor("O11", "DEP reads of the current allocation in the share division", nReads, 3)
}

// runC15SimulationRefusesLikeAllocate (O13): the victim-based actions simulate the next allocate with the same
// AllocateJob code (isPipelineOnly); what real allocation refuses the simulation must refuse too, or victims are evicted
// for a workload that is turned away afterwards, every cycle again. In allocateTask every placement is behind a
// successful pre-predicate, on every path, whatever the mode.
func runC15SimulationRefusesLikeAllocate(c *Ctx) {
	p := c.P
	f := c.Anchor("O13", "pkg/scheduler/actions/common", "", "allocateTask")
	if f == nil {
		return
	}
	placing := p.performs(isCallToFn(p.Func("pkg/scheduler/framework", "Statement", "Allocate"), p.Func("pkg/scheduler/framework", "Statement", "Pipeline")), 8)
	passed := func(fs FactSet) bool {
		_, ok := fs.find(func(ft Fact) bool {
			t := ft.T
			if t.Op != "bin" || t.Name != "==" || !ft.Pol || len(t.Args) != 2 || !t.Args[1].isNilConst() {
				return false
			}
			return strings.Contains(t.Args[0].String(), "PrePredicateFn")
		})
		return ok
	}
	n := 0
	for _, in := range instrsIn(f, placing) {
		n++
		c.Check(c.Fx.allPathsSatisfy(in, passed), "O13", "DOM", funcKey(f)+": a task is placed only behind a successful pre-predicate", instrPos(in), "PrePredicateFn(task, job) == nil on every path",
			"a task can be placed although its pre-predicate failed (e.g. only in the simulation mode): reclaim / preempt / consolidation evict victims for a pod that the next allocate rejects, the victims are bound again and evicted again")
	}
	c.Floor("O13", "DOM placements in allocateTask", n, 1)
}
