package main

import (
	"fmt"
	"go/token"
	"sort"
	"strings"

	"golang.org/x/tools/go/ssa"
)

func init() {
	register("C16", runC16,
		"Decides structural necessary conditions of 'priority, then FIFO, decides between equal workloads of a queue': every registered job comparator is antisymmetric on the finite abstraction of its comparisons and never derives its sign from a difference that can overflow; the priority comparator orders higher priority first; the elastic comparator is neutral between workloads of the same min-available class and its class does not depend on map iteration order; Session.JobOrderFn lets the first non-zero comparator decide un-negated and otherwise orders by creation time, then UID, as a strict total order; the leaf heap of a non-victim JobsOrderByQueues uses that order un-negated, every ready pending job of an existing leaf queue is pushed, the depth-limited heap evicts by comparison, and allocate attempts every popped job. Also: the scan that picks the item to evict from a full heap covers every leaf slot [n/2, n-1]; the per-job scratch fields on the shared topology tree are given fresh values before the per-job evaluation reads them.",
		"run-time staleness of the heaps (needsReorder / Fix), cross-queue interleaving, and whether two workloads are 'identical' for the placement")
}

func sign(i int64) int64 {
	switch {
	case i < 0:
		return -1
	case i > 0:
		return 1
	}
	return 0
}

// checkIntComparator: antisymmetry of an int-valued comparator over parameters li, ri.
func checkIntComparator(c *Ctx, e *absExec, id string, fn *ssa.Function, li, ri int) []absPair {
	pairs, err := e.bothWays(fn, nil, li, ri)
	construct := funcKey(fn) + ": f(l,r) = −f(r,l) on every abstract input"
	c.Analysed(funcKey(fn))
	if err != nil {
		c.Undec(id, "ABS", construct, fn.Pos(), "comparator not evaluable on the finite abstraction: "+err.Error())
		return nil
	}
	for _, pr := range pairs {
		for _, v := range []absVal{pr.Fwd, pr.Back} {
			if v.Kind == "overflow" {
				c.Viol(id, "ABS", construct, fn.Pos(), "the comparator returns "+v.String()+": for operands far enough apart the difference wraps and the sign flips, so the lower-priority workload is ordered first")
				return nil
			}
			if v.Kind != "int" {
				c.Undec(id, "ABS", construct, fn.Pos(), "result is not a constant selected by comparisons: "+v.String())
				return nil
			}
		}
		if sign(pr.Fwd.I) != -sign(pr.Back.I) {
			c.Viol(id, "ABS", construct, fn.Pos(), fmt.Sprintf("f(l,r)=%d but f(r,l)=%d when %s: the heap order is not a consistent order, a workload that should come first can be popped later", pr.Fwd.I, pr.Back.I, pr.St))
			return nil
		}
	}
	c.Hold(id, "ABS", construct, fn.Pos(), fmt.Sprintf("%d abstract inputs", len(pairs)))
	return pairs
}

func runC16(c *Ctx) {
	runC16ScratchReset(c)
	runC16SortSubjects(c)
	runC16PushOrder(c)
	runC16HeapContract(c)
	runC16ClassPriority(c)
	runC16StatusSync(c)
	borrow(c, "O8", "C05", "O13", "", "a per-job table of the topology plugin that survives into the next job confines that job to the previous job's nodes: a higher-priority workload stays pending next to free nodes while an identical lower-priority one, attempted after a different predecessor, is placed")
	borrow(c, "O15", "C04", "O10", "RemovePod", "a pod of a rolled-back attempt that stays in the node's affinity bookkeeping lets a later, lower-priority workload be admitted next to a pod that does not exist while the identical older one was refused")
	borrow(c, "O14", "C12", "O12", "is scanned on every path", "a terminally failed BindRequest that is never cleaned up makes the older workload lose its place: every cycle it is popped first, its new BindRequest collides with the stale one, the allocation is undone and the younger identical workload gets the resources")
	borrow(c, "O6", "C08", "O5", "AllocatedNotPreemptible", "the non-preemptible quota gate must be monotone within a cycle: a deallocation that subtracts what the allocation never added lowers the queue's non-preemptible usage, so an earlier (higher-priority) workload is refused and an identical later one admitted")
	p, fx := c.P, c.Fx
	e := newAbsExec(p)
	const pkgFw = "pkg/scheduler/framework"

	// ---- O1/O2: the registered job comparators
	addJO := c.Anchor("O1", pkgFw, "Session", "AddJobOrderFn")
	var regs []Registration
	if addJO != nil {
		var unresolved []ssa.CallInstruction
		regs, unresolved = p.Registered(addJO, 1)
		for _, u := range unresolved {
			c.Undec("O1", "REG", funcKey(u.Parent())+": AddJobOrderFn registration", instrPos(u), "registered comparator is not a resolvable function value")
		}
		c.Floor("O1", "REG job comparators", len(regs), 2)
	}
	sort.Slice(regs, func(i, j int) bool { return funcKey(regs[i].Fn) < funcKey(regs[j].Fn) })
	seen := map[*ssa.Function]bool{}
	for _, r := range regs {
		if seen[r.Fn] {
			continue
		}
		seen[r.Fn] = true
		c.Hold("O1", "REG", funcKey(r.Fn)+": registered job comparator", instrPos(r.Site), "analysed by ABS")
		pairs := checkIntComparator(c, e, "O2", r.Fn, 0, 1)
		if pairs == nil {
			continue
		}
		switch funcKey(r.Fn) {
		case "pkg/scheduler/plugins/priority.JobOrderFn":
			// −1 exactly when l.Priority > r.Priority
			ok, n := true, 0
			why := ""
			for _, pr := range pairs {
				for k, rel := range pr.St.ord {
					pp := pr.St.pairs[k]
					if !(strings.HasSuffix(pp[0], ".Priority") && strings.HasSuffix(pp[1], ".Priority")) {
						continue
					}
					n++
					// orientation: relation of the l-rooted term to the r-rooted term
					lFirst := strings.Contains(pp[0], "param:0:")
					relLR := rel
					if !lFirst {
						relLR = rel.flip()
					}
					want := int64(0)
					if relLR == relGT {
						want = -1
					} else if relLR == relLT {
						want = 1
					}
					if sign(pr.Fwd.I) != want {
						ok = false
						why = fmt.Sprintf("f(l,r)=%d when %s", pr.Fwd.I, pr.St)
					}
				}
			}
			c.Check(ok && n >= 3, "O2", "ABS", funcKey(r.Fn)+": negative exactly when l.Priority > r.Priority", r.Fn.Pos(), "higher priority first", "the priority comparator does not put the higher priority first: "+why)
		case "pkg/scheduler/plugins/elastic.JobOrderFn":
			ok, n := true, 0
			why := ""
			for _, pr := range pairs {
				var idx []int
				for _, v := range pr.St.tup {
					idx = append(idx, v)
				}
				if len(idx) == 2 && idx[0] == idx[1] {
					n++
					if pr.Fwd.I != 0 {
						ok = false
						why = pr.St.String()
					}
				}
			}
			c.Check(ok && n >= 3, "O2", "ABS", funcKey(r.Fn)+": zero between workloads of the same min-available class", r.Fn.Pos(), "same class ⇒ 0 (creation time decides)", "the elastic comparator separates two workloads of the same class ("+why+"): FIFO no longer decides between equal workloads")
		default:
			c.Hold("O2", "ABS", funcKey(r.Fn)+": additional job comparator", r.Fn.Pos(), "antisymmetric; no further contract known for it")
		}
	}
	// elastic's class must not depend on the iteration order of the sub-group map
	if mas := c.Anchor("O2", "pkg/scheduler/plugins/elastic", "", "minAvailableState"); mas != nil {
		n := 0
		for _, r := range mapRanges(mas) {
			n++
			_, blocks := loopBlocksOfRange(r)
			distinct := map[string]token.Pos{}
			for b := range blocks {
				if ret, ok := b.Instrs[len(b.Instrs)-1].(*ssa.Return); ok {
					var parts []string
					for _, rv := range ret.Results {
						parts = append(parts, termOf(rv).String())
					}
					distinct[strings.Join(parts, ",")] = ret.Pos()
				}
			}
			// blocks dominated by the body that return without being part of the cycle
			for _, b := range mas.Blocks {
				if blocks[b] || !insideLoopBody(b) {
					continue
				}
				if ret, ok := b.Instrs[len(b.Instrs)-1].(*ssa.Return); ok {
					var parts []string
					for _, rv := range ret.Results {
						parts = append(parts, termOf(rv).String())
					}
					distinct[strings.Join(parts, ",")] = ret.Pos()
				}
			}
			c.Check(len(distinct) <= 1, "O2", "MAPORDER", funcKey(mas)+": at most one early answer inside the loop over the sub-group map", r.Pos(), fmt.Sprintf("%d distinct early return value(s)", len(distinct)), fmt.Sprintf("%d different values are returned from inside a loop over a map (%v): which one is returned depends on the iteration order, so the same two workloads compare differently from call to call", len(distinct), sortedKeys(distinct)))
		}
		c.Floor("O2", "MAPORDER sub-group map loops", n, 1)
	}

	// ---- O3: Session.JobOrderFn — first non-zero comparator decides, then creation time, then UID
	if jof := c.Anchor("O3", pkgFw, "Session", "JobOrderFn"); jof != nil {
		var dyn []*ssa.Call
		for _, in := range instrsIn(jof, func(in ssa.Instruction) bool {
			call, ok := in.(*ssa.Call)
			return ok && call.Common().StaticCallee() == nil && !call.Common().IsInvoke() && len(call.Common().Args) == 2
		}) {
			dyn = append(dyn, in.(*ssa.Call))
		}
		c.Floor("O3", "DOM comparator invocations", len(dyn), 1)
		var exit *ssa.BasicBlock
		for _, call := range dyn {
			a0, a1 := termOf(call.Common().Args[0]), termOf(call.Common().Args[1])
			c.Check(a0.paramIndex() == 1 && a1.paramIndex() == 2, "O3", "PROV", funcKey(jof)+": comparators receive (l, r) in order", instrPos(call), "jof(l, r)", "the plugin comparators are invoked with swapped or foreign operands: "+a0.String()+", "+a1.String())
			h := loopHeaderOf(call.Block())
			if h == nil {
				c.Undec("O3", "DOM", funcKey(jof)+": comparator loop", instrPos(call), "comparator call is not inside a loop")
				continue
			}
			inL := naturalLoop(h)
			for _, s := range h.Succs {
				if !inL[s] {
					exit = s
				}
			}
			// the FIRST non-zero verdict decides: once a comparator has answered non-zero, no further comparator is
			// consulted (priority is registered before elastic; a later plugin must not overrule an earlier one)
			{
				this := call
				_, path, found := reachAvoiding([]cfgPos{afterInstr(this)}, func(x ssa.Instruction) bool { return x == h.Instrs[0] }, nil, func(from, to *ssa.BasicBlock) bool {
					// only along edges on which the verdict is known to be non-zero … i.e. prune the "== 0" edges
					return !fx.edgeEstablishes(from, to, func(f Fact) bool {
						return f.T.Op == "bin" && len(f.T.Args) == 2 && f.T.Args[0].V == ssa.Value(this) && f.T.Args[1].String() == "const:0" &&
							((f.T.Name == "==" && f.Pol) || (f.T.Name == "!=" && !f.Pol))
					})
				})
				c.Check(!found, "O3", "MPT", funcKey(jof)+": the first non-zero comparator verdict ends the scan", instrPos(call), "no further comparator after a non-zero verdict",
					"after a comparator has answered non-zero the next comparator is still consulted ("+pathStr(path)+"): a later plugin (elastic) overrules an earlier one (priority) and a lower-priority workload is ordered first")
			}
			// returns inside the loop: value is (j < 0) under j != 0
			n := 0
			for _, b := range jof.Blocks {
				ret, ok := b.Instrs[len(b.Instrs)-1].(*ssa.Return)
				if !ok || !insideLoopBody(b) || loopHeaderOf(b) == nil && !h.Dominates(b) {
					continue
				}
				if exit != nil && (b == exit || exit.Dominates(b)) {
					continue
				}
				n++
				rv := termOf(ret.Results[0])
				okShape := rv.Op == "bin" && rv.Name == "<" && rv.Args[0].V == ssa.Value(call) && rv.Args[1].String() == "const:0"
				_, nz := hasFact(fx.FactsAt(ret), func(f Fact) bool {
					return f.T.Op == "bin" && ((f.T.Name == "!=" && f.Pol) || (f.T.Name == "==" && !f.Pol)) && f.T.Args[0].V == ssa.Value(call) && f.T.Args[1].String() == "const:0"
				})
				c.Check(okShape && nz, "O3", "DOM", funcKey(jof)+": a non-zero comparator result decides, negative meaning 'l first'", ret.Pos(), "return j < 0 under j != 0", "the in-loop answer is not 'j < 0 for the first non-zero j': "+rv.String())
			}
			c.Floor("O3", "DOM in-loop answers", n, 1)
		}
		if exit != nil {
			leaves, err := e.explore(jof, exit, paramSyms(jof, [2]int{0, 0}), newAbsState())
			construct := funcKey(jof) + ": fallback is creation time ascending, then UID ascending, as a strict total order"
			if err != nil {
				c.Undec("O3", "ABS", construct, jof.Pos(), err.Error())
			} else {
				ok := true
				why := ""
				n := 0
				for _, a := range leaves {
					back, err := e.explore(jof, exit, paramSyms(jof, [2]int{1, 2}), a.St)
					if err != nil {
						c.Undec("O3", "ABS", construct, jof.Pos(), err.Error())
						ok = false
						break
					}
					for _, b := range back {
						n++
						fw, bk := a.Vals[0], b.Vals[0]
						if fw.Kind != "bool" || bk.Kind != "bool" {
							ok, why = false, "non-boolean result"
							continue
						}
						// orientation helpers
						relOf := func(suffix string) (ordRel, bool) {
							for k, rel := range b.St.ord {
								pp := b.St.pairs[k]
								if strings.HasSuffix(pp[0], suffix) && strings.HasSuffix(pp[1], suffix) {
									if strings.Contains(pp[0], "param:1:") {
										return rel, true
									}
									return rel.flip(), true
								}
							}
							return 0, false
						}
						ct, hasCT := relOf(".CreationTimestamp")
						uid, hasUID := relOf(".UID")
						var want, wantBack bool
						switch {
						case hasCT && ct != relEQ:
							want, wantBack = ct == relLT, ct == relGT
						case hasUID:
							want, wantBack = uid == relLT, uid == relGT
						default:
							ok, why = false, "result does not depend on creation time and UID: "+b.St.String()
							continue
						}
						if !hasCT {
							ok, why = false, "creation time is not consulted: "+b.St.String()
						}
						if fw.B != want || bk.B != wantBack {
							ok = false
							why = fmt.Sprintf("less(l,r)=%v less(r,l)=%v when %s", fw.B, bk.B, b.St)
						}
					}
				}
				c.Check(ok && n >= 5, "O3", "ABS", construct, jof.Pos(), fmt.Sprintf("%d abstract inputs", n), "the fallback order is not 'older first, then smaller UID': "+why)
			}
		} else {
			c.Undec("O3", "ABS", funcKey(jof)+": fallback order", jof.Pos(), "loop exit not found")
		}
	}

	// ---- O4: the leaf heap of a non-victim JobsOrderByQueues orders by Session.JobOrderFn un-negated
	const pkgUtils = "pkg/scheduler/actions/utils"
	if cl := c.Anchor("O4", pkgUtils, "JobsOrderByQueues", "createLeafNode"); cl != nil {
		sessJOF := p.Func(pkgFw, "Session", "JobOrderFn")
		n := 0
		for _, in := range instrsIn(cl, func(in ssa.Instruction) bool {
			cc, ok := in.(ssa.CallInstruction)
			return ok && calleeOf(cc) != nil && calleeOf(cc).Name() == "NewPriorityQueue"
		}) {
			n++
			less := p.resolveFuncValue(in.(ssa.CallInstruction).Common().Args[0])
			construct := funcKey(cl) + ": leaf heap lessFn = Session.JobOrderFn(l, r) unless VictimQueue"
			if less == nil {
				c.Undec("O4", "ABS", construct, instrPos(in), "lessFn is not a resolvable closure")
				continue
			}
			leaves, err := e.explore(less, nil, paramSyms(less, [2]int{0, 0}), newAbsState())
			if err != nil {
				c.Undec("O4", "ABS", construct, instrPos(in), err.Error())
				continue
			}
			ok, cnt, why := true, 0, ""
			for _, lf := range leaves {
				victim, hasV := false, false
				var jofVal, hasJ = false, false
				for k, v := range lf.St.bools {
					if strings.HasSuffix(k, ".VictimQueue") {
						victim, hasV = v, true
					}
					if sessJOF != nil && strings.Contains(k, funcKey(sessJOF)) {
						// operands in order: l then r
						il, ir := strings.Index(k, "param:0:"), strings.Index(k, "param:1:")
						if il >= 0 && ir > il {
							jofVal, hasJ = v, true
						}
					}
				}
				if !hasV || !hasJ {
					ok, why = false, "result does not depend on VictimQueue and JobOrderFn(l, r): "+lf.St.String()
					continue
				}
				cnt++
				if lf.Vals[0].Kind != "bool" || lf.Vals[0].B != (jofVal != victim) {
					ok = false
					why = fmt.Sprintf("lessFn=%v when %s", lf.Vals[0], lf.St)
				}
			}
			c.Check(ok && cnt == 4, "O4", "ABS", construct, instrPos(in), "4 abstract inputs: negated exactly for victim queues", "the leaf heap does not pop in Session.JobOrderFn order: "+why)
			// the depth bound is the configured one
			t := termOf(in.(ssa.CallInstruction).Common().Args[1])
			c.Check(t.lastField() == "MaxJobsQueueDepth", "O4", "PROV", funcKey(cl)+": leaf heap depth is options.MaxJobsQueueDepth", instrPos(in), t.String(), "the leaf heap depth is not the configured per-action depth: "+t.String())
		}
		c.Floor("O4", "ABS leaf heaps", n, 1)
	}
	// the heap pops through lessFn un-negated, and evicts by comparison when depth-limited
	const pkgSU = "pkg/scheduler/scheduler_util"
	if less := c.Anchor("O4", pkgSU, "priorityQueue", "Less"); less != nil {
		leaves, err := e.explore(less, nil, paramSyms(less, [2]int{0, 0}), newAbsState())
		construct := funcKey(less) + ": heap order is lessFn(items[i], items[j])"
		if err != nil {
			c.Undec("O4", "ABS", construct, less.Pos(), err.Error())
		} else {
			ok, n := true, 0
			for _, lf := range leaves {
				for k, v := range lf.St.bools {
					if strings.Contains(k, "lessFn") && strings.HasPrefix(k, "call[dyn]") {
						n++
						ii, ij := strings.Index(k, "param:1:"), strings.Index(k, "param:2:")
						if !(ii >= 0 && ij > ii) || lf.Vals[0].Kind != "bool" || lf.Vals[0].B != v {
							ok = false
						}
					}
				}
			}
			c.Check(ok && n >= 2, "O4", "ABS", construct, less.Pos(), "un-negated, operands in order", "the heap's Less negates or swaps lessFn: jobs are popped in reverse order")
		}
	}
	if push := c.Anchor("O4", pkgSU, "PriorityQueue", "Push"); push != nil {
		lessM := p.Func(pkgSU, "priorityQueue", "Less")
		n := 0
		// (the overflow handling may live in a helper of Push)
		for _, dh := range p.deepFind(push, func(in ssa.Instruction) bool {
			cc, ok := in.(ssa.CallInstruction)
			return ok && calleeOf(cc) != nil && funcPkgPath(calleeOf(cc)) == "container/heap" && calleeOf(cc).Name() == "Remove"
		}, 2) {
			in := dh.In
			n++
			idx := in.(ssa.CallInstruction).Common().Args[1]
			t := termOf(idx)
			byCmp := t.contains(func(x *Term) bool {
				if x.Op != "call" || x.Fn == nil {
					return false
				}
				_, ok := p.Reaches(x.Fn, func(g *ssa.Function) bool { return lessM != nil && sameFunc(g, lessM) }, 3)
				return ok || (lessM != nil && sameFunc(x.Fn, lessM))
			})
			// or the index is the running choice of a scan whose steps are decided by Less
			if phi, isPhi := idx.(*ssa.Phi); isPhi && !byCmp {
				if h := loopHeaderOf(phi.Block()); h != nil {
					for b := range naturalLoop(h) {
						iff, isIf := b.Instrs[len(b.Instrs)-1].(*ssa.If)
						if !isIf {
							continue
						}
						if termOf(iff.Cond).contains(func(x *Term) bool { return x.Op == "call" && x.Fn != nil && lessM != nil && sameFunc(x.Fn, lessM) }) {
							byCmp = true
						}
					}
				}
			}
			c.Check(byCmp, "O4", "PROV", funcKey(push)+": the item evicted from a full heap is chosen by comparison", instrPos(in), t.String(), "the index handed to heap.Remove ("+t.String()+") is a position, not the result of comparing items: a binary heap orders an item only relative to its ancestors, so a fixed slot can hold a better item than one that is kept, and a higher-priority or older job is dropped while a worse one stays to be scheduled")
			// RANGE: the scan covers every leaf
			if byCmp && lessM != nil {
				scanFn := in.Parent()
				t.contains(func(x *Term) bool {
					if x.Op == "call" && x.Fn != nil && !sameFunc(x.Fn, lessM) && len(x.Fn.Blocks) > 0 && hasModPrefix(x.Fn) {
						scanFn = x.Fn
					}
					return false
				})
				isLess := func(v ssa.Value) bool {
					return termOf(v).contains(func(x *Term) bool { return x.Op == "call" && x.Fn != nil && sameFunc(x.Fn, lessM) })
				}
				decided, covers, desc := leafScanCoverage(scanFn, isLess)
				if !decided && desc == "no comparison scan found" {
					// chosen by comparison in some other way (not an index scan): nothing to bound
					c.Hold("O4", "RANGE", funcKey(push)+": the eviction scan covers every leaf of the heap", instrPos(in), "no index scan: "+t.String())
				} else if !decided {
					c.Undec("O4", "RANGE", funcKey(push)+": the eviction scan covers every leaf of the heap", instrPos(in), desc)
				} else {
					c.Check(covers, "O4", "RANGE", funcKey(push)+": the eviction scan covers every leaf of the heap", instrPos(in), desc+" ⊇ leaves [n/2 … n-1]",
						"the scan in "+funcKey(scanFn)+" compares only "+desc+", which leaves out a leaf of the heap (leaves are slots n/2 … n-1): the item that orders last can sit in the skipped slot, so a better (higher-priority or older) job is dropped from the depth-limited queue while a worse one stays and is scheduled")
				}
			}
		}
		c.Floor("O4", "PROV depth-limit evictions", n, 1)
	}
	// every eligible job is pushed
	if init := c.Anchor("O4", pkgUtils, "JobsOrderByQueues", "InitializeWithJobs"); init != nil {
		pushJob := p.Func(pkgUtils, "JobsOrderByQueues", "PushJob")
		allowed := []string{".FilterUnready", ".FilterNonPending", ".FilterNonPreemptible", ".FilterNonActiveAllocated", ".Queues,", "IsLeafQueue"}
		for _, in := range instrsIn(init, isCallToFn(pushJob)) {
			ok, path := everyIterationPasses(in, func(x ssa.Instruction) bool { return x == in }, func(from, to *ssa.BasicBlock) bool {
				// skipping edges must be one of the documented filters or a missing-queue test
				iff, isIf := from.Instrs[len(from.Instrs)-1].(*ssa.If)
				if !isIf {
					return true
				}
				h := loopHeaderOf(in.Block())
				if from == h {
					return true
				}
				// an edge that goes straight back to the header is a `continue`
				if to != h && !(len(to.Instrs) == 1 && len(to.Succs) == 1 && to.Succs[0] == h) {
					return true
				}
				w := WantFalse
				if from.Succs[0] == to {
					w = WantTrue
				}
				fs := fx.FactsAt(iff).clone()
				fs.addAll(fx.valueFacts(iff.Cond, w, 0, map[ssa.Value]bool{}))
				_, excused := fs.find(func(f Fact) bool {
					s := f.T.String()
					for _, a := range allowed {
						if strings.Contains(s, a) {
							return true
						}
					}
					return false
				})
				if !excused {
					// the tests may live in a predicate helper: every way the helper gives this answer is one of them
					excused = fx.edgeEstablishesAll(from, to, func(s FactSet) bool {
						_, e := s.find(func(f Fact) bool {
							str := f.T.String()
							for _, a := range allowed {
								if strings.Contains(str, a) {
									return true
								}
							}
							return false
						})
						return e
					})
				}
				return !excused
			})
			c.Check(ok, "O4", "MPT", funcKey(init)+": every job is pushed unless a documented filter or a missing/non-leaf queue excludes it", instrPos(in), "continue edges: option filters, queue existence, leaf test", "a job is dropped before ordering for another reason ("+pathStr(path)+")")
		}
	}
	// allocate builds a non-victim order with the filters of "ready pending"
	if ex := c.Anchor("O4", "pkg/scheduler/actions/allocate", "allocateAction", "Execute"); ex != nil {
		ok := false
		for _, in := range instrsIn(ex, func(in ssa.Instruction) bool {
			st, isSt := in.(*ssa.Store)
			if !isSt {
				return false
			}
			fa, isFA := st.Addr.(*ssa.FieldAddr)
			return isFA && fieldOfAddr(fa).Name() == "VictimQueue"
		}) {
			if k, isC := in.(*ssa.Store).Val.(*ssa.Const); !isC || k.Value == nil || k.Value.ExactString() != "false" {
				ok = false
				c.Viol("O4", "PROV", funcKey(ex)+": allocate orders jobs with VictimQueue=false", instrPos(in), "allocate sets VictimQueue: pending jobs would be popped in reverse order")
				return
			}
		}
		ok = true
		c.Check(ok, "O4", "PROV", funcKey(ex)+": allocate orders jobs with VictimQueue=false", ex.Pos(), "VictimQueue left at its zero value", "")
		// every popped job is attempted
		pop := p.Func(pkgUtils, "JobsOrderByQueues", "PopNextJob")
		attempt := p.Func("pkg/scheduler/actions/allocate", "", "attemptToAllocateJob")
		for _, in := range instrsIn(ex, isCallToFn(pop)) {
			_, path, found := reachAvoiding([]cfgPos{afterInstr(in)}, func(x ssa.Instruction) bool {
				if x == in {
					return true
				}
				return isReturn(x)
			}, isCallToFn(attempt), nil)
			c.Check(!found, "O4", "MPT", funcKey(ex)+": every popped job is attempted before the next pop", instrPos(in), "PopNextJob → attemptToAllocateJob on all paths", "a popped job can be skipped without an allocation attempt ("+pathStr(path)+")")
		}
	}
}

func condString(v ssa.Value) string {
	// the condition and, for phis of short-circuit conditions, its operands
	var sb strings.Builder
	seen := map[ssa.Value]bool{}
	var rec func(v ssa.Value, d int)
	rec = func(v ssa.Value, d int) {
		if seen[v] || d > 4 {
			return
		}
		seen[v] = true
		sb.WriteString(termOf(v).String())
		sb.WriteString(" ")
		if phi, ok := v.(*ssa.Phi); ok {
			for _, e := range phi.Edges {
				rec(e, d+1)
			}
		}
		if u, ok := v.(*ssa.UnOp); ok {
			rec(u.X, d+1)
		}
	}
	rec(v, 0)
	return sb.String()
}

// C16-O7 (PROV): a comparison function handed to sort.Slice compares elements of the slice that is being sorted.
// The scheduler orders pod sets, sub-group sets, nodes, queues and tasks with sort.Slice(x, func(i, j) …); the
// closure indexes a captured slice with i and j. If that is another slice than x — typically the input that x is a
// copy of — the order produced depends on how the elements happen to be arranged, which for pod sets comes from a map
// iteration: two identical workloads are then placed in different sub-group orders and the earlier one can fail where
// the later one fits.
func runC16SortSubjects(c *Ctx) {
	p := c.P
	src := func(v ssa.Value) ssa.Value {
		for d := 0; d < 4; d++ {
			switch x := v.(type) {
			case *ssa.MakeInterface:
				v = x.X
			case *ssa.ChangeType:
				v = x.X
			case *ssa.UnOp:
				if x.Op == token.MUL {
					if a, ok := x.X.(*ssa.Alloc); ok {
						return a
					}
				}
				return v
			default:
				return v
			}
		}
		return v
	}
	n := 0
	for _, fn := range p.FuncsIn("pkg/scheduler") {
		if isTestdataOrMock(fn) {
			continue
		}
		for _, in := range instrsIn(fn, func(in ssa.Instruction) bool {
			cc, ok := in.(*ssa.Call)
			if !ok || calleeOf(cc) == nil || funcPkgPath(calleeOf(cc)) != "sort" {
				return false
			}
			return calleeOf(cc).Name() == "Slice" || calleeOf(cc).Name() == "SliceStable"
		}) {
			call := in.(*ssa.Call)
			mc, ok := call.Call.Args[1].(*ssa.MakeClosure)
			if !ok {
				continue
			}
			subject := src(call.Call.Args[0])
			less := mc.Fn.(*ssa.Function)
			n++
			var foreign []string
			for _, b := range less.Blocks {
				for _, li := range b.Instrs {
					ia, ok := li.(*ssa.IndexAddr)
					if !ok {
						continue
					}
					// indexed with one of the comparison's own indices?
					byIJ := false
					for _, prm := range less.Params {
						if ia.Index == ssa.Value(prm) {
							byIJ = true
						}
					}
					if !byIJ {
						continue
					}
					// which captured value is indexed
					var captured ssa.Value
					base := ia.X
					if u, isU := base.(*ssa.UnOp); isU && u.Op == token.MUL {
						base = u.X
					}
					for k, fv := range less.FreeVars {
						if base == ssa.Value(fv) && k < len(mc.Bindings) {
							captured = src(mc.Bindings[k])
							if a, isA := mc.Bindings[k].(*ssa.Alloc); isA {
								captured = a
							}
						}
					}
					if captured == nil {
						continue
					}
					if captured != subject {
						foreign = append(foreign, p.Pos(ia.Pos()))
					}
				}
			}
			c.Check(len(foreign) == 0, "O7", "PROV", funcKey(fn)+": the less function of sort.Slice indexes the slice being sorted", instrPos(in), "same slice",
				"the comparison handed to sort.Slice indexes a different slice than the one being sorted ("+strings.Join(foreign, ", ")+"): the resulting order depends on the arrangement of the input (for pod sets: a map iteration), so identical workloads are placed in different orders")
		}
	}
	c.Floor("O7", "PROV sort.Slice calls in the scheduler", n, 5)
}

// runC16PushOrder (O9): in a depth-limited heap the new item takes part in the eviction decision. Push inserts the
// item first and evicts the worst afterwards; evicting before inserting keeps whatever was pushed last, however bad.
func runC16PushOrder(c *Ctx) {
	push := c.Anchor("O9", "pkg/scheduler/scheduler_util", "PriorityQueue", "Push")
	if push == nil {
		return
	}
	isHeap := func(name string) func(ssa.Instruction) bool {
		return func(in ssa.Instruction) bool {
			cc, ok := in.(ssa.CallInstruction)
			return ok && calleeOf(cc) != nil && funcPkgPath(calleeOf(cc)) == "container/heap" && calleeOf(cc).Name() == name
		}
	}
	removes := instrsIn(push, isHeap("Remove"))
	pushes := instrsIn(push, isHeap("Push"))
	c.Floor("O9", "MPT heap.Push in Push", len(pushes), 1)
	for _, rm := range removes {
		_, path, found := reachAvoiding([]cfgPos{{B: push.Blocks[0], I: 0}}, func(in ssa.Instruction) bool { return in == rm }, isHeap("Push"), nil)
		c.Check(!found, "O9", "MPT", funcKey(push)+": the new item is in the heap when the item to evict is chosen", instrPos(rm), "heap.Push precedes heap.Remove on every path",
			"the eviction from a full heap is decided before the new item is inserted ("+pathStr(path)+"): the new item is kept whatever its rank, and a higher-priority or older job that was already in the heap is dropped in its place")
	}
	// every path through Push inserts the item
	// (a path that is decided by comparing items — an early rejection of an item worse than everything kept — is
	// not followed: whether that is right is a question about the comparison, which O4 covers)
	lessM := c.P.Func("pkg/scheduler/scheduler_util", "priorityQueue", "Less")
	byComparison := func(from, to *ssa.BasicBlock) bool {
		iff, ok := from.Instrs[len(from.Instrs)-1].(*ssa.If)
		if !ok {
			return true
		}
		return !termOf(iff.Cond).contains(func(x *Term) bool {
			if x.Op != "call" {
				return false
			}
			if x.Fn == nil {
				return strings.Contains(x.String(), "lessFn")
			}
			if lessM != nil && sameFunc(x.Fn, lessM) {
				return true
			}
			_, r := c.P.Reaches(x.Fn, func(g *ssa.Function) bool { return lessM != nil && sameFunc(g, lessM) }, 3)
			return r
		})
	}
	_, path, found := reachAvoiding([]cfgPos{{B: push.Blocks[0], I: 0}}, isReturn, isHeap("Push"), byComparison)
	c.Check(!found, "O9", "MPT", funcKey(push)+": every Push inserts the item", push.Pos(), "heap.Push on every path", "Push can return without inserting the item ("+pathStr(path)+")")
}

// runC16HeapContract (O10): the leaf heap is container/heap over priorityQueue. container/heap orders items only if
// the five interface methods keep their contract (Len = number of items, Swap exchanges exactly i and j, Push appends,
// Pop removes and returns the LAST item) and the wrapper hands out heap.Pop's result and items[0] as the best item.
func runC16HeapContract(c *Ctx) {
	const pkg = "pkg/scheduler/scheduler_util"
	show := func(fn *ssa.Function) (rets []string, stores []string) {
		for _, b := range fn.Blocks {
			for _, in := range b.Instrs {
				switch x := in.(type) {
				case *ssa.Return:
					for _, r := range x.Results {
						rets = append(rets, termOf(r).String())
					}
				case *ssa.Store:
					stores = append(stores, termOf(x.Addr).String()+" := "+termOf(x.Val).String())
				}
			}
		}
		sort.Strings(rets)
		sort.Strings(stores)
		return
	}
	check := func(recv, name, what string, pred func(rets, stores []string) bool, why string) {
		fn := c.Anchor("O10", pkg, recv, name)
		if fn == nil {
			return
		}
		rets, stores := show(fn)
		c.Check(pred(rets, stores), "O10", "PROV", funcKey(fn)+": "+what, fn.Pos(), strings.Join(append(rets, stores...), " ; "),
			why+" (returns: "+strings.Join(rets, " ; ")+"; stores: "+strings.Join(stores, " ; ")+")")
	}
	all := func(xs []string, f func(string) bool) bool {
		for _, x := range xs {
			if !f(x) {
				return false
			}
		}
		return len(xs) > 0
	}
	check("priorityQueue", "Len", "Len is the number of items", func(r, _ []string) bool {
		return all(r, func(s string) bool {
			return strings.HasPrefix(s, "call[builtin.len](") && strings.Contains(s, ".items")
		})
	}, "container/heap sifts within [0, Len()): a different length leaves items outside the heap order")
	check("priorityQueue", "Push", "Push appends the item", func(_, st []string) bool {
		app, item := false, false
		for _, s := range st {
			if strings.Contains(s, ".items := call[builtin.append](") && strings.Contains(s, ".items, ") {
				app = true
			} else if strings.HasSuffix(s, ":= param:1:x") || strings.Contains(s, ":= param:1:") {
				item = true
			} else {
				return false
			}
		}
		return app && (item || strings.Contains(strings.Join(st, ";"), "param:1:"))
	}, "heap.Push sifts up the LAST slot: the new item must be appended there")
	check("priorityQueue", "Pop", "Pop removes and returns the last item", func(r, st []string) bool {
		okR := all(r, func(s string) bool {
			return strings.HasPrefix(s, "index(") && strings.Contains(s, "builtin.len") && strings.Contains(s, "- const:1")
		})
		okS := all(st, func(s string) bool { return strings.Contains(s, ".items := slice(") })
		return okR && okS
	}, "heap.Pop moves the best item to the last slot before calling Pop: returning another slot hands out a wrong job")
	check("priorityQueue", "Peek", "Peek is items[0]", func(r, _ []string) bool {
		return all(r, func(s string) bool {
			return s == "const:nil" || (strings.HasPrefix(s, "index(") && strings.HasSuffix(s, "const:0)"))
		})
	}, "the best item of a heap is slot 0")
	check("PriorityQueue", "Pop", "the wrapper's Pop is heap.Pop of its own heap", func(r, _ []string) bool {
		return all(r, func(s string) bool { return s == "const:nil" || strings.HasPrefix(s, "call[container/heap.Pop](") })
	}, "only heap.Pop restores the heap order after removing the best item")
	if fn := c.Anchor("O10", pkg, "priorityQueue", "Swap"); fn != nil {
		// two element stores: items[i] := old items[j] and items[j] := old items[i], both values loaded before either store
		var st []*ssa.Store
		for _, in := range instrsIn(fn, func(in ssa.Instruction) bool {
			x, ok := in.(*ssa.Store)
			if !ok {
				return false
			}
			_, isIdx := x.Addr.(*ssa.IndexAddr)
			return isIdx
		}) {
			st = append(st, in.(*ssa.Store))
		}
		ok := len(st) == 2 && len(fn.Blocks) == 1
		if ok {
			a0, v0 := termOf(st[0].Addr).String(), termOf(st[0].Val).String()
			a1, v1 := termOf(st[1].Addr).String(), termOf(st[1].Val).String()
			ok = a0 != a1 && v0 == a1 && v1 == a0 && strings.Contains(a0+a1, "param:1:") && strings.Contains(a0+a1, "param:2:")
			// the loads precede the first store
			pos := map[ssa.Instruction]int{}
			for i, in := range fn.Blocks[0].Instrs {
				pos[in] = i
			}
			for _, s := range st {
				ld, isLoad := s.Val.(*ssa.UnOp)
				if !isLoad || pos[ld] > pos[st[0]] {
					ok = false
				}
			}
		}
		_, stores := show(fn)
		c.Check(ok, "O10", "PROV", funcKey(fn)+": Swap exchanges exactly the two slots", fn.Pos(), strings.Join(stores, " ; "), "Swap does not exchange items[i] and items[j] ("+strings.Join(stores, " ; ")+"): every sift of container/heap corrupts the order")
	}
}

// runC16ClassPriority (O11): a workload's priority is the value of its PriorityClass whenever that class exists —
// including the legal value 0. The default priority stands in only for a class that was not found. A "non-zero"
// test on the found value treats a value-0 class (best-effort) as unset and orders that workload with the default
// priority, above workloads whose class value lies between 1 and the default.
func runC16ClassPriority(c *Ctx) {
	f := c.Anchor("O11", "pkg/scheduler/cache/cluster_info", "", "getPodGroupPriority")
	if f == nil {
		return
	}
	fx := c.Fx
	notFound := func(fs FactSet) bool {
		if fs.Bottom {
			return true
		}
		_, ok := hasFact(fs, func(ft Fact) bool {
			return ft.T.Op == "bin" && len(ft.T.Args) == 2 && ft.T.Args[1].isNilConst() && strings.Contains(ft.T.Args[0].String(), "GetPriorityClassByName") &&
				((ft.T.Name == "!=" && ft.Pol) || (ft.T.Name == "==" && !ft.Pol))
		})
		return ok
	}
	n := 0
	var walk func(v ssa.Value, facts []FactSet, at token.Pos, seen map[ssa.Value]bool)
	walk = func(v ssa.Value, facts []FactSet, at token.Pos, seen map[ssa.Value]bool) {
		if phi, ok := v.(*ssa.Phi); ok {
			if seen[v] {
				return
			}
			seen[v] = true
			for i, e := range phi.Edges {
				if i >= len(phi.Block().Preds) {
					continue
				}
				walk(e, []FactSet{fx.edgeFacts(phi.Block().Preds[i], phi.Block(), 0)}, at, seen)
			}
			return
		}
		if prm, ok := v.(*ssa.Parameter); ok && prm == f.Params[1] {
			n++
			all := len(facts) > 0
			for _, fs := range facts {
				if !notFound(fs) {
					all = false
				}
			}
			c.Check(all, "O11", "RET", funcKey(f)+": the default priority is answered only when the PriorityClass was not found", at, "err != nil of the class lookup on every such path",
				"the default priority can be answered although the workload's PriorityClass exists (e.g. because its value is 0): a best-effort class is ordered like the default class, above genuinely higher classes below the default")
		}
	}
	for _, b := range f.Blocks {
		ret, ok := b.Instrs[len(b.Instrs)-1].(*ssa.Return)
		if !ok {
			continue
		}
		walk(unspill(ret, 0), fx.pathFactsTo(b, 3), ret.Pos(), map[ssa.Value]bool{})
	}
	c.Floor("O11", "RET default-priority answers", n, 1)
}

// runC16StatusSync (O12, O13): the snapshot merges the scheduler's own in-flight status updates into the listed pod
// groups. What is merged decides the ORDER INPUT of the next cycle (priority class, creation time are in the spec).
//
//	O12 — syncPodGroup writes only the two timestamp annotations and Status.SchedulingConditions into the listed
//	      object: copying the whole in-flight object reverts a spec edit made meanwhile (a raised priority class), and
//	      an older low-priority workload is placed while the raised one stays pending;
//	O13 — the key under which an in-flight update is remembered contains the object's UID: keyed by name only, a pod
//	      group deleted and re-created under the same name inherits its predecessor's "unschedulable" condition.
func runC16StatusSync(c *Ctx) {
	const pkg = "pkg/scheduler/cache/status_updater"
	if f := c.Anchor("O12", pkg, "defaultStatusUpdater", "syncPodGroup"); f != nil {
		n := 0
		snap := f.Params[2]
		for _, b := range f.Blocks {
			for _, in := range b.Instrs {
				switch x := in.(type) {
				case *ssa.Store:
					t := termOf(x.Addr)
					if rootParam(t) != 2 {
						continue
					}
					n++
					ok := strings.HasSuffix(t.String(), ".Status.SchedulingConditions") || strings.HasSuffix(t.String(), ".Annotations")
					c.Check(ok, "O12", "CALLERS", funcKey(f)+": writes "+trunc(t.String(), 70)+" of the listed pod group", instrPos(in), "timestamp annotations / Status.SchedulingConditions only",
						"syncPodGroup overwrites "+t.String()+" of the listed pod group with the in-flight copy: an edit the user made since (spec.priorityClassName, spec.queue, minMember) is reverted in the snapshot")
				case *ssa.MapUpdate:
					if rootParam(termOf(x.Map)) == 2 {
						n++
						c.Check(termOf(x.Map).lastField() == "Annotations", "O12", "CALLERS", funcKey(f)+": map write into the listed pod group", instrPos(in), "Annotations", "syncPodGroup writes into a map of the listed pod group other than its annotations")
					}
				case ssa.CallInstruction:
					for i, a := range x.Common().Args {
						if a != ssa.Value(snap) {
							continue
						}
						cal := calleeOf(x)
						name := "?"
						if cal != nil {
							name = cal.Name()
						}
						if cal != nil && (name == "DeepCopyInto" || name == "DeepCopyObject") && i > 0 {
							n++
							c.Viol("O12", "CALLERS", funcKey(f)+": the listed pod group is not overwritten wholesale", instrPos(in),
								"the in-flight pod group is copied over the listed one ("+name+"): the spec the user edited meanwhile (priority class) is replaced by the stale one, and the next cycle orders the workload by its old priority")
						}
					}
				}
			}
		}
		c.Floor("O12", "CALLERS writes into the listed pod group", n, 3)
	}
	n := 0
	for _, name := range []string{"keyForPodGroupPayload", "keyForPodStatusPayload", "keyForPodLabelsPayload"} {
		f := c.P.Func(pkg, "defaultStatusUpdater", name)
		if f == nil {
			continue
		}
		n++
		c.Analysed(funcKey(f))
		for _, b := range f.Blocks {
			ret, ok := b.Instrs[len(b.Instrs)-1].(*ssa.Return)
			if !ok {
				continue
			}
			t := termOf(ret.Results[0])
			deps := backwardParams(ret.Results[0], 10)
			uses := func(i int) bool { return deps[i] }
			c.Check(uses(1) && uses(2) && uses(3), "O13", "PROV", funcKey(f)+": the key of a remembered update names the object by name, namespace and UID", instrPos(ret), "all three",
				"the key under which an in-flight update is remembered leaves out part of the object's identity ("+trunc(t.String(), 120)+"): an object re-created under the same name inherits its predecessor's pending update (an 'unschedulable' condition), and with a scheduling back-off it is dropped from every snapshot")
		}
	}
	c.Floor("O13", "PROV payload keys", n, 3)
}

// backwardParams: the parameters (by index, receiver = 0) a value is computed from: a backward slice through
// operands, through the fields stored into local composite values, and through loads of local cells.
func backwardParams(v ssa.Value, depth int) map[int]bool {
	out := map[int]bool{}
	seen := map[ssa.Value]bool{}
	var walk func(v ssa.Value, d int)
	walk = func(v ssa.Value, d int) {
		if v == nil || d == 0 || seen[v] {
			return
		}
		seen[v] = true
		switch x := v.(type) {
		case *ssa.Parameter:
			out[paramIndexOf(x)] = true
			return
		case *ssa.Alloc:
			for _, r := range *x.Referrers() {
				switch y := r.(type) {
				case *ssa.Store:
					if y.Addr == ssa.Value(x) {
						walk(y.Val, d-1)
					}
				case *ssa.FieldAddr:
					for _, r2 := range *y.Referrers() {
						if st, ok := r2.(*ssa.Store); ok && st.Addr == ssa.Value(y) {
							walk(st.Val, d-1)
						}
					}
				case *ssa.IndexAddr:
					for _, r2 := range *y.Referrers() {
						if st, ok := r2.(*ssa.Store); ok && st.Addr == ssa.Value(y) {
							walk(st.Val, d-1)
						}
					}
				}
			}
			return
		}
		if in, ok := v.(ssa.Instruction); ok {
			for _, op := range in.Operands(nil) {
				if op != nil && *op != nil {
					walk(*op, d-1)
				}
			}
		}
	}
	walk(v, depth)
	return out
}
