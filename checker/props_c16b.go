package main

// C16-O4 RANGE: the scan that picks the item to evict from a full leaf heap looks at every leaf of the heap.
// The item popped last by a binary heap is one of its leaves (slots n/2 … n-1); a scan that leaves a leaf out can
// keep the worst item and drop a better one.

import (
	"fmt"
	"go/token"
	"go/types"

	"golang.org/x/tools/go/ssa"
)

// heapIdx: aN·N + aH·⌊N/2⌋ + c, N the heap length.
type heapIdx struct {
	aN, aH, c int64
	ok        bool
}

func (h heapIdx) String() string { return fmt.Sprintf("%d·n + %d·(n/2) + %d", h.aN, h.aH, h.c) }

func isHeapLen(v ssa.Value) bool {
	call, ok := v.(*ssa.Call)
	if !ok {
		return false
	}
	if b, ok := call.Call.Value.(*ssa.Builtin); ok && b.Name() == "len" {
		return true
	}
	if cal := calleeOf(call); cal != nil && cal.Name() == "Len" {
		return true
	}
	if call.Call.IsInvoke() && call.Call.Method.Name() == "Len" {
		return true
	}
	return false
}

func heapIdxOf(v ssa.Value, d int) heapIdx {
	if d > 6 {
		return heapIdx{}
	}
	switch x := v.(type) {
	case *ssa.Const:
		if x.Value != nil {
			if n, ok := constInt64(x); ok {
				return heapIdx{0, 0, n, true}
			}
		}
	case *ssa.Call:
		if isHeapLen(x) {
			return heapIdx{1, 0, 0, true}
		}
	case *ssa.BinOp:
		a, b := heapIdxOf(x.X, d+1), heapIdxOf(x.Y, d+1)
		if !a.ok || !b.ok {
			return heapIdx{}
		}
		switch x.Op {
		case token.ADD:
			return heapIdx{a.aN + b.aN, a.aH + b.aH, a.c + b.c, true}
		case token.SUB:
			return heapIdx{a.aN - b.aN, a.aH - b.aH, a.c - b.c, true}
		case token.QUO:
			if a.aN == 1 && a.aH == 0 && a.c == 0 && b.aN == 0 && b.aH == 0 && b.c == 2 {
				return heapIdx{0, 1, 0, true}
			}
		case token.SHR:
			if a.aN == 1 && a.aH == 0 && a.c == 0 && b.aN == 0 && b.aH == 0 && b.c == 1 {
				return heapIdx{0, 1, 0, true}
			}
		}
	}
	return heapIdx{}
}

func constInt64(k *ssa.Const) (int64, bool) {
	if k.Value == nil {
		return 0, false
	}
	s := k.Value.ExactString()
	var n int64
	if _, err := fmt.Sscanf(s, "%d", &n); err != nil {
		return 0, false
	}
	return n, true
}

// leafScanCoverage decides whether the comparison scan in fn covers the leaves [n/2, n-1]. It returns
// (decided, covers, description).
func leafScanCoverage(fn *ssa.Function, isLess func(ssa.Value) bool) (bool, bool, string) {
	for _, b := range fn.Blocks {
		iff, ok := b.Instrs[len(b.Instrs)-1].(*ssa.If)
		if !ok || !isLess(iff.Cond) {
			continue
		}
		h := loopHeaderOf(b)
		if h == nil {
			continue
		}
		loop := naturalLoop(h)
		// induction variable: a header phi stepped by ±1 on the back edge; the running choice: the other int phi
		var ind, choice *ssa.Phi
		var step int64
		var init, choiceInit ssa.Value
		for _, in := range h.Instrs {
			phi, ok := in.(*ssa.Phi)
			if !ok {
				break
			}
			var outside, inside ssa.Value
			for i, e := range phi.Edges {
				if loop[h.Preds[i]] {
					inside = e
				} else {
					outside = e
				}
			}
			if bo, ok := inside.(*ssa.BinOp); ok && bo.X == ssa.Value(phi) && (bo.Op == token.ADD || bo.Op == token.SUB) {
				if k, ok := bo.Y.(*ssa.Const); ok {
					if n, ok := constInt64(k); ok && n == 1 {
						ind, init = phi, outside
						step = 1
						if bo.Op == token.SUB {
							step = -1
						}
						continue
					}
				}
			}
			choice, choiceInit = phi, outside
		}
		if ind == nil {
			return false, false, "the scan's index variable was not recognised (not a ±1 counting loop)"
		}
		hIf, ok := h.Instrs[len(h.Instrs)-1].(*ssa.If)
		if !ok {
			return false, false, "the scan's loop condition is not at the loop header"
		}
		cond, ok := hIf.Cond.(*ssa.BinOp)
		if !ok {
			return false, false, "the scan's loop condition is not a comparison"
		}
		stay := loop[h.Succs[0]] // the true edge stays in the loop
		op := cond.Op
		var boundV ssa.Value
		switch {
		case cond.X == ssa.Value(ind):
			boundV = cond.Y
		case cond.Y == ssa.Value(ind):
			boundV = cond.X
			// mirror:  B op i  ≡  i op' B
			switch op {
			case token.LSS:
				op = token.GTR
			case token.LEQ:
				op = token.GEQ
			case token.GTR:
				op = token.LSS
			case token.GEQ:
				op = token.LEQ
			}
		default:
			return false, false, "the scan's loop condition does not test the index variable"
		}
		if !stay {
			switch op {
			case token.LSS:
				op = token.GEQ
			case token.LEQ:
				op = token.GTR
			case token.GTR:
				op = token.LEQ
			case token.GEQ:
				op = token.LSS
			default:
				return false, false, "the scan's loop condition is not an ordering test"
			}
		}
		i0, bnd := heapIdxOf(init, 0), heapIdxOf(boundV, 0)
		if !i0.ok || !bnd.ok {
			return false, false, "the scan's bounds are not expressions over the heap length"
		}
		var lo, hi heapIdx
		switch {
		case step == 1 && op == token.LSS:
			lo, hi = i0, heapIdx{bnd.aN, bnd.aH, bnd.c - 1, true}
		case step == 1 && op == token.LEQ:
			lo, hi = i0, bnd
		case step == -1 && op == token.GEQ:
			lo, hi = bnd, i0
		case step == -1 && op == token.GTR:
			lo, hi = heapIdx{bnd.aN, bnd.aH, bnd.c + 1, true}, i0
		default:
			return false, false, "the scan counts away from its bound"
		}
		// the initial choice extends the range by one slot at either end
		if choice != nil && choiceInit != nil {
			if ci := heapIdxOf(choiceInit, 0); ci.ok {
				if ci.aN == hi.aN && ci.aH == hi.aH && ci.c == hi.c+1 {
					hi = ci
				} else if ci.aN == lo.aN && ci.aH == lo.aH && ci.c == lo.c-1 {
					lo = ci
				}
			}
		}
		loOK := lo.aN == 0 && (lo.aH == 0 || lo.aH == 1) && lo.c <= 0
		hiOK := hi.aN == 1 && hi.aH == 0 && hi.c >= -1
		return true, loOK && hiOK, fmt.Sprintf("slots [%s … %s]", lo, hi)
	}
	return false, false, "no comparison scan found"
}

// runC16ScratchReset (O5): the topology plugin keeps per-job scratch values on the shared domain tree. Every such
// field that the per-job evaluation reads is given a fresh value, on every path, before the first reader runs —
// otherwise the verdict for a job depends on what an unrelated job left behind, and of two identical jobs the one
// that orders first can be rejected while the later one is placed.
func runC16ScratchReset(c *Ctx) {
	p := c.P
	const pkgTopo = "pkg/scheduler/plugins/topology"
	sub := c.Anchor("O5", pkgTopo, "topologyPlugin", "subSetNodesFn")
	if sub == nil {
		return
	}
	domField := func(addr ssa.Value) string {
		fa, ok := addr.(*ssa.FieldAddr)
		if !ok {
			return ""
		}
		n := namedOf(fa.X.Type())
		if n == nil || n.Obj().Name() != "DomainInfo" || n.Obj().Pkg() == nil || relPkg(n.Obj().Pkg().Path()) != pkgTopo {
			return ""
		}
		return fieldOfAddr(fa).Name()
	}
	dependsOnField := func(v ssa.Value, fld string) bool {
		return termOf(v).contains(func(x *Term) bool { return x.Op == "field" && x.Name == fld })
	}
	// fields written anywhere in the per-job flow
	written := map[string]bool{}
	for _, h := range p.deepFind(sub, func(in ssa.Instruction) bool {
		st, ok := in.(*ssa.Store)
		return ok && domField(st.Addr) != ""
	}, 5) {
		written[domField(h.In.(*ssa.Store).Addr)] = true
	}
	// in-place mutation through a pointer held in the field (x.F.Add(…)) counts as a write of F
	for _, h := range p.deepFind(sub, func(in ssa.Instruction) bool {
		call, ok := in.(ssa.CallInstruction)
		if !ok || call.Common().IsInvoke() || len(call.Common().Args) == 0 {
			return false
		}
		u, ok := call.Common().Args[0].(*ssa.UnOp)
		if !ok || domField(u.X) == "" {
			return false
		}
		cal := calleeOf(call)
		return cal != nil && cal.Signature.Recv() != nil && len(podTermWritesRecv(cal)) > 0
	}, 5) {
		u := h.In.(ssa.CallInstruction).Common().Args[0].(*ssa.UnOp)
		written[domField(u.X)] = true
	}
	n := 0
	for _, fld := range sortedKeys(written) {
		fld := fld
		isFresh := func(in ssa.Instruction) bool {
			st, ok := in.(*ssa.Store)
			return ok && domField(st.Addr) == fld && !dependsOnField(st.Val, fld)
		}
		isRead := func(in ssa.Instruction) bool {
			u, ok := in.(*ssa.UnOp)
			return ok && u.Op == token.MUL && domField(u.X) == fld
		}
		fresh := p.performs(isFresh, 4)
		reads := p.performs(isRead, 4)
		for _, b := range sub.Blocks {
			for _, in := range b.Instrs {
				if !reads(in) || fresh(in) {
					continue
				}
				n++
				target := in
				_, path, found := reachAvoiding([]cfgPos{entryPos(sub)}, func(x ssa.Instruction) bool { return x == target }, fresh, nil)
				what := "read"
				if cc, ok := in.(ssa.CallInstruction); ok && calleeOf(cc) != nil {
					what = calleeOf(cc).Name()
				}
				c.Check(!found, "O5", "MPT", fmt.Sprintf("%s: DomainInfo.%s is reset before %s reads it", funcKey(sub), fld, what), instrPos(in), "a fresh value is stored on every path first",
					"the per-job evaluation reads DomainInfo."+fld+" in "+what+" on a path on which the field was not given a fresh value ("+pathStr(path)+"): it can still hold what the evaluation of an unrelated workload left there, so a workload is rejected (or accepted) on another workload's numbers and of two identical workloads the later one can be placed while the earlier one is refused")
			}
		}
	}
	c.Floor("O5", "MPT readers of per-job domain fields", n, 2)
}

// podTermWritesRecv: stores through the receiver of a method (the method mutates its receiver).
func podTermWritesRecv(fn *ssa.Function) []ssa.Instruction {
	var out []ssa.Instruction
	if fn == nil || len(fn.Params) == 0 {
		return nil
	}
	recv := fn.Params[0]
	for _, b := range fn.Blocks {
		for _, in := range b.Instrs {
			switch x := in.(type) {
			case *ssa.Store:
				if t := termOf(x.Addr); rootParamOf(t) == recv {
					out = append(out, in)
				}
			case *ssa.MapUpdate:
				if t := termOf(x.Map); rootParamOf(t) == recv {
					out = append(out, in)
				}
			case ssa.CallInstruction:
				if cal := calleeOf(x); cal != nil && cal != fn && len(x.Common().Args) > 0 && !x.Common().IsInvoke() {
					if t := termOf(x.Common().Args[0]); rootParamOf(t) == recv && cal.Signature.Recv() != nil {
						if _, isPtr := cal.Signature.Recv().Type().(*types.Pointer); isPtr {
							out = append(out, in)
						}
					}
				}
			}
		}
	}
	return out
}

func rootParamOf(t *Term) *ssa.Parameter {
	for x := t; x != nil; {
		if x.Op == "param" {
			if prm, ok := x.V.(*ssa.Parameter); ok {
				return prm
			}
			return nil
		}
		if len(x.Args) == 0 || x.Op == "call" {
			return nil
		}
		x = x.Args[0]
	}
	return nil
}
