package main

import (
	"fmt"
	"go/token"
	"go/types"
	"sort"
	"strings"

	"golang.org/x/tools/go/ssa"
)

func init() {
	register("C17", runC17,
		"Decides structural necessary conditions of 'reservation pods track shared-GPU usage': every function of the reservation service that creates, deletes or labels pods (or looks up the group's reservation pod) runs only with the per-group mutex held for that group; lock and release are paired and the group mutex changes its reference count exactly once per acquire/release; pod deletion/completion, BindRequest deletion, the bind path and binder start-up all reach the per-group sync; the sync deletes a reservation pod only without live consumers and consumers only without a reservation; the label written for a consumer is written on the caller's pod object. Also: the completion predicate is false only for non-pods, unchanged phases and non-terminal phases; GetGpuGroups scans the per-group labels before every return.",
		"the iff-invariant over interleavings and crash points (needs execution / model checking)")
}

const pkgResv = "pkg/binder/binding/resourcereservation"
const pkgGroupMutex = "pkg/binder/binding/resourcereservation/group_mutex"

func runC17(c *Ctx) {
	runC17ReservationDeletedAtOnce(c)
	runC17OrphanConsumersDeleted(c)
	runC17MultiFraction(c)
	borrow(c, "O6", "C11", "O3", "SyncForNode(SelectedNode)", "the reservation pod created for a failed bind is re-evaluated only if the sync runs for the selected node")

	p, fx := c.P, c.Fx
	lock := c.Anchor("O1", pkgGroupMutex, "GroupMutex", "LockMutexForGroup")
	unlock := c.Anchor("O1", pkgGroupMutex, "GroupMutex", "ReleaseMutex")
	if lock == nil || unlock == nil {
		return
	}
	// ---- O1: lock-held-on-entry
	isEffect := func(in ssa.Instruction) bool {
		cc, ok := in.(ssa.CallInstruction)
		if !ok {
			return false
		}
		m := invokedMethod(cc)
		if m == nil {
			return false
		}
		switch m.Name() {
		case "Create", "Delete", "Patch", "Update":
			return strings.Contains(termOf(cc.Common().Value).String(), "kubeClient")
		}
		return false
	}
	var svcFns []*ssa.Function
	for _, fn := range p.FuncsIn(pkgResv) {
		if relPkg(funcPkgPath(fn)) == pkgResv && !isTestdataOrMock(fn) && fn.Parent() == nil {
			svcFns = append(svcFns, fn)
		}
	}
	holds := func(fn *ssa.Function, at ssa.Instruction) (bool, ssa.Value) {
		for _, in := range instrsIn(fn, isCallToFn(lock)) {
			if dominatesInstr(in, at) {
				return true, in.(ssa.CallInstruction).Common().Args[1]
			}
		}
		return false, nil
	}
	// R: functions that perform a protected effect or call one in R without holding the lock
	inR := map[*ssa.Function]bool{}
	changed := true
	for changed {
		changed = false
		for _, fn := range svcFns {
			if inR[fn] {
				continue
			}
			need := false
			for _, b := range fn.Blocks {
				for _, in := range b.Instrs {
					perf := isEffect(in)
					if cc, ok := in.(ssa.CallInstruction); ok {
						if cal := calleeOf(cc); cal != nil && inR[cal] {
							perf = true
						}
					}
					if perf {
						if h, _ := holds(fn, in); !h {
							need = true
						}
					}
				}
			}
			if need {
				inR[fn] = true
				changed = true
			}
		}
	}
	lockFree := map[string]string{
		"(*" + pkgResv + ".service).RemovePodGpuGroupsConnection": "removes the consumer's own group labels during rollback; it is followed by a locked per-group sync (Binder.Rollback → SyncForNode)",
	}
	var rKeys []string
	for fn := range inR {
		rKeys = append(rKeys, funcKey(fn))
	}
	sort.Strings(rKeys)
	nCalls := 0
	for _, fn := range svcFns {
		if !inR[fn] {
			continue
		}
		c.Analysed(funcKey(fn))
		// every caller (in the repo) of an R function must be in R itself or hold the lock at the call
		callers := p.CallSites(fn)
		exported := fn.Object() != nil && fn.Object().Exported()
		if why, ok := lockFree[funcKey(fn)]; ok {
			c.Hold("O1", "LOCK", funcKey(fn)+": runs without the group lock", fn.Pos(), "exempt: "+why)
			continue
		}
		c.Check(!exported, "O1", "LOCK", funcKey(fn)+": lock-requiring function is not part of the service API", fn.Pos(), "internal", "an exported method of the reservation service creates/deletes/labels pods without taking the per-group mutex (callers outside the package cannot hold it)")
		for _, cs := range callers {
			g := cs.Parent()
			if isTestdataOrMock(g) {
				continue
			}
			nCalls++
			h, grp := holds(g, cs)
			ok := inR[g] || h
			detail := "caller requires the lock itself"
			if h {
				detail = "caller holds the mutex of " + termOf(grp).String()
				// the group passed down is the locked one
				for _, a := range cs.Common().Args {
					if a.Type().String() == "string" && strings.Contains(strings.ToLower(a.Name()+termOf(a).String()), "group") && a != grp {
						ok = false
						detail = "the group passed down (" + termOf(a).String() + ") is not the locked group (" + termOf(grp).String() + ")"
					}
				}
			}
			c.Check(ok, "O1", "LOCK", funcKey(g)+" → "+fn.Name(), instrPos(cs), detail, "a function that creates/deletes/labels pods of a GPU group is called without the per-group mutex held: concurrent reconciles on the same group can create two reservation pods or delete one that is in use ("+detail+")")
		}
	}
	c.Floor("O1", "LOCK lock-requiring functions", len(rKeys), 6)
	c.Floor("O1", "LOCK call sites into lock-requiring functions", nCalls, 6)

	// ---- O2: pairing
	nLock := 0
	for _, fn := range p.AllFuncs {
		if isTestdataOrMock(fn) {
			continue
		}
		for _, lk := range instrsIn(fn, isCallToFn(lock)) {
			nLock++
			grp := lk.(ssa.CallInstruction).Common().Args[1]
			// a deferred ReleaseMutex(grp) installed right after, or a release on every path to every return
			okDefer := false
			for _, b := range fn.Blocks {
				for _, in := range b.Instrs {
					if d, ok := in.(*ssa.Defer); ok && d.Call.StaticCallee() != nil && sameFunc(d.Call.StaticCallee(), unlock) && d.Call.Args[1] == grp && dominatesInstr(lk, d) {
						// no return between lock and defer
						if _, _, found := reachAvoiding([]cfgPos{afterInstr(lk)}, isReturn, func(x ssa.Instruction) bool { return x == ssa.Instruction(d) }, nil); !found {
							okDefer = true
						}
					}
				}
			}
			if !okDefer {
				_, _, found := reachAvoiding([]cfgPos{afterInstr(lk)}, isReturn, func(x ssa.Instruction) bool {
					cc, ok := x.(ssa.CallInstruction)
					return ok && calleeOf(cc) != nil && sameFunc(calleeOf(cc), unlock) && cc.Common().Args[1] == grp
				}, nil)
				okDefer = !found
			}
			c.Check(okDefer, "O2", "LOCK", funcKey(fn)+": LockMutexForGroup paired with ReleaseMutex", instrPos(lk), "released on every exit (defer)", "the per-group mutex is not released on every path: the group is blocked forever")
		}
	}
	c.Floor("O2", "LOCK acquire sites", nLock, 2)
	for _, nm := range []struct {
		name, op string
	}{{"acquireWithRefcountIncrease", "+"}, {"acquireWithRefcountDecrease", "-"}} {
		fn := c.Anchor("O2", pkgGroupMutex, "GroupMutex", nm.name)
		if fn == nil {
			continue
		}
		es := extractEffects(fx, fn, fieldNamed("mutexRefsMap"), func(Fact) string { return "" }, 0)
		var upd []Effect
		for _, e := range es {
			if e.Op == nm.op {
				upd = append(upd, e)
			}
		}
		c.Check(len(upd) == 1, "O2", "PAIR", funcKey(fn)+": reference count changed once", fn.Pos(), "one update", fmt.Sprintf("%d reference-count updates (expected exactly one %s1)", len(upd), nm.op))
		// every return of a non-nil mutex passes the update
		for _, b := range fn.Blocks {
			ret, ok := b.Instrs[len(b.Instrs)-1].(*ssa.Return)
			if !ok {
				continue
			}
			if k, isC := unspill(ret, 0).(*ssa.Const); isC && k.IsNil() {
				continue
			}
			// a path on which the returned value is the zero value of a failed comma-ok lookup hands out nothing
			var okOfReturned *Term
			if ex, isEx := unspill(ret, 0).(*ssa.Extract); isEx && ex.Index == 0 {
				if lk, isLk := ex.Tuple.(*ssa.Lookup); isLk && lk.CommaOk {
					okOfReturned = mk("extract", "1", termOf(lk))
				}
			}
			// dropping the count's entry because the decremented value is 0 is the same change (n → gone instead of
			// n → 0 → gone)
			dropsAtZero := func(x ssa.Instruction) bool {
				cc, ok := x.(ssa.CallInstruction)
				if !ok || nm.op != "-" {
					return false
				}
				bi, isB := cc.Common().Value.(*ssa.Builtin)
				if !isB || bi.Name() != "delete" || len(cc.Common().Args) != 2 || termOf(cc.Common().Args[0]).lastField() != "mutexRefsMap" {
					return false
				}
				_, zero := hasFact(fx.FactsAt(x), func(f Fact) bool {
					return f.Pol && f.T.Op == "bin" && f.T.Name == "==" && len(f.T.Args) == 2 && f.T.Args[1].String() == "const:0" &&
						f.T.Args[0].contains(func(t *Term) bool { return t.Op == "lookup" && t.Args[0].lastField() == "mutexRefsMap" })
				})
				return zero
			}
			_, path, found := reachAvoiding([]cfgPos{entryPos(fn)}, func(x ssa.Instruction) bool { return x == ssa.Instruction(ret) }, func(x ssa.Instruction) bool {
				return (len(upd) == 1 && instrPos(x) == upd[0].Pos && x.Block() == upd[0].Block) || dropsAtZero(x)
			}, func(from, to *ssa.BasicBlock) bool {
				if okOfReturned == nil {
					return true
				}
				return !fx.edgeEstablishes(from, to, func(f Fact) bool { return !f.Pol && f.T.String() == okOfReturned.String() })
			})
			c.Check(!found, "O2", "MPT", funcKey(fn)+": every handed-out mutex is counted", instrPos(ret), "the update is on every path that returns a mutex", "a mutex can be handed out without the reference count being changed ("+pathStr(path)+"): a waiter holds no reference, the mutex is dropped from the map when the holder releases and a third caller gets a fresh mutex — two callers are then inside the per-group critical section")
		}
		// map mutex held across the function
		lockOK := false
		for _, in := range instrsIn(fn, func(in ssa.Instruction) bool {
			cc, ok := in.(ssa.CallInstruction)
			return ok && calleeOf(cc) != nil && calleeOf(cc).Name() == "Lock"
		}) {
			for _, b := range fn.Blocks {
				for _, x := range b.Instrs {
					if d, ok := x.(*ssa.Defer); ok && d.Call.StaticCallee() != nil && d.Call.StaticCallee().Name() == "Unlock" && dominatesInstr(in, d) {
						lockOK = true
					}
				}
			}
		}
		c.Check(lockOK, "O2", "LOCK", funcKey(fn)+": map mutex held (Lock + deferred Unlock)", fn.Pos(), "held", "the mutex map is accessed without its guard")
	}

	// ---- O3: who reaches the per-group sync
	syncForPods := c.Anchor("O3", pkgResv, "service", "syncForPods")
	if syncForPods != nil {
		reachSync := func(f *ssa.Function) bool { return f == syncForPods }
		type entry struct {
			desc string
			fn   *ssa.Function
		}
		var entries []entry
		podCtl := p.Func(pkgBinderCtl, "PodReconciler", "eventHandlers")
		if podCtl != nil {
			for _, an := range podCtl.AnonFuncs {
				for _, prm := range an.Params {
					if strings.Contains(prm.Type().String(), "DeleteEvent") {
						entries = append(entries, entry{"pod DeleteFunc", an})
					}
					if strings.Contains(prm.Type().String(), "UpdateEvent") {
						entries = append(entries, entry{"pod UpdateFunc (completion)", an})
					}
				}
			}
		}
		entries = append(entries, entry{"BindRequest DeleteFunc", p.Func(pkgBinderCtl, "BindRequestReconciler", "deleteHandler")})
		entries = append(entries, entry{"bind path (Binder.Bind)", p.Func(pkgBinding, "Binder", "Bind")})
		entries = append(entries, entry{"rollback path (Binder.Rollback)", p.Func(pkgBinding, "Binder", "Rollback")})
		entries = append(entries, entry{"binder start-up (App.Run)", p.Func("cmd/binder/app", "App", "Run")})
		for _, e := range entries {
			if e.fn == nil {
				c.Undec("O3", "ANCHOR", e.desc, 0, "entry point not found")
				continue
			}
			path, ok := p.Reaches(e.fn, reachSync, 8)
			if strings.Contains(e.desc, "start-up") {
				// start-up must itself invoke the reservation service (reaching it through the controllers it
				// registers would say nothing about start-up)
				ok = false
				fns := append([]*ssa.Function{e.fn}, e.fn.AnonFuncs...)
				for _, f := range fns {
					for _, in := range instrsIn(f, func(in ssa.Instruction) bool {
						cc, isCall := in.(ssa.CallInstruction)
						if !isCall || invokedMethod(cc) == nil {
							return false
						}
						return strings.HasPrefix(invokedMethod(cc).Name(), "Sync") && strings.Contains(typeKey(cc.Common().Value.Type()), "resourcereservation")
					}) {
						ok = true
						path = []*ssa.Function{f}
						_ = in
					}
				}
			}
			c.Check(ok, "O3", "CALLERS", e.desc+" reaches the per-group sync", e.fn.Pos(), trunc(pathString(path), 300), e.desc+" no longer reaches the reservation sync: after this event a reservation pod can stay without consumers (or a consumer without reservation)")
		}
		c.Floor("O3", "CALLERS sync entry points", len(entries), 6)
		// the pod DeleteFunc syncs for EVERY relevant pod: the only path that ends the handler without the sync is
		// "not a relevant pod". (A deleted pod that had already completed still needs it: the delete event is the
		// second chance for a completion-time sync that failed.)
		for _, e := range entries {
			if e.desc != "pod DeleteFunc" || e.fn == nil {
				continue
			}
			reaches := p.performs(func(in ssa.Instruction) bool {
				cc, ok := in.(ssa.CallInstruction)
				if !ok {
					return false
				}
				if cal := calleeOf(cc); cal != nil && (cal.Name() == "SyncForGpuGroup" || cal.Name() == "syncForPods") {
					return true
				}
				return cc.Common().IsInvoke() && strings.HasPrefix(cc.Common().Method.Name(), "SyncFor")
			}, 3)
			_, path, found := reachAvoiding([]cfgPos{entryPos(e.fn)}, isReturn, reaches, func(from, to *ssa.BasicBlock) bool {
				return !fx.edgeEstablishes(from, to, func(f Fact) bool { return !f.Pol && isCallNamed(f.T, "isRelevantPod") })
			})
			c.Check(!found, "O3", "MPT", e.desc+" syncs for every relevant pod", e.fn.Pos(), "the sync is skipped only for pods that are not GPU-sharing consumers",
				"the pod delete handler can return without syncing the pod's GPU groups although the pod is relevant ("+pathStr(path)+"), e.g. for a pod that had already completed: when the completion-time sync failed, nothing releases the reservation pod")
		}
		// discovery at start-up is cluster-wide: the consumers of a group live in user namespaces, the reservation pods
		// in the reservation namespace; a list restricted to one namespace finds only half of the picture
		if sy := p.Func(pkgResv, "service", "Sync"); sy != nil {
			nl := 0
			for _, in := range instrsIn(sy, isInvokeNamed("List")) {
				nl++
				restricted := false
				for _, a := range in.(ssa.CallInstruction).Common().Args {
					for _, src := range valueSources(a, 4) {
						if strings.HasSuffix(typeKey(src.Type()), "client.InNamespace") {
							restricted = true
						}
					}
				}
				c.Check(!restricted, "O3", "PROV", funcKey(sy)+": the start-up sync discovers GPU groups in all namespaces", instrPos(in), "List(HasLabels{gpu-group}) without a namespace",
					"the start-up sync lists labelled pods in one namespace only: groups whose reservation pod is gone but whose consumers still run (or the reverse) are never visited after a restart")
			}
			c.Floor("O3", "PROV start-up discovery lists", nl, 1)
		}
		// the completion handler syncs only behind the completion test, and the delete handler unconditionally (relevant pods)
	}

	// ---- O4: what the sync deletes
	if syncForPods != nil {
		delRes := p.Func(pkgResv, "service", "deleteReservationPod")
		delCons := p.Func(pkgResv, "service", "deleteNonReservedPods")
		// the two repair loops may live in helpers of the sync: searched through what it calls
		notFound := func(f Fact) bool { return !f.Pol && f.T.Op == "extract" && f.T.Name == "1" }
		hitsRes := p.deepFind(syncForPods, isCallToFn(delRes), 2)
		hitsCons := p.deepFind(syncForPods, isCallToFn(delCons), 2)
		for _, h := range hitsRes {
			d, ok := hasFact(fx.FactsAt(h.In), notFound) // !found in fractionPods
			c.Check(ok, "O4", "DOM", funcKey(syncForPods)+": reservation pod deleted only without live consumers", instrPos(h.In), trunc(d, 120), "the reservation pod of a group can be deleted although live pods still carry the group")
		}
		for _, h := range hitsCons {
			d, ok := hasFact(fx.FactsAt(h.In), notFound)
			c.Check(ok, "O4", "DOM", funcKey(syncForPods)+": consumers deleted only without a reservation pod", instrPos(h.In), trunc(d, 120), "consumers of a group can be deleted although the group has a reservation pod")
		}
		c.Check(len(hitsRes) == 1 && len(hitsCons) == 1, "O4", "REG", funcKey(syncForPods)+": both repair directions present", syncForPods.Pos(), "reservation-without-consumers and consumers-without-reservation", "the sync lost one of its two repair directions")
		// consumers counted are Running or Pending: every way of reaching the statement that files a pod as a
		// consumer has established one of the two phases (directly, through slices.Contains on the phase, or
		// through a predicate helper all of whose accepting paths did)
		cnt := 0
		for _, dh := range p.deepFind(syncForPods, func(in ssa.Instruction) bool {
			mu, ok := in.(*ssa.MapUpdate)
			return ok && strings.Contains(typeKey(mu.Map.Type()), "[]*k8s.io/api/core/v1.Pod")
		}, 2) {
			in := dh.In
			isPhase := func(fs FactSet) bool {
				_, ok := fs.find(func(f Fact) bool {
					if !f.Pol {
						return false
					}
					if f.T.Op == "bin" && f.T.Name == "==" && len(f.T.Args) == 2 && f.T.Args[0].lastField() == "Phase" {
						a := f.T.Args[1].String()
						return strings.Contains(a, `"Running"`) || strings.Contains(a, `"Pending"`)
					}
					if f.T.Op == "call" && strings.Contains(f.T.Name, "Contains") {
						for _, a := range f.T.Args {
							if a.lastField() == "Phase" {
								return true
							}
						}
					}
					return false
				})
				return ok
			}
			if fx.allPathsSatisfy(in, isPhase) {
				cnt++
			}
		}
		c.Check(cnt == 1, "O4", "RET", funcKey(syncForPods)+": live consumers are selected by pod phase", syncForPods.Pos(), "phase ∈ {Running, Pending}", "the sync no longer selects live consumers by phase")
		// ---- O12: and by nothing else — a pod of the group is left out of the consumers only because it is the
		// reservation pod (its namespace) or because its phase is not a live one. (A pod with a deletion timestamp
		// whose containers still run is a live consumer: dropping it lets the reservation pod be deleted under it.)
		nFile := 0
		for _, dh := range p.deepFind(syncForPods, func(in ssa.Instruction) bool {
			mu, ok := in.(*ssa.MapUpdate)
			return ok && strings.Contains(typeKey(mu.Map.Type()), "[]*k8s.io/api/core/v1.Pod")
		}, 2) {
			nFile++
			files := func(in ssa.Instruction) bool { return in == dh.In }
			excused := func(fs FactSet) bool {
				_, ok := fs.find(func(f Fact) bool {
					t := f.T
					if t.Op == "bin" && len(t.Args) == 2 && (t.Args[0].lastField() == "Namespace" || t.Args[1].lastField() == "Namespace") {
						return (t.Name == "==") == f.Pol
					}
					if t.Op == "bin" && len(t.Args) == 2 && (t.Args[0].lastField() == "Phase" || t.Args[1].lastField() == "Phase") {
						return (t.Name == "==") != f.Pol
					}
					if !f.Pol && t.Op == "call" && strings.Contains(t.Name, "Contains") {
						for _, a := range t.Args {
							if a.lastField() == "Phase" {
								return true
							}
						}
					}
					return false
				})
				return ok
			}
			gfx := fx
			edgeOK := func(from, to *ssa.BasicBlock) bool {
				return !gfx.edgeEstablishesAll(from, to, func(fs FactSet) bool { return gfx.acceptWithExpansion(fs, excused) })
			}
			var ok bool
			var path []int
			if loopHeaderOf(dh.In.Block()) != nil {
				ok, path = everyIterationPasses(dh.In, files, edgeOK)
			} else if len(dh.Chain) > 0 {
				// the loop body was moved into a helper: the helper files the pod on every unexcused path, and
				// every iteration of the caller's loop calls it
				g := dh.In.Parent()
				_, pth, found := reachAvoiding([]cfgPos{entryPos(g)}, isReturn, files, edgeOK)
				cs := dh.Chain[len(dh.Chain)-1]
				ok2, pth2 := everyIterationPasses(cs, func(in ssa.Instruction) bool { return in == cs }, edgeOK)
				ok, path = !found && ok2, append(pth, pth2...)
			}
			c.Check(ok, "O12", "MPT", funcKey(syncForPods)+": every pod of the group that is not the reservation pod and is Running or Pending is counted as a consumer", instrPos(dh.In), "an iteration skips the filing only behind a namespace or phase test",
				"a pod of the group can be left out of the live consumers for a reason other than its namespace or phase ("+pathStr(path)+"): a pod that still runs (e.g. in its graceful-termination period) does not keep the reservation pod alive, the reservation is deleted under it and the GPU is handed to another group")
		}
		c.Floor("O12", "MPT consumer filing sites", nFile, 1)
		if delCons != nil {
			for _, in := range instrsIn(delCons, isEffect) {
				d, ok := hasFact(fx.FactsAt(in), func(f Fact) bool {
					return strings.Contains(f.T.String(), "Status.Phase") && strings.Contains(f.T.String(), "Running")
				})
				c.Check(ok, "O4", "DOM", funcKey(delCons)+": only running consumers are deleted", instrPos(in), trunc(d, 100), "pending consumers without reservation are deleted too (they are still being bound)")
			}
		}
	}

	// ---- O3 (event predicate): every transition of a pod into a terminal phase is a completion event — the
	// predicate may say "no" only when the phase did not change, the new phase is not terminal, or the objects are
	// not pods
	if ce := c.Anchor("O3", "pkg/binder/controllers", "", "isCompletionEvent"); ce != nil {
		paths := fx.retPaths(ce, 0, WantFalse)
		for i, rp := range paths {
			okSet := func(fs FactSet) bool {
				_, ok := fs.find(func(f Fact) bool {
					t := f.T
					// not a pod
					if !f.Pol && t.Op == "extract" && t.Name == "1" && t.Args[0].Op == "typeassert" {
						return true
					}
					// same phase
					if t.Op == "bin" && len(t.Args) == 2 && t.Args[0].lastField() == "Phase" && t.Args[1].lastField() == "Phase" {
						return (t.Name == "==" && f.Pol) || (t.Name == "!=" && !f.Pol)
					}
					// new phase not terminal
					if !f.Pol && t.Op == "call" && strings.Contains(t.Name, "Contains") {
						return true
					}
					if t.Op == "bin" && len(t.Args) == 2 && t.Args[0].lastField() == "Phase" && rootParam(t.Args[0]) == 1 {
						a := t.Args[1].String()
						if strings.Contains(a, `"Failed"`) || strings.Contains(a, `"Succeeded"`) {
							return (t.Name == "==" && !f.Pol) || (t.Name == "!=" && f.Pol)
						}
					}
					return false
				})
				return ok
			}
			c.Check(fx.acceptWithExpansion(rp.Facts, okSet), "O3", "RET", fmt.Sprintf("%s false path#%d", funcKey(ce), i), rp.Pos, "not a pod, phase unchanged, or new phase not terminal",
				"a pod update is not treated as a completion for another reason (e.g. the old phase was not Running): a consumer that goes from Pending straight to Failed/Succeeded does not trigger the sync of its GPU group and its reservation pod stays without a live consumer")
		}
		c.Floor("O3", "RET non-completion paths", len(paths), 2)
	}

	// ---- O11 (event filter): the pod controller's event filter lets every pod of this scheduler through — it may say
	// "no" only for an object that is not a pod or for another scheduler's pod. (The consumer carries its GPU-group
	// label before it is bound: a filter on the node name, the phase, ... drops the delete/completion event of a
	// labelled pod that never got bound, and its reservation pod stays.)
	if rel := c.Anchor("O11", "pkg/binder/controllers", "PodReconciler", "isRelevantPod"); rel != nil {
		paths := fx.retPaths(rel, 0, WantFalse)
		for i, rp := range paths {
			okSet := func(fs FactSet) bool {
				_, ok := fs.find(func(f Fact) bool {
					t := f.T
					if !f.Pol && t.Op == "extract" && t.Name == "1" && t.Args[0].Op == "typeassert" {
						return true
					}
					if t.Op == "bin" && len(t.Args) == 2 && t.Args[0].lastField() == "SchedulerName" && t.Args[1].lastField() == "SchedulerName" {
						return (t.Name == "==") != f.Pol
					}
					return false
				})
				return ok
			}
			c.Check(fx.acceptWithExpansion(rp.Facts, okSet), "O11", "RET", fmt.Sprintf("%s false path#%d", funcKey(rel), i), rp.Pos, "not a pod, or another scheduler's pod",
				"the binder's pod event filter drops a pod of this scheduler for another reason ("+trunc(rp.Facts.String(), 160)+"): the delete/completion event of a GPU-sharing consumer in that state never reaches the reservation sync and its reservation pod stays without a live consumer")
		}
		c.Floor("O11", "RET refusals of the event filter", len(paths), 2)
	}

	// ---- O5: the consumer label is written on the caller's pod object
	if up := c.Anchor("O5", pkgResv, "service", "updatePodGPUGroup"); up != nil {
		var podParam *ssa.Parameter
		for _, prm := range up.Params {
			if strings.HasSuffix(prm.Type().String(), "core/v1.Pod") {
				podParam = prm
			}
		}
		n := 0
		for _, in := range instrsIn(up, isEffect) {
			n++
			args := in.(ssa.CallInstruction).Common().Args
			ok := false
			for _, a := range args {
				v := a
				if mi, isMI := a.(*ssa.MakeInterface); isMI {
					v = mi.X
				}
				if v == ssa.Value(podParam) {
					ok = true
				}
			}
			c.Check(ok, "O5", "PROV", funcKey(up)+": the label patch is applied through the caller's pod object", instrPos(in), "Patch(ctx, pod, …) with pod = the parameter", "the GPU-group label is patched on a copy: the caller's pod object does not carry the label, and rollback (which removes the labels it sees on that object) leaves the label — and therefore the reservation pod — behind")
		}
		c.Floor("O5", "PROV label patches", n, 1)
	}
	// ---- O8: a failed sync of one group does not hide the other groups. Every loop that syncs group after group
	// runs to exhaustion, unless the exit hands a non-nil error to the caller (who retries: bind, rollback, start-up).
	// The pod delete/completion handler returns nothing and is never retried: its loop has no early exit at all.
	if syncGroup := p.Func(pkgResv, "service", "SyncForGpuGroup"); syncGroup != nil {
		reachesSync := p.performs(func(in ssa.Instruction) bool {
			cc, ok := in.(ssa.CallInstruction)
			if !ok {
				return false
			}
			if cal := calleeOf(cc); cal != nil && sameFunc(cal, syncGroup) {
				return true
			}
			return cc.Common().IsInvoke() && cc.Common().Method.Name() == "SyncForGpuGroup"
		}, 2)
		nl := 0
		seenH := map[*ssa.BasicBlock]bool{}
		for _, fn := range append(p.FuncsIn("pkg/binder/controllers"), p.FuncsIn(pkgResv)...) {
			if isTestdataOrMock(fn) {
				continue
			}
			for _, in := range instrsIn(fn, reachesSync) {
				h := loopHeaderOf(in.Block())
				if h == nil || seenH[h] {
					continue
				}
				seenH[h] = true
				nl++
				loop := naturalLoop(h)
				bad := ""
				for b := range loop {
					if b == h {
						continue
					}
					for _, s := range b.Succs {
						if loop[s] {
							continue
						}
						// an early exit: acceptable only if every return reachable from it hands back a non-nil error
						if why := exitHandsError(s); why != "" {
							bad = fmt.Sprintf("exit at %s: %s", p.Pos(instrPos(b.Instrs[len(b.Instrs)-1])), why)
						}
					}
				}
				c.Check(bad == "", "O8", "MPT", funcKey(fn)+": every GPU group of the event is synced", instrPos(in), "the loop over the groups ends only by exhaustion, or by returning an error to a caller that retries",
					"the loop that syncs the GPU groups one by one can stop before the last group without reporting an error ("+bad+"): the groups that come later are never synced for this event and their reservation pods keep holding GPUs without a live consumer")
			}
		}
		c.Floor("O8", "MPT per-group sync loops", nl, 2)
	}
	// ---- O7: the reader of the consumer labels sees both label forms the binder writes
	// (updatePodGPUGroup writes either the single label or one label per group; the sync, the completion handler and the
	// scheduler's snapshot all learn a pod's groups from GetGpuGroups)
	if gg := c.Anchor("O7", pkgCommonRes, "", "GetGpuGroups"); gg != nil {
		isLabelScan := func(in ssa.Instruction) bool {
			r, ok := in.(*ssa.Range)
			if !ok {
				return false
			}
			m, ok := r.X.Type().Underlying().(*types.Map)
			return ok && m.Key().String() == "string" && m.Elem().String() == "string"
		}
		isLabelMap := func(v ssa.Value) bool {
			m, ok := v.Type().Underlying().(*types.Map)
			return ok && m.Key().String() == "string" && m.Elem().String() == "string"
		}
		// a return taken because the pod has no labels at all needs no scan
		emptyLabelsEdge := func(from, to *ssa.BasicBlock) bool {
			iff, ok := from.Instrs[len(from.Instrs)-1].(*ssa.If)
			if !ok || from.Succs[0] == from.Succs[1] {
				return false
			}
			onTrue := from.Succs[0] == to
			bo, ok := iff.Cond.(*ssa.BinOp)
			if !ok {
				return false
			}
			k, isK := bo.Y.(*ssa.Const)
			if !isK {
				return false
			}
			subject := bo.X
			if call, ok := subject.(*ssa.Call); ok {
				if b, ok := call.Call.Value.(*ssa.Builtin); ok && b.Name() == "len" && k.Value != nil && k.Value.ExactString() == "0" {
					subject = call.Call.Args[0]
				} else {
					return false
				}
			} else if !k.IsNil() {
				return false
			}
			if !isLabelMap(subject) {
				return false
			}
			switch bo.Op {
			case token.EQL, token.LEQ:
				return onTrue
			case token.NEQ, token.GTR:
				return !onTrue
			}
			return false
		}
		scans := len(c.P.deepFind(gg, isLabelScan, 2))
		for _, ret := range instrsIn(gg, isReturn) {
			r := ret
			_, path, found := reachAvoiding([]cfgPos{entryPos(gg)}, func(in ssa.Instruction) bool { return in == r }, isLabelScan,
				func(from, to *ssa.BasicBlock) bool { return !emptyLabelsEdge(from, to) })
			c.Check(!found, "O7", "MPT", funcKey(gg)+": every result is computed after scanning the per-group labels", instrPos(ret), "the label map is ranged over before this return",
				"GetGpuGroups can return without looking at the per-group labels ("+pathStr(path)+"): a multi-fraction pod (labelled only runai-gpu-group/<group>) reports no groups, its completion does not trigger the sync of its groups and the reservation pods stay without a live consumer")
		}
		c.Floor("O7", "MPT label scans", scans, 1)
	}
}

// exitHandsError: from block b (just outside a loop), every reachable return hands back a non-nil error as its last
// result; returns "" if so, otherwise what was found.
func exitHandsError(b *ssa.BasicBlock) string {
	seen := map[*ssa.BasicBlock]bool{}
	var visit func(x *ssa.BasicBlock) string
	visit = func(x *ssa.BasicBlock) string {
		if seen[x] {
			return ""
		}
		seen[x] = true
		if ret, ok := x.Instrs[len(x.Instrs)-1].(*ssa.Return); ok {
			if len(ret.Results) == 0 {
				return "the function returns nothing"
			}
			last := ret.Results[len(ret.Results)-1]
			if !types.Identical(last.Type(), types.Universe.Lookup("error").Type()) {
				return "the function has no error result"
			}
			if k, isK := last.(*ssa.Const); isK && k.Value == nil {
				return "returns a nil error"
			}
			return ""
		}
		for _, s := range x.Succs {
			if w := visit(s); w != "" {
				return w
			}
		}
		return ""
	}
	return visit(b)
}

// runC17MultiFraction (O9, O10): pods that share SEVERAL devices carry one label per group ("runai-gpu-group/<g>")
// instead of the single group label. Two places decide whether such pods are seen:
//   - IsMultiFraction answers "no" without an error only when the pod carries no device-count annotation at all
//     (the sentinel of GetNumGPUFractionDevices) or the count is not above 1 — a shortcut keyed on one of the request
//     annotations makes a gpu-memory pod on several devices single-fraction: every reserved group overwrites the
//     single label, and the next sync deletes the reservation pods of all but the last group while the pod runs on
//     them;
//   - the per-group sync lists BOTH label forms before it decides, on every path that reports success — a shortcut on
//     an empty first list skips the consumers that only carry the per-group label.
func runC17MultiFraction(c *Ctx) {
	fx := c.Fx
	if f := c.Anchor("O9", "pkg/common/resources", "", "IsMultiFraction"); f != nil {
		n := 0
		for _, rp := range fx.retPaths(f, 1, WantNil) {
			// only the paths that answer the literal false
			n++
			_, computed := hasFact(rp.Facts, func(ft Fact) bool {
				return ft.T.Op == "bin" && (ft.T.Name == ">" || ft.T.Name == "<=" || ft.T.Name == "<" || ft.T.Name == ">=") && strings.Contains(ft.T.String(), "GetNumGPUFractionDevices")
			})
			_, sentinel := hasFact(rp.Facts, func(ft Fact) bool {
				return ft.Pol && isCallNamed(ft.T, "Is") && strings.Contains(ft.T.String(), "fractionDevicesAnnotationNotFound")
			})
			_, noErr := hasFact(rp.Facts, func(ft Fact) bool {
				// err == nil of the count helper: the answer is then the comparison itself
				return ft.T.Op == "bin" && len(ft.T.Args) == 2 && ft.T.Args[1].isNilConst() && strings.Contains(ft.T.Args[0].String(), "GetNumGPUFractionDevices") &&
					((ft.T.Name == "==" && ft.Pol) || (ft.T.Name == "!=" && !ft.Pol))
			})
			c.Check(computed || sentinel || noErr, "O9", "RET", fmt.Sprintf("%s: an answer without error comes from the device count or from its 'no annotation' sentinel (path#%d)", funcKey(f), n), rp.Pos, "count compared, or errors.Is(err, notFound)",
				"IsMultiFraction answers without looking at the device count ("+trunc(factKeys(rp.Facts), 200)+"): a pod sharing several devices by gpu-memory is labelled like a single-device sharer, each reserved group overwrites the label of the previous one and their reservation pods are deleted while the pod runs on those devices")
		}
		c.Floor("O9", "RET error-free answers of IsMultiFraction", n, 2)
	}
	if f := c.Anchor("O10", pkgResv, "service", "syncForGpuGroupWithLock"); f != nil {
		syncs := instrsIn(f, func(in ssa.Instruction) bool {
			cc, ok := in.(ssa.CallInstruction)
			return ok && calleeOf(cc) != nil && calleeOf(cc).Name() == "syncForPods"
		})
		lists := instrsIn(f, isInvokeNamed("List"))
		c.Check(len(lists) >= 2, "O10", "REG", funcKey(f)+": both label forms are listed", f.Pos(), fmt.Sprintf("%d List calls", len(lists)), "the per-group sync lists fewer than the two label forms (single group label, per-group label of multi-device sharers)")
		for _, s := range syncs {
			for _, l := range lists {
				c.Check(l.Block().Dominates(s.Block()), "O10", "MPT", funcKey(f)+": the sync decides on both lists", instrPos(l), "List dominates syncForPods", "a List of one label form is not on every path to the decision")
			}
		}
		isSync := func(in ssa.Instruction) bool {
			for _, s := range syncs {
				if in == s {
					return true
				}
			}
			return false
		}
		_, path, found := reachAvoiding([]cfgPos{entryPos(f)}, isReturn, isSync, func(from, to *ssa.BasicBlock) bool {
			// leaving with the error of a failed List is not a success report
			return !fx.edgeEstablishes(from, to, func(ft Fact) bool {
				return ft.T.Op == "bin" && len(ft.T.Args) == 2 && ft.T.Args[1].isNilConst() && ft.T.Args[0].V != nil && types.Identical(ft.T.Args[0].V.Type(), errorType) &&
					((ft.T.Name == "!=" && ft.Pol) || (ft.T.Name == "==" && !ft.Pol))
			})
		})
		c.Check(len(syncs) > 0 && !found, "O10", "MPT", funcKey(f)+": success is reported only by the sync over both lists", f.Pos(), "every error-free exit passes syncForPods",
			"the per-group sync can report success without having looked at the group's pods ("+pathStr(path)+"): consumers that only carry the per-group label (multi-device sharers) are not repaired when the first list is empty")
	}
}

// runC17ReservationDeletedAtOnce (O13): a reservation pod that is being deleted gracefully stays listed, with its group
// label and its device annotation, until the grace period ends; ReserveGpuDevice for the same group in that window
// finds it, hands its index to the new consumer and leaves a running pod on a group whose reservation disappears a
// moment later. The reservation pod is therefore deleted with a zero grace period: the Delete in deleteReservationPod
// carries client.GracePeriodSeconds(0).
func runC17ReservationDeletedAtOnce(c *Ctx) {
	f := c.Anchor("O13", pkgResv, "service", "deleteReservationPod")
	if f == nil {
		return
	}
	n := 0
	for _, h := range c.P.deepFind(f, isInvokeNamed("Delete"), 1) {
		n++
		args := h.In.(ssa.CallInstruction).Common().Args
		ok := false
		for _, src := range valueSources(args[len(args)-1], 5) {
			if !strings.HasSuffix(typeKey(src.Type()), "client.GracePeriodSeconds") {
				continue
			}
			if k, isK := src.(*ssa.Const); isK && k.Value != nil && k.Value.ExactString() == "0" {
				ok = true
			}
		}
		c.Check(ok, "O13", "PROV", funcKey(f)+": the reservation pod is deleted without a grace period", instrPos(h.In), "client.GracePeriodSeconds(0) among the delete options",
			"the reservation pod is deleted gracefully: during its termination grace period it is still found by the group's label, a new consumer of the group is given its device index and keeps running on a group whose reservation pod then disappears")
	}
	c.Floor("O13", "PROV deletes of the reservation pod", n, 1)
}

// runC17OrphanConsumersDeleted (O14): when a group has lost its reservation pod, EVERY running consumer of the group is
// removed (single- and multi-fraction alike): in deleteNonReservedPods an iteration skips the delete only for a pod
// that is not Running.
func runC17OrphanConsumersDeleted(c *Ctx) {
	f := c.Anchor("O14", pkgResv, "service", "deleteNonReservedPods")
	if f == nil {
		return
	}
	fx := c.Fx
	n := 0
	for _, h := range c.P.deepFind(f, isInvokeNamed("Delete"), 1) {
		site := h.In
		if len(h.Chain) > 0 {
			site = h.Chain[0]
		}
		if loopHeaderOf(site.Block()) == nil {
			continue
		}
		n++
		notRunning := func(fs FactSet) bool {
			_, ok := fs.find(func(ft Fact) bool {
				t := ft.T
				if t.Op != "bin" || len(t.Args) != 2 || !(t.Args[0].lastField() == "Phase" || t.Args[1].lastField() == "Phase") {
					return false
				}
				return (t.Name == "==") != ft.Pol
			})
			return ok
		}
		ok, path := everyIterationPassesR(site, func(in ssa.Instruction) bool { return in == site }, func(from, to *ssa.BasicBlock) bool {
			return !fx.edgeEstablishesAll(from, to, func(fs FactSet) bool { return fx.acceptWithExpansion(fs, notRunning) })
		}, func(*ssa.Return) bool { return false })
		c.Check(ok, "O14", "MPT", funcKey(f)+": every running consumer of a group without reservation is deleted", instrPos(site), "an iteration skips the delete only behind the phase test",
			"a running consumer of a group that has no reservation pod can be skipped for another reason ("+pathStr(path)+"), e.g. because it carries the per-group label form of a multi-fraction pod: it keeps running on a GPU that nothing reserves, and no later sync repairs it")
	}
	c.Floor("O14", "MPT consumer deletes", n, 1)
}
