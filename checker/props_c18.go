package main

import (
	"fmt"
	"go/token"
	"go/types"
	"reflect"
	"sort"
	"strings"

	"golang.org/x/tools/go/ssa"
)

func init() {
	register("C18", runC18,
		"Decides structural necessary conditions of 'the pod-grouper is a deterministic, idempotent function of the workload': the PodGroup is updated only after the foreign-owned fields were copied back from the stored object and only when the result differs; the desired object is built so that an unchanged workload compares equal (no empty-but-non-nil slices in omitempty fields; computed labels/annotations compared as source against stored as target); the grouper plugins use no clock/random source and feed no ordered field from a map iteration; PodGroup names depend on the owner except for the reviewed per-pod kinds.",
		"relations between several reconciles at run time (which pod is seen first), content of the owner objects")
}

const pkgPGHandler = "pkg/podgrouper/podgroup"
const pkgGrouperPlugins = "pkg/podgrouper/podgrouper/plugins"

func runC18(c *Ctx) {
	runC18NamespacedLists(c)
	runC18LwsLeaderReady(c)
	runC18LabelPrecedence(c)
	runC18GroupBeforeAssignment(c)
	runC18NoPatchOnlyWhenBothMatch(c)
	runC18ForeignMapsMerged(c)
	runC18OwnerIdentity(c)
	runC18Wiring(c)
	runC18LookupErrors(c)
	runC18RayHead(c)
	p, fx := c.P, c.Fx
	apply := c.Anchor("O1", pkgPGHandler, "Handler", "ApplyToCluster")
	ignore := c.Anchor("O2", pkgPGHandler, "Handler", "ignoreFields")
	equal := c.Anchor("O1", pkgPGHandler, "", "podGroupsEqual")
	if apply == nil || ignore == nil || equal == nil {
		return
	}
	// ---- O1: update only after ignoreFields and behind "not equal"; create only behind NotFound
	for _, in := range instrsIn(apply, isInvokeNamed("Update")) {
		ok, _ := p.precededBy(in, isCallToFn(ignore), 0, map[*ssa.Function]bool{})
		c.Check(ok, "O1", "MPT", funcKey(apply)+": Update only after the foreign-owned fields were copied back", instrPos(in), "ignoreFields precedes Update", "the PodGroup can be updated without first restoring the fields owned by other actors")
		d, ok2 := hasFact(fx.FactsAt(in), func(f Fact) bool { return !f.Pol && f.T.isCallTo(equal) })
		c.Check(ok2, "O1", "DOM", funcKey(apply)+": Update only when desired and stored differ", instrPos(in), trunc(d, 120), "the PodGroup is written although nothing changed (or without comparing)")
		// the comparison is made on the result of ignoreFields
		for _, eq := range instrsIn(apply, isCallToFn(equal)) {
			a := eq.(ssa.CallInstruction).Common().Args[1]
			c.Check(derivesFromCallTo(a, ignore), "O1", "PROV", funcKey(apply)+": compares the object returned by ignoreFields", instrPos(eq), "podGroupsEqual(old, ignoreFields(...))", "the comparison does not use the object whose foreign-owned fields were restored")
		}
	}
	// what is written is what was compared: the object handed to Update is the result of ignoreFields, or is filled
	// from it by a helper that receives both (updatePodGroup(stored, desired))
	for _, in := range instrsIn(apply, isInvokeNamed("Update")) {
		args := in.(ssa.CallInstruction).Common().Args
		var U ssa.Value
		for _, a := range args {
			if mi, ok := a.(*ssa.MakeInterface); ok && strings.HasSuffix(typeKey(mi.X.Type()), "PodGroup") {
				U = mi.X
			}
		}
		if U == nil {
			c.Undec("O1", "PROV", funcKey(apply)+": the object written is the one whose foreign-owned fields were restored", instrPos(in), "the object handed to Update was not recognised")
			continue
		}
		ok := derivesFromCallTo(U, ignore)
		desc := "Update(ignoreFields(...))"
		nFill := 0
		if !ok {
			for _, cin := range instrsIn(apply, func(x ssa.Instruction) bool { _, isC := x.(*ssa.Call); return isC }) {
				call := cin.(*ssa.Call)
				cal := calleeOf(call)
				if cal == nil || !hasModPrefix(cal) || sameFunc(cal, equal) || sameFunc(cal, ignore) || !dominatesInstr(cin, in) {
					continue
				}
				hasU := false
				var others []ssa.Value
				for _, a := range call.Call.Args {
					if a == U {
						hasU = true
					} else if types.Identical(a.Type(), U.Type()) {
						others = append(others, a)
					}
				}
				if !hasU || len(others) == 0 {
					continue
				}
				nFill++
				ok = true
				for _, o := range others {
					if !derivesFromCallTo(o, ignore) {
						ok = false
					}
				}
				desc = cal.Name() + "(stored, ignoreFields(...)) then Update(stored)"
			}
			if nFill == 0 {
				ok = false
			}
		}
		c.Check(ok, "O1", "PROV", funcKey(apply)+": the object written is the one whose foreign-owned fields were restored", instrPos(in), desc,
			"the PodGroup handed to Update is not (filled from) the result of ignoreFields: whenever a real change triggers an update, spec.markUnschedulable / schedulingBackoff / queue and the queue and node-pool labels set by other actors are overwritten with the computed values")
	}
	for _, in := range instrsIn(apply, isInvokeNamed("Create")) {
		d, ok := hasFact(fx.FactsAt(in), func(f Fact) bool { return f.Pol && isCallNamed(f.T, "IsNotFound") })
		c.Check(ok, "O1", "DOM", funcKey(apply)+": Create only when the PodGroup does not exist", instrPos(in), trunc(d, 100), "a PodGroup can be created although Get did not report NotFound")
	}

	// ---- O2: ignoreFields restores every foreign-owned field, unconditionally, from the stored object
	specT := p.TypeObj("pkg/apis/scheduling/v2alpha2", "PodGroupSpec")
	for _, fld := range []string{"MarkUnschedulable", "SchedulingBackoff", "Queue"} {
		var stores []ssa.Instruction
		ok := false
		hits := p.deepFind(ignore, func(in ssa.Instruction) bool {
			st, ok := in.(*ssa.Store)
			if !ok {
				return false
			}
			fa, ok := st.Addr.(*ssa.FieldAddr)
			if !ok || fieldOfAddr(fa).Name() != fld || specT == nil {
				return false
			}
			n := namedOf(fa.X.Type())
			return n != nil && n.Obj() == specT
		}, 2)
		ok = len(hits) > 0
		for _, h := range hits {
			stores = append(stores, h.In)
			// the value comes from the STORED object (the first parameter of ignoreFields), also through a helper
			if rootParam(liftTerm(termOf(h.In.(*ssa.Store).Val), h.Chain)) != 1 {
				ok = false
			}
		}
		if ok {
			_, _, found := reachAvoiding([]cfgPos{entryPos(ignore)}, isReturn, func(x ssa.Instruction) bool {
				for _, st := range stores {
					if x == st {
						return true
					}
				}
				return false
			}, nil)
			ok = !found
		}
		c.Check(ok, "O2", "MUSTDEF", funcKey(ignore)+": Spec."+fld+" restored from the stored PodGroup on every path", ignore.Pos(), "copy.Spec."+fld+" = old.Spec."+fld, "reconciliation can overwrite Spec."+fld+", which is owned by another actor")
	}
	// labels: node-pool and queue label follow the stored object whenever it has them — no condition on the computed value
	nLabel := 0
	for _, h := range p.deepFind(ignore, func(in ssa.Instruction) bool { _, ok := in.(*ssa.MapUpdate); return ok }, 2) {
		in := h.In
		mu := in.(*ssa.MapUpdate)
		key := liftTerm(termOf(mu.Key), h.Chain).String()
		if !strings.Contains(key, "Key") {
			continue
		}
		nLabel++
		fs := fx.factsAtDeep(h)
		fromOld := rootParam(liftTerm(termOf(mu.Value), h.Chain)) == 1
		_, condOnNew := hasFact(fs, func(f Fact) bool {
			// a fact about a label VALUE of the computed object (lookup in the copy's labels)
			return f.T.contains(func(x *Term) bool {
				return x.Op == "lookup" && strings.Contains(x.Args[0].String(), "DeepCopy") && strings.HasSuffix(x.Args[0].String(), ".Labels")
			})
		})
		_, found := hasFact(fs, func(f Fact) bool { return f.Pol && f.T.Op == "extract" && f.T.Name == "1" && rootParam(f.T) == 1 })
		c.Check(fromOld && found && !condOnNew, "O2", "MUSTDEF", funcKey(ignore)+": label "+shortName(key)+" follows the stored PodGroup whenever it is set there", instrPos(in), "guarded only by 'present on the stored object'", "the label is restored from the stored PodGroup only under an extra condition on the computed value: a value changed by another actor is overwritten by the owner's value")
	}
	c.Floor("O2", "MUSTDEF restored labels", nLabel, 2)

	// ---- O3: the equality used for the short-circuit
	for _, in := range instrsIn(equal, func(in ssa.Instruction) bool {
		cc, ok := in.(ssa.CallInstruction)
		return ok && calleeOf(cc) != nil && calleeOf(cc).Name() == "mapsEqualBySourceKeys"
	}) {
		args := in.(ssa.CallInstruction).Common().Args
		s, t := termOf(args[0]), termOf(args[1])
		c.Check(rootParam(s) == 1 && rootParam(t) == 0 && s.lastField() == t.lastField(), "O3", "PROV", funcKey(equal)+": "+s.lastField()+" compared with the computed map as source and the stored map as target", instrPos(in), s.String()+" vs "+t.String(),
			"labels/annotations are compared in the wrong direction: keys that other actors add to the stored PodGroup make every reconcile write, and new keys of the owner are never propagated")
	}
	// sibling: updatePodGroup copies in the same direction
	if upd := p.Func(pkgPGHandler, "", "updatePodGroup"); upd != nil {
		for _, in := range instrsIn(upd, func(in ssa.Instruction) bool {
			cc, ok := in.(ssa.CallInstruction)
			return ok && calleeOf(cc) != nil && calleeOf(cc).Name() == "copyStringMap"
		}) {
			args := in.(ssa.CallInstruction).Common().Args
			c.Check(rootParam(termOf(args[0])) == 1 && rootParam(termOf(args[1])) == 0, "O3", "SIBLING", funcKey(upd)+": copies computed → stored", instrPos(in), "same direction as the comparison", "updatePodGroup copies maps in the opposite direction of the comparison")
		}
	}
	// desired object: no empty-but-non-nil slice/map in an omitempty field (it never equals the stored nil)
	// … unless the spec comparison is semantic (empty == nil)
	specCmpSemantic := false
	for _, in := range instrsIn(equal, func(in ssa.Instruction) bool {
		cc, ok := in.(ssa.CallInstruction)
		return ok && (calleeOf(cc) != nil && calleeOf(cc).Name() == "DeepEqual")
	}) {
		cc := in.(ssa.CallInstruction)
		cal := calleeOf(cc)
		onSpec := false
		for _, a := range cc.Common().Args {
			if termOf(a).lastField() == "Spec" {
				onSpec = true
			}
		}
		if onSpec && cal.Signature.Recv() != nil && strings.Contains(typeKey(cal.Signature.Recv().Type()), "Equalities") {
			specCmpSemantic = true
		}
	}
	if mk := c.Anchor("O3", pkgPGHandler, "Handler", "createPodGroupForMetadata"); mk != nil {
		n := 0
		for _, in := range instrsIn(mk, func(in ssa.Instruction) bool { _, ok := in.(*ssa.Store); return ok }) {
			st := in.(*ssa.Store)
			fa, ok := st.Addr.(*ssa.FieldAddr)
			if !ok {
				continue
			}
			fv := fieldOfAddr(fa)
			stT := derefStruct(fa.X.Type())
			tag := ""
			for i := 0; i < stT.NumFields(); i++ {
				if stT.Field(i) == fv {
					tag = reflect.StructTag(stT.Tag(i)).Get("json")
				}
			}
			if !strings.Contains(tag, "omitempty") {
				continue
			}
			switch fv.Type().Underlying().(type) {
			case *types.Slice, *types.Map:
			default:
				continue
			}
			n++
			empty := false
			switch v := st.Val.(type) {
			case *ssa.Slice:
				if al, ok := v.X.(*ssa.Alloc); ok {
					if arr, ok := al.Type().Underlying().(*types.Pointer).Elem().Underlying().(*types.Array); ok && arr.Len() == 0 {
						empty = true
					}
				}
			case *ssa.MakeSlice:
				if k, ok := v.Len.(*ssa.Const); ok && k.Int64() == 0 {
					empty = true
				}
			case *ssa.MakeMap:
				empty = true
			}
			c.Check(!empty || specCmpSemantic, "O3", "FIELDS", funcKey(mk)+": an empty omitempty field "+fv.Name()+" cannot make an unchanged workload compare unequal", instrPos(in), map[bool]string{true: "specs are compared with equality.Semantic.DeepEqual (empty == nil)", false: "nil when empty"}[specCmpSemantic], "the desired PodGroup carries an empty, non-nil "+fv.Name()+" while the stored object comes back with nil (omitempty): reflect.DeepEqual is false on every reconcile, so an unchanged workload is rewritten every time")
		}
		c.Floor("O3", "FIELDS omitempty collection fields set", n, 1)
	}

	// ---- O3 (maps): the computed labels / annotations of an unchanged workload compare equal to the stored ones. The
	// computed maps are built with make() and may be empty while the API server hands back nil for an empty map: a
	// "source given, target nil" shortcut then reports a difference although no key differs. Every 'unequal' verdict
	// of the map comparison must be justified by a key of the source map (it is returned from inside the range over it).
	nm := 0
	for _, h := range p.deepFind(equal, func(in ssa.Instruction) bool {
		cc, ok := in.(*ssa.Call)
		if !ok || calleeOf(cc) == nil || !hasModPrefix(calleeOf(cc)) || len(cc.Call.Args) != 2 {
			return false
		}
		_, m0 := cc.Call.Args[0].Type().Underlying().(*types.Map)
		_, m1 := cc.Call.Args[1].Type().Underlying().(*types.Map)
		return m0 && m1 && isBoolType(cc.Type())
	}, 1) {
		cmp := calleeOf(h.In.(*ssa.Call))
		if cmp.Blocks == nil {
			continue
		}
		nm++
		okAll, where := true, token.NoPos
		for _, b := range cmp.Blocks {
			ret, isRet := b.Instrs[len(b.Instrs)-1].(*ssa.Return)
			if !isRet || len(ret.Results) != 1 {
				continue
			}
			k, isK := ret.Results[0].(*ssa.Const)
			if isK && k.Value != nil && k.Value.ExactString() == "false" && !insideLoopBody(b) {
				okAll, where = false, instrPos(ret)
			}
			if !isK {
				// a computed verdict: it must not be taken from the nil-ness of the maps
				if strings.Contains(termOf(ret.Results[0]).String(), "== nil") || strings.Contains(termOf(ret.Results[0]).String(), "!= nil") {
					okAll, where = false, instrPos(ret)
				}
			}
		}
		if where == token.NoPos {
			where = cmp.Pos()
		}
		c.Check(okAll, "O3", "RET", funcKey(cmp)+": 'unequal' only because of a key of the computed map", where, "every 'false' is returned from inside the range over the source map",
			"the map comparison answers 'unequal' without a differing key (e.g. computed map non-nil but empty, stored map nil): a workload whose owner has no labels (or annotations) gets its PodGroup rewritten on every reconcile")
	}
	c.Floor("O3", "RET map comparisons behind podGroupsEqual", nm, 1)

	// ---- O4: determinism of the grouper plugins
	var plugFns []*ssa.Function
	for _, fn := range p.FuncsIn("pkg/podgrouper/podgrouper") {
		if !isTestdataOrMock(fn) {
			plugFns = append(plugFns, fn)
		}
	}
	for _, fn := range p.FuncsIn(pkgPGHandler) {
		if !isTestdataOrMock(fn) {
			plugFns = append(plugFns, fn)
		}
	}
	nondet := 0
	for _, fn := range plugFns {
		for _, in := range instrsIn(fn, func(in ssa.Instruction) bool {
			cc, ok := in.(ssa.CallInstruction)
			if !ok || calleeOf(cc) == nil {
				return false
			}
			cal := calleeOf(cc)
			pk := funcPkgPath(cal)
			return (pk == "time" && (cal.Name() == "Now" || cal.Name() == "Since")) || strings.HasPrefix(pk, "math/rand") || strings.Contains(pk, "/uuid") || strings.HasSuffix(pk, "util/rand")
		}) {
			nondet++
			c.Viol("O4", "CALLERS", funcKey(fn)+": nondeterministic source", instrPos(in), "the pod-grouper reads a clock / random / uuid source: the PodGroup it computes is not a function of the workload")
		}
		for _, s := range findMapOrderSinks(fn) {
			c.Viol("O4", "MAPORDER", funcKey(fn)+": map iteration order reaches an ordered value", instrPos(s.Sink), s.What+": the computed PodGroup (sub-groups, references) can differ between reconciles of the same workload")
		}
	}
	c.Hold("O4", "CALLERS", fmt.Sprintf("%d pod-grouper functions scanned for clock/random/uuid sources and unsorted map iterations", len(plugFns)), 0, "none found beyond the reported ones")
	c.Floor("O4", "CALLERS pod-grouper functions", len(plugFns), 100)

	// ---- O5: PodGroup names depend on the owner
	if calc := c.Anchor("O5", pkgGrouperPlugins+"/defaultgrouper", "DefaultGrouper", "CalcPodGroupName"); calc != nil {
		// every value flowing into the result is rooted at the owner parameter or constant
		ok := true
		for _, b := range calc.Blocks {
			if ret, isRet := b.Instrs[len(b.Instrs)-1].(*ssa.Return); isRet {
				t := termOf(ret.Results[0])
				t.walk(func(x *Term) bool {
					if x.Op == "param" && x.paramIndex() != 1 && x.paramIndex() != 0 {
						ok = false
					}
					return true
				})
			}
		}
		c.Check(ok, "O5", "DEP", funcKey(calc)+": depends only on the owner", calc.Pos(), "pg-<owner name>-<owner uid>", "the default PodGroup name depends on something other than the top owner")
	}
	perPod := map[string]string{
		"pkg/podgrouper/podgrouper/plugins/spark":           "spark: the group is the application selected by the pods' app-selector label (documented)",
		"pkg/podgrouper/podgrouper/plugins/leaderworkerset": "LeaderWorkerSet: one group per replica group index label (documented)",
		"pkg/podgrouper/podgrouper/plugins/grove":           "grove: group named by the pod's podgang label (documented)",
		"pkg/podgrouper/podgrouper/plugins/knative":         "knative: per-revision or per-pod depending on the revision's scale (documented)",
		"pkg/podgrouper/podgrouper/plugins/defaultgrouper":  "default grouper: name computed by CalcPodGroupName(owner)",
		"pkg/podgrouper/podgrouper/plugins/job":             "batch Job: the code names the group after the pod (each pod of a Job is scheduled on its own, MinMember 1); note: docs/developer/pod-grouper.md words this as 'matching the Job's identity'",
		"pkg/podgrouper/podgrouper/plugins/runaijob":        "RunaiJob: same per-pod naming as batch Job",
	}
	metaT := p.TypeObj(pkgPGHandler, "Metadata")
	nName := 0
	var pkgsSeen []string
	for _, fn := range plugFns {
		for _, in := range instrsIn(fn, func(in ssa.Instruction) bool {
			st, ok := in.(*ssa.Store)
			if !ok {
				return false
			}
			fa, ok := st.Addr.(*ssa.FieldAddr)
			return ok && fieldOfAddr(fa).Name() == "Name" && metaT != nil && namedOf(fa.X.Type()) != nil && namedOf(fa.X.Type()).Obj() == metaT
		}) {
			nName++
			pk := relPkg(funcPkgPath(fn))
			t := termOf(in.(*ssa.Store).Val)
			podDependent := t.contains(func(x *Term) bool {
				return x.V != nil && x.Op == "param" && strings.HasSuffix(x.V.Type().String(), "core/v1.Pod")
			})
			why, listed := perPod[pk]
			pkgsSeen = append(pkgsSeen, pk)
			c.Check(!podDependent || listed, "O5", "DEP", funcKey(fn)+": Metadata.Name", instrPos(in), why, "a PodGroup name is derived from the reconciled pod for an owner kind that is not documented as per-pod: sibling pods of one workload end up in different PodGroups depending on which pod is reconciled")
		}
	}
	sort.Strings(pkgsSeen)
	c.Floor("O5", "DEP Metadata.Name assignments", nName, 3)
}

func derivesFromCallTo(v ssa.Value, fn *ssa.Function) bool {
	switch x := v.(type) {
	case *ssa.Call:
		return x.Common().StaticCallee() != nil && sameFunc(x.Common().StaticCallee(), fn)
	case *ssa.Phi:
		for _, e := range x.Edges {
			if derivesFromCallTo(e, fn) {
				return true
			}
		}
	}
	return false
}

// runC18OwnerIdentity (O6): an owner named in an ownerReference is accepted only if the object found under that
// name has the referenced UID. A pod whose owner was deleted and re-created under the same name must not be
// grouped into the new object's PodGroup (its group would change although neither it nor its owner chain did).
func runC18OwnerIdentity(c *Ctx) {
	fx := c.Fx
	fn := c.Anchor("O6", "pkg/podgrouper/podgrouper", "podGrouper", "getOwnerInstance")
	if fn == nil {
		return
	}
	paths := fx.retPaths(fn, 1, WantNil)
	n := 0
	for i, rp := range paths {
		if strings.Contains(rp.Desc, "const:nil") || true {
			n++
		}
		_, same := hasFact(rp.Facts, func(f Fact) bool {
			t := f.T
			if t.Op != "bin" || len(t.Args) != 2 {
				return false
			}
			a, b := t.Args[0].String(), t.Args[1].String()
			uidCmp := (strings.HasSuffix(a, ".UID") && strings.Contains(b, "GetUID")) || (strings.HasSuffix(b, ".UID") && strings.Contains(a, "GetUID"))
			if !uidCmp {
				return false
			}
			return (t.Name == "==" && f.Pol) || (t.Name == "!=" && !f.Pol)
		})
		c.Check(same, "O6", "RET", fmt.Sprintf("%s success path#%d: the object found has the referenced UID", funcKey(fn), i), rp.Pos, "ownerRef.UID == owner.GetUID()",
			"an owner is resolved by name only: after the owner was deleted and re-created under the same name, a leftover pod of the old object is grouped into the new object's PodGroup")
	}
	c.Floor("O6", "RET owner resolutions", n, 1)
}

// C18-O7 (PROV): the label keys are wired to the parameters that mean them. The handler restores the node-pool label
// and the queue label of the stored PodGroup under the keys it was constructed with; the grouper plugins read the
// queue and node-pool labels of pods under theirs. The keys travel positionally as plain strings (configs.X →
// constructor parameter → struct field), so a swap type-checks. For every call inside the pod-grouper whose argument
// is a value named after one kind of key (…NodePool… / …Queue…) the receiving parameter is named after the same kind.
func runC18Wiring(c *Ctx) {
	p := c.P
	kind := func(name string) string {
		n := strings.ToLower(name)
		switch {
		case strings.Contains(n, "nodepool"):
			return "node-pool"
		case strings.Contains(n, "queue") && (strings.Contains(n, "key") || strings.Contains(n, "label")):
			return "queue"
		}
		return ""
	}
	n := 0
	var fns []*ssa.Function
	fns = append(fns, p.FuncsIn("pkg/podgrouper")...)
	fns = append(fns, p.FuncsIn("cmd/podgrouper")...)
	for _, fn := range fns {
		if isTestdataOrMock(fn) {
			continue
		}
		for _, in := range instrsIn(fn, func(x ssa.Instruction) bool { _, ok := x.(ssa.CallInstruction); return ok }) {
			call := in.(ssa.CallInstruction)
			cal := calleeOf(call)
			if cal == nil || !hasModPrefix(cal) || len(cal.Params) != len(call.Common().Args) {
				continue
			}
			for i, a := range call.Common().Args {
				b, ok := a.Type().Underlying().(*types.Basic)
				if !ok || b.Kind() != types.String {
					continue
				}
				src := ""
				switch t := termOf(a); {
				case t.lastField() != "":
					src = t.lastField()
				case t.Op == "param":
					src = t.Name
				}
				if idx := strings.LastIndex(src, ":"); idx >= 0 {
					src = src[idx+1:]
				}
				ka, kp := kind(src), kind(cal.Params[i].Name())
				if ka == "" || kp == "" {
					continue
				}
				n++
				c.Check(ka == kp, "O7", "PROV", fmt.Sprintf("%s: %s receives %s as %s", funcKey(fn), cal.Name(), src, cal.Params[i].Name()), instrPos(in), ka+" key → "+kp+" key parameter",
					fmt.Sprintf("the %s label key (%s) is passed where %s expects its %s label key (%s): the pod-grouper restores / reads the wrong label, e.g. a node-pool label removed by its owner is written back on the next reconcile", ka, src, cal.Name(), kp, cal.Params[i].Name()))
			}
		}
	}
	c.Floor("O7", "PROV label-key hand-overs", n, 2)
}

// C18-O8 (RET): a lookup that failed for another reason than "not found" is not taken for "not found". The groupers
// look for legacy PodGroups, owners and existing objects and branch on IsNotFound; continuing with the not-found
// result after a timeout or a throttled request computes a different PodGroup (another name, no owner) for the same
// pod, writes it, and the next reconcile moves the pod back. A function that tests IsNotFound(err) never returns a nil
// error on a path that has established err != nil ∧ !IsNotFound(err).
func runC18LookupErrors(c *Ctx) {
	p, fx := c.P, c.Fx
	n := 0
	for _, fn := range p.FuncsIn("pkg/podgrouper") {
		if isTestdataOrMock(fn) {
			continue
		}
		bad, tests := swallowedLookupErrors(fx, fn)
		n += tests
		for _, rp := range bad {
			c.Viol("O8", "RET", funcKey(fn)+": an error other than NotFound is returned, not treated as 'not found'", rp.Pos,
				"the function returns without an error although its lookup failed with something other than NotFound: the pod is grouped as if the object did not exist (e.g. under a different PodGroup name) and the result is written")
		}
	}
	c.Hold("O8", "RET", fmt.Sprintf("%d IsNotFound tests in the pod-grouper: no path returns success after another kind of error", n), 0, "held")
	c.Floor("O8", "RET IsNotFound tests in the pod-grouper", n, 3)
}

// C18-O9 (RET): a Ray cluster's sub-groups always contain its head group. RayGrouper decides "legacy workload, no
// sub-groups" from the STORED PodGroup having none (shouldUseSubGroups), so a computation that can succeed with an
// empty sub-group list turns that empty list into a permanent property of the workload: a cluster first reconciled
// head-only would never get sub-groups when workers are added, while the same cluster reconciled from scratch does.
// Every successful return of calcJobNumOfPodsAndSubGroups hands back the list that was started with the head group.
func runC18RayHead(c *Ctx) {
	fn := c.Anchor("O9", "pkg/podgrouper/podgrouper/plugins/ray", "", "calcJobNumOfPodsAndSubGroups")
	if fn == nil {
		return
	}
	n := 0
	for _, b := range fn.Blocks {
		ret, ok := b.Instrs[len(b.Instrs)-1].(*ssa.Return)
		if !ok || len(ret.Results) != 3 {
			continue
		}
		if k, isK := ret.Results[2].(*ssa.Const); !isK || !k.IsNil() {
			continue // an error return
		}
		n++
		k, isNil := ret.Results[1].(*ssa.Const)
		c.Check(!(isNil && k.IsNil()), "O9", "RET", fmt.Sprintf("%s: success returns the sub-group list that holds the head group (block %d)", funcKey(fn), b.Index), instrPos(ret), trunc(termOf(ret.Results[1]).String(), 80),
			"the Ray grouper can succeed with NO sub-groups (head-only cluster): the stored PodGroup then has none, shouldUseSubGroups treats the workload as legacy for ever, and the same cluster gets different sub-groups depending on whether it was first reconciled before or after its workers were added")
	}
	c.Floor("O9", "RET successful returns of the Ray sub-group computation", n, 2)
}

// runC18NamespacedLists (O10): a PodGroup may depend only on its own workload. Where a grouper looks at other pods of
// the workload (is the launcher there yet, the pods of a revision) it lists them by label — and labels are only
// unique within a namespace. A List without client.InNamespace matches the pods of a same-named workload of another
// tenant, and the computed PodGroup changes with what other namespaces contain.
func runC18NamespacedLists(c *Ctx) {
	n := 0
	for _, fn := range c.P.FuncsIn("pkg/podgrouper") {
		if isTestdataOrMock(fn) {
			continue
		}
		for _, in := range instrsIn(fn, isInvokeNamed("List")) {
			args := in.(ssa.CallInstruction).Common().Args
			if len(args) < 3 {
				continue
			}
			listT := args[1].Type()
			if mi, isMI := args[1].(*ssa.MakeInterface); isMI {
				listT = mi.X.Type()
			}
			if !strings.Contains(typeKey(listT), "k8s.io/api/") {
				continue
			}
			n++
			ok := false
			for _, src := range valueSources(args[len(args)-1], 5) {
				if strings.HasSuffix(typeKey(src.Type()), "client.InNamespace") {
					ok = true
				}
			}
			c.Check(ok, "O10", "PROV", funcKey(fn)+": pods are listed within the workload's namespace", instrPos(in), "client.InNamespace among the list options",
				"a grouper lists objects by label without restricting the namespace: a same-named workload of another namespace decides this workload's PodGroup (e.g. minMember counts a launcher that belongs to someone else)")
		}
	}
	c.Floor("O10", "PROV label-selected lists in the groupers", n, 2)
}

// runC18LwsLeaderReady (O11): for a LeaderReady LeaderWorkerSet the group's minimum is computed from the pod that is
// being reconciled: "1" while the leader still has to be scheduled (the workers do not exist yet), the group size
// otherwise. The small answer is only stable because it stops being given once the leader is scheduled — from then on
// every pod of the group yields the same PodGroup. Given for a scheduled leader it makes the stored PodGroup flip
// between two values depending on which sibling was reconciled last, each flip a write.
func runC18LwsLeaderReady(c *Ctx) {
	f := c.Anchor("O11", "pkg/podgrouper/podgrouper/plugins/leaderworkerset", "", "calcLeaderReadyMinAvailable")
	if f == nil {
		return
	}
	n := 0
	for _, b := range f.Blocks {
		ret, ok := b.Instrs[len(b.Instrs)-1].(*ssa.Return)
		if !ok {
			continue
		}
		k, isC := ret.Results[0].(*ssa.Const)
		if !isC {
			continue
		}
		n++
		unscheduled := func(s FactSet) bool {
			_, ok := hasFact(s, func(ft Fact) bool {
				if ft.T.Op != "bin" || len(ft.T.Args) != 2 || !strings.HasSuffix(ft.T.Args[0].String(), ".Spec.NodeName") && !strings.Contains(ft.T.Args[0].String(), ".Spec.NodeName") {
					return false
				}
				// NodeName == "" (or len == 0), with polarity
				return (ft.T.Name == "==" && ft.Pol) || (ft.T.Name == "!=" && !ft.Pol)
			})
			return ok
		}
		ok2 := c.Fx.allPathsSatisfy(ret, unscheduled)
		c.Check(ok2, "O11", "RET", fmt.Sprintf("%s: a minimum below the group size (%s) is answered only for a pod that is not scheduled yet", funcKey(f), k.Value), instrPos(ret), "pod.Spec.NodeName == \"\" on every path",
			"the LeaderReady minimum "+k.Value.String()+" can be answered for a pod that is already scheduled: leader and workers then compute different PodGroups for the same workload and the stored object is rewritten on every reconcile of either")
	}
	c.Floor("O11", "RET constant minimums of calcLeaderReadyMinAvailable", n, 1)
}

// runC18LabelPrecedence (O12): where a PodGroup attribute can come from a label of the owner or from the same label
// of the pod, the owner's label wins. Pods of one workload may carry different labels (several pod templates, a pod
// relabelled at run time); the owner is the same for all of them, so "owner first" is what makes the PodGroup the
// same whichever pod is reconciled. Two parts per pair of lookups with the same key in one function: (a) the
// non-pod lookup is never evaluated after the pod's, (b) a value read from the pod's label is returned / stored /
// merged only where the other lookup has reported "not found" (not required when the owners are scanned in a loop).
func runC18LabelPrecedence(c *Ctx) {
	p, fx := c.P, c.Fx
	isPodRooted := func(v ssa.Value) bool {
		for i := 0; i < 8 && v != nil; i++ {
			switch x := v.(type) {
			case *ssa.Call:
				if len(x.Call.Args) == 0 && !x.Call.IsInvoke() {
					return false
				}
				if x.Call.IsInvoke() {
					v = x.Call.Value
				} else {
					v = x.Call.Args[0]
				}
			case *ssa.FieldAddr:
				v = x.X
			case *ssa.Field:
				v = x.X
			case *ssa.UnOp:
				v = x.X
			case *ssa.Parameter:
				return strings.HasSuffix(typeKey(x.Type()), "k8s.io/api/core/v1.Pod")
			default:
				return false
			}
		}
		return false
	}
	type lk struct {
		in  *ssa.Lookup
		pod bool
		key string
	}
	pairs := 0
	for _, fn := range p.FuncsIn(pkgGrouperPlugins + "/defaultgrouper") {
		var lks []lk
		for _, b := range fn.Blocks {
			for _, in := range b.Instrs {
				l, ok := in.(*ssa.Lookup)
				if !ok || !l.CommaOk || typeKey(l.X.Type()) != "map[string]string" {
					continue
				}
				lks = append(lks, lk{l, isPodRooted(l.X), termOf(l.Index).String()})
			}
		}
		for _, pl := range lks {
			if !pl.pod {
				continue
			}
			for _, ol := range lks {
				if ol.pod || ol.key != pl.key {
					continue
				}
				pairs++
				// (a) order
				after := false
				if ol.in.Block() == pl.in.Block() {
					after = instrBefore(pl.in, ol.in)
				}
				seen := map[*ssa.BasicBlock]bool{}
				var walk func(b *ssa.BasicBlock)
				walk = func(b *ssa.BasicBlock) {
					for _, s := range b.Succs {
						if seen[s] {
							continue
						}
						seen[s] = true
						if s == ol.in.Block() {
							after = true
						}
						walk(s)
					}
				}
				walk(pl.in.Block())
				c.Check(!after, "O12", "MPT", fmt.Sprintf("%s: label %s is looked up on the owner before it is looked up on the pod", funcKey(fn), pl.key), instrPos(pl.in), "the owner's lookup is not reachable from the pod's",
					"the label "+pl.key+" is read from the pod before it is read from the owner: two pods of one workload with different values of the label compute different PodGroups, the stored object follows whichever pod was reconciled last and every reconcile of a sibling rewrites it")
				// (b) use of the pod's value
				if loopHeaderOf(ol.in.Block()) != nil {
					continue
				}
				var notFound string
				for _, r := range *ol.in.Referrers() {
					if e, ok := r.(*ssa.Extract); ok && e.Index == 1 {
						notFound = termOf(e).String()
					}
				}
				has := func(fs FactSet) bool {
					_, ok := fs.find(func(f Fact) bool { return !f.Pol && f.T.String() == notFound })
					return ok
				}
				var bad ssa.Instruction
				seenV := map[ssa.Value]bool{}
				var uses func(v ssa.Value)
				uses = func(v ssa.Value) {
					if seenV[v] || v.Referrers() == nil {
						return
					}
					seenV[v] = true
					for _, r := range *v.Referrers() {
						switch x := r.(type) {
						case *ssa.Extract:
							if x.Index == 0 {
								uses(x)
							}
						case *ssa.Phi:
							for i, e := range x.Edges {
								if e == v {
									pred := x.Block().Preds[i]
									if !has(fx.FactsAt(pred.Instrs[len(pred.Instrs)-1])) {
										bad = pred.Instrs[len(pred.Instrs)-1]
									}
								}
							}
						case *ssa.Return, *ssa.MapUpdate, *ssa.Store:
							if !has(fx.FactsAt(r)) {
								bad = r
							}
						}
					}
				}
				uses(pl.in)
				pos := instrPos(pl.in)
				if bad != nil {
					pos = instrPos(bad)
				}
				c.Check(bad == nil, "O12", "DOM", fmt.Sprintf("%s: the pod's value of label %s is used only where the owner has none", funcKey(fn), pl.key), pos, "not-found on the owner dominates every use of the pod's value",
					"the pod's value of label "+pl.key+" can be taken although the owner carries the label: pods of one workload with different label values compute different PodGroups")
			}
		}
	}
	c.Floor("O12", "MPT owner/pod lookups of one label", pairs, 5)
}

// runC18GroupBeforeAssignment (O13): the pod is pointed at its PodGroup (annotation / sub-group label patch) only
// after the PodGroup was applied to the cluster without error. The reconciler's first guard returns early for a pod
// that already carries the annotation and has no owner: annotated first and the PodGroup's creation failing, such a
// pod is never looked at again and its PodGroup never exists — the outcome depends on the fault history, not on the
// workload, and repeating the reconcile does not repair it.
func runC18GroupBeforeAssignment(c *Ctx) {
	f := c.Anchor("O13", "pkg/podgrouper", "PodReconciler", "Reconcile")
	if f == nil {
		return
	}
	n := 0
	for _, h := range c.P.deepFind(f, isInvokeNamed("Patch"), 2) {
		site := h.In
		if len(h.Chain) > 0 {
			site = h.Chain[0]
		}
		if site.Parent() != f {
			continue
		}
		n++
		ok, why := succeededBefore(c.Fx, f, site, func(in ssa.Instruction) bool {
			cc, isCall := in.(ssa.CallInstruction)
			if !isCall {
				return false
			}
			if cal := calleeOf(cc); cal != nil {
				return cal.Name() == "ApplyToCluster"
			}
			return cc.Common().IsInvoke() && cc.Common().Method.Name() == "ApplyToCluster"
		})
		c.Check(ok, "O13", "MPT", funcKey(f)+": the pod is assigned to its PodGroup only after the PodGroup was applied without error", instrPos(site), "every path to the pod patch passes ApplyToCluster and the test of its error",
			"the pod can be annotated with its PodGroup before the PodGroup exists ("+why+"): when the creation then fails, an owner-less pod is skipped by every later reconcile (it already carries the annotation) and its PodGroup is never created")
	}
	c.Floor("O13", "DOM pod patches of the pod reconciler", n, 1)
}

// succeededBefore: every path from fn's entry to site executes a call satisfying isStep, and every path from such a
// call to site takes a branch that establishes "the step's error is nil" — the error being the call's (last) result,
// tested directly or through the local cell it is stored into right after the call.
func succeededBefore(fx *Facts, fn *ssa.Function, site ssa.Instruction, isStep func(ssa.Instruction) bool) (bool, string) {
	isSite := func(in ssa.Instruction) bool { return in == site }
	if _, path, found := reachAvoiding([]cfgPos{entryPos(fn)}, isSite, isStep, nil); found {
		return false, "reached without the step: " + pathStr(path)
	}
	steps := 0
	for _, b := range fn.Blocks {
		for i, in := range b.Instrs {
			if !isStep(in) {
				continue
			}
			steps++
			v, isVal := in.(ssa.Value)
			if !isVal {
				return false, "the step has no result"
			}
			// the values that stand for the step's error
			errTerms := map[string]bool{}
			var ev ssa.Value = v
			if tup, isTup := v.Type().(*types.Tuple); isTup {
				ev = nil
				for _, r := range *v.Referrers() {
					if e, ok := r.(*ssa.Extract); ok && e.Index == tup.Len()-1 {
						ev = e
					}
				}
			}
			if ev == nil {
				return false, "the step's error is dropped"
			}
			errTerms[termOf(ev).String()] = true
			for _, r := range *ev.Referrers() {
				if st, ok := r.(*ssa.Store); ok && st.Val == ev && st.Block() == b {
					if a, isA := st.Addr.(*ssa.Alloc); isA {
						errTerms["load("+termOf(a).String()+")"] = true
					}
				}
			}
			nilTested := func(f Fact) bool {
				t := f.T
				if t.Op != "bin" || len(t.Args) != 2 || !(t.Args[1].isNilConst() || t.Args[0].isNilConst()) {
					return false
				}
				x := t.Args[0]
				if x.isNilConst() {
					x = t.Args[1]
				}
				return errTerms[x.String()] && (t.Name == "==") == f.Pol
			}
			_, path, found := reachAvoiding([]cfgPos{{B: b, I: i + 1}}, isSite, nil, func(from, to *ssa.BasicBlock) bool {
				return !fx.edgeEstablishes(from, to, nilTested)
			})
			if found {
				return false, "reached after the step without its error having been found nil: " + pathStr(path)
			}
		}
	}
	return steps > 0, "no such step"
}

// runC18NoPatchOnlyWhenBothMatch (O14): the pod's assignment (pod-group annotation AND sub-group label) is a function of
// the workload: assignPodToGroupAndSubGroup may leave the pod unpatched only where it has established that the pod's
// annotation equals the computed PodGroup's name and its sub-group label equals the computed sub group. An early
// "already annotated" return freezes the sub-group label at whatever the first reconcile computed.
func runC18NoPatchOnlyWhenBothMatch(c *Ctx) {
	f := c.Anchor("O14", "pkg/podgrouper", "PodReconciler", "assignPodToGroupAndSubGroup")
	if f == nil {
		return
	}
	eqOf := func(fs FactSet, field string) bool {
		_, ok := fs.find(func(ft Fact) bool {
			t := ft.T
			if t.Op != "bin" || len(t.Args) != 2 || (t.Name == "==") != ft.Pol {
				return false
			}
			return strings.Contains(t.Args[0].String(), field) || strings.Contains(t.Args[1].String(), field)
		})
		return ok
	}
	both := func(fs FactSet) bool { return eqOf(fs, ".Annotations") && eqOf(fs, ".Labels") }
	n := 0
	for _, b := range f.Blocks {
		ret, ok := b.Instrs[len(b.Instrs)-1].(*ssa.Return)
		if !ok || len(ret.Results) != 1 {
			continue
		}
		k, isK := ret.Results[0].(*ssa.Const)
		if !isK || !k.IsNil() {
			continue
		}
		// a nil return that no Patch precedes
		if _, _, unpatched := reachAvoiding([]cfgPos{entryPos(f)}, func(in ssa.Instruction) bool { return in == ssa.Instruction(ret) }, c.P.performs(isInvokeNamed("Patch", "Update"), 2), nil); !unpatched {
			continue
		}
		n++
		c.Check(c.Fx.allPathsSatisfy(ret, both), "O14", "RET", funcKey(f)+": the pod is left unpatched only when annotation and sub-group label both match", instrPos(ret), "annotation == PodGroup name ∧ label == sub group",
			"the pod can be left as it is although only one of its pod-group annotation and its sub-group label matches the computed assignment: the other stays at what an earlier reconcile computed, so the pod's assignment depends on the reconcile history")
	}
	c.Floor("O14", "RET unpatched exits of assignPodToGroupAndSubGroup", n, 1)
}

// runC18ForeignMapsMerged (O15): annotations and labels of a stored PodGroup are shared with other actors (the
// scheduler's last-start and stale timestamps, user labels): updatePodGroup merges the computed keys into the stored
// map, it never replaces the map. Decided: the value stored into oldPodGroup.Annotations / .Labels is computed from
// BOTH the new and the old object's field of the same name.
func runC18ForeignMapsMerged(c *Ctx) {
	f := c.Anchor("O15", pkgPGHandler, "", "updatePodGroup")
	if f == nil {
		return
	}
	n := 0
	for _, in := range instrsIn(f, func(in ssa.Instruction) bool { _, ok := in.(*ssa.Store); return ok }) {
		st := in.(*ssa.Store)
		fa, ok := st.Addr.(*ssa.FieldAddr)
		if !ok || rootParam(termOf(fa)) != 0 {
			continue
		}
		fld := termOf(fa).lastField()
		if fld != "Annotations" && fld != "Labels" {
			continue
		}
		n++
		fromOld, fromNew := false, false
		termOf(st.Val).contains(func(x *Term) bool {
			if x.lastField() == fld {
				switch rootParam(x) {
				case 0:
					fromOld = true
				case 1:
					fromNew = true
				}
			}
			return false
		})
		c.Check(fromOld && fromNew, "O15", "FIELDS", funcKey(f)+": "+fld+" of the stored PodGroup are merged, not replaced", instrPos(in), "computed from old."+fld+" and new."+fld,
			"the stored PodGroup's "+fld+" are replaced by the computed ones: keys written by other actors (the scheduler's last-start / stale timestamps, user labels) are wiped by the next update")
	}
	c.Floor("O15", "FIELDS shared maps of the stored PodGroup", n, 2)
}
