package main

import (
	"fmt"
	"go/constant"
	"go/token"
	"go/types"
	"sort"
	"strings"

	"golang.org/x/tools/go/ssa"
)

func init() {
	register("C19", runC19,
		"Decides structural necessary conditions of 'admission, scheduler and binder agree on GPU requests': the annotation keys read by the scheduler equal those validated by admission/binder; every component parses a given annotation with the same strconv function and bit size; the validator accepts a value only behind positive-form range facts (NaN and non-positive excluded) and the scheduler turns an annotation into a sharing request only behind the same kind of facts; the validator's conflict checks see init containers; with sharing disabled admission rejects whenever a sharing annotation is present; every pod update is validated; mutation helpers are upserts.",
		"string-level behaviour inside an accepted cell (exotic float syntaxes that both sides accept alike), rounding of very small fractions")
}

const pkgGpuReq = "pkg/binder/plugins/gpusharing/gpu-request"
const pkgCommonRes = "pkg/common/resources"
const pkgCommonConst = "pkg/common/constants"

type parseSite struct {
	fn   *ssa.Function
	call *ssa.Call
	key  string // annotation key
	what string // strconv function + bit size
}

// annotationKeyOf: the constant annotation key a string value was looked up with (through one call level: a
// parameter is resolved at the call sites of the function).
func annotationKeyOf(p *Prog, v ssa.Value, depth int) []string {
	switch x := v.(type) {
	case *ssa.Extract:
		return annotationKeyOf(p, x.Tuple, depth)
	case *ssa.Lookup:
		if !strings.HasSuffix(termOf(x.X).String(), ".Annotations") {
			return nil
		}
		if k, ok := x.Index.(*ssa.Const); ok && k.Value != nil && k.Value.Kind() == constant.String {
			return []string{constant.StringVal(k.Value)}
		}
	case *ssa.Phi:
		var out []string
		for _, e := range x.Edges {
			out = append(out, annotationKeyOf(p, e, depth)...)
		}
		return out
	case *ssa.Parameter:
		if depth <= 0 {
			return nil
		}
		idx := -1
		for i, prm := range x.Parent().Params {
			if prm == x {
				idx = i
			}
		}
		var out []string
		for _, cs := range p.CallSites(x.Parent()) {
			if idx < len(cs.Common().Args) {
				out = append(out, annotationKeyOf(p, cs.Common().Args[idx], depth-1)...)
			}
		}
		return out
	}
	return nil
}

func runC19(c *Ctx) {
	borrow(c, "O8", "C02", "O14", "", "the portion the scheduler derives from a gpu-memory annotation is what it accounts, writes into the BindRequest and the binder turns into GPU_PORTION: rounded down it is less than the annotation the admission webhook accepted")
	runC19Received(c)
	runC19OneCdiNamePerDevice(c)
	runC19PortionFixedPoint(c)
	runC19EnvUpsert(c)
	runC19ContainerRef(c)
	runC19ConfigMapName(c)
	p, fx := c.P, c.Fx
	// ---- O1: annotation keys agree
	type kc struct{ pkgA, nameA, pkgB, nameB string }
	for _, k := range []kc{
		{pkgPodInfo, "GpuMemoryAnnotationName", pkgCommonConst, "GpuMemory"},
		{"pkg/scheduler/api/common_info", "GPUFraction", pkgCommonConst, "GpuFraction"},
	} {
		a, okA := p.ConstString(k.pkgA, k.nameA)
		b, okB := p.ConstString(k.pkgB, k.nameB)
		if !okA || !okB {
			c.Undec("O1", "CONST", k.nameA+" / "+k.nameB, 0, "annotation key constant not found")
			continue
		}
		c.Check(a == b, "O1", "CONST", k.pkgA+"."+k.nameA+" == "+k.pkgB+"."+k.nameB, 0, fmt.Sprintf("%q", a), fmt.Sprintf("the scheduler reads annotation %q while admission/binder validate %q", a, b))
	}

	// ---- O2: parser agreement per annotation key, over the whole repository
	var sites []parseSite
	for _, fn := range p.AllFuncs {
		if isTestdataOrMock(fn) {
			continue
		}
		for _, in := range instrsIn(fn, func(in ssa.Instruction) bool {
			cc, ok := in.(*ssa.Call)
			return ok && calleeOf(cc) != nil && funcPkgPath(calleeOf(cc)) == "strconv" && strings.HasPrefix(calleeOf(cc).Name(), "Parse")
		}) {
			call := in.(*ssa.Call)
			// the parsed string may have gone through string helpers first: they are part of "how it is parsed"
			arg, via := call.Common().Args[0], ""
			for {
				tc, isCall := arg.(*ssa.Call)
				if !isCall || calleeOf(tc) == nil || funcPkgPath(calleeOf(tc)) != "strings" || len(tc.Common().Args) == 0 {
					break
				}
				via += " after strings." + calleeOf(tc).Name()
				arg = tc.Common().Args[0]
			}
			keys := annotationKeyOf(p, arg, 1)
			if len(keys) == 0 {
				continue
			}
			what := calleeOf(call).Name() + via
			for _, a := range call.Common().Args[1:] {
				if k, ok := a.(*ssa.Const); ok {
					what += "," + k.Value.ExactString()
				}
			}
			for _, k := range keys {
				sites = append(sites, parseSite{fn, call, k, what})
			}
		}
	}
	byKey := map[string]map[string][]parseSite{}
	for _, s := range sites {
		if byKey[s.key] == nil {
			byKey[s.key] = map[string][]parseSite{}
		}
		byKey[s.key][s.what] = append(byKey[s.key][s.what], s)
	}
	gpuKeys := []string{"gpu-fraction", "gpu-memory", "gpu-fraction-num-devices"}
	for _, k := range gpuKeys {
		forms := byKey[k]
		var names []string
		n := 0
		for w, ss := range forms {
			names = append(names, fmt.Sprintf("%s ×%d", w, len(ss)))
			n += len(ss)
			for _, s := range ss {
				c.Analysed(funcKey(s.fn))
			}
		}
		sort.Strings(names)
		var pos = instrPosOfFirst(forms)
		c.Check(len(forms) == 1, "O2", "SIBLING", "annotation "+k+": one parser in every component", pos, strings.Join(names, "; "), "annotation "+k+" is parsed differently in different components ("+strings.Join(names, "; ")+"): a value one side accepts is rejected or read differently by the other")
		c.Floor("O2", "SIBLING parse sites of "+k, n, 2)
	}

	// ---- O2b: acceptance facts of the validator
	type vexp struct {
		fn    string
		float bool
		upper string
	}
	for _, v := range []vexp{{"validateGpuFractionAnnotation", true, "1"}, {"validateMemoryAnnotation", false, ""}, {"validateMultiFractionRequest", false, ""}} {
		fn := c.Anchor("O2", pkgGpuReq, "", v.fn)
		if fn == nil {
			continue
		}
		for i, rp := range fx.retPaths(fn, 0, WantNil) {
			_, absent := hasFact(rp.Facts, func(f Fact) bool { return !f.Pol && f.T.Op == "param" && f.T.paramIndex() == 0 })
			if absent {
				c.Hold("O2", "RET", fmt.Sprintf("%s accepting path#%d", funcKey(fn), i), rp.Pos, "annotation absent")
				continue
			}
			_, parsed := hasFact(rp.Facts, func(f Fact) bool {
				return f.Pol && f.T.Op == "bin" && f.T.Name == "==" && f.T.Args[0].Op == "extract" && f.T.Args[0].Name == "1" && f.T.Args[1].isNilConst()
			})
			_, positive := hasFact(rp.Facts, func(f Fact) bool {
				return f.Pol && f.T.Op == "bin" && f.T.Name == "<" && f.T.Args[0].String() == "const:0" && f.T.Args[1].Op == "extract" && f.T.Args[1].Name == "0"
			})
			okUpper := true
			if v.upper != "" {
				_, okUpper = hasFact(rp.Facts, func(f Fact) bool {
					return f.Pol && f.T.Op == "bin" && f.T.Name == "<" && f.T.Args[1].String() == "const:"+v.upper && f.T.Args[0].Op == "extract"
				})
			}
			c.Check(parsed && positive && okUpper, "O2", "RET", fmt.Sprintf("%s accepting path#%d", funcKey(fn), i), rp.Pos, "parsed ∧ 0 < value"+map[bool]string{true: " ∧ value < " + v.upper, false: ""}[v.upper != ""]+" established positively",
				"the validator accepts a value without establishing, in positive form, that it parsed and lies in range: for floats a negated range test lets NaN through; for integers a missing test admits zero/negative values")
		}
	}
	// scheduler: an annotation becomes a sharing request only behind positive-form facts
	if upf := c.Anchor("O2", pkgPodInfo, "PodInfo", "updatePodAdditionalFields"); upf != nil {
		rt := p.fieldVars(pkgPodInfo, "PodInfo", "ResourceRequestType")
		n := 0
		for _, h := range p.deepFind(upf, isStoreToField(rt), 2) {
			in := h.In
			k, ok := in.(*ssa.Store).Val.(*ssa.Const)
			if !ok {
				continue
			}
			kind := constant.StringVal(k.Value)
			if kind != "Fraction" && kind != "GpuMemory" {
				continue
			}
			n++
			fs := fx.factsAtDeep(h)
			_, parsed := hasFact(fs, func(f Fact) bool {
				return f.Pol && f.T.Op == "bin" && f.T.Name == "==" && f.T.Args[0].Op == "extract" && f.T.Args[0].Name == "1" && f.T.Args[1].isNilConst()
			})
			_, positive := hasFact(fs, func(f Fact) bool {
				return f.Pol && f.T.Op == "bin" && f.T.Name == "<" && f.T.Args[0].String() == "const:0" && f.T.Args[1].Op == "extract"
			})
			upper := true
			if kind == "Fraction" {
				_, upper = hasFact(fs, func(f Fact) bool {
					return f.Pol && f.T.Op == "bin" && (f.T.Name == "<=" || f.T.Name == "<") && f.T.Args[1].String() == "const:1" && f.T.Args[0].Op == "extract"
				})
			}
			c.Check(parsed && positive && upper, "O2", "DOM", funcKey(upf)+": request type "+kind+" only for a parsed, positive, in-range annotation", instrPos(in), "positive-form facts", "the scheduler turns an annotation into a "+kind+" request without positive-form range facts (a NaN or non-positive value becomes a GPU-sharing request)")
		}
		c.Floor("O2", "DOM request-type stores", n, 2)
	}

	// ---- O3: conflict checks see init containers; sharing disabled; every update validated
	if vg := c.Anchor("O3", pkgGpuReq, "", "ValidateGpuRequests"); vg != nil {
		// the whole-GPU limit used by the conflict checks is computed over containers AND init containers
		sees := false
		var visit func(fn *ssa.Function, d int)
		seen := map[*ssa.Function]bool{}
		visit = func(fn *ssa.Function, d int) {
			if fn == nil || fn.Blocks == nil || seen[fn] || d > 2 {
				return
			}
			seen[fn] = true
			reads := map[string]bool{}
			for _, b := range fn.Blocks {
				for _, in := range b.Instrs {
					if fa, ok := in.(*ssa.FieldAddr); ok {
						reads[fieldOfAddr(fa).Name()] = true
					}
					if cc, ok := in.(ssa.CallInstruction); ok {
						if cal := calleeOf(cc); cal != nil && strings.HasPrefix(funcPkgPath(cal), modPath) {
							visit(cal, d+1)
						}
					}
				}
			}
			if reads["InitContainers"] && reads["Containers"] && reads["Limits"] {
				sees = true
			}
		}
		visit(vg, 0)
		c.Check(sees, "O3", "FIELDS", funcKey(vg)+": whole-GPU conflict check covers init containers", vg.Pos(), "Containers and InitContainers", "the validator's whole-GPU conflict check no longer looks at init containers: a pod can carry a sharing annotation and a whole-GPU limit the scheduler never accounts for")
		// conflicts are rejected: fraction+whole, memory+(fraction|whole), count without fraction/memory
		nErr := 0
		for _, b := range vg.Blocks {
			if ret, ok := b.Instrs[len(b.Instrs)-1].(*ssa.Return); ok {
				if k, isC := unspill(ret, 0).(*ssa.Const); !isC || !k.IsNil() {
					nErr++
				}
			}
		}
		c.Check(nErr >= 7, "O3", "REG", funcKey(vg)+": rejecting exits", vg.Pos(), fmt.Sprintf("%d", nErr), fmt.Sprintf("ValidateGpuRequests has %d rejecting exits (expected the 4 conflict checks and the 3 value checks)", nErr))
	}
	if av := c.Anchor("O3", "pkg/admission/webhook/v1alpha2/gpusharing", "GPUSharing", "Validate"); av != nil {
		// with sharing disabled: reject iff RequestsGPUFraction; and that predicate is "either annotation present"
		paths := fx.retPaths(av, 0, WantNil)
		for i, rp := range paths {
			okSet := func(fs FactSet) bool {
				_, enabled := hasFact(fs, func(f Fact) bool { return f.Pol && f.T.lastField() == "gpuSharingEnabled" })
				_, noReq := hasFact(fs, func(f Fact) bool { return !f.Pol && isCallNamed(f.T, "RequestsGPUFraction") })
				_, validated := hasFact(fs, func(f Fact) bool {
					return factNilOf(f, true, func(t *Term) bool { return t.Fn != nil && t.Fn.Name() == "ValidateGpuRequests" })
				})
				return (enabled || noReq) && validated
			}
			c.Check(fx.acceptWithExpansion(rp.Facts, okSet), "O3", "RET", fmt.Sprintf("%s accepting path#%d", funcKey(av), i), rp.Pos, "(sharing enabled ∨ no sharing annotation) ∧ ValidateGpuRequests == nil", "admission can accept a pod with a sharing annotation while GPU sharing is disabled, or without validating its GPU request")
		}
		if rq := p.Func(pkgCommonRes, "", "RequestsGPUFraction"); rq != nil {
			keys := map[string]bool{}
			for _, in := range instrsIn(rq, func(in ssa.Instruction) bool { _, ok := in.(*ssa.Lookup); return ok }) {
				if k, ok := in.(*ssa.Lookup).Index.(*ssa.Const); ok && k.Value != nil && k.Value.Kind() == constant.String {
					keys[constant.StringVal(k.Value)] = true
				}
			}
			c.Check(keys["gpu-fraction"] && keys["gpu-memory"], "O3", "CONST", funcKey(rq)+": covers both sharing annotations", rq.Pos(), "gpu-fraction, gpu-memory", "the 'is a sharing request' predicate used by admission does not cover every annotation the scheduler turns into a sharing request")
		}
	}
	if vu := c.Anchor("O3", "pkg/admission/webhook/v1alpha2/podhooks", "podValidator", "ValidateUpdate"); vu != nil {
		// every accepting return is behind the plugins' validation (no early accept)
		plugV := func(in ssa.Instruction) bool {
			cc, ok := in.(ssa.CallInstruction)
			if !ok {
				return false
			}
			if m := invokedMethod(cc); m != nil && m.Name() == "Validate" {
				return true
			}
			cal := calleeOf(cc)
			return cal != nil && strings.Contains(strings.ToLower(cal.Name()), "validate") && cal != vu
		}
		perf := p.performs(plugV, 3)
		for _, b := range vu.Blocks {
			ret, ok := b.Instrs[len(b.Instrs)-1].(*ssa.Return)
			if !ok || len(ret.Results) < 2 {
				continue
			}
			if k, isC := unspill(ret, 1).(*ssa.Const); !isC || !k.IsNil() {
				continue
			}
			_, path, found := reachAvoiding([]cfgPos{entryPos(vu)}, func(x ssa.Instruction) bool { return x == ssa.Instruction(ret) }, perf, func(from, to *ssa.BasicBlock) bool {
				// pods of other schedulers are none of this webhook's business
				return !fx.edgeEstablishes(from, to, func(f Fact) bool {
					return !f.Pol && f.T.Op == "bin" && f.T.Name == "==" && strings.Contains(f.T.String(), "SchedulerName")
				})
			})
			c.Check(!found, "O3", "MPT", funcKey(vu)+": an update is accepted only after validation", instrPos(ret), "validation on every accepting path", "a pod update can be accepted without running the admission plugins ("+pathStr(path)+"): sharing annotations are mutable and are re-read by the scheduler")
		}
	}

	// ---- O4: mutation helpers are upserts
	for _, nm := range []string{"AddGPUSharingEnvVars", "SetConfigMapVolume", "AddDirectEnvVarsConfigMapSource"} {
		fn := p.Func("pkg/binder/common", "", nm)
		if fn == nil {
			c.Undec("O4", "ANCHOR", "pkg/binder/common."+nm, 0, "mutation helper not found")
			continue
		}
		c.Analysed(funcKey(fn))
		// every append in the helper's call tree is guarded by a "not already present" test (a loop that returns/updates on match)
		okUpsert := true
		seen := map[*ssa.Function]bool{}
		var visit func(f *ssa.Function, d int)
		visit = func(f *ssa.Function, d int) {
			if f == nil || f.Blocks == nil || seen[f] || d > 2 {
				return
			}
			seen[f] = true
			hasAppend, hasCompareLoop := false, false
			for _, b := range f.Blocks {
				for _, in := range b.Instrs {
					if cc, ok := in.(*ssa.Call); ok {
						if bi, isB := cc.Common().Value.(*ssa.Builtin); isB && bi.Name() == "append" {
							hasAppend = true
						}
						if cal := cc.Common().StaticCallee(); cal != nil && strings.HasPrefix(funcPkgPath(cal), modPath) {
							visit(cal, d+1)
						}
					}
					if mc, ok := in.(*ssa.MakeClosure); ok {
						// a predicate handed to slices.DeleteFunc / ContainsFunc / IndexFunc that compares names
						for _, cb := range mc.Fn.(*ssa.Function).Blocks {
							for _, cin := range cb.Instrs {
								if bo, ok := cin.(*ssa.BinOp); ok && (bo.Op.String() == "==" || bo.Op.String() == "!=") &&
									(strings.HasSuffix(termOf(bo.X).String(), ".Name") || strings.HasSuffix(termOf(bo.Y).String(), ".Name")) {
									hasCompareLoop = true
								}
							}
						}
					}
					if bo, ok := in.(*ssa.BinOp); ok && (bo.Op.String() == "==" || bo.Op.String() == "!=") && loopHeaderOf(b) != nil {
						if strings.HasSuffix(termOf(bo.X).String(), ".Name") || strings.HasSuffix(termOf(bo.Y).String(), ".Name") {
							hasCompareLoop = true
						}
					}
				}
			}
			if hasAppend && !hasCompareLoop {
				okUpsert = false
			}
		}
		visit(fn, 0)
		c.Check(okUpsert, "O4", "DOM", funcKey(fn)+": appends only what is not already present", fn.Pos(), "lookup-by-name loop before append", "the mutation helper appends without checking for an existing entry: mutating an already mutated pod duplicates env vars / volumes (admission's mutation is not idempotent)")
	}
}

// C19-O4 (ext.): the env var the admission mutator sets is the ONLY entry of that name. Duplicate env names are
// legal in a pod spec and the kubelet lets the last one win, so a helper that rewrites container.Env must look at
// every existing entry: the loop that compares entry names has no exit other than exhaustion (a "replace the first
// match and return" leaves a later user-supplied NVIDIA_VISIBLE_DEVICES / GPU_PORTION in force).
func runC19EnvUpsert(c *Ctx) {
	p := c.P
	n := 0
	for _, fn := range p.FuncsIn("pkg/binder/common") {
		if isTestdataOrMock(fn) || fn.Parent() != nil {
			continue
		}
		writesEnv := len(instrsIn(fn, func(in ssa.Instruction) bool {
			st, ok := in.(*ssa.Store)
			if !ok {
				return false
			}
			t := termOf(st.Addr)
			return t.lastField() == "Env" || (t.Op == "index" && t.Args[0].lastField() == "Env")
		})) > 0
		if !writesEnv {
			continue
		}
		for _, in := range instrsIn(fn, func(in ssa.Instruction) bool {
			cc, ok := in.(ssa.CallInstruction)
			return ok && calleeOf(cc) != nil && funcPkgPath(calleeOf(cc)) == "slices" && strings.HasPrefix(calleeOf(cc).Name(), "DeleteFunc")
		}) {
			n++
			c.Hold("O4", "MPT", funcKey(fn)+": every existing env entry of that name is replaced", instrPos(in), "slices.DeleteFunc removes every match")
		}
		seenH := map[*ssa.BasicBlock]bool{}
		for _, in := range instrsIn(fn, func(in ssa.Instruction) bool {
			bo, ok := in.(*ssa.BinOp)
			if !ok || (bo.Op != token.EQL && bo.Op != token.NEQ) {
				return false
			}
			return strings.HasSuffix(termOf(bo.X).String(), ".Name") || strings.HasSuffix(termOf(bo.Y).String(), ".Name")
		}) {
			h := loopHeaderOf(in.Block())
			if h == nil || seenH[h] {
				continue
			}
			seenH[h] = true
			n++
			loop := naturalLoop(h)
			early := token.NoPos
			for b := range loop {
				if b == h {
					continue
				}
				for _, s := range b.Succs {
					if !loop[s] {
						early = instrPos(b.Instrs[len(b.Instrs)-1])
					}
				}
			}
			c.Check(early == token.NoPos, "O4", "MPT", funcKey(fn)+": every existing env entry of that name is replaced", instrPos(in), "the name-comparison loop over container.Env runs to exhaustion",
				"the helper stops at the first env entry with the same name ("+p.Pos(early)+"): a later duplicate entry (legal, and the one the kubelet uses) keeps the user's value, e.g. NVIDIA_VISIBLE_DEVICES=all on a pod that was given one fraction of one device")
		}
	}
	c.Floor("O4", "MPT env rewrite loops", n, 1)
}

func instrPosOfFirst(forms map[string][]parseSite) (pos token.Pos) {
	for _, ss := range forms {
		for _, s := range ss {
			return instrPos(s.call)
		}
	}
	return 0
}

// runC19ConfigMapName (O5): admission's mutation is idempotent only if the config-map name prefix recorded on the
// pod is reused whenever it exists; a new prefix may be generated only when the annotation is absent. (With a new
// prefix per invocation the earlier envFrom/volume references stay in the spec and name config maps the binder
// never creates.)
func runC19ConfigMapName(c *Ctx) {
	p, fx := c.P, c.Fx
	fn := c.Anchor("O5", "pkg/binder/common/gpusharingconfigmap", "", "SetGpuCapabilitiesConfigMapName")
	if fn == nil {
		return
	}
	gen := p.Func("pkg/binder/common/gpusharingconfigmap", "", "generateConfigMapNamePrefix")
	n := 0
	for _, in := range instrsIn(fn, isCallToFn(gen)) {
		n++
		ok := fx.allPathsSatisfy(in, func(fs FactSet) bool {
			_, absent := fs.find(func(f Fact) bool {
				return !f.Pol && f.T.Op == "extract" && f.T.Name == "1" && f.T.Args[0].Op == "lookup" && strings.HasSuffix(f.T.Args[0].Args[0].String(), ".Annotations")
			})
			return absent
		})
		c.Check(ok, "O5", "DOM", funcKey(fn)+": a new name prefix is generated only when the pod carries none", instrPos(in), "behind !found", "the config-map name prefix recorded in the pod's annotation can be discarded and regenerated: every further run of the mutating webhook then adds references under a new prefix while the old envFrom/volume stay, and the pod ends up requiring a config map nobody creates")
	}
	c.Floor("O5", "DOM prefix generations", n, 1)
}

// C19-O6 (PROV): what the binder is told the pod received is what the scheduler accounted. The scheduler charges a
// GPU-sharing pod with its AcceptedResource — for a gpu-memory request the fraction only exists there, computed from
// the GPU memory of the chosen node — and the binder writes BindRequest.Spec.ReceivedGPU into the pod's environment.
// Count and Portion of ReceivedGPU must therefore be read from AcceptedResource, not from the raw request.
func runC19Received(c *Ctx) {
	p := c.P
	fn := c.Anchor("O6", "pkg/scheduler/cache", "SchedulerCache", "createBindRequest")
	if fn == nil {
		return
	}
	n := 0
	for _, h := range p.deepFind(fn, func(in ssa.Instruction) bool {
		st, ok := in.(*ssa.Store)
		if !ok {
			return false
		}
		fa, ok := st.Addr.(*ssa.FieldAddr)
		if !ok {
			return false
		}
		pt, ok := fa.X.Type().Underlying().(*types.Pointer)
		if !ok || !strings.HasSuffix(typeKey(pt.Elem()), "ReceivedGPU") {
			return false
		}
		_, isStruct := pt.Elem().Underlying().(*types.Struct)
		return isStruct
	}, 2) {
		st := h.In.(*ssa.Store)
		fa := st.Addr.(*ssa.FieldAddr)
		name := fa.X.Type().Underlying().(*types.Pointer).Elem().Underlying().(*types.Struct).Field(fa.Field).Name()
		n++
		v := liftTerm(termOf(st.Val), h.Chain)
		hasAcc, hasReq := false, false
		for _, src := range valueSources(st.Val, 4) {
			t := liftTerm(termOf(src), h.Chain)
			if t.contains(func(x *Term) bool { return x.Op == "field" && x.Name == "AcceptedResource" }) {
				hasAcc = true
			}
			if t.contains(func(x *Term) bool { return x.Op == "field" && x.Name == "ResReq" }) {
				hasReq = true
			}
		}
		ok := hasAcc && !hasReq
		c.Check(ok, "O6", "PROV", funcKey(fn)+": ReceivedGPU."+name+" is what the scheduler accounted (AcceptedResource)", instrPos(h.In), trunc(v.String(), 140),
			"BindRequest.Spec.ReceivedGPU."+name+" is not taken from the pod's AcceptedResource ("+trunc(v.String(), 140)+"): for a gpu-memory request the binder is told portion 0 while the scheduler accounted a fraction of the device")
	}
	c.Floor("O6", "PROV ReceivedGPU fields", n, 2)
}

// valueSources: v and the values it is computed from through calls (arguments, including the elements of a variadic
// argument list), conversions and interface boxing, to the given depth.
func valueSources(v ssa.Value, depth int) []ssa.Value {
	out := []ssa.Value{v}
	if depth == 0 {
		return out
	}
	switch x := v.(type) {
	case *ssa.Call:
		for _, a := range x.Call.Args {
			out = append(out, valueSources(a, depth-1)...)
		}
	case *ssa.MakeInterface:
		out = append(out, valueSources(x.X, depth-1)...)
	case *ssa.Convert:
		out = append(out, valueSources(x.X, depth-1)...)
	case *ssa.ChangeType:
		out = append(out, valueSources(x.X, depth-1)...)
	case *ssa.Slice:
		if a, ok := x.X.(*ssa.Alloc); ok {
			for _, r := range *a.Referrers() {
				ia, ok := r.(*ssa.IndexAddr)
				if !ok {
					continue
				}
				for _, r2 := range *ia.Referrers() {
					if st, ok := r2.(*ssa.Store); ok && st.Addr == ssa.Value(ia) {
						out = append(out, valueSources(st.Val, depth-1)...)
					}
				}
			}
		}
	}
	return out
}

// C19-O7 (PROV): the fraction container that admission mutates is the pod's own container. GetFractionContainerRef
// hands out a *v1.Container through which the mutator adds the GPU env vars and the config-map source; the pointer
// must address an element of pod.Spec.Containers / InitContainers. A pointer to a copy (the range variable of the
// search loop) type-checks, carries the right name and index — and every mutation made through it is lost, so the
// selected container starts without its GPU share while scheduler and binder proceed as if it had one.
func runC19ContainerRef(c *Ctx) {
	p := c.P
	n := 0
	for _, fn := range p.FuncsIn("pkg/binder/common") {
		if isTestdataOrMock(fn) {
			continue
		}
		for _, in := range instrsIn(fn, func(in ssa.Instruction) bool {
			st, ok := in.(*ssa.Store)
			if !ok {
				return false
			}
			fa, ok := st.Addr.(*ssa.FieldAddr)
			if !ok {
				return false
			}
			pt, ok := fa.X.Type().Underlying().(*types.Pointer)
			if !ok || !strings.HasSuffix(typeKey(pt.Elem()), "PodContainerRef") {
				return false
			}
			stt, ok := pt.Elem().Underlying().(*types.Struct)
			return ok && stt.Field(fa.Field).Name() == "Container"
		}) {
			n++
			v := in.(*ssa.Store).Val
			ia, isIdx := v.(*ssa.IndexAddr)
			ok := false
			desc := trunc(termOf(v).String(), 100)
			if isIdx {
				// the indexed slice is the pod's list itself, or a copy of its header kept in a local table / struct
				// (the backing array is shared): every origin of the slice value must be one of the pod's lists
				origins := sliceOrigins(ia.X, 4)
				ok = len(origins) > 0
				for _, o := range origins {
					lf := termOf(o).lastField()
					if lf != "Containers" && lf != "InitContainers" {
						ok = false
					}
				}
			}
			c.Check(ok, "O7", "PROV", funcKey(fn)+": PodContainerRef.Container addresses an element of the pod's container list", instrPos(in), desc,
				"the container reference handed to the admission mutator does not point into pod.Spec.Containers / InitContainers ("+desc+"): the env vars and config-map source are added to a copy and never reach the pod")
		}
	}
	c.Floor("O7", "PROV container references", n, 2)
}

// sliceOrigins: where a slice value comes from, seeing through local structs and local tables of structs: a load of
// field f of a local struct is traced to the stores into that field, to whole-struct copies into the local (and then
// to field f of what was copied), and to the elements of a local array / slice literal.
func sliceOrigins(v ssa.Value, depth int) []ssa.Value {
	if depth == 0 {
		return []ssa.Value{v}
	}
	ld, ok := v.(*ssa.UnOp)
	if !ok || ld.Op != token.MUL {
		return []ssa.Value{v}
	}
	fa, ok := ld.X.(*ssa.FieldAddr)
	if !ok {
		return []ssa.Value{v}
	}
	out := fieldOrigins(fa.X, fa.Field, depth-1, map[ssa.Value]bool{})
	if len(out) == 0 {
		return []ssa.Value{v}
	}
	return out
}

// fieldOrigins: the values field f of the struct(s) at address base can hold, for a base that is function-local.
func fieldOrigins(base ssa.Value, f int, depth int, seen map[ssa.Value]bool) []ssa.Value {
	if seen[base] || depth < 0 {
		return nil
	}
	seen[base] = true
	var out []ssa.Value
	storesInto := func(addr ssa.Value) {
		refs := addr.Referrers()
		if refs == nil {
			return
		}
		for _, r := range *refs {
			switch x := r.(type) {
			case *ssa.FieldAddr:
				if x.X != addr || x.Field != f {
					continue
				}
				for _, r2 := range *x.Referrers() {
					if st, ok := r2.(*ssa.Store); ok && st.Addr == ssa.Value(x) {
						out = append(out, sliceOrigins(st.Val, depth)...)
					}
				}
			case *ssa.Store:
				if x.Addr != addr {
					continue
				}
				// whole-struct copy: *addr = *other
				if ld, ok := x.Val.(*ssa.UnOp); ok && ld.Op == token.MUL {
					out = append(out, fieldOrigins(ld.X, f, depth-1, seen)...)
				}
			}
		}
	}
	switch b := base.(type) {
	case *ssa.Alloc:
		storesInto(b)
	case *ssa.IndexAddr:
		// an element of a local array, or of a slice of one: any element
		arr := b.X
		if sl, ok := arr.(*ssa.Slice); ok {
			arr = sl.X
		}
		a, ok := arr.(*ssa.Alloc)
		if !ok {
			return nil
		}
		for _, r := range *a.Referrers() {
			if ia, ok := r.(*ssa.IndexAddr); ok && ia.X == ssa.Value(a) {
				storesInto(ia)
			}
		}
	}
	return out
}

// runC19OneCdiNamePerDevice (O9): the scheduler reserves a LIST of devices for a multi-device fraction; the binder hands
// the container one device name per reserved device. With CDI each name is the format applied to ONE index: the
// Sprintf(CdiDeviceNameBase, …) of the gpusharing PreBind sits in a loop over the reserved ids (or in a function value
// applied per element), never on the joined list.
func runC19OneCdiNamePerDevice(c *Ctx) {
	f := c.Anchor("O9", "pkg/binder/plugins/gpusharing", "GPUSharing", "PreBind")
	if f == nil {
		return
	}
	n := 0
	for _, h := range c.P.deepFind(f, func(in ssa.Instruction) bool {
		cc, ok := in.(ssa.CallInstruction)
		if !ok || calleeOf(cc) == nil || calleeOf(cc).Name() != "Sprintf" || len(cc.Common().Args) == 0 {
			return false
		}
		return strings.Contains(termOf(cc.Common().Args[0]).String(), "k8s.device-plugin.nvidia.com") || strings.Contains(termOf(cc.Common().Args[0]).String(), "CdiDeviceNameBase")
	}, 2) {
		n++
		in := h.In
		perElement := loopHeaderOf(in.Block()) != nil || in.Parent().Parent() != nil
		for _, cs := range h.Chain {
			if loopHeaderOf(cs.Block()) != nil {
				perElement = true
			}
		}
		// and the formatted operand is not a joined list
		joined := false
		for _, a := range in.(ssa.CallInstruction).Common().Args[1:] {
			for _, src := range valueSources(a, 5) {
				if cl, ok := src.(*ssa.Call); ok && calleeOf(cl) != nil && calleeOf(cl).Name() == "Join" {
					joined = true
				}
			}
		}
		c.Check(perElement && !joined, "O9", "SHAPE", funcKey(f)+": the CDI device name is formed per reserved device", instrPos(in), "Sprintf(CdiDeviceNameBase, index) inside the loop over the reserved ids",
			"the CDI name format is applied to the whole (joined) list of reserved devices instead of to each index: a multi-device fraction gets one qualified name followed by bare indexes, the container is wired to other devices than the scheduler reserved")
	}
	c.Floor("O9", "SHAPE CDI name formatting sites", n, 1)
}

// runC19PortionFixedPoint (O10): admission accepts a gpu-fraction with two decimals; the scheduler charges
// portion × devices through fixed-point arithmetic in hundredths. The conversion of portion×100 to an integer goes
// through math.Round: a plain float→int conversion truncates 0.29×100 = 28.999… to 28 and the scheduler charges less
// than was admitted.
func runC19PortionFixedPoint(c *Ctx) {
	f := c.Anchor("O10", "pkg/scheduler/api/resource_info", "", "getExtendedResourceGpus")
	if f == nil {
		return
	}
	n := 0
	for _, in := range instrsIn(f, func(in ssa.Instruction) bool {
		cv, ok := in.(*ssa.Convert)
		if !ok {
			return false
		}
		from, okF := cv.X.Type().Underlying().(*types.Basic)
		to, okT := cv.Type().Underlying().(*types.Basic)
		return okF && okT && from.Info()&types.IsFloat != 0 && to.Info()&types.IsInteger != 0
	}) {
		n++
		cv := in.(*ssa.Convert)
		rounded := false
		if cl, ok := cv.X.(*ssa.Call); ok && calleeOf(cl) != nil && funcPkgPath(calleeOf(cl)) == "math" && (calleeOf(cl).Name() == "Round" || calleeOf(cl).Name() == "RoundToEven") {
			rounded = true
		}
		c.Check(rounded, "O10", "PROV", funcKey(f)+": the portion in hundredths is rounded to the nearest integer", instrPos(in), "int64(math.Round(portion × 100))",
			"the portion is converted to hundredths by truncation: two-decimal fractions whose product with 100 falls just below an integer (0.29, 0.57, 0.58) are charged one hundredth less than admission accepted, in the node's accounting and in the queue's quota")
	}
	c.Floor("O10", "PROV float→integer conversions of the portion", n, 1)
}
